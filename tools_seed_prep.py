#!/usr/bin/env python3
"""Prepare a scratch worktree for a seeder sub-agent: tools_seed_prep.py Cxx <tag>
Creates /tmp/seed<tag>-Cxx (detached worktree of /repo HEAD) with out/PROPERTY.txt = the property text
(nothing from /verif except the statement) + one-line summaries of the changes already tried."""
import glob
import json
import os
import subprocess
import sys

pid, tag = sys.argv[1], sys.argv[2]
root = os.path.dirname(os.path.abspath(__file__))
prop = None
for line in open(os.path.join(root, "properties.jsonl")):
    p = json.loads(line)
    if p["id"] == pid:
        prop = p
assert prop, pid
wt = f"/tmp/seed{tag}-{pid}"
subprocess.check_call(["git", "-C", "/repo", "worktree", "add", "--detach", wt, "HEAD"],
                      stdout=subprocess.DEVNULL, stderr=subprocess.DEVNULL)
os.makedirs(wt + "/out", exist_ok=True)
anch = prop.get("anchors") or prop.get("anchored_in") or prop.get("files") or []
if isinstance(anch, dict):
    anch = anch.get("files", [])
txt = f"{pid} - {prop['title']}\n\n{prop['statement']}\n\nQuantified over: {prop['quantifier']['text']}\n\n"
files = []
for a in anch:
    files.append(a if isinstance(a, str) else a.get("file") or a.get("path") or "")
if files:
    txt += "Anchored in files: " + ", ".join(sorted(set(f for f in files if f))) + "\n"
tried = []
for m in sorted(glob.glob(os.path.join(root, "seeded", pid + "-*", "meta.json"))):
    s = json.load(open(m)).get("summary", "")
    if s:
        tried.append("- " + s[:400].replace("\n", " "))
if tried:
    txt += ("\n\nALREADY TRIED by earlier seeders (produce DIFFERENT changes: other functions, other clauses, "
            "other mechanisms):\n" + "\n".join(tried) + "\n")
open(wt + "/out/PROPERTY.txt", "w").write(txt)
print(wt)
