"""C08 - keys, peer IDs and signed envelopes bind identity to content.

spec/C08_Envelope.tla holds three small machines:
  A  symbolic acceptance model (Seal, attacker edits of the wire form, the five consumers); the
     statement is the invariant BindingA; seven deliberately broken acceptance rules (evaluated by TLC on every
     consume transition) must each accept unsealed content somewhere; the attacker also RE-ENCODES terms;
  B  makeUnsigned transcribed over a two-letter alphabet: injectivity over all triples of strings of
     length <= 3 and non-injectivity of the un-prefixed variants are evaluated by TLC, and every pair
     of triples colliding under a broken variant becomes a "shifted boundary" transition;
  C  the signature / peer-ID theory as a graph of representation forms plus the verify matrix.
Every transition of the three printed graphs is replayed on the real code for all four key types
(harness/core/record/zz_verif_c08_*_test.go); the abstract field edits are additionally concretised
as every bit flip, truncation, byte insertion/deletion and protobuf-level edit of real envelopes."""
import concurrent.futures as cf
import os

from lib import evidence, goenv, graph, tlc
from lib.common import MachineryError, classify_mismatches, log

PKG = "./core/record"
INV_A = "INVARIANTS TypeOKA BindingA HonestA RoundTripA"
BROKEN = ("nodomain", "notype", "nopayload", "nokey", "noowner", "anyenc", "lookalike")
REACH = ("ReachAttackerAccepted", "ReachForeignOwner", "ReachLookalike", "ReachForeignAltSig")


def _fast_unescape(s, _slow=tlc._unescape):
    return s.replace('\\"', '"') if "\\\\" not in s else _slow(s)


tlc._unescape = _fast_unescape


def _cfg(part, consts=None, inv=None, edges=False, props=None):
    rep = []
    init = "Init" + part
    if edges:
        init = "MCInit" + part
    if part != "A" or edges:
        rep.append(("INIT InitA", "INIT " + init))
    if part != "A":
        rep.append(("NEXT NextA", "NEXT Next" + part))
    tail = ""
    if inv:
        tail += "INVARIANTS " + inv
    if props:
        tail += "\nPROPERTIES " + props
    if edges:
        tail += "\nACTION_CONSTRAINT EmitEdge"
    rep.append((INV_A, tail))
    return tlc.subst_cfg("C08_MC.cfg", consts or {}, replace=rep)


def _job(args):
    """One TLC run; returns a small picklable summary (+ graph pieces for the edge runs)."""
    ctx, name, module, cfg_text, expect = args[:5]
    workers = args[5] if len(args) > 5 else 1
    r = tlc.run(ctx, module, "gen_%s.cfg" % name, cfg_text=cfg_text, workers=workers, timeout=1500, name=name)
    out = {"name": name, "ok": r.ok, "violated": r.violated, "distinct": r.distinct, "generated": r.generated,
           "wall": r.wall, "inits": r.inits, "edges": r.edges, "prints": r.prints, "cmd": r.cmd}
    if expect is None:
        if not r.ok:
            raise MachineryError("design-level failure in C08 run %s: %s violated\n%s" % (name, r.violated, r.out[-2500:]))
    elif r.ok or r.violated != expect:
        raise MachineryError("vacuity guard %s: expected %s to be violated, got ok=%s violated=%s"
                             % (name, expect, r.ok, r.violated))
    return out


def _kinds(g, field="name"):
    k = {}
    for _s, op, _t in g.edges:
        k[op[field]] = k.get(op[field], 0) + 1
    return k


def replay(ctx):
    """Acceptance artefacts are self-contained (wire bytes carry key and signature; the ledger of sealed
    tuples is stored with them): the same consumer is run on the same bytes against the current tree."""
    import json
    with open(ctx.replay) as f:
        m = json.load(f)
    if not isinstance(m.get("got"), dict) or not m["got"].get("wire"):
        raise MachineryError("this C08 artefact is not an acceptance (class %s); it holds the failing prefix: re-run "
                             "`VERIF_SEED=<seed in the file name> ./check C08`" % m.get("class"))
    res = goenv.run_harness(ctx, PKG, "^TestVerifC08ReplayWire$", env={"VERIF_C08_ARTEFACT": os.path.abspath(ctx.replay)})
    classify_mismatches(ctx, res, "replay")
    cov = evidence.mc_coverage(0, 0, res["replayed"], ["replayed %s: accepted=%s" % (ctx.replay, res.get("extra", {}).get("accepted"))],
                               exhaustive=False, checker_cmd="(replay of one saved acceptance)")
    return {"level": "model_checking", "coverage": cov, "assumptions": ["replay of a single artefact"]}


def run(ctx):
    if ctx.replay:
        return replay(ctx)
    thorough = ctx.tier == "thorough"
    tlc.stage(ctx)
    beh = ctx.sub("beh")
    jobs = [
        # A: invariants and every transition printed, in one run
        # (split by the family of the primary envelope: three runs print a third of the graph each)
        (ctx, "A-edges-peer", "C08_MC", _cfg("A", {"PrimaryFams": '{"peer"}'}, inv="TypeOKA BindingA HonestA RoundTripA", edges=True), None),
        (ctx, "A-edges-rsvp", "C08_MC", _cfg("A", {"PrimaryFams": '{"rsvp"}'}, inv="TypeOKA BindingA HonestA RoundTripA", edges=True), None),
        (ctx, "A-edges-test", "C08_MC", _cfg("A", {"PrimaryFams": '{"test"}'}, inv="TypeOKA BindingA HonestA RoundTripA", edges=True), None),
        (ctx, "B-edges", "C08_MCB", _cfg("B", edges=True), None),
        (ctx, "C-edges", "C08_MC", _cfg("C", inv="TypeOKC", props="AxiomC IdentityC", edges=True), None),
    ]
    # (the broken acceptance rules are evaluated by TLC on every consume transition of the A-edges run - op.brk)
    # (the reachability guards Reach* of the spec are evaluated on the printed graphs below)
    # a deeper attacker, exhaustive only (not printed): three edits (63 k states); thorough: four (832 k)
    if thorough:   # (a design-level fact about the fixed model: 81 k states; the quick tier checks two edits)
        jobs.append((ctx, "A-deep3", "C08_MC", _cfg("A", {"MaxEdits": 3}, inv="TypeOKA BindingA HonestA RoundTripA"), None))
    # at most 4 TLC workers at a time: a pool of four single-worker runs, then (thorough) two 2-worker runs
    # the byte-level test needs nothing from TLC: build the test binary and run it meanwhile
    goenv.go_test(ctx, PKG, "^$", timeout=1200)   # build once
    # lib work-around: goenv.make_overlay rewrites <tmp>/overlay.json on every call, which races when
    # harness tests run concurrently; write it once and reuse the path
    ov = goenv.make_overlay(ctx)
    goenv.make_overlay = lambda _ctx, _p=ov: _p
    if thorough:
        # shifted-boundary pairs over strings of length <= 3 (2940 sealed triples; printed, so one worker) and
        # a four-edit attacker, exhaustive only
        jobs.insert(1, (ctx, "B3-edges", "C08_MCB", _cfg("B", {"WalkLen": 3}, edges=True), None))
        jobs.append((ctx, "A-deep4", "C08_MC", _cfg("A", {"MaxEdits": 4}, inv="TypeOKA BindingA HonestA RoundTripA"), None, 2))
    # The printing runs are on the critical path (graph -> behaviours -> replay): they go first and the replay
    # starts as soon as they are done, while the deep runs continue in the pool.  At most four single-worker
    # TLC runs at a time.  The pool forks its workers at the first submit, BEFORE any thread runs a
    # subprocess (a worker forked later would inherit the pipe of a running `go test` and keep it open).
    ppool = cf.ProcessPoolExecutor(max_workers=4)
    futs = [(j[1], ppool.submit(_job, j)) for j in jobs]
    tpool = cf.ThreadPoolExecutor(max_workers=4)
    fb = tpool.submit(goenv.run_harness, ctx, PKG, "^TestVerifC08Bytes$", timeout=1500)
    ff = tpool.submit(goenv.run_harness, ctx, PKG, "^TestVerifC08KeyFamily$", timeout=1500)
    need = {"A-edges-peer", "A-edges-rsvp", "A-edges-test", "B-edges", "C-edges", "B3-edges"}
    results = {n: f.result() for n, f in futs if n in need}

    log("C08: printing TLC runs done at %.1fs" % ctx.wall())

    # ---- graphs, vacuity on the printed graphs, behaviours
    aparts = [results["A-edges-" + f] for f in ("peer", "rsvp", "test")]
    gA = graph.Graph(sum((r["inits"] for r in aparts), []), sum((r["edges"] for r in aparts), []))
    bname = "B3-edges" if thorough else "B-edges"
    gB = graph.Graph(results[bname]["inits"], results[bname]["edges"])
    gC = graph.Graph(results["C-edges"]["inits"], results["C-edges"]["edges"])
    kA, kB, kC = _kinds(gA), _kinds(gB), _kinds(gC)
    for need in ("setkey", "settype", "setpay", "badsig", "truncate", "resign", "swap", "reencode", "attseal", "consume"):
        if not kA.get(need):
            raise MachineryError("vacuous: part A graph has no %s transition" % need)
    accA = {}
    for _s, op, _t in gA.edges:
        if op["name"] == "consume":
            accA[(op["kind"], op["acc"])] = accA.get((op["kind"], op["acc"]), 0) + 1
    brk = {}
    for _s, op, _t in gA.edges:
        for v in op.get("brk", ()):
            brk[v] = brk.get(v, 0) + 1
    for v in BROKEN:
        if not brk.get(v):
            raise MachineryError("vacuity guard: the broken acceptance rule %s never accepts unsealed content in the model" % v)
    for kind in ("untyped", "typed", "pmem", "pds", "voucher"):
        if not accA.get((kind, "yes")) or not accA.get((kind, "no")):
            raise MachineryError("vacuous: consumer %s never accepts / never rejects in the part A graph" % kind)
    # the spec's reachability guards (ReachAttackerAccepted, ReachForeignOwner, ReachLookalike,
    # ReachForeignAltSig, ReachExtracted), evaluated on the printed graphs instead of five more JVM runs
    reach = dict.fromkeys(REACH + ("ReachExtracted",), 0)
    for sk, op, _t in gA.edges:
        if op["name"] != "consume":
            continue
        w = gA.states[sk]["wire"]
        if w["key"] == "kA" and op["acc"] == "yes":
            reach["ReachAttackerAccepted"] += 1
        if w["ok"] and w["pay"]["fam"] == "peer" and op["kind"] == "untyped" and op["d"] == "peer" and op["acc"] == "yes":
            if w["pay"]["owner"] != w["key"]:
                reach["ReachForeignOwner"] += 1
            elif w["pay"]["oenc"] == "alt":
                reach["ReachLookalike"] += 1
        if w["ok"] and w["senc"] == "alt" and w["sig"]["k"] == "kA" and w["key"] == "kH":
            reach["ReachForeignAltSig"] += 1
    for st in gC.states.values():
        if st["form"] == "pk" and st["via"] == "id" and st["sig"]["who"] != 0:
            reach["ReachExtracted"] += 1
    for g_, n_ in reach.items():
        if not n_:
            raise MachineryError("vacuity guard: %s is not reachable in the printed graphs" % g_)
    why = {}
    for _s, op, _t in gB.edges:
        for v in op["why"]:
            why[v] = why.get(v, 0) + 1
        if op["why"] and op["acc"]:
            raise MachineryError("TLC found a colliding pair for the real pre-image: %s" % op)
    for v in ("plain", "nopfxD", "nopfxT", "skipempty"):
        if not why.get(v):
            raise MachineryError("vacuous: no colliding pair for the broken variant %s" % v)
    stats = [o for tag, o in results["B-edges"]["prints"] if tag == "VFSTAT"]
    if not stats:
        raise MachineryError("part B statistics missing")
    stB = stats[0]
    if stB["images"]["code"] != stB["triples"] or stB["images"]["plain"] >= stB["triples"]:
        raise MachineryError("injectivity statistics inconsistent: %s" % stB)
    for need in ("verifyenc", "lookalike", "matchesx", "consumex", "extractx", "conv", "decodex", "extract", "pick", "sign", "mutsig", "verify", "verifymut", "equals", "matches", "mutform", "idlen"):
        if not kC.get(need):
            raise MachineryError("vacuous: part C graph has no %s transition" % need)
    ver = {}
    for _s, op, _t in gC.edges:
        if op["name"] == "verify":
            ver[op["ok"]] = ver.get(op["ok"], 0) + 1
    if not ver.get(True) or not ver.get(False):
        raise MachineryError("vacuous: verify matrix lacks accepting or rejecting cases")
    convs = set(op["fn"] for _s, op, _t in gC.edges if op["name"] == "conv")

    wA = gA.covering_walks(seed=ctx.seed, max_len=40)
    wB = gB.covering_walks(seed=ctx.seed, max_len=400)
    wC = gC.covering_walks(seed=ctx.seed, max_len=60)
    graph.write_behaviours(os.path.join(beh, "A.jsonl"), wA, {"part": "A", "edges": gA.n_edges()})
    graph.write_behaviours(os.path.join(beh, "B.jsonl"), wB, {"part": "B", "edges": gB.n_edges()})
    graph.write_behaviours(os.path.join(beh, "C.jsonl"), wC, {"part": "C", "edges": gC.n_edges()})
    log("C08: at %.1fs graphs A %d/%d  B %d/%d  C %d/%d (states/edges); walks %d/%d/%d"
        % (ctx.wall(), gA.n_states(), gA.n_edges(), gB.n_states(), gB.n_edges(), gC.n_states(), gC.n_edges(), len(wA), len(wB), len(wC)))

    # ---- replay on the real code
    fe = tpool.submit(goenv.run_harness, ctx, PKG, "^TestVerifC08Envelope$", inputs=beh, timeout=1500)
    fk = tpool.submit(goenv.run_harness, ctx, PKG, "^TestVerifC08Keys$", inputs=beh, timeout=1500)
    try:
        env, byt, key, fam = fe.result(), fb.result(), fk.result(), ff.result()
        for n, f in futs:
            if n not in results:
                results[n] = f.result()
    finally:
        tpool.shutdown(wait=True)
        ppool.shutdown(wait=True)
    log("C08: all %d TLC runs and the replay done at %.1fs" % (len(results), ctx.wall()))
    states = sum(r["distinct"] for r in results.values())
    trans = sum(r["generated"] for r in results.values())
    div = 0
    for res, what in ((env, "envelope"), (byt, "bytes"), (key, "keys"), (fam, "family")):
        if res["_rc"] != 0:
            raise MachineryError("harness test %s failed:\n%s" % (what, res["_log"][-3000:]))
        div += classify_mismatches(ctx, res, what)
    ntypes = 5 if thorough else 4
    n_alt = sum(1 for w in wA if any(st["op"]["name"] in ("reencode", "attseal") for st in w["steps"]))
    want = (len(wA) - n_alt) * (ntypes + 1) + n_alt * ((ntypes + 1) if thorough else 2) + len(wB) * ntypes
    if env["replayed"] < want:
        raise MachineryError("envelope replay executed %d behaviours, expected at least %d" % (env["replayed"], want))
    if key["replayed"] < len(wC):
        raise MachineryError("key replay executed %d behaviours for %d walks" % (key["replayed"], len(wC)))
    bx = byt.get("extra", {})
    for cls in ("same", "key", "type", "payload", "sig", "garbage"):
        if not bx.get("bytes.class." + cls):
            raise MachineryError("vacuous: no byte-level edit changed exactly: %s" % cls)
    if not bx.get("bytes.accepted.same"):
        raise MachineryError("vacuous: no content-preserving edit was accepted")
    fx = fam.get("extra", {})
    members = fx.get("members") or []
    if len(members) < 15:
        raise MachineryError("key family has only %d members" % len(members))
    for m in members:
        if fx.get("family.signatures." + m, 0) < 64:
            raise MachineryError("vacuous: fewer than 64 signatures for key family member %s" % m)
        for how in ("generated", "UnmarshalPrivateKey", "PrivFromRaw", "UnmarshalPublicKey", "PubFromRaw", "PublicKeyFromProto"):
            if not fx.get("family.forms.%s.%s" % (m, how)):
                raise MachineryError("vacuous: no %s key obtained by %s" % (m, how))
    for kind in ("untyped", "typed", "pmem", "pds"):
        if not fx.get("family.consume." + kind):
            raise MachineryError("vacuous: key family never reached the %s consumer" % kind)
    kx = key.get("extra", {})
    for kt in ("Ed25519", "Secp256k1", "ECDSA", "RSA"):
        for e in ("x-unknown-append", "x-dup-field", "x-reorder", "x-nonminimal-len"):
            if not kx.get("C.decodex.accepted-equal.%s:%s" % (e, kt)):
                raise MachineryError("vacuous: no %s edit of a serialised %s key was accepted as an equal key" % (e, kt))
    for kind in ("untyped", "typed", "pmem", "pds"):
        if not kx.get("C.decodex.envelope." + kind):
            raise MachineryError("vacuous: no envelope with an edited-but-equal key reached the %s consumer" % kind)
    ex_ = env.get("extra", {})
    for kind in ("untyped", "typed", "pmem", "pds", "voucher"):
        if not ex_.get("A.accepted." + kind):
            raise MachineryError("vacuous: real consumer %s never accepted anything" % kind)

    cov = evidence.mc_coverage(
        states, trans, env["replayed"] + byt["replayed"] + key["replayed"] + fam["replayed"],
        (env.get("samples") or [])[:1] + (byt.get("samples") or [])[:1] + (key.get("samples") or [])[:1],
        exhaustive=True,
        checker_cmd="tlc C08_MC.tla / C08_MCB.tla (template C08_MC.cfg; parts A, B, C; broken acceptance rules %s evaluated per transition)" % ",".join(BROKEN),
        tlc_runs={n: {"distinct": r["distinct"], "generated": r["generated"], "wall_s": r["wall"], "violated": r["violated"]}
                  for n, r in sorted(results.items())},
        partA={"states": gA.n_states(), "transitions": gA.n_edges(), "walks": len(wA), "edge_kinds": kA,
               "consume_expectations": {"%s/%s" % k: v for k, v in sorted(accA.items())},
               "wrong_acceptances_of_broken_rules": brk, "reach_guards": reach},
        partB={"injectivity": stB, "sealed_triples": gB.n_states(), "transitions": gB.n_edges(), "colliding_pairs_by_variant": why},
        partC={"states": gC.n_states(), "transitions": gC.n_edges(), "walks": len(wC), "edge_kinds": kC,
               "conversion_functions": sorted(convs), "verify_expectations": {str(k): v for k, v in ver.items()}},
        replay_envelope={"behaviours": env["replayed"], "steps": env["steps"], "distinct": env["distinct"],
                         "counters": {k: v for k, v in sorted(ex_.items()) if k[:2] in ("A.", "B.")},
                         "keys_generated": ex_.get("keys_generated")},
        replay_bytes={"envelopes": byt["replayed"], "edits": byt["steps"], "distinct": byt["distinct"],
                      "counters": {k: v for k, v in sorted(bx.items()) if k.startswith("bytes.")}},
        replay_keys={"behaviours": key["replayed"], "steps": key["steps"], "distinct": key["distinct"],
                     "counters": {k: v for k, v in sorted(key.get("extra", {}).items()) if k.startswith("C.")},
                     "keys_generated": key.get("extra", {}).get("keys_generated")},
        replay_key_family={"keys": fam["replayed"], "signatures": fam["steps"], "members": members,
                           "counters": {k: v for k, v in sorted(fx.items()) if k.startswith("family.") and "siglen" not in k},
                           "signature_lengths_seen": {k[len("family.siglen."):]: v for k, v in sorted(fx.items()) if k.startswith("family.siglen.")}},
        divergences_L2=div, notes=ctx.notes[:12])
    return {"level": "model_checking", "coverage": cov, "assumptions": [
        "symbolic cryptography: signatures are terms, Verify(k',m',Sign(k,m)) <=> k'=k /\\ m'=m; bit-level correctness of Ed25519/ECDSA/secp256k1/RSA primitives is trusted, exercised only on the concrete cases listed in the coverage",
        "golang/protobuf decoding of the envelope is the oracle for what an edited wire form contains",
        "bounded: at most %d attacker edits per behaviour (replayed: 2), strings of length <= 3 over a two-letter alphabet for injectivity, <= %d for the replayed shifted-boundary pairs; the key dimension is a family per type (ECDSA P-256/P-384/P-521/P-224, RSA 2048/3072/4096 with embedded test keys for the larger sizes, fresh Ed25519/secp256k1 keys incl. ones searched for leading-zero / high-bit serialisations); RSA-2048 keys are generated once per run%s"
        % (4 if thorough else 2, 3 if thorough else 2, ""),
        "ConsumeTypedEnvelope does not compare the wire payload type with the destination record's codec (documented caller responsibility); the statement only requires the reported type to be the sealed one",
        "the relay voucher consumer is record.ConsumeEnvelope with the voucher domain plus the *ReservationVoucher type assertion, as in circuitv2/client; the client's further checks (relay ID, own ID) need a live host and are out of scope",
    ]}


MANIFEST = {
    "technique": "TLA+ spec (C08_Envelope.tla: symbolic envelope acceptance model with attacker edits, transcribed makeUnsigned with TLC-checked injectivity, signature/peer-ID theory as a form graph) model-checked exhaustively with TLC; every transition of the three state graphs replayed on the real core/record, core/crypto, core/peer, both address books and the relay voucher record for all four key types; abstract field edits concretised as every bit/byte/protobuf-level edit of real envelopes with the expectation computed from the decoded content",
    "category": "model_checking",
    "text": "The statement is an unforgeability claim over all inputs. The specification states it once, symbolically: whatever a consumer accepts is a (key, domain, type, payload) tuple that the holder of that key sealed, and a peer store additionally needs the record's peer ID to be the ID of the signing key (invariant BindingA over an attacker who replaces, swaps, truncates and re-signs fields). TLC checks it exhaustively for the bounded attacker and confirms that seven broken acceptance rules (domain, type, payload, key or owner not bound, alternative signature encodings not bound to the key, look-alike IDs taken for the real ID) each accept unsealed content. The attacker also re-encodes terms it knows (Dolev-Yao): signatures in every wire format (DER, raw, compact recoverable, high-S, other padding/hash/scheme), keys in non-canonical serialisations, and look-alike peer IDs (identity multihashes over any serialisation of a key); Verify may accept an encoding only of Sign(K,m) under K for m, and x.MatchesPublicKey(K) implies x = IDFromPublicKey(K) at every consumer (address books, key books). The one place where bytes matter - the signed pre-image - is transcribed (uvarint length prefix on each component) and TLC evaluates its injectivity over all 3375 triples of strings of length <= 3 over two letters that coincide with the length bytes, and the non-injectivity of the un-prefixed variants; the colliding pairs become shifted-boundary attacks. The replay binds model and code: every abstract transition runs on the real functions with fresh keys of every type, every abstract 'edit field' is expanded to every bit of the marshalled envelope and protobuf field surgery, and L1 monitors computed only from return values decide violations.",
    "note": "Trusted: TLC; golang/protobuf as the decoder that defines what an edited wire form contains; the signature primitives (only the (key,message) case matrix and every single-bit mutation of short messages, signatures and marshalled keys are exercised). Signature-encoding malleability (a mutated signature that still verifies for the same key and message) is reported as L2 divergence, not as a violation. Deterministic in its verdict per seed; key material itself is fresh randomness.",
    "engines": [{"name": "C08_Envelope", "path": "spec/C08_Envelope.tla", "serves_properties": ["C08"],
                 "kind_free_text": "TLA+ spec + TLC exhaustive (three machines) + full-transition replay + byte-level concretisation"}],
}
