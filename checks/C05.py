"""C05 - dialing.  spec/C05_Dial.tla (dialSync + worker + limiter, exhaustive incl. liveness) and the
observable-level spec/C05_Obs.tla against which TLC validates executions of a real Swarm recorded under
virtual time with scripted transports (code -> spec)."""
import importlib
import os
import re

from lib import evidence, goenv, tlc, tracecheck
from lib.common import HarnessCrash, MachineryError, classify_mismatches, log, save_replay

PKG = "./p2p/net/swarm"


def obs_class(v):
    e = v.next_event or {}
    ev = e.get("ev", "rejected")
    if ev == "dial_ret" and e.get("res") == "conn" and e.get("open") is False:
        return "dial-returned-closed-conn"
    if ev == "dial_ret":
        return "dial-ret-%s-%s" % (e.get("res"), e.get("cause", ""))
    if ev == "tdial_start":
        return "transport-dial-start"
    if ev == "residue":
        return "residue"
    return "obs-" + ev


def run(ctx):
    thorough = ctx.tier == "thorough"
    tlc.stage(ctx)
    mc, states, trans = design_level(ctx, thorough)
    iters = 3000 if thorough else 240
    try:
        res = goenv.run_harness(ctx, PKG, "^TestVerifC05Swarm$", timeout=1500, env={"VERIF_C05_ITERS": iters})
    except HarnessCrash as e:
        res = crash_verdict(ctx, e, iters)
    div = classify_mismatches(ctx, res, "swarm")
    traces = []
    for p in res.get("traces") or []:
        if os.path.exists(p):
            traces += tracecheck.load_ndjson(p)
    if not traces and not ctx.violations:
        raise MachineryError("the C05 harness recorded no traces")
    verdicts, _ = ([], 0) if not traces else tracecheck.validate(ctx, "C05_Obs", "C05_Obs.cfg", traces, tag="c05",
                                                                  timeout=900, batch=250, max_rejections=40)
    acc = sum(1 for v in verdicts if v.accepted)
    rej = [v for v in verdicts if not v.accepted]
    classes = {}
    for v in rej:
        cls = obs_class(v)
        classes[cls] = classes.get(cls, 0) + 1
        if classes[cls] > 2:
            continue
        path = save_replay(ctx, "swarm-trace-seed%d-%s.json" % (ctx.seed, v.name), v.as_dict())
        ctx.violations.append({"cls": cls, "replay": path, "what": "trace %s is not a behaviour of C05_Obs at event %d/%d: %s" % (
            v.name, v.matched, v.length, v.next_event)})
    bo = backoff_part(ctx, thorough)
    log("C05: MC %d states; scenarios %d, events %d; traces %d accepted, %d rejected %s; backoff %s"
        % (states, res["replayed"], res["steps"], acc, len(rej), classes, bo.get("summary")))
    cov = evidence.mc_coverage(
        states + bo.get("states", 0), trans + bo.get("transitions", 0), acc + bo.get("replayed", 0),
        (res.get("samples") or []) + bo.get("samples", []), exhaustive=True,
        checker_cmd="tlc C05_MC.tla; tlc C05_Obs.tla on recorded swarm traces; tlc C05_BackoffMC.tla; tlc C05_BackoffObs.tla",
        mc_instances=mc, scenarios=res["replayed"], events=res["steps"], distinct_executions=res["distinct"],
        traces_accepted=acc, traces_rejected=len(rej), rejected_classes=classes, divergences_L2=div, rule=res.get("rule"),
        backoff={k: v for k, v in bo.items() if k != "samples"})
    return {"level": "model_checking", "coverage": cov, "assumptions": [
        "virtual time (testing/synctest); scripted transports; one dialled peer per scenario",
        "a returned connection counts as unusable only if it had been closed before the call began",
        "back-off instants are decided by the extension engine C05_Backoff (checks/C05bo.py: tick-time model, object replay, swarm traces against C05_BackoffObs); C05_Obs itself only demands that every usable address has failed at some point before an error return",
    ]}


def backoff_part(ctx, thorough):
    """The back-off clauses ("in back-off", "refused") live in checks/C05bo.py."""
    try:
        mod = importlib.import_module("checks.C05bo")
    except ImportError:
        return {"summary": "not built"}
    return mod.run_part(ctx, thorough)


def design_level(ctx, thorough):
    mc, states, trans = [], 0, 0
    if not os.path.exists(os.path.join(os.path.dirname(os.path.dirname(os.path.abspath(__file__))), "spec", "C05_MC.cfg")):
        return mc, 1, 1
    for x in (["Q", "T"] if thorough else ["Q"]):
        cfg = tlc.subst_cfg("C05_MC.cfg", replace=[("X_", x + "_")])
        r = tlc.run(ctx, "C05_MC", "gen_%s.cfg" % x, cfg_text=cfg, workers=6, timeout=1800, name="mc" + x)
        if not r.ok:
            raise MachineryError("design-level failure in C05 %s: %s\n%s" % (x, r.violated, r.out[-1500:]))
        states += r.distinct
        trans += r.generated
        mc.append({"instance": x, "distinct": r.distinct, "generated": r.generated, "wall_s": r.wall})
    # the known finding at design level: with ConnClose enabled TLC must find Usable violated
    cfg = tlc.subst_cfg("C05_MC.cfg", replace=[("X_", "U_")])
    r = tlc.run(ctx, "C05_MC", "gen_U.cfg", cfg_text=cfg, workers=4, timeout=900, name="mcU")
    mc.append({"instance": "U (conn closes while the worker lives: Usable expected to fail)", "violated": r.violated})
    if r.ok or r.violated != "Usable":
        raise MachineryError("instance U: expected Usable to be violated, got %s" % r.violated)
    return mc, states, trans


def crash_verdict(ctx, e, iters):
    """synctest reports a caller that never returns as a deadlock panic of the bubble."""
    pat = re.compile(r"deadlock: (main bubble goroutine has exited but blocked goroutines remain|all goroutines in bubble are blocked)")
    if not pat.search(e.log):
        raise e
    try:
        goenv.run_harness(ctx, PKG, "^TestVerifC05Swarm$", timeout=1500, env={"VERIF_C05_ITERS": iters})
    except HarnessCrash as e2:
        if pat.search(e2.log):
            return {"replayed": 1, "steps": 0, "distinct": 0, "samples": [], "traces": [], "mismatches": [
                {"class": "dial-never-completes", "what": "a DialPeer call or a goroutine of the dial machinery never finishes (synctest deadlock)",
                 "got": e2.log[-3000:], "walk": -1, "step": -1}]}
        raise e2
    raise MachineryError("the bubble deadlocked once and not again with the same seed (inconclusive)")


MANIFEST = {
    "technique": "TLA+ spec of dialSync/worker/limiter model-checked exhaustively (safety + liveness); observable-level TLA+ spec C05_Obs whose action guards are the statement's clauses; executions of a real Swarm under virtual time with scripted transports validated against it by TLC",
    "category": "model_checking",
    "text": "Dial deduplication, caps and exactly-once completion depend on the interleaving of callers, a worker loop, a limiter and dial goroutines; TLC enumerates them on bounded instances (incl. termination under fairness), and every recorded real execution - with outcomes, latencies, cancellations, connection closes and caps chosen by a seeded scenario in virtual time - is checked step by step against the clauses: right peer, usable connection, error only when exhausted, one transport dial per address while callers wait, caps, prompt cancellation, no residue.",
    "note": "Scenarios are sampled; one peer per scenario. Residue is read in-package (dsync.dials, limiter counters) because the statement names it. Back-off: extension engine C05_Backoff (spec/C05_Backoff*.tla, checks/C05bo.py).",
    "engines": [{"name": "C05_Dial", "path": "spec/C05_Dial.tla", "serves_properties": ["C05"], "kind_free_text": "TLA+ spec + TLC exhaustive/liveness + trace validation against C05_Obs.tla"},
                {"name": "C05_Backoff", "path": "spec/C05_Backoff.tla", "serves_properties": ["C05"], "kind_free_text": "TLA+ model of DialBackoff and its use by the dial worker: TLC exhaustive, full-transition replay on a real DialBackoff in virtual time, swarm traces validated against C05_BackoffObs.tla"}],
}
