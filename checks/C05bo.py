"""C05, dial back-off part (called from checks/C05.py: run_part(ctx, thorough)).

Clauses made precise: "every address that is neither filtered out nor IN BACK-OFF is attempted" and "error once every
candidate address has failed or BEEN REFUSED" - what "in back-off" is, for how long, and what forgives it.

  spec/C05_BackoffSched.tla  the schedule of swarm_dial.go (AddBackoff durations, Backoff(), the cleanup predicate) as pure
                             operators shared by the two specifications below
  spec/C05_Backoff.tla       design model: per (peer, address) [tries, until] with integer time; AddBackoff, Backoff query,
                             Clear, Tick, the cleanup ticker (which may run late) and the dial worker's use of the object
                             (DialNext refused iff in back-off and not force-direct, failure adds unless connected /
                             cancelled, success clears, refused address retried); exhaustive TLC
  replay                     every transition of the printed object-level instances on a real DialBackoff under
                             testing/synctest, Backoff() compared after every step and 1 ns around every tick
  spec/C05_BackoffObs.tla    observable-level spec (time in ms); TLC validates executions of a real Swarm in which the same
                             addresses fail in consecutive generations of DialPeer callers at scripted instants
"""
import concurrent.futures as cf
import json
import os
import time

from lib import goenv, graph, tlc, tracecheck
from lib.common import MachineryError, classify_mismatches, log, save_replay

PKG = "./p2p/net/swarm"

SCHED = {"Base": 2, "Coef": 1, "Max": 5}     # durations 2, 3, 5 (6 capped), 5, ... ticks; ticker period 5


def _consts(peers, addrs, api, query, dial, max_time, max_tries):
    c = dict(SCHED)
    c.update({"Peers": "{%s}" % ", ".join('"%s"' % p for p in peers), "Addrs": "{%s}" % ", ".join('"%s"' % a for a in addrs),
              "WithApi": "TRUE" if api else "FALSE", "WithQuery": "TRUE" if query else "FALSE",
              "WithDial": "TRUE" if dial else "FALSE", "MaxTime": max_time, "MaxTries": max_tries})
    return c


def mc_instances(thorough):
    """(tag, constants) of the exhaustive runs."""
    one, two, aa, a = ["p1"], ["p1", "p2"], ["a1", "a2"], ["a1"]
    if thorough:
        return [("obj-1x2", _consts(one, aa, True, True, False, 12, 4)),
                ("obj-2x1", _consts(two, a, True, True, False, 12, 4)),
                ("all-1x2", _consts(one, aa, True, True, True, 12, 4)),
                ("all-2x1", _consts(two, a, True, True, True, 12, 4)),
                ("obj-2x2", _consts(two, aa, True, False, False, 7, 2))]
    return [("obj-1x2", _consts(one, aa, True, True, False, 12, 4)),
            ("obj-2x1", _consts(two, a, True, True, False, 12, 4)),
            ("dial-1x2", _consts(one, aa, False, False, True, 7, 3))]


def print_instances(thorough):
    """(tag, constants) of the object-level instances whose whole graph is printed and replayed."""
    t = 12 if thorough else 10      # two ticker instants (5, 10); thorough: two more ticks after the second one
    return [("obj-1x2", _consts(["p1"], ["a1", "a2"], True, False, False, t, 4)),
            ("obj-2x1", _consts(["p1", "p2"], ["a1"], True, False, False, t, 4))]


def _mc(args):
    ctx, tag, consts = args
    cfg = tlc.subst_cfg("C05_BackoffMC.cfg", consts)
    r = tlc.run(ctx, "C05_BackoffMC", "gen_bo_%s.cfg" % tag, cfg_text=cfg, workers=1, timeout=1500, name="bomc" + tag)
    if not r.ok:
        raise MachineryError("design-level failure in C05_Backoff %s: %s\n%s" % (tag, r.violated, r.out[-1500:]))
    return tag, r.distinct, r.generated, r.wall


def _vacuity(args):
    ctx, inv = args
    cfg = tlc.subst_cfg("C05_BackoffMC.cfg", _consts(["p1"], ["a1"], False, False, True, 3, 3), replace=[
        ("INVARIANTS TypeOK EntryShape Justified Protected MemoryBounded", "INVARIANTS " + inv), ("VIEW View", "")])
    cfg = "\n".join(ln for ln in cfg.splitlines() if not ln.startswith("PROPERTIES"))
    r = tlc.run(ctx, "C05_BackoffMC", "gen_bo_%s.cfg" % inv, cfg_text=cfg, workers=1, timeout=300, name="bo" + inv)
    if r.ok or r.violated != inv:
        raise MachineryError("vacuity guard: %s is not reachable in the bounded C05_Backoff model (%s)" % (inv, r.violated))
    return inv


def _edges(args):
    ctx, tag, consts, beh, seed = args
    cfg = tlc.subst_cfg("C05_BackoffMC.cfg", consts, replace=[
        ("INIT Init", "INIT MCInit"), ("VIEW View", "VIEW ViewObj\nACTION_CONSTRAINT Eager EmitEdge"),
        ("INVARIANTS TypeOK EntryShape Justified Protected MemoryBounded", "INVARIANTS TypeOK")])
    cfg = "\n".join(ln for ln in cfg.splitlines() if not ln.startswith("PROPERTIES"))
    r = tlc.run(ctx, "C05_BackoffMC", "gen_bo_%s_edges.cfg" % tag, cfg_text=cfg, workers=1, timeout=900, name="boed" + tag)
    if not r.ok:
        raise MachineryError("edge run failed for C05_Backoff %s: %s" % (tag, r.violated))
    g = graph.Graph(r.inits, r.edges)
    kinds = {}
    for s, op, _t in g.edges:
        k = op["name"]
        if k == "add":
            k += "-first" if op["dur"] == SCHED["Base"] else ("-capped" if op["dur"] == SCHED["Max"] else "-grown")
        elif k == "cleanup":
            k += "-removes" if op["removed"] else ("-keeps" if op["kept"] else "-empty")
        elif k == "tick":
            src = g.states[s]
            if any(src["inb"][p][a] and not op["before"][p][a] for p in src["inb"] for a in src["inb"][p]):
                raise MachineryError("C05_Backoff: an answer changes strictly inside a tick")
            if any(v for p in op["before"].values() for v in p.values()):
                k += "-in-backoff"
        kinds[k] = kinds.get(k, 0) + 1
        if g.states[s]["due"] and op["name"] != "cleanup":
            raise MachineryError("C05_Backoff: the printed graph is not eager")
    for need in ("add-first", "add-grown", "add-capped", "clear", "tick", "tick-in-backoff", "cleanup-removes", "cleanup-keeps"):
        if not kinds.get(need):
            raise MachineryError("vacuous C05_Backoff graph %s: no %s transition among %d" % (tag, need, g.n_edges()))
    walks = forward_covering_walks(g, seed, max_len=200)
    hdr = dict(SCHED)
    hdr.update({"edges": g.n_edges(), "states": g.n_states(), "seed": seed, "instance": tag})
    graph.write_behaviours(os.path.join(beh, tag + ".jsonl"), walks, hdr)
    return tag, g.n_edges(), g.n_states(), len(walks), sum(len(w["steps"]) for w in walks), kinds


def forward_covering_walks(g, seed, max_len=200, look=6):
    """graph.covering_walks with the start states taken shallowest first.  Time never goes back in this graph, so a walk
    cannot return to what it passed: starting near the initial state and running forward through uncovered transitions
    needs about 30 % fewer steps than the deepest-first order of lib/graph.py."""
    import collections
    import random
    rnd = random.Random(seed)
    parent, order, dq = {}, [], collections.deque()
    for i in g.inits:
        parent[i] = None
        dq.append(i)
    while dq:
        u = dq.popleft()
        order.append(u)
        for ei in g.out.get(u, ()):
            v = g.edges[ei][2]
            if v not in parent:
                parent[v] = (u, ei)
                dq.append(v)
    unc = {k: list(v) for k, v in g.out.items()}
    for k in sorted(unc):
        rnd.shuffle(unc[k])
    covered, walks = set(), []

    def live(u):
        lst = unc.get(u)
        while lst and lst[-1] in covered:
            lst.pop()
        return bool(lst)

    def path_to(u):
        p = []
        while parent[u] is not None:
            pu, pe = parent[u]
            p.append(pe)
            u = pu
        p.reverse()
        return u, p

    def near(u, room):
        prev, q, n = {u: None}, collections.deque([(u, 0)]), 0
        while q and n < 1000:
            x, d = q.popleft()
            n += 1
            if d >= room:
                continue
            for ei in g.out.get(x, ()):
                v = g.edges[ei][2]
                if v in prev:
                    continue
                prev[v] = (x, ei)
                if live(v):
                    p = []
                    while prev[v] is not None:
                        px, pe = prev[v]
                        p.append(pe)
                        v = px
                    p.reverse()
                    return p
                q.append((v, d + 1))
        return None
    for u in order:
        while live(u):
            start, walk = path_to(u)
            covered.update(walk)
            cur, first = u, True
            while first or len(walk) < max_len:
                first = False
                if live(cur):
                    ei = unc[cur].pop()
                    covered.add(ei)
                    walk.append(ei)
                    cur = g.edges[ei][2]
                    continue
                p = near(cur, min(look, max_len - len(walk) - 1))
                if not p:
                    break
                covered.update(p)
                walk.extend(p)
                cur = g.edges[p[-1]][2]
            walks.append(g._mk(start, walk))
    if len(covered) != g.n_edges():
        raise MachineryError("covering walks left %d of %d transitions out" % (g.n_edges() - len(covered), g.n_edges()))
    return walks


def obs_class(v):
    e = v.next_event or {}
    ev = e.get("ev", "rejected")
    if ev == "tdial_start":
        return "backoff-dialled-while-in-backoff"
    if ev == "probe":
        return "backoff-answer"
    if ev == "dial_ret":
        if e.get("res") != "err":
            return "backoff-obs-dial-ret-" + str(e.get("res"))
        if e.get("bo"):
            return "backoff-refused-unjustified" + ("-force-direct" if str(v.name).endswith("force-direct") else "")
        return "backoff-error-before-exhausted"
    return "backoff-obs-" + ev


def run_part(ctx, thorough):
    t0 = time.time()
    marks = []

    def mark(name):
        marks.append("%s %.0fs" % (name, time.time() - t0))
    tlc.stage(ctx)
    beh = ctx.sub("beh-bo")
    # (1) exhaustive instances, vacuity guards and the printed instances side by side (<= 4 JVMs, 2 workers each at most)
    with cf.ProcessPoolExecutor(max_workers=4) as ex:
        f_ed = [ex.submit(_edges, (ctx, tag, c, beh, ctx.seed)) for tag, c in print_instances(thorough)]
        f_mc = [ex.submit(_mc, (ctx, tag, c)) for tag, c in mc_instances(thorough)]
        f_vc = [ex.submit(_vacuity, (ctx, inv)) for inv in (("ReachCapped", "ReachRefused") if thorough else ("ReachRefused",))]
        mc = [f.result() for f in f_mc]
        ed = [f.result() for f in f_ed]
        [f.result() for f in f_vc]
    states = sum(m[1] for m in mc)
    trans = sum(m[2] for m in mc)
    edges = sum(e[1] for e in ed)
    mark("tlc")
    # (2) replay on the real DialBackoff and the generations of callers on a real Swarm (one test binary invocation)
    iters = 300 if thorough else 45
    res = goenv.run_harness(ctx, PKG, "^TestVerifC05bo(Replay|Swarm)$", inputs=beh, timeout=1500,
                            env={"VERIF_C05BO_ITERS": iters})
    div = classify_mismatches(ctx, res, "backoff-replay")
    if not res["mismatches"] and res["distinct"] < edges:
        raise MachineryError("back-off replay executed %d distinct transitions for %d in the graphs" % (res["distinct"], edges))
    sp = os.path.join(res["_out"], "swarm", "result.json")
    if not os.path.exists(sp):
        raise MachineryError("the back-off swarm test wrote no result:\n%s" % res["_log"][-2000:])
    with open(sp) as f:
        sw = json.load(f)
    div += classify_mismatches(ctx, sw, "backoff-swarm")
    mark("go")
    # (3) code -> spec: the recorded executions against the observable-level spec
    traces = []
    for p in sw.get("traces") or []:
        if os.path.exists(p):
            traces += tracecheck.load_ndjson(p)
    if not traces:
        raise MachineryError("the back-off swarm harness recorded no traces")
    verdicts, _ = tracecheck.validate(ctx, "C05_BackoffObs", "C05_BackoffObs.cfg", traces, tag="c05bo", timeout=900,
                                      batch=300, max_rejections=30)
    acc = sum(1 for v in verdicts if v.accepted)
    rej = [v for v in verdicts if not v.accepted]
    classes = {}
    for v in rej:
        cls = obs_class(v)
        classes[cls] = classes.get(cls, 0) + 1
        if classes[cls] > 2:
            continue
        path = save_replay(ctx, "backoff-trace-seed%d-%s.json" % (ctx.seed, v.name), v.as_dict())
        ctx.violations.append({"cls": cls, "replay": path, "what": "%s: execution %s is not a behaviour of C05_BackoffObs at event %d/%d: %s" % (
            cls, v.name, v.matched, v.length, v.next_event)})
    # vacuity of the scenarios: the interesting observations occurred
    kinds = {}

    def inc(k):
        kinds[k] = kinds.get(k, 0) + 1
    for _n, r0, evs in traces:
        force = set()
        for e in evs:
            ev = e.get("ev")
            if ev == "dial_call" and e.get("force"):
                force.add(e["c"])
            if ev == "dial_ret":
                inc("ret-" + e["res"])
                if e.get("bo"):
                    inc("ret-refused" + ("-and-failed" if e.get("fl") else "-only"))
                if e["c"] in force and e.get("fl"):
                    inc("force-direct-dialled")
                if e["c"] in force and e.get("bo"):
                    inc("force-direct-refused-in-shared-worker")
            if ev == "tdial_end":
                inc("tdial-" + e["res"])
            if ev == "probe":
                inc("probe-%s" % e["res"])
        inc("template-" + str(r0.get("template")))
    need = ["ret-conn", "ret-err", "ret-refused-only", "ret-refused-and-failed", "force-direct-dialled", "tdial-ok", "tdial-fail",
            "tdial-timeout", "tdial-canceled", "probe-True", "probe-False", "template-ladder-default", "template-cleanup-small",
            "template-retry-same-worker", "template-two-peers-same-address", "template-random"]
    for k in need:
        if not kinds.get(k) and not ctx.violations:
            raise MachineryError("vacuous back-off scenarios: no %s among %d executions (%s)" % (k, len(traces), kinds))
    mark("traces")
    summary = ("MC %d states / %d transitions in %d instances (%s); replayed %d transitions of %d printed graphs in %d walks "
               "(%d steps) on a real DialBackoff; swarm: %d executions (%d events), %d accepted by C05_BackoffObs, %d rejected %s; "
               "L2 divergences %d"
               % (states, trans, len(mc), ", ".join("%s %d" % (m[0], m[1]) for m in mc), edges, len(ed), sum(e[3] for e in ed),
                  res["steps"], sw["replayed"], sw["steps"], acc, len(rej), classes, div))
    log("C05bo: " + summary + " [" + ", ".join(marks) + "]")
    return {"summary": summary, "states": states, "transitions": trans, "replayed": res["replayed"] + acc,
            "samples": (res.get("samples") or [])[:1] + (sw.get("samples") or [])[:1],
            "mc_instances": [{"instance": m[0], "distinct": m[1], "generated": m[2], "wall_s": m[3]} for m in mc],
            "replay_graphs": [{"instance": e[0], "edges": e[1], "states": e[2], "walks": e[3], "steps": e[4], "kinds": e[5]} for e in ed],
            "replay_steps_executed": res["steps"], "replay_distinct_transitions_executed": res["distinct"],
            "swarm_executions": sw["replayed"], "swarm_events": sw["steps"], "traces_accepted": acc, "traces_rejected": len(rej),
            "observation_kinds": kinds, "divergences_L2": div}


# engine entry for the MANIFEST of C05 (checks/C05.py owns the MANIFEST dict; this is the text to add to its "engines")
ENGINE = {"name": "C05_Backoff", "path": "spec/C05_Backoff.tla", "serves_properties": ["C05"],
          "kind_free_text": "TLA+ spec of DialBackoff and its use by the dial worker + TLC exhaustive + full-transition replay on a real DialBackoff under virtual time + trace validation of real Swarm executions against C05_BackoffObs.tla"}


def run(ctx):
    """Developer entry (`./check C05bo`): the back-off part alone."""
    from lib import evidence
    bo = run_part(ctx, ctx.tier == "thorough")
    cov = evidence.mc_coverage(bo["states"], bo["transitions"], bo["replayed"], bo["samples"], exhaustive=True,
                               checker_cmd="tlc C05_BackoffMC.tla; tlc C05_BackoffObs.tla", backoff=bo)
    return {"level": "model_checking", "coverage": cov, "assumptions": ["developer run of the back-off part of C05"]}
