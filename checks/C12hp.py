"""C12, hole-punching part (called from checks/C12.py: run_part(ctx, thorough)).

Clauses: "hole punching is coordinated only over a relayed connection, dials only the peer's non-relay addresses
and reports success only when a direct connection exists".

  spec/C12_HolePunch.tla     design model: initiator (DirectConnect ... holePunchConnect) and responder
                             (handleNewStream / incomingHolePunch) as gate-by-gate state machines against an
                             environment that chooses connections, peerstore and CONNECT addresses (public, private,
                             relay, garbage), listenAddrs(), the outcome of every host.Connect / NewStream / stream
                             read / write, and Close; clauses as invariants / action properties, exhaustive TLC
  replay                     every transition of a printed instance driven through a real holepunch.Service on a fake
                             host under testing/synctest (harness/p2p/protocol/holepunch/zz_verif_c12hp_test.go)
  spec/C12_HolePunchObs.tla  observable-level spec (guards = the clauses); TLC validates the ledgers recorded during the
                             replay (and during the free runs that follow a disagreement with the model)
"""
import json
import os

from lib import goenv, graph, tlc, tracecheck
from lib.common import MachineryError, classify_mismatches, log, save_replay

PKG = "./p2p/protocol/holepunch"

# transition kinds that must occur in the printed graph (vacuity)
NEED = ("call", "connect_ret", "newstream_ret", "write_ret", "read_ret", "timer", "close", "incoming", "env")


def obs_class(v):
    e = v.next_event or {}
    ev = e.get("ev", "rejected")
    if ev == "dc_ret":
        return "holepunch-success-without-direct-conn"
    if ev == "tracer":
        if any(a.get("relay") for a in e.get("addrs") or []):
            return "holepunch-dials-relay-address"
        return "holepunch-tracer-success-without-direct-conn"
    if ev == "connect_call":
        if not e.get("force"):
            return "holepunch-connect-without-force-direct"
        if any(a.get("relay") for a in (e.get("addrs") or []) + (e.get("dialed") or [])):
            return "holepunch-dials-relay-address"
        return "holepunch-coordinated-over-direct-conn"
    if ev == "s_write":
        return "holepunch-coordinated-over-direct-conn"
    if ev == "ns_call":
        return "holepunch-stream-flags"
    return "holepunch-obs-" + ev


def run_part(ctx, thorough):
    import time
    t0 = time.time()
    marks = []

    def mark(name):
        marks.append("%s %.0fs" % (name, time.time() - t0))
    tlc.stage(ctx)
    # (1) exhaustive: every peerstore mix x CONNECT content x own addresses x connection table, 2 connection events
    cfg = tlc.subst_cfg("C12_HolePunchMC.cfg", {"EnvBudget": 3 if thorough else 2})
    r1 = tlc.run(ctx, "C12_HolePunchMC", "gen_hp_mc.cfg", cfg_text=cfg, workers=4, timeout=900, name="hpmc")
    if not r1.ok:
        raise MachineryError("design-level failure in C12_HolePunch: %s\n%s" % (r1.violated, r1.out[-1500:]))
    mark("mc")
    # (2) the instance whose whole graph is printed and replayed
    rep = [("INIT Init", "INIT MCInit"), ("VIEW View", "VIEW View\nACTION_CONSTRAINT EmitEdge")]
    if not thorough:
        rep.append(("<- F_", "<- S_"))
    cfg2 = tlc.subst_cfg("C12_HolePunchMC.cfg", {"EnvBudget": 1}, replace=rep)
    r2 = tlc.run(ctx, "C12_HolePunchMC", "gen_hp_edges.cfg", cfg_text=cfg2, workers=1, timeout=900, name="hped")
    if not r2.ok:
        raise MachineryError("edge run failed for C12_HolePunch: %s" % r2.violated)
    g = graph.Graph(r2.inits, r2.edges)
    kinds = {}
    for _s, op, _t in g.edges:
        kinds[op["name"]] = kinds.get(op["name"], 0) + 1
        if op.get("ret") == "ok":
            kinds["ret-ok"] = kinds.get("ret-ok", 0) + 1
        if op["gate"].get("kind") == "connect":
            k = "connect-" + op["gate"]["sim"]
            kinds[k] = kinds.get(k, 0) + 1
    for need in NEED + ("ret-ok", "connect-none", "connect-client", "connect-server"):
        if not kinds.get(need):
            raise MachineryError("vacuous C12_HolePunch graph: no %s transition among %d" % (need, g.n_edges()))
    walks = g.covering_walks(seed=ctx.seed, max_len=80)
    beh = ctx.sub("beh-hp")
    graph.write_behaviours(os.path.join(beh, "holepunch.jsonl"), walks,
                           {"edges": g.n_edges(), "states": g.n_states(), "seed": ctx.seed})
    mark("graph")
    # (3) replay on the real service; ledgers recorded for every k-th walk
    every = 3 if thorough else 4
    # (same test binary, same invocation:) the contract the hole puncher relies on, decided on the real BasicHost over
    # a real Swarm, and the fake host's fidelity to it; its result goes to <out>/host/result.json
    res = goenv.run_harness(ctx, PKG, "^TestVerifC12HolePunch(Replay|HostContract)$", inputs=beh, timeout=1500,
                            env={"VERIF_C12HP_TRACE_EVERY": every})
    div = classify_mismatches(ctx, res, "holepunch")
    hp_path = os.path.join(res["_out"], "host", "result.json")
    if not os.path.exists(hp_path):
        raise MachineryError("the host-contract test wrote no result:\n%s" % res["_log"][-2000:])
    with open(hp_path) as f:
        hc = json.load(f)
    div += classify_mismatches(ctx, hc, "holepunch-host")
    hx = hc.get("extra") or {}
    for need in ("connect-force-only-relayed-conns-ok=false", "connect-force-only-relayed-conns-ok=true", "newstream-rode-L",
                 "newstream-rode-D", "newstream-rode-"):
        if not hx.get(need) and not hc["mismatches"]:
            raise MachineryError("vacuous host-contract run: no %s case in %d" % (need, hc["replayed"]))
    if not res["mismatches"] and res["steps"] < g.n_edges():
        raise MachineryError("hole-punch replay executed %d steps for %d transitions" % (res["steps"], g.n_edges()))
    mark("replay")
    # (4) code -> spec: TLC validates the recorded ledgers against the observable-level spec
    traces = []
    for p in res.get("traces") or []:
        if os.path.exists(p):
            traces += tracecheck.load_ndjson(p)
    if not traces:
        raise MachineryError("the hole-punch harness recorded no ledgers")
    verdicts, _ = tracecheck.validate(ctx, "C12_HolePunchObs", "C12_HolePunchObs.cfg", traces, tag="c12hp",
                                      timeout=900, batch=400)
    acc = sum(1 for v in verdicts if v.accepted)
    rej = [v for v in verdicts if not v.accepted]
    classes = {}
    for v in rej:
        cls = obs_class(v)
        classes[cls] = classes.get(cls, 0) + 1
        path = save_replay(ctx, "holepunch-trace-seed%d-%s.json" % (ctx.seed, v.name), v.as_dict())
        ctx.violations.append({"cls": cls, "replay": path, "what": "%s: ledger %s is not a behaviour of C12_HolePunchObs at event %d/%d: %s" % (
            cls, v.name, v.matched, v.length, v.next_event)})
    extra = res.get("extra") or {}
    summary = ("MC %d states / %d transitions (full families, %d connection events); replayed %d transitions in %d walks "
               "(%d steps) on the real Service; ledgers %d accepted, %d rejected %s; L2 divergences %d; "
               "coordination streams that rode a direct connection (initiator side, refused by a real responder): %d steps; "
               "host contract on the real BasicHost+Swarm: %d cases"
               % (r1.distinct, r1.generated, 3 if thorough else 2, g.n_edges(), len(walks), res["steps"], acc, len(rej),
                  classes, div, extra.get("stream-over-direct", 0), hc["replayed"]))
    mark("traces")
    log("C12hp: " + summary + " [" + ", ".join(marks) + "]")
    return {"summary": summary, "states": r1.distinct, "transitions": r1.generated, "replayed": res["replayed"] + acc + hc["replayed"],
            "samples": (res.get("samples") or [])[:2]}


def run(ctx):
    """Developer entry (`./check C12hp`): the hole-punching part alone."""
    from lib import evidence
    hp = run_part(ctx, ctx.tier == "thorough")
    cov = evidence.mc_coverage(hp["states"], hp["transitions"], hp["replayed"], hp["samples"], exhaustive=True,
                               checker_cmd="tlc C12_HolePunchMC.tla; tlc C12_HolePunchObs.tla", holepunch=hp["summary"])
    return {"level": "model_checking", "coverage": cov, "assumptions": ["developer run of the hole-punching part of C12"]}
