"""C05lim - the swarm's dial limiter (p2p/net/swarm/limiter.go), extension engine of C05 (limiter.go is one of its
anchors).  spec/C05lim_Limiter.tla: one action per critical section (AddDialJob, the executeDial goroutine finding
its job live / dead, finishedDial with the two skip-and-wake loops, a dial context ending, clearAllPeerDials), several
peers sharing the file-descriptor cap; exhaustive TLC with the full interleaving incl. liveness; the pre-repair loop of
freeFDToken (LoopGuard = FALSE) must violate FdCap (vacuity guard); every transition of the replay graph (goroutines run
until they block after each call) executed on a real dialLimiter under testing/synctest."""
import concurrent.futures as cf
import os

from lib import evidence, goenv, graph, tlc
from lib.common import MachineryError, classify_mismatches, log

PARENT = "C05"
PKG = "./p2p/net/swarm"
INV = "INVARIANTS TypeOK FdCap PeerCap FdExact PeerExact WorkConservingFd WorkConservingPeer Rest InFlightCaps"


def instances(ctx):
    out = [(i, fl, pp) for i in ("two", "one", "three") for fl in (1, 2) for pp in (1, 2)]
    return out


def _consts(inst, fl, pp, guard=True):
    return {"Inst": '"%s"' % inst, "FdLimit": fl, "PerPeer": pp, "LoopGuard": "TRUE" if guard else "FALSE"}


def _mc(args):
    ctx, (inst, fl, pp) = args
    tag = "%s_F%d_P%d" % (inst, fl, pp)
    r = tlc.run(ctx, "C05lim_MC", "gen_%s_mc.cfg" % tag, cfg_text=tlc.subst_cfg("C05lim_MC.cfg", _consts(inst, fl, pp)),
                workers=2, timeout=900, name="mc" + tag)
    if not r.ok:
        raise MachineryError("design-level failure in C05lim %s: %s violated\n%s" % (tag, r.violated, r.out[-2500:]))
    return {"tag": tag, "distinct": r.distinct, "generated": r.generated, "wall": r.wall}


def _guard(args):
    ctx, (inst, fl, pp) = args
    tag = "%s_F%d_P%d_noguard" % (inst, fl, pp)
    cfg = tlc.subst_cfg("C05lim_MC.cfg", _consts(inst, fl, pp, guard=False), replace=[(INV, "INVARIANTS FdCap"), ("PROPERTIES Served", "")])
    r = tlc.run(ctx, "C05lim_MC", "gen_%s.cfg" % tag, cfg_text=cfg, workers=1, timeout=300, name="g" + tag)
    if r.ok or r.violated != "FdCap":
        raise MachineryError("vacuity guard: the loop of freeFDToken without its token check does not violate FdCap in %s" % tag)
    return {"tag": tag}


def _reach(args):
    ctx, inv = args
    cfg = tlc.subst_cfg("C05lim_MC.cfg", _consts("two", 1, 2), replace=[(INV, "INVARIANTS " + inv), ("PROPERTIES Served", "")])
    r = tlc.run(ctx, "C05lim_MC", "gen_reach_%s.cfg" % inv, cfg_text=cfg, workers=1, timeout=300, name="r" + inv)
    if r.ok or r.violated != inv:
        raise MachineryError("vacuity guard: %s is not violated - the states it stands for are unreachable" % inv)
    return {"tag": inv}


def _print(args):
    ctx, (inst, fl, pp), beh_dir = args
    tag = "%s_F%d_P%d" % (inst, fl, pp)
    cfg = tlc.subst_cfg("C05lim_MC.cfg", _consts(inst, fl, pp), replace=[
        ("SPECIFICATION Spec", "INIT MCInit\nNEXT RNext"), ("VIEW View", "VIEW View\nACTION_CONSTRAINT EmitEdge"),
        ("PROPERTIES Served", "")])
    r = tlc.run(ctx, "C05lim_MC", "gen_%s_edges.cfg" % tag, cfg_text=cfg, workers=1, timeout=900, name="ed" + tag)
    if not r.ok:
        raise MachineryError("design-level failure in the C05lim replay graph %s: %s violated\n%s" % (tag, r.violated, r.out[-2500:]))
    g = graph.Graph(r.inits, r.edges)
    if g.n_edges() == 0 or g.n_states() != r.distinct:
        raise MachineryError("C05lim %s: printed graph has %d states / %d edges, TLC found %d states"
                             % (tag, g.n_states(), g.n_edges(), r.distinct))
    facts = {"skip_cancelled_fd_waiter": 0, "skip_wakes_peer_waiter": 0, "finish_starts_two": 0, "add_waits_on_peer": 0,
             "add_waits_on_fd": 0, "add_of_dead_job": 0, "clear": 0, "stale_token_holder": 0}
    for sk, op, tk in g.edges:
        s, t = g.states[sk], g.states[tk]
        dropped_now = [j for j in t["st"] if t["st"][j] == "dropped" and s["st"][j] == "waitFd"]
        facts["skip_cancelled_fd_waiter"] += 1 if dropped_now else 0
        facts["skip_wakes_peer_waiter"] += 1 if dropped_now and any(s["st"][j] == "waitPeer" and t["st"][j] in ("running", "waitFd") for j in t["st"]) else 0
        facts["finish_starts_two"] += 1 if op["name"] == "finish" and len(op.get("called") or []) >= 2 else 0
        facts["add_waits_on_peer"] += 1 if op["name"] == "add" and t["st"][op["j"]] == "waitPeer" else 0
        facts["add_waits_on_fd"] += 1 if op["name"] == "add" and t["st"][op["j"]] == "waitFd" else 0
        facts["add_of_dead_job"] += 1 if op["name"] == "add" and t["st"][op["j"]] == "done" else 0
        facts["clear"] += 1 if op["name"] == "clear" else 0
        facts["stale_token_holder"] += 1 if any(t["st"][j] == "waitFd" and ("c" + j) and j for j in t["st"]
                                                if t["st"][j] == "waitFd" and _dead(t, j, args)) else 0
    walks = g.covering_walks(seed=ctx.seed, max_len=60)
    graph.write_behaviours(os.path.join(beh_dir, tag + ".jsonl"), walks,
                           {"inst": [o for k, o in r.prints if k == "VFINST"][0], "edges": g.n_edges(), "states": g.n_states()})
    return {"tag": tag, "distinct": r.distinct, "generated": r.generated, "edges": g.n_edges(), "walks": len(walks),
            "steps": sum(len(w["steps"]) for w in walks), "wall": r.wall, "facts": facts}


_CTX = {"two": {"j1": "c1", "j2": "c2", "j3": "c2", "j4": "c3", "j5": "c3"},
        "one": {"j1": "c1", "j2": "c1", "j3": "c2", "j4": "c2"},
        "three": {"j1": "c1", "j2": "c1", "j3": "c2", "j4": "c3", "j5": "c4"}}


def _dead(t, j, args):
    return _CTX[args[1][0]][j] in t["cancelled"]


def _job(a):
    kind, rest = a[0], a[1:]
    return kind, {"mc": _mc, "guard": _guard, "reach": _reach, "print": _print}[kind](rest)


def run(ctx):
    beh = ctx.sub("beh")
    tlc.stage(ctx)
    insts = instances(ctx)
    quick = {("two", 1, 1), ("two", 1, 2), ("two", 2, 2), ("one", 1, 2), ("one", 2, 1), ("three", 1, 1)}
    pr = insts if ctx.tier == "thorough" else [i for i in insts if i in quick]
    jobs = [("mc", ctx, i) for i in insts] + [("print", ctx, i, beh) for i in pr]
    jobs += [("guard", ctx, ("two", 1, 2)), ("guard", ctx, ("three", 1, 1)), ("reach", ctx, "ReachSkipWakes"), ("reach", ctx, "ReachStaleToken")]
    with cf.ProcessPoolExecutor(max_workers=4) as ex:
        results = list(ex.map(_job, jobs))
    mcs = [r for k, r in results if k == "mc"]
    prints = [r for k, r in results if k == "print"]
    facts = {}
    for r in prints:
        for k, v in r["facts"].items():
            facts[k] = facts.get(k, 0) + v
    for k, v in facts.items():
        if not v:
            raise MachineryError("vacuous C05lim behaviours: no replayed transition with %s" % k)
    edges = sum(r["edges"] for r in prints)
    res = goenv.run_harness(ctx, PKG, "^TestVerifC05limReplay$", inputs=beh, timeout=1500)
    div = classify_mismatches(ctx, res, "limiter")
    if not res["mismatches"] and (res["steps"] < edges or res["distinct"] < edges):
        raise MachineryError("C05lim replay executed %d steps / %d distinct transitions for %d transitions" % (res["steps"], res["distinct"], edges))
    states = sum(r["distinct"] for r in mcs + prints)
    trans = sum(r["generated"] for r in mcs + prints)
    log("C05lim: %d exhaustive instances (full interleaving, liveness) %d states; %d replay graphs, %d transitions, %d walks, %d steps executed; L2 %d"
        % (len(mcs), sum(r["distinct"] for r in mcs), len(prints), edges, sum(r["walks"] for r in prints), res["steps"], div))
    cov = evidence.mc_coverage(
        states, trans, res["replayed"], (res.get("samples") or [])[:2], exhaustive=True,
        checker_cmd="tlc C05lim_MC.tla (template C05lim_MC.cfg instantiated per instance by checks/C05lim.py)",
        exhaustive_instances={r["tag"]: {"states": r["distinct"], "transitions": r["generated"], "wall_s": r["wall"]} for r in mcs},
        replay_instances={r["tag"]: {k: r[k] for k in ("distinct", "edges", "walks", "steps")} for r in prints},
        replay_transitions_in_graphs=edges, replay_steps_executed=res["steps"], replay_distinct_transitions_executed=res["distinct"],
        reached=facts, vacuity_guards=["FdCap violated with LoopGuard=FALSE @two_F1_P2, three_F1_P1", "ReachSkipWakes", "ReachStaleToken"],
        divergences_L2=div, rule=res.get("rule"), parent_property=PARENT)
    return {"level": "model_checking", "coverage": cov, "assumptions": [
        "bounded instances (<= 5 jobs, <= 3 peers, caps 1..2); each job is one (peer, address) attempt under one dial context",
        "the replay binds the critical sections (AddDialJob, finishedDial, clearAllPeerDials) with the spawned goroutines run to their "
        "blocking point after every call; a context ending between `go executeDial` and the goroutine's cancelled() check is explored "
        "by TLC on the model only",
        "clearAllPeerDials is called only when every waiter of the peer is dead (the worker exits after its context ended), as in dial_worker.go",
    ]}


ENGINE = {"name": "C05lim_Limiter", "path": "spec/C05lim_Limiter.tla", "serves_properties": [PARENT],
          "kind_free_text": "extension engine (checks/C05lim.py, run as a part of C05): TLA+ spec of the dial limiter at critical-section grain "
                            "with several peers sharing the FD cap; TLC exhaustive incl. liveness; pre-repair loop must violate FdCap; every "
                            "transition of the replay graph executed on a real dialLimiter under synctest"}
MANIFEST = {
    "technique": "TLA+ spec (C05lim_Limiter.tla) of the swarm's dial limiter model-checked exhaustively with TLC (safety + liveness); every "
                 "transition of the replay graph executed on a real dialLimiter under testing/synctest",
    "category": "model_checking",
    "text": "Caps, token conservation, work conservation and no-starvation of the dial limiter across peers and dial generations.",
    "note": "Extension engine of C05.",
    "engines": [ENGINE],
}
