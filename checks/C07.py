"""C07 - stream protocol negotiation: both ends agree and the right handler runs.

spec/C07_Negotiate.tla: exhaustive TLC on bounded instances (handler table as it changes over time,
ordered request lists, the dialer's knowledge, 1-2 concurrently open streams, BasicHost with and
without identify push reaching the dialer, BlankHost); every transition of the replay instances is
executed on two REAL hosts (real swarm, real resource manager, real identify, yamux over an in-memory
pipe) inside a testing/synctest bubble, plus a concurrent open/churn run under the same L1 monitors."""
import concurrent.futures as cf
import os

from lib import evidence, goenv, graph, tlc
from lib.common import MachineryError, classify_mismatches, log

PKG = "./p2p/host/basic"

INV = "INVARIANTS TypeOK RightHandler"
PROPS = "PROPERTIES OpenBinds Agreement Dispatch OneHandler NoCommon RemovedNeverRuns CommonMeansSuccess KnowledgeSources BooksApart FirstOpFree TimeFree"


def _fast_unescape(s, _slow=tlc._unescape):
    return s.replace('\\"', '"') if "\\\\" not in s else _slow(s)


tlc._unescape = _fast_unescape


def inst(name, host="basic", push=False, slots=1, maxtbl=2, reqs="MCReqs3", entries="MCEntriesFull", bidir=False,
         tokens="MCP", three=False, timed=False):
    """bidir: both hosts register handlers and open streams to each other on the one connection.
    three: a dialer A with TWO listeners B, C (identical at the start), one book per listener.
    timed: virtual time passes between operations and before the handler's answer to a half-close."""
    meta = {"host": host, "push": push, "slots": slots, "maxtbl": maxtbl, "reqs": reqs, "entries": entries, "bidir": bidir,
            "three": three, "timed": timed}
    if three:
        meta.update(hosts=["A", "B", "C"], links=[["A", "B"], ["A", "C"]])
    return name, {"Entries <- ": entries, "Reqs <- ": reqs, "Slots <- ": "MCSlots%d" % slots, "MaxTbl": maxtbl,
                  "Tokens <- ": tokens, "Dialers <- ": "Both" if bidir else "OnlyA",
                  "Servers <- ": "OnlyBC" if three else "Both" if bidir else "OnlyB",
                  "Hosts <- ": "Three" if three else "Two", "Links <- ": "LinkStar" if three else "LinkAB",
                  "Delays <- ": "AllDelays" if timed else "NoDelay", "Waits <- ": "AllWaits" if timed else "NoWaits",
                  "Lazy": "TRUE" if host == "basic" else "FALSE", "Push": "TRUE" if push else "FALSE"}, meta


def replay_instances(ctx):
    """Instances whose whole state graph is printed and replayed on the real hosts."""
    out = [
        # every (table of <=2 entries out of 7, knowledge, request list of 1..3 ids): stale knowledge for real
        inst("basic-nopush", push=False, timed=True),
        # the same with identify push reaching the dialer: knowledge follows the table unless forgotten
        inst("basic-push", push=True),
        # two concurrently open streams (routing, per-protocol counts of 2, a table change between the
        # open and the first use of one stream while the other is served)
        inst("basic-2streams", slots=2, reqs="MCReqs2abc", entries="MCEntriesTiny", tokens="MCTokens1"),
        # the second host implementation: always negotiates
        inst("blank-2streams", host="blank", slots=2, reqs="MCReqs2", entries="MCEntriesSmall"),
        # BOTH hosts serve and dial on the one connection (one entry each out of 3, request lists of 1..2 ids): what a
        # host learns by SERVING a stream must not leak into its choices as a dialer
        inst("bidir-nopush", bidir=True, maxtbl=1, reqs="MCReqs2ab", entries="MCEntriesBi", tokens="MCTokens1"),
        # a THIRD host: dialer A, listeners B and C that start out identical and diverge; A's books about them are
        # separate state (what A learns from or about one listener must never show in its dealings with the other)
        inst("three-nopush", three=True, maxtbl=1, reqs="MCReqs3q", entries="MCEntries3q", tokens="MCTokens1"),
    ]
    if ctx.tier == "thorough":
        out += [
            inst("basic-nopush-t3", push=False, maxtbl=3),
            inst("basic-2streams-r3", slots=2, entries="MCEntriesSmall"),
            inst("blank-r3", host="blank", maxtbl=2),
            inst("three-nopush-t", three=True, maxtbl=1, reqs="MCReqs3h", entries="MCEntries3", tokens="MCTokens1"),
            inst("three-push", three=True, push=True, maxtbl=2, reqs="MCReqs3h", entries="MCEntries3", tokens="MCTokens1"),
            inst("basic-push-timed", push=True, timed=True),
            inst("bidir-push", bidir=True, push=True, maxtbl=2, reqs="MCReqs2ab", entries="MCEntriesBi", tokens="MCTokens1"),
        ]
    return out


def exhaustive_instances(ctx):
    """Bigger instances checked exhaustively only."""
    if ctx.tier == "thorough":
        return [inst("big-2streams-t3", slots=2, maxtbl=3),
                inst("big-1stream-t4", maxtbl=4),
                inst("big-bidir-t2", bidir=True, maxtbl=2, reqs="MCReqs2ab", entries="MCEntriesBi", tokens="MCTokens1"),
                inst("big-2streams-push", push=True, slots=2, reqs="MCReqs2"), inst("big-blank-t3", host="blank", maxtbl=3),
                inst("big-bidir-2streams", bidir=True, slots=2, maxtbl=1, reqs="MCReqs2ab", entries="MCEntriesBi", tokens="MCTokens1")]
    return []   # quick: the printing runs of the replay instances check every invariant and property themselves


def _cfg(consts, replace=None):
    txt = tlc.subst_cfg("C07_MC.cfg", {k: v for k, v in consts.items() if "<-" not in k}, replace)
    for k, v in consts.items():
        if "<-" in k:
            lines = []
            for ln in txt.splitlines():
                if ln.strip().startswith(k.strip()):
                    ln = "  " + k + v
                lines.append(ln)
            txt = "\n".join(lines) + "\n"
    return txt


def _exhaustive(args):
    ctx, (name, consts, _meta) = args
    r = tlc.run(ctx, "C07_MC", "gen_%s_mc.cfg" % name, cfg_text=_cfg(consts), workers=1,
                timeout=1500, name="mc" + name)
    if not r.ok:
        raise MachineryError("design-level failure in C07 %s: %s violated\n%s" % (name, r.violated, r.out[-2500:]))
    return name, r.distinct, r.generated, r.wall


def _reach(args):
    """Expected-to-be-violated probes: Reach* are state predicates (vacuity guards); NoStray is the action
    property that the known finding payload-parsed-as-proposal violates at the design level."""
    ctx, (name, consts, _meta), probe = args
    if probe.startswith("Reach"):
        cfg = _cfg(consts, replace=[(INV, "INVARIANTS " + probe), (PROPS, ""), ("VIEW View", "")])   # op is part of the state here
    else:
        cfg = _cfg(consts, replace=[(INV, "INVARIANTS TypeOK"), (PROPS, "PROPERTIES " + probe)])
    r = tlc.run(ctx, "C07_MC", "gen_%s_%s.cfg" % (name, probe), cfg_text=cfg, workers=1, timeout=600,
                name="reach" + name + probe)
    if r.ok or r.violated != probe:
        raise MachineryError("vacuity guard: %s is not reachable in instance %s" % (probe, name))
    return probe


def _accepts(e, p):
    return (e["k"] == "exact" and p == e["n"]) or (e["k"] == "prefix" and (p == e["n"] or p.startswith(e["n"] + "/"))) \
        or (e["k"] == "sub" and p.startswith(e["n"] + "/"))


def _edge_stats(g):
    """Kinds of transitions in the printed graph (vacuity guards are evaluated on what is actually replayed)."""
    st = {}

    def inc(k):
        st[k] = st.get(k, 0) + 1
    for s, op, t in g.edges:
        n = op["name"]
        if n == "open":
            inc("open_" + op["res"])
            if op["d"] == "B":
                inc("open_by_B_" + op["res"])
            ltbl = g.states[s]["tbl"][op["l"]]
            if op["res"] == "lazy" and len(op["req"]) > 1 and op["p"] != op["req"][0]:
                inc("open_lazy_later_entry")
                if any(_accepts(e, op["req"][0]) for e in ltbl):
                    inc("open_lazy_later_entry_although_first_accepted")
            if op["res"] == "est" and sum(1 for e in ltbl if _accepts(e, op["p"])) > 1:
                inc("open_est_two_acceptors")
            if op["res"] == "est" and op["h"]["n"] != op["p"]:
                inc("open_est_by_matcher")
            if op["res"] == "est" and op["p"] != op["req"][0]:
                inc("open_est_not_first")
        elif n == "use" and op["m"] == "rd":
            inc("use_rd_first_" + op["res"] if op["first"] else "use_rd_again")
        elif n == "finish":
            inc("finish_%s_%s" % (op["m"], "first_" + op["res"] if op["first"] else "est"))
            if op["dl"] != "0":
                inc("finish_delay_%s_%s" % (op["dl"], "first_" + op["res"] if op["first"] else "est"))
        elif n == "wait":
            inc("wait_" + op["w"])
        elif n == "reset":
            inc("reset_" + op["ph"])
        elif n == "use":
            inc("use_first_" + op["res"] if op["first"] else "use_again")
            if op["first"] and op["res"] == "ok" and op["h"]["n"] != op["p"]:
                inc("use_first_by_matcher")
            if op["q"]:
                inc("use_token_payload_stray" if op["stray"]["n"] else "use_token_payload_nostray")
        elif n == "close":
            inc("close_unused_handler" if op["unused"] and op["h"]["n"] else
                "close_unused_nohandler" if op["unused"] else "close_est")
        else:
            inc(n)
    return st


def _replay_instance(args):
    ctx, (name, consts, meta), beh_dir = args
    cfg = _cfg(consts, replace=[("INIT Init", "INIT MCInit"), ("VIEW View", "VIEW View\nACTION_CONSTRAINT EmitEdge")])
    r = tlc.run(ctx, "C07_MC", "gen_%s_edges.cfg" % name, cfg_text=cfg, workers=1, timeout=1500, name="ed" + name)
    if not r.ok:
        raise MachineryError("design-level failure in C07 %s: %s violated\n%s" % (name, r.violated, r.out[-2500:]))
    g = graph.Graph(r.inits, r.edges)
    if g.n_edges() == 0:
        raise MachineryError("no edges printed for " + name)
    stats = _edge_stats(g)
    if meta.get("bidir"):
        rev, fwd = _bidir_guard(g)
        if not rev or not fwd:
            raise MachineryError("vacuity guard: bidirectional history class missing in %s (%d, %d)" % (name, rev, fwd))
        stats["bidir_reverse_open_of_unserved_id"], stats["bidir_forward_open_past_own_id"] = rev, fwd
    if meta.get("three"):
        stats["three_open_where_other_book_knows"] = _three_guard(g)
        if not stats["three_open_where_other_book_knows"]:
            raise MachineryError("vacuity guard: three-host history class missing in %s" % name)
    walks = g.covering_walks(seed=ctx.seed, max_len=120)
    steps = sum(len(w["steps"]) for w in walks)
    hdr = dict(meta)
    hdr.update({"name": name, "edges": g.n_edges(), "states": g.n_states()})
    graph.write_behaviours(os.path.join(beh_dir, name + ".jsonl"), walks, hdr)
    return name, r.distinct, r.generated, g.n_edges(), len(walks), steps, stats, r.wall


def _concurrent(ctx):
    return goenv.run_harness(ctx, PKG, "^TestVerifC07Concurrent$", timeout=1500)


REQUIRED_KINDS = {
    "basic": ("open_fail", "open_lazy", "open_est", "open_lazy_later_entry", "open_lazy_later_entry_although_first_accepted",
              "open_est_two_acceptors", "open_est_by_matcher", "open_est_not_first",
              "use_first_ok", "use_first_fail", "use_first_by_matcher", "use_again", "use_token_payload_stray",
              "use_token_payload_nostray", "close_est",
              "close_unused_handler", "close_unused_nohandler", "add", "remove", "forget", "learn",
              "open_by_B_est", "open_by_B_lazy", "open_by_B_fail", "bidir_reverse_open_of_unserved_id",
              "use_rd_first_ok", "use_rd_first_fail", "use_rd_again", "finish_cw_first_ok", "finish_cw_first_fail", "finish_cw_est",
              "finish_wcw_first_ok", "finish_wcw_first_fail", "finish_wcw_est", "reset_lazy", "reset_est",
              "three_open_where_other_book_knows", "wait_tm", "wait_tp", "wait_min", "finish_delay_tm_first_ok",
              "finish_delay_tp_first_ok", "finish_delay_min_first_ok", "finish_delay_tp_est", "finish_delay_tp_first_fail"),
    "blank": ("open_fail", "open_est", "open_est_by_matcher", "open_est_not_first", "use_again", "close_est", "add", "remove",
              "finish_cw_est", "finish_wcw_est", "use_rd_again", "reset_est"),
}


def _bidir_guard(g):
    """The history class the bidirectional instance exists for must be in the graph: host B (not serving X) can
    establish X towards A while A's book about B lacks X, and A can then open a list with X before an id B serves."""
    rev = fwd = 0
    for s, op, t in g.edges:
        if op["name"] == "open" and op["d"] == "B" and op["res"] in ("est", "lazy") and op["p"] not in \
                [e["n"] for e in g.states[s]["tbl"]["B"]] and op["p"] not in g.states[s]["K"]["A"]["B"]:
            rev += 1
        if op["name"] == "open" and op["d"] == "A" and len(op["req"]) > 1 and op["res"] != "fail" and op["p"] != op["req"][0] \
                and any(e["n"] == op["req"][0] for e in g.states[s]["tbl"]["A"]):
            fwd += 1
    return rev, fwd


def _three_guard(g):
    """The history class the three-host instance exists for: A's books about B and C differ, and A opens to the
    listener that lacks an id the other one's book has (a negotiated open is due, whatever the other book says)."""
    n = 0
    for s, op, t in g.edges:
        if op["name"] == "open" and op["res"] != "lazy":
            k = g.states[s]["K"]["A"]
            o = "C" if op["l"] == "B" else "B"
            if any(p in k[o] and p not in k[op["l"]] for p in op["req"]):
                n += 1
    return n


def run(ctx):
    if ctx.replay:
        raise MachineryError("C07 artefacts hold the failing prefix and the instance; re-run `VERIF_SEED=<seed in file name> ./check C07`")
    tlc.stage(ctx)
    beh_dir = ctx.sub("beh")
    rinsts = replay_instances(ctx)
    einsts = exhaustive_instances(ctx)
    # at most 4 TLC workers at a time: one exhaustive lane and three printing lanes with 1 worker each; the
    # concurrent run (and with it the build of the test binary) proceeds meanwhile
    with cf.ProcessPoolExecutor(max_workers=1) as pe, cf.ProcessPoolExecutor(max_workers=3) as pr, \
            cf.ProcessPoolExecutor(max_workers=1) as pc:
        fc = pc.submit(_concurrent, ctx)
        fe = [pe.submit(_exhaustive, (ctx, i)) for i in einsts]
        fr = [pr.submit(_replay_instance, (ctx, i, beh_dir)) for i in rinsts]
        # design-level statement of the known finding: TLC must find NoStray violated (the Reach* state predicates
        # of the spec are evaluated on the printed graphs instead, see REQUIRED_KINDS)
        fg = [pr.submit(_reach, (ctx, rinsts[0], probe)) for probe in ("NoStray",)]
        eres = [f.result() for f in fe]
        rres = [f.result() for f in fr]
        guards = [f.result() for f in fg]
        log("C07: TLC done at %.1fs" % ctx.wall())
        conc = fc.result()
        log("C07: concurrent run done at %.1fs" % ctx.wall())
    kinds = {"basic": {}, "blank": {}}
    for (name, _c, meta), r in zip(rinsts, rres):
        for k, v in r[6].items():
            kinds[meta["host"]][k] = kinds[meta["host"]].get(k, 0) + v
    for hk, req in REQUIRED_KINDS.items():
        for k in req:
            if not kinds[hk].get(k):
                raise MachineryError("vacuity guard: no replayed transition of kind %s for the %s host" % (k, hk))
    div = classify_mismatches(ctx, conc, "concurrent")
    if conc["replayed"] == 0 or not (conc.get("extra") or {}).get("streams_established"):
        raise MachineryError("vacuous concurrent run: %s" % conc.get("extra"))

    res = goenv.run_harness(ctx, PKG, "^TestVerifC07Replay$", inputs=beh_dir, timeout=1500)
    div += classify_mismatches(ctx, res, "replay")
    for k in ("wr", "rd", "cw", "wcw"):       # first operation x how the stream was opened, as executed
        for how in ("optimistic", "negotiated"):
            if not res["mismatches"] and not (res.get("extra") or {}).get("first_op_%s_on_%s" % (k, how)):
                raise MachineryError("vacuity guard: no replayed first operation %s on a %s stream" % (k, how))
    for k in ("open_args_multi", "open_args_subslice_of_earlier_list", "open_args_prefix_of_earlier_list"):
        if not res["mismatches"] and not (res.get("extra") or {}).get(k):
            raise MachineryError("vacuity guard: no replayed open of kind %s (shared preference array)" % k)
    edges_total = sum(r[3] for r in rres)
    if not res["mismatches"] and res["distinct"] < edges_total:
        raise MachineryError("replay executed %d distinct transitions of %d" % (res["distinct"], edges_total))
    states = sum(r[1] for r in eres) + sum(r[1] for r in rres)
    trans = sum(r[2] for r in eres) + sum(r[2] for r in rres)
    log("C07: exhaustive %s; replay %s; %d replay transitions, %d walks, %d steps; concurrent %s; L2 divergences %d; guards %s"
        % ([(r[0], r[1], r[2], r[3]) for r in eres], [(r[0], r[1], r[3], r[4], r[7]) for r in rres], edges_total,
           sum(r[4] for r in rres), res["steps"], conc.get("extra"), div, guards))
    cov = evidence.mc_coverage(
        states, trans, res["replayed"] + conc["replayed"], res.get("samples") or [], exhaustive=True,
        checker_cmd="tlc C07_MC.tla (template C07_MC.cfg instantiated: exhaustive %s; printed+replayed %s)" % (
            ",".join(r[0] for r in eres), ",".join(r[0] for r in rres)),
        instances=len(eres) + len(rres),
        exhaustive_only={r[0]: {"states": r[1], "transitions": r[2]} for r in eres},
        replay_instances={r[0]: {"states": r[1], "transitions": r[3], "walks": r[4], "steps": r[5]} for r in rres},
        replay_transitions_in_graphs=edges_total, replay_steps_executed=res["steps"],
        replay_distinct_transitions_executed=res["distinct"], replay_transition_kinds=kinds,
        replay_extra=res.get("extra"), concurrent_rounds=conc["replayed"], concurrent_extra=conc.get("extra"),
        divergences_L2=div, notes=ctx.notes[:10], rule=res.get("rule"), concurrent_rule=conc.get("rule"))
    return {"level": "model_checking", "coverage": cov, "assumptions": [
        "bounded: 4 protocol ids (/v/a, /v/a/1, /v/b, /v/c), 7 registrable entries (exact, prefix matcher, a matcher accepting only proper extensions), tables of <=2 (thorough <=3) entries, request lists of 1..3 distinct ids, <=2 concurrently open streams in the replay",
        "go-multistream (muxer, SelectOneOf, lazy client) is a trusted dependency: its contract is what the spec states, and it is exercised for real in the replay",
        "first use = the first write followed by a read on the stream; a write alone does not surface a refused optimistic choice (documented behaviour of the lazy client)",
        "the connection is direct (limited connections are C12); no security handshake on the in-memory transport; yamux is the muxer",
        "knowledge states are produced for real: accurate by identify (connect/reconnect, push), stale by changing the listener's table while the dialer does not support identify push, unknown by RemoveProtocols",
        "application payload is opaque except for the first bytes of a first use on a refused optimistic stream, which may spell a multistream token of any of the 4 ids (known finding payload-parsed-as-proposal; TLC must find NoStray violated)",
        "an open that fails although a protocol was in common (stale optimistic choice, or any refusal) is not excluded by the statement: compared with the model's rule as L2 only",
    ]}


MANIFEST = {
    "technique": "TLA+ spec (C07_Negotiate.tla) of the host's stream negotiation - handler table with the muxer's replace-and-append and first-match rules, the dialer's knowledge and its optimistic (lazy) choice, full negotiation, first use, flushing close, identify push - model-checked exhaustively with TLC on bounded instances; every transition of the replay instances executed on two real hosts (BasicHost and BlankHost on real swarms with real resource managers and real identify, joined by yamux over an in-memory pipe inside a testing/synctest bubble) with the statement's clauses evaluated from observations and the harness's own ledger after every step; a concurrent open/churn run under the same monitors",
    "category": "model_checking",
    "text": "TLC visits every reachable (handler table, knowledge, open streams) state of the bounded instances and checks agreement, right handler, no-common and removed-never-runs as invariants/action properties over the code's rules (preferredProtocol = first requested id the peerstore lists; muxer = first entry in table order whose matcher accepts; re-registration moves an entry to the end; a lazy stream is negotiated at its first use or at its close). Covering walks over the complete printed graphs drive the real hosts through every transition: every request list of 1..3 ids against every table of the bound with every reachable knowledge (unknown, accurate, stale - stale produced for real by a dialer without identify push), with and without push, one and two open streams, both host implementations. After every step the harness compares Protocol() on both ends, which closure ran (identity, matcher, registration interval), the nonce echoed through exactly that invocation, ViewProtocol(id).Stat() of both resource managers against the live streams, and that nothing ran when no matcher accepted a requested id. The first bytes of a first use may also spell a multistream token: after a refused optimistic choice the listener then starts that id's handler although nothing was in common (modelled as the code behaves, property NoStray expected violated, reported as known finding payload-parsed-as-proposal).",
    "note": "Trusted: TLC, testing/synctest (synctest.Wait as 'everything the call caused has happened'), the in-memory transport of the harness (yamux over a byte pipe, identities asserted), go-multistream. Bounded as listed. Which acceptable id/handler wins, lazy vs negotiated path, opens that fail although a protocol is in common, the dialer's knowledge and the table order are L2 (model's rule) only. Interleavings inside one negotiation are covered by the seeded concurrent run, not exhaustively. Limited connections are not exercised here (C12).",
    "engines": [{"name": "C07_Negotiate", "path": "spec/C07_Negotiate.tla", "serves_properties": ["C07"], "kind_free_text": "TLA+ spec + TLC exhaustive + full-transition replay on two real hosts + concurrent run under L1 monitors"}],
}
