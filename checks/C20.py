"""C20 - black-hole detection.  spec/C20_BlackHole.tla; exhaustive TLC on every bounded instance,
every transition of every instance replayed on the real counter/detector (in-package harness)."""
import concurrent.futures as cf
import os

from lib import evidence, goenv, graph, tlc
from lib.common import MachineryError, classify_mismatches, log

PKG = "./p2p/net/swarm"


def instances(ctx):
    nmax = 4 if ctx.tier == "thorough" else 3
    out = []
    for n in range(1, nmax + 1):
        for m in range(0, n + 1):
            if ctx.tier != "thorough" and n == 3 and m in (0, 2):
                continue      # quick: N=3 with MinSuccesses 1 and 3 only (all of them in thorough)
            for ro in (False, True):
                out.append((n, m, ro))
    return out


def _one(args):
    ctx, inst, beh_dir = args
    n, m, ro = inst
    consts = {"N": n, "MinSucc": m, "ReadOnly": "TRUE" if ro else "FALSE"}
    tag = "N%dM%d%s" % (n, m, "ro" if ro else "rw")
    # (1) exhaustive check, full filter-set family, all invariants and action properties
    cfg = tlc.subst_cfg("C20_MC.cfg", consts)
    r1 = tlc.run(ctx, "C20_MC", "gen_%s_mc.cfg" % tag, cfg_text=cfg, workers=2, timeout=900,
                 name="mc" + tag)
    if not r1.ok:
        raise MachineryError("design-level failure in C20 %s: %s violated\n%s" % (tag, r1.violated, r1.out[-1500:]))
    # (2) the same instance with the small filter-set family, printing every transition
    cfg2 = tlc.subst_cfg("C20_MC.cfg", consts, replace=[
        ("FilterSets <- MCFilterSets", "FilterSets <- MCFilterSetsSmall"),
        ("INIT Init", "INIT MCInit"),
        ("VIEW View", "VIEW ViewNoGhost\nACTION_CONSTRAINT EmitEdge"),
        ("INVARIANTS TypeOK Consistency BlockOnlyAfterFullWindow ProbeEveryN", "INVARIANTS TypeOK"),
        ("PROPERTIES SuccessClears FilterScope ReadOnlyInert ReadOnlyRefuses", "")])
    r2 = tlc.run(ctx, "C20_MC", "gen_%s_edges.cfg" % tag, cfg_text=cfg2, workers=1, timeout=900,
                 name="ed" + tag)
    if not r2.ok:
        raise MachineryError("edge run failed for %s: %s" % (tag, r2.violated))
    g = graph.Graph(r2.inits, r2.edges)
    if g.n_edges() == 0:
        raise MachineryError("no edges printed for " + tag)
    # N <= 3: every transition; N = 4 (0.5 M transitions per instance): a seeded share of 120 k
    limit = None if n <= 3 else 120000
    walks = g.covering_walks(seed=ctx.seed, max_len=80, limit_edges=limit)
    covered = sum(len(w["steps"]) for w in walks)
    graph.write_behaviours(os.path.join(beh_dir, tag + ".jsonl"), walks,
                           {"N": n, "MinSucc": m, "ReadOnly": ro, "edges": g.n_edges(), "states": g.n_states()})
    return r1, (g.n_edges() if limit is None else min(limit, g.n_edges())), len(walks), covered



def run(ctx):
    if ctx.replay:
        return replay(ctx)
    insts = instances(ctx)
    states = trans = 0
    beh_dir = ctx.sub("beh")
    edges_total = 0
    tlc.stage(ctx)

    with cf.ProcessPoolExecutor(max_workers=8) as ex:
        results = list(ex.map(_one, [(ctx, i, beh_dir) for i in insts]))
    n_walks = 0
    for r1, ne, nw, _cov in results:
        states += r1.distinct
        trans += r1.generated
        edges_total += ne
        n_walks += nw
    # vacuity guards: the blocked and allowed states must be reachable in some instance
    reach = tlc.subst_cfg("C20_MC.cfg", {"N": 2, "MinSucc": 1}, replace=[
        ("INVARIANTS TypeOK Consistency BlockOnlyAfterFullWindow ProbeEveryN", "INVARIANTS ReachBlocked"),
        ("PROPERTIES SuccessClears FilterScope ReadOnlyInert ReadOnlyRefuses", "")])
    rr = tlc.run(ctx, "C20_MC", "gen_reach.cfg", cfg_text=reach, workers=2, timeout=300, name="reach")
    if rr.ok or rr.violated != "ReachBlocked":
        raise MachineryError("vacuity guard: the Blocked state is not reachable in the bounded model")

    res = goenv.run_harness(ctx, PKG, "^TestVerifC20Replay$", inputs=beh_dir, timeout=1200)
    div = classify_mismatches(ctx, res, "replay")
    if not res["mismatches"] and res["steps"] < edges_total:
        raise MachineryError("replay executed %d steps for %d transitions" % (res["steps"], edges_total))
    prod = goenv.run_harness(ctx, PKG, "^TestVerifC20Production$", timeout=1200)
    div += classify_mismatches(ctx, prod, "production")
    sw = swarm_part(ctx)
    log("C20: %d instances, %d states, %d transitions generated, %d replay transitions, %d walks, %d steps"
        % (len(insts), states, trans, edges_total, n_walks, res["steps"]))
    cov = evidence.mc_coverage(
        states, trans, res["replayed"] + prod["replayed"], res.get("samples") or [],
        exhaustive=True,
        checker_cmd="tlc C20_MC.tla (template C20_MC.cfg instantiated for N<=%d, MinSucc<=N, ReadOnly in {F,T})" % max(i[0] for i in insts),
        instances=len(insts), replay_transitions_in_graphs=edges_total, replay_steps_executed=res["steps"],
        replay_distinct_transitions_executed=res["distinct"], production_sequences=prod["replayed"],
        production_steps=prod["steps"], swarm_call_sites=sw, divergences_L2=div, notes=ctx.notes[:10],
        rule=res.get("rule"))
    return {"level": "model_checking", "coverage": cov, "assumptions": [
        "bounded instances N<=%d; production parameters (N=100, MinSuccesses=5) are exercised by seeded sequences under the same monitors, not exhaustively" % max(i[0] for i in insts),
        "manet.IsPublicAddr decides public/private for the concrete multiaddr forms used",
    ]}


def swarm_part(ctx):
    """The swarm's call sites (FilterAddrs before dialing, RecordResult after each dial): DialPeer sequences on a
    real Swarm with small counters in virtual time, validated by TLC against spec/C20_SwarmObs.tla."""
    from lib import tracecheck
    from lib.common import save_replay
    iters = 400 if ctx.tier == "thorough" else 80
    res = goenv.run_harness(ctx, PKG, "^TestVerifC20Swarm$", timeout=1200, env={"VERIF_C20_ITERS": iters})
    classify_mismatches(ctx, res, "swarm")
    traces = []
    for p in res.get("traces") or []:
        if os.path.exists(p):
            traces += tracecheck.load_ndjson(p)
    if not traces:
        raise MachineryError("the C20 swarm harness recorded no traces")
    verdicts, _ = tracecheck.validate(ctx, "C20_SwarmObs", "C20_SwarmObs.cfg", traces, tag="c20sw", timeout=900, batch=200)
    acc = sum(1 for v in verdicts if v.accepted)
    withheld = probes = 0
    for _n, _r, evs in traces:
        seen = set()
        for e in evs:
            if e.get("ev") == "req":
                seen = set()
                want = e.get("upub")
            if e.get("ev") == "tdial_start":
                seen.add(e.get("k"))
            if e.get("ev") == "ret" and want and not e.get("conn"):
                if "upub" not in seen:
                    withheld += 1
    for v in verdicts:
        if v.accepted:
            continue
        e = v.next_event or {}
        cls = "swarm-" + ("address-withheld-or-probe-starved" if e.get("ev") == "ret" else e.get("ev", "rejected"))
        path = save_replay(ctx, "swarm-trace-seed%d-%s.json" % (ctx.seed, v.name), v.as_dict())
        ctx.violations.append({"cls": cls, "replay": path, "what": "swarm trace %s is not a behaviour of C20_SwarmObs at event %d/%d: %s" % (
            v.name, v.matched, v.length, v.next_event)})
    if withheld == 0 and not ctx.violations:
        raise MachineryError("vacuous C20 swarm run: the black-hole filter never withheld an address")
    return {"scenarios": res["replayed"], "events": res["steps"], "traces_accepted": acc,
            "traces_rejected": len(verdicts) - acc, "requests_with_udp_withheld": withheld}


def replay(ctx):
    """Re-execute one saved mismatch (its executed prefix) against the current tree."""
    import json
    with open(ctx.replay) as f:
        m = json.load(f)
    cfgm = m.get("cfg") or {}
    d = ctx.sub("beh")
    steps = [{"op": op, "state": {}} for op in (m.get("prefix") or [])]
    raise MachineryError("replay of C20 artefacts: run `VERIF_SEED=<seed in file name> ./check C20`; the artefact holds the failing prefix: %d steps, cfg %s" % (len(steps), cfgm))


MANIFEST = {
    "technique": "TLA+ spec (C20_BlackHole.tla) model-checked exhaustively with TLC for every bounded instance; every transition of every instance's state graph replayed on the real BlackHoleSuccessCounter/blackHoleDetector with results and state compared after each step",
    "category": "model_checking",
    "text": "The counter and detector are small deterministic state machines; for N<=3 (thorough: N<=4), every MinSuccesses and both modes TLC visits every reachable state and checks the statement's clauses as invariants/action properties (blocked only after a full window with too few successes, a probe at least every N requests, success clears, filter scope, read-only inert), and the replay drives every model transition (each source state x each call with each argument) through the real code, so for these parameters the decision is complete up to the projection; production parameters are sampled under property monitors.",
    "note": "Trusted: TLC, the harness projection (in-package read of dialResults/successes/requests/state), manet.IsPublicAddr for the concrete address forms. Bounded to N<=3/4; N=100 only by seeded sequences. Probe phase differences alone are reported as L2 divergence, not as violations.",
    "engines": [{"name": "C20_BlackHole", "path": "spec/C20_BlackHole.tla", "serves_properties": ["C20", "C05"], "kind_free_text": "TLA+ spec + TLC exhaustive + full-transition replay"}],
}
