"""C13 - identify attributes what it learns only to the authenticated peer, within bounds.

spec/C13_Identify.tla: exhaustive TLC on bounded instances (statement clauses as invariants / action
properties, identify-wait release as liveness under fairness); every transition of the replay instances is
executed on the real idService (real pstoremem behind a recording decorator, stub host/network/conns,
real protobuf frames / envelopes / keys over in-memory streams, synctest bubble); every walk ends with a
lifetime probe in virtual time; plus a section-interleaving probe through the Connectedness gate."""
import collections
import concurrent.futures as cf
import os

from lib import evidence, goenv, graph, tlc
from lib.common import MachineryError, classify_mismatches, log

PKG = "./p2p/protocol/identify"


def _fast_unescape(s, _slow=tlc._unescape):
    return s.replace('\\"', '"') if "\\\\" not in s else _slow(s)


tlc._unescape = _fast_unescape

INV = "INVARIANTS TypeOK OnlyRemote KeyMatches Caps TTL EntriesGone"
PROPS = "PROPERTIES RecentCap KeepsConn RecordOnlyValid RejectedLate FailInert"


def S(*names):
    return "{" + ", ".join('"%s"' % n for n in names) + "}"


def inst(name, conns, rc1, rc2, msgset, psmaxprotos=4096, pushstall=("start", "mid")):
    return name, {"Conns": S(*conns), "RC1": '"%s"' % rc1, "RC2": '"%s"' % rc2, "MsgSet": '"%s"' % msgset,
                  "PsMaxProtos": psmaxprotos, "PushStallPoints": S(*pushstall)}


def replay_instances(ctx):
    out = [
        # two connections, address/record classes: lifetimes, both atomic sections in every order
        inst("addr2", ("c1", "c2"), "pub", "priv", "addr", pushstall=("mid",)),
        # one connection, every message field class (foreign keys, records, suffixes, > cap)
        inst("all1", ("c1",), "priv", "priv", "all"),
        # default peerstore protocol maximum (128 < identify's 1024), loopback remote (no address filter)
        inst("meta1", ("c1",), "lo", "lo", "meta", psmaxprotos=128),
    ]
    if ctx.tier == "thorough":
        out += [
            inst("addr2lo", ("c1", "c2"), "priv", "lo", "addr"),
            inst("mix2", ("c1", "c2"), "pub", "lo", "mix"),
        ]
    return out


def exhaustive_instances(ctx):
    out = [inst("addr3", ("c1", "c2", "c3"), "pub", "priv", "addr"), inst("all2", ("c1", "c2"), "pub", "priv", "all")]
    if ctx.tier == "thorough":
        out.append(inst("all2d", ("c1", "c2"), "lo", "pub", "all", psmaxprotos=128))
        out.append(inst("mix3", ("c1", "c2", "c3"), "priv", "pub", "mix"))
    return out


def _exhaustive(args):
    ctx, (name, consts), workers = args
    cfg = tlc.subst_cfg("C13_MC.cfg", consts)
    r = tlc.run(ctx, "C13_MC", "gen_%s_mc.cfg" % name, cfg_text=cfg, workers=workers, timeout=1500, name="mc" + name)
    if not r.ok:
        raise MachineryError("design-level failure in C13 %s: %s violated\n%s" % (name, r.violated, r.out[-2500:]))
    return name, r.distinct, r.generated, r.wall


def _liveness(ctx):
    """Every identify-wait is released: liveness under weak fairness of the timeout (no VIEW)."""
    name, consts = inst("live2", ("c1", "c2"), "pub", "priv", "one")
    cfg = tlc.subst_cfg("C13_MC.cfg", consts, replace=[
        ("INIT Init\nNEXT Next\nVIEW View", "SPECIFICATION FairSpec"), (INV, "INVARIANTS TypeOK"),
        (PROPS, "PROPERTIES WaitReleased")])
    r = tlc.run(ctx, "C13_MC", "gen_live.cfg", cfg_text=cfg, workers=1, timeout=900, name="live")
    if not r.ok:
        raise MachineryError("design-level failure in C13 liveness: %s violated\n%s" % (r.violated, r.out[-2500:]))
    # not vacuous: an identify in flight is reachable in this instance (probe expected to be violated)
    cfg2 = tlc.subst_cfg("C13_MC.cfg", consts, replace=[(INV, "INVARIANTS ReachRun"), (PROPS, "")])
    r2 = tlc.run(ctx, "C13_MC", "gen_live_reach.cfg", cfg_text=cfg2, workers=1, timeout=300, name="livereach")
    if r2.ok or r2.violated != "ReachRun":
        raise MachineryError("vacuity guard: no identify in flight is reachable in the liveness instance")
    return r.distinct, r.generated


def _reach(args):
    ctx, (name, consts), probe = args
    cfg = tlc.subst_cfg("C13_MC.cfg", consts, replace=[(INV, "INVARIANTS " + probe), (PROPS, "")])
    r = tlc.run(ctx, "C13_MC", "gen_%s_%s.cfg" % (name, probe), cfg_text=cfg, workers=1, timeout=600,
                name="reach" + name + probe)
    if r.ok or r.violated != probe:
        raise MachineryError("vacuity guard: %s is not reachable in %s" % (probe, name))
    return probe


def _edge_stats(g):
    st = collections.Counter()
    for sk, op, tk in g.edges:
        _s, t = g.states[sk], g.states[tk]
        n = op["name"]
        st[n] += 1
        if n in ("push", "done"):
            m = op["m"]
            st["consume_" + ("connected" if op["con"] else "unconnected")] += 1
            st["rec_" + m["rec"]] += 1
            st["key_" + m["key"]] += 1
            st["la_" + m["la"]] += 1
            if m["rec"] == "validR":
                st["ra_" + m["ra"]] += 1
            st["pr_" + m["pr"]] += 1
            if t["R"][1] == "some":
                st["consume_peerstore_cap"] += 1
            if n == "done" and t["c"][op["c"]][0] != "open":
                st["done_after_close"] += 1
        if n == "disconnected":
            st["disc_" + ("other_open" if op["con"] else "last")] += 1
            if not op["con"] and _s["R"][0] == "conn":
                st["disc_downgrade"] += 1
                if t["R"][1] == "some":
                    st["disc_recent_cap"] += 1
            if op["pending"]:
                st["disc_identify_in_flight"] += 1
        if n == "close" and op["evs"]:
            st["close_kills_identify"] += 1
        if n == "wait":
            st["wait_" + ("closed" if op["closed"] else "open")] += 1
        if n in ("fail", "pushfail"):
            st[n + "_" + op["why"]] += 1
        if n in ("timeout", "pushstall"):
            st[n + "_" + op["at"]] += 1
            if op["cs"]:
                st[n + "_ends_identify_in_flight"] += 1
            if n == "timeout" and any(_s["c"][c][0] != "open" for c in op["cs"]):
                st["timeout_on_closed_connection"] += 1
    return dict(st)


def _covering_walks(g, seed, max_len):
    """Every edge at least once, in O(E * depth): BFS-tree prefix to a state with uncovered out-edges (shallow
    states first), then uncovered edges greedily, one step of look-ahead when stuck.  (graph.covering_walks
    spends 17 s on the 75 k-edge graph of addr2 in its bounded BFS look-ahead and produces more steps.)
    Returns (walks, BFS parent map)."""
    import random
    rnd = random.Random(seed)
    parent = {}
    dq = collections.deque()
    for i in g.inits:
        parent[i] = None
        dq.append(i)
    order = []
    while dq:
        u = dq.popleft()
        order.append(u)
        for ei in g.out.get(u, ()):
            v = g.edges[ei][2]
            if v not in parent:
                parent[v] = (u, ei)
                dq.append(v)
    unc = {k: list(v) for k, v in g.out.items()}
    for k in sorted(unc):
        rnd.shuffle(unc[k])

    def path_to(u):
        p = []
        while parent[u] is not None:
            pu, pe = parent[u]
            p.append(pe)
            u = pu
        p.reverse()
        return u, p

    walks = []
    ncov = 0
    for u in order:
        while unc.get(u):
            start, walk = path_to(u)
            cur = u
            first = True
            while first or len(walk) < max_len:
                first = False
                lst = unc.get(cur)
                if lst:
                    ei = lst.pop()
                    ncov += 1
                else:
                    ei = next((e for e in g.out.get(cur, ()) if unc.get(g.edges[e][2])), None)
                    if ei is None:
                        break
                walk.append(ei)
                cur = g.edges[ei][2]
            walks.append(g._mk(start, walk))
    if ncov != g.n_edges():
        raise MachineryError("covering walks cover %d of %d edges" % (ncov, g.n_edges()))
    return walks, parent


def _replay_instance(args):
    ctx, (name, consts), beh_dir = args
    cfg = tlc.subst_cfg("C13_MC.cfg", consts, replace=[
        ("INIT Init", "INIT MCInit"), ("VIEW View", "VIEW View\nACTION_CONSTRAINT EmitEdge")])
    r = tlc.run(ctx, "C13_MC", "gen_%s_edges.cfg" % name, cfg_text=cfg, workers=1, timeout=1500, name="ed" + name)
    if not r.ok:
        raise MachineryError("design-level failure in C13 %s: %s violated\n%s" % (name, r.violated, r.out[-2500:]))
    conf = [o for t, o in r.prints if t == "VFCONF"]
    if not conf:
        raise MachineryError("no VFCONF line for " + name)
    g = graph.Graph(r.inits, r.edges)
    if g.n_edges() == 0:
        raise MachineryError("no edges printed for " + name)
    stats = _edge_stats(g)
    walks, parent = _covering_walks(g, ctx.seed, 40)
    # the lifetime probe at the end of a walk is destructive: add a shortest walk to every state that is not
    # yet the end of one, so that every model state is probed
    ends = set()
    for w in walks:
        ends.add(graph.key(w["steps"][-1]["state"]) if w["steps"] else graph.key(w["init"]))
    extra = 0
    for sk in sorted(parent):
        if sk in ends or parent[sk] is None:
            continue
        path = []
        u = sk
        while parent[u] is not None:
            pu, pe = parent[u]
            path.append(pe)
            u = pu
        path.reverse()
        walks.append(g._mk(u, path))
        extra += 1
    steps = sum(len(w["steps"]) for w in walks)
    graph.write_behaviours(os.path.join(beh_dir, name + ".jsonl"), walks,
                           {"name": name, "conf": conf[0], "edges": g.n_edges(), "states": g.n_states(),
                            "state_layout": "{R, F: [ttl class, exact|some, address tokens, count, must-have tokens, protocol tokens, key, agent/protocol version], c: {conn: [new|open|closed|done, Connected delivered, entry in idService.conns, identify in flight idle|run]}}"})
    return name, r.distinct, r.generated, g.n_edges(), len(walks), steps, stats, r.wall, g.n_states(), extra


def _sections(ctx):
    return goenv.run_harness(ctx, PKG, "^TestVerifC13Sections$", timeout=900)


def _hosts(ctx):
    return goenv.run_harness(ctx, "./p2p/protocol/identify", "^TestVerifC13Hosts$", timeout=1500)


CROSS_INV = "INVARIANTS TypeOK RecordOnlyOwn KeyMatches"
CROSS_PROPS = "PROPERTIES OnlyRemote HistoryFree"


def _cross_graph(args):
    """Cross-peer, history-aware part (spec/C13_Cross.tla): print the graph whose states carry which peer's
    record/key has been accepted from its owner (warm) or presented by somebody else (tried), covering walks."""
    ctx, name, peers, menu, beh_dir = args
    cfg = tlc.subst_cfg("C13_CrossMC.cfg", {"Peers": S(*peers), "Menu": '"%s"' % menu}, replace=[
        ("INIT Init", "INIT MCInit"), ("VIEW View", "VIEW View\nACTION_CONSTRAINT EmitEdge")])
    r = tlc.run(ctx, "C13_CrossMC", "gen_%s_edges.cfg" % name, cfg_text=cfg, workers=1, timeout=900, name="ed" + name)
    if not r.ok:
        raise MachineryError("design-level failure in C13_Cross %s: %s violated\n%s" % (name, r.violated, r.out[-2500:]))
    conf = [o for t, o in r.prints if t == "VFCONF"]
    g = graph.Graph(r.inits, r.edges)
    if g.n_edges() == 0 or not conf:
        raise MachineryError("no edges printed for " + name)
    st = collections.Counter()
    for _sk, op, _tk in g.edges:
        k = op["name"]
        if op["replay"] != "no":
            st["record_replay_%s_%s" % (op["replay"], k)] += 1
        if op["keyreplay"] != "no":
            st["key_replay_%s_%s" % (op["keyreplay"], k)] += 1
        if op["aftercold"]:
            st["own_record_after_foreign_presentation_" + k] += 1
        if op["m"]["la"] != op["x"] and op["m"]["rec"] == "none":
            st["foreign_listen_addr_" + k] += 1
    walks, _parent = _covering_walks(g, ctx.seed, 60)
    # a second, differently shuffled covering set: the same transitions after other histories
    walks += _covering_walks(g, ctx.seed + 7919, 60)[0]
    steps = sum(len(w["steps"]) for w in walks)
    graph.write_behaviours(os.path.join(beh_dir, name + ".jsonl"), walks,
                           {"name": name, "conf": conf[0], "edges": g.n_edges(), "states": g.n_states(),
                            "state_layout": "{k: stored key per peer, w: peers whose record was accepted from themselves, t: peers whose record or key was presented by another peer}"})
    return name, r.distinct, r.generated, g.n_edges(), len(walks), steps, dict(st), g.n_states()


def _cross_exhaustive(args):
    ctx, name, peers, menu = args
    cfg = tlc.subst_cfg("C13_CrossMC.cfg", {"Peers": S(*peers), "Menu": '"%s"' % menu})
    r = tlc.run(ctx, "C13_CrossMC", "gen_%s_mc.cfg" % name, cfg_text=cfg, workers=1, timeout=1500, name="mc" + name)
    if not r.ok:
        raise MachineryError("design-level failure in C13_Cross %s: %s violated\n%s" % (name, r.violated, r.out[-2500:]))
    cfg2 = tlc.subst_cfg("C13_CrossMC.cfg", {"Peers": S(*peers), "Menu": '"%s"' % menu},
                         replace=[(CROSS_INV, "INVARIANTS ReachWarmReplayable"), (CROSS_PROPS, "")])
    r2 = tlc.run(ctx, "C13_CrossMC", "gen_%s_reach.cfg" % name, cfg_text=cfg2, workers=1, timeout=300, name="rc" + name)
    if r2.ok or r2.violated != "ReachWarmReplayable":
        raise MachineryError("vacuity guard: no warm replay reachable in " + name)
    return name, r.distinct, r.generated, r.wall


def _cross_replay(ctx, beh_dir):
    return goenv.run_harness(ctx, PKG, "^TestVerifC13Cross$", inputs=beh_dir, timeout=1500)


def _replay(ctx, beh_dir):
    return goenv.run_harness(ctx, PKG, "^TestVerifC13Replay$", inputs=beh_dir, timeout=2400)


def run(ctx):
    if ctx.replay:
        raise MachineryError("C13 artefacts hold the failing prefix and the instance; re-run `VERIF_SEED=<seed in file name> ./check C13`")
    tlc.stage(ctx)
    beh_dir = ctx.sub("beh")
    xbeh_dir = ctx.sub("behx")
    thorough = ctx.tier == "thorough"
    xgraphs = [("cross3", ("V", "S", "W"), "lean")] + ([("cross3full", ("V", "S", "W"), "full")] if thorough else [])
    xexh = [("cross3full", ("V", "S", "W"), "full")] + ([("cross4", ("V", "S", "W", "U"), "lean")] if thorough else [])
    rinsts = replay_instances(ctx)
    einsts = exhaustive_instances(ctx)
    # <= 4 TLC workers at a time: pool A = two lanes of single-worker runs (the printing runs first, then
    # liveness, probes, the cross-peer exhaustive run), pool B = one lane of 2-worker exhaustive runs.  The Go
    # parts need no TLC worker: section probe / real hosts / cross-peer replay run in their own lane as soon as
    # their inputs exist; once every TLC job of this part is done the push part (checks/C13push.py, 4 TLC
    # workers of its own) starts in a thread, next to the big replay.
    with cf.ProcessPoolExecutor(max_workers=2) as pa, cf.ProcessPoolExecutor(max_workers=1) as pb, \
            cf.ProcessPoolExecutor(max_workers=1) as ps, cf.ProcessPoolExecutor(max_workers=1) as pg, \
            cf.ThreadPoolExecutor(max_workers=1) as tp:
        fs = ps.submit(_sections, ctx)
        fh = ps.submit(_hosts, ctx)
        fx = [pa.submit(_cross_graph, (ctx, n, pp, mn, xbeh_dir)) for n, pp, mn in xgraphs]
        fr = [pa.submit(_replay_instance, (ctx, i, beh_dir)) for i in rinsts]
        fe = [pb.submit(_exhaustive, (ctx, i, 2)) for i in einsts]
        fl = pa.submit(_liveness, ctx)
        fg = [pa.submit(_reach, (ctx, rinsts[0], probe)) for probe in ("ReachSome", "ReachRecentBig", "ReachDoneAfterDisc")]
        fxe = [pa.submit(_cross_exhaustive, (ctx, n, pp, mn)) for n, pp, mn in xexh]
        xres = [f.result() for f in fx]
        fxr = ps.submit(_cross_replay, ctx, xbeh_dir)
        rres = [f.result() for f in fr]
        log("C13: graphs and walks done at %.1fs" % ctx.wall())
        fp = pg.submit(_replay, ctx, beh_dir)
        live = fl.result()
        guards = [f.result() for f in fg]
        xeres = [f.result() for f in fxe]
        eres = [f.result() for f in fe]
        log("C13: exhaustive + liveness done at %.1fs" % ctx.wall())
        fpush = tp.submit(push_part, ctx, thorough)
        sections = fs.result()
        hosts = fh.result()
        cross = fxr.result()
        log("C13: section probe, real-host rounds, cross-peer replay done at %.1fs" % ctx.wall())
        res = fp.result()
        log("C13: replay done at %.1fs" % ctx.wall())
        push = fpush.result()
        log("C13: push part done at %.1fs" % ctx.wall())

    states = sum(r[1] for r in eres) + sum(r[1] for r in rres) + live[0]
    trans = sum(r[2] for r in eres) + sum(r[2] for r in rres) + live[1]
    edges_total = sum(r[3] for r in rres)
    n_walks = sum(r[4] for r in rres)
    tot = collections.Counter()
    for r in rres:
        tot.update(r[6])
    need = ["consume_connected", "consume_unconnected", "consume_peerstore_cap", "done_after_close", "disc_other_open",
            "disc_last", "disc_downgrade", "disc_recent_cap", "disc_identify_in_flight", "close_kills_identify",
            "wait_closed", "wait_open", "timeout", "connected", "la_fsuf", "la_big", "pr_big", "key_F", "key_garbage",
            "key_absent"]
    need += ["rec_" + k for k in ("absent", "validR", "byF", "forged", "pidF", "othertype", "domain", "type", "garbage", "badsig")]
    need += ["fail_" + k for k in ("reset", "na", "oversize", "toomany", "garbage")]
    need += ["pushfail_" + k for k in ("reset", "oversize", "toomany", "garbage")]
    need += ["timeout_" + k for k in ("neg0", "neg1", "neg2", "mid")] + ["pushstall_start", "pushstall_mid",
                                                                           "pushstall_ends_identify_in_flight"]
    need += ["la_" + k for k in ("suf1", "self1", "sufU", "dups", "bigd")]
    need += ["ra_" + k for k in ("fsuf", "suf1", "sufU", "dups", "bigd", "big")]
    for k in need:
        if not tot.get(k):
            raise MachineryError("vacuity guard: no replayed transition of kind %s" % k)

    div = classify_mismatches(ctx, sections, "sections")
    # cross-peer, history-aware part
    div += classify_mismatches(ctx, cross, "cross")
    xtot = collections.Counter()
    for r in xres:
        xtot.update(r[6])
    for k in ("record_replay_warm_push", "record_replay_warm_done", "record_replay_cold_push", "record_replay_cold_done",
              "key_replay_warm_push", "key_replay_warm_done", "key_replay_cold_push", "key_replay_cold_done",
              "own_record_after_foreign_presentation_push", "own_record_after_foreign_presentation_done",
              "foreign_listen_addr_push", "foreign_listen_addr_done"):
        if not xtot.get(k):
            raise MachineryError("vacuity guard: no cross-peer transition of kind %s" % k)
    xedges = sum(r[3] for r in xres)
    if not cross["mismatches"] and cross["distinct"] < xedges:
        raise MachineryError("cross-peer replay executed %d distinct transitions of %d" % (cross["distinct"], xedges))
    states += sum(r[1] for r in xres) + sum(r[1] for r in xeres)
    trans += sum(r[2] for r in xres) + sum(r[2] for r in xeres)
    log("C13: cross-peer part: exhaustive %s; replayed %s; %d steps" % (
        [(r[0], r[1], r[2]) for r in xeres], [(r[0], r[7], r[3], r[4]) for r in xres], cross["steps"]))
    div += classify_mismatches(ctx, hosts, "hosts")
    hx = hosts.get("extra") or {}
    if not hosts["mismatches"]:
        for k in ("hostile_message_consumed", "hostile_addresses_recorded_for_B", "fault_close-mid", "fault_silent"):
            if not hx.get(k):
                raise MachineryError("vacuity guard: real-host rounds never reached %s" % k)
    div += classify_mismatches(ctx, res, "replay")
    if not res["mismatches"] and res["distinct"] < edges_total:
        raise MachineryError("replay executed %d distinct transitions of %d" % (res["distinct"], edges_total))
    modes = (res.get("extra") or {}).get("chunk_modes") or {}
    if not res["mismatches"]:
        for k in ("one", "split", "dup", "nine", "probe_settled", "probe_as_is", "lax_keybook_walks", "limited_conn_walks",
                  "probe_addresses_must_vanish", "probe_addresses_must_survive"):
            if not modes.get(k):
                raise MachineryError("vacuity guard: harness variant %s never exercised" % k)
    log("C13: exhaustive %s; liveness %s; replay %s; %d replay transitions, %d walks, %d steps; sections %d scenarios; real-host rounds %d; L2 divergences %d; guards %s"
        % ([(r[0], r[1], r[2], r[3]) for r in eres], live, [(r[0], r[8], r[3], r[4], r[7]) for r in rres],
           edges_total, n_walks, res["steps"], sections["replayed"], hosts["replayed"], div, guards))
    cov = evidence.mc_coverage(
        states + push.get("states", 0), trans + push.get("transitions", 0),
        res["replayed"] + sections["replayed"] + hosts["replayed"] + cross["replayed"] + push.get("replayed", 0), res.get("samples") or [], exhaustive=True,
        checker_cmd="tlc C13_MC.tla (template C13_MC.cfg instantiated: exhaustive %s + liveness live2; printed+replayed %s)" % (
            ",".join(r[0] for r in eres), ",".join(r[0] for r in rres)),
        instances=len(eres) + len(rres) + 1,
        exhaustive_only={r[0]: {"states": r[1], "transitions": r[2]} for r in eres},
        liveness={"states": live[0], "transitions": live[1], "property": "WaitReleased under WF(Timeout)"},
        replay_instances={r[0]: {"states": r[8], "transitions": r[3], "walks": r[4], "walks_added_for_end_state_probe": r[9]} for r in rres},
        replay_transitions_in_graphs=edges_total, replay_steps_executed=res["steps"],
        replay_distinct_transitions_executed=res["distinct"], replay_transition_kinds=dict(tot),
        harness_variants=modes, section_scenarios=sections["replayed"], section_extra=sections.get("extra"),
        real_host_rounds=hosts["replayed"], real_host_extra=hx, real_host_rule=hosts.get("rule"),
        divergences_L2=div, notes=ctx.notes[:10], rule=res.get("rule"), sections_rule=sections.get("rule"),
        cross_peer={"spec": "spec/C13_Cross.tla", "exhaustive": {r[0]: {"states": r[1], "transitions": r[2]} for r in xeres},
                    "replayed": {r[0]: {"states": r[7], "transitions": r[3], "walks": r[4], "steps": r[5]} for r in xres},
                    "transition_kinds": dict(xtot), "steps_executed": cross["steps"],
                    "distinct_transitions_executed": cross["distinct"], "rule": cross.get("rule"),
                    "harness_variants": (cross.get("extra") or {}).get("chunk_modes")},
        push={k: v for k, v in push.items() if k != "samples"})
    return {"level": "model_checking", "coverage": cov, "assumptions": [
        "two peers (the remote R of every connection, a foreign F that is never connected), <=2 connections replayed (3 exhaustively), each opened and closed once",
        "cross-peer part (C13_Cross): 3 authenticated peers (4 exhaustively in the thorough tier), one connection each at a time; a peer's message is made of its own blobs or byte-for-byte copies of another peer's signed record / public key / listen address, before and after the owner had them accepted (history in the model state), as response and as push; effects are those of a peer with an open connection (lifetimes are the business of C13_Identify)",
        "message space = field classes (protocols none/few/with push/>cap; listen addrs none/own/with /p2p/F and /p2p/R suffix/>cap; key absent/R/F/garbage; signed record absent/valid/F's own/forged for R by F/PeerID F by R/other registered type/wrong domain/unregistered type/garbage/bad signature; agent+protocol version absent/two values), one field at a time around a benign base plus four fully hostile combinations; the chunking (1 frame, split, duplicated, 9 frames) is drawn per step from the seed",
        "the swarm is a stub: Connectedness is computed from the harness's connection set, the Connected notification precedes Disconnected for a connection, Disconnected only after the connection left the set",
        "consumeMessage is one atomic step (its address section under addrMu; protocols/metadata/key writes commute with Disconnected); the harness checks at every Connectedness read and address write that addrMu is held and a separate probe runs the racing section inside whenever it is not",
        "peerstore = pstoremem (default and raised protocol maximum) behind a recording decorator; one walk in three uses a key book that stores whatever it is given (the KeyBook interface promises no check), so identify's own comparison is what is observed",
        "lifetime classes between steps come from the TTL arguments recorded by the decorator (L2); the L1 lifetime clauses are decided by expiry in virtual time at the end of every walk (every model state is the end of a walk)",
    ]}


def push_part(ctx, thorough):
    """The sender side (identify push / snapshot) lives in checks/C13push.py."""
    import importlib
    try:
        mod = importlib.import_module("checks.C13push")
    except ImportError:
        return {"summary": "not built"}
    return mod.run_part(ctx, thorough)


MANIFEST = {
    "technique": "TLA+ spec (C13_Identify.tla) of what identify writes to the peerstore, for whom and with which lifetime, and of the identify-wait life cycle; exhaustive TLC on bounded instances (safety clauses as invariants/action properties, wait release as liveness under fairness of the timeout); every transition of the replay instances executed on the real idService (real pstoremem behind a recording decorator, stub host/network/connections, real protobuf frames, keys and signed envelopes over in-memory streams through multistream negotiation, handleIdentifyResponse and handlePush, inside a synctest bubble) with the whole peerstore compared after every step and lifetimes probed by expiry in virtual time at the end of every walk",
    "category": "model_checking",
    "text": "The spec has one action per critical section or public call (swarm open/close, Connected, Disconnected with its address section under addrMu, IdentifyWait, identify response consumed / failed / timed out, push consumed / failed); messages are records of field classes; lists are token sequences with weights so the real caps (500, 20, 1024; pstoremem 64, 128) are used unscaled. TLC checks on every reachable state that F's entry never changes, a stored key is the peer's, retained numbers are capped, the connected lifetime exists only while a connection (or its pending Disconnected) does, a record contributes only if valid for and signed by R, failures change nothing, and that every wait is released. The replay drives every (state, action, argument) of the printed graphs through the real code; L1 monitors are computed from observables only (peerstore contents of every peer, events, wait channels, expiry in virtual time).",
    "note": "Trusted: TLC, the stub swarm (ordering of notifications as the real swarm guarantees), the recording decorator, testing/synctest. The exact retained sets where the peerstore evicts by its own choice are compared by count and universe only. Concurrency inside consumeMessage beyond the addrMu section is not interleaved (the writes commute with Disconnected); the lock discipline is checked at every Connectedness read / address write and a gate probe exercises the interleaving whenever the lock is not held. Lifetime classes between steps are L2 (recorded TTL arguments); PushSupport bookkeeping and the observed address are not modelled.",
    "engines": [{"name": "C13_Identify", "path": "spec/C13_Identify.tla", "serves_properties": ["C13"], "kind_free_text": "TLA+ spec + TLC exhaustive (safety + liveness) + full-transition replay + lifetime probing in virtual time + section gate probe"},
                {"name": "C13_Cross", "path": "spec/C13_Cross.tla", "serves_properties": ["C13"],
                 "kind_free_text": "TLA+ spec of several authenticated peers whose messages are made of own blobs or byte-for-byte copies of other peers' signed records / keys / listen addresses, with the acceptance history (warm / presented by a non-owner) in the state + TLC exhaustive + full-transition replay on the real idService with one stub connection per peer, all peers' peerstore entries read before and after every step"},
                {"name": "C13_Push", "path": "spec/C13_Push.tla", "serves_properties": ["C13"],
                 "kind_free_text": "extension engine: TLA+ spec of the identify push / snapshot side + TLC exhaustive (safety, convergence as liveness) + full-transition replay through gates on the real idService + TLC validation of gate-free concurrent runs against the observable-level spec C13_PushObs.tla"}],
}
