"""C15 - event bus.  spec/C15_EventBus.tla (exhaustive on bounded instances: safety + deadlock freedom),
seeded concurrent workloads on the real bus decided by observable (L1) monitors, and TLC validation of
the recorded hook+observable traces against spec/C15_Trace.tla (L2 + every invariant at every step)."""
import os

from lib import evidence, goenv, tlc, tracecheck
import re

from lib.common import HarnessCrash, MachineryError, classify_mismatches, log, save_replay

PKG = "./p2p/host/eventbus"
INVS = "NoPanic Order ExactlyOnce OnlyAsked StatefulFirst ClosedDetached LocksSane"


def run(ctx):
    thorough = ctx.tier == "thorough"
    tlc.stage(ctx)
    # (1) design level: exhaustive TLC with deadlock checking on
    states = trans = 0
    insts = ["A", "B", "C"] if thorough else ["BQ"]
    mc = []
    for x in insts:
        cfg = tlc.subst_cfg("C15_MC.cfg", replace=[("X_", x + "_")])
        r = tlc.run(ctx, "C15_MC", "gen_%s.cfg" % x, cfg_text=cfg, workers=6, timeout=1500, name="mc" + x)
        if not r.ok:
            raise MachineryError("design-level failure in C15 instance %s: %s\n%s" % (x, r.violated, r.out[-2000:]))
        states += r.distinct
        trans += r.generated
        mc.append({"instance": x, "distinct": r.distinct, "generated": r.generated, "depth": r.depth, "wall_s": r.wall})
    # known finding (design level): in instance D TLC must find the deadlock, and must not in DS
    cfgd = tlc.subst_cfg("C15_MC.cfg", replace=[("X_", "D_")])
    rd = tlc.run(ctx, "C15_MC", "gen_D.cfg", cfg_text=cfgd, workers=4, timeout=600, name="mcD")
    design_deadlock = (not rd.ok and rd.violated == "Deadlock")
    if not rd.ok and rd.violated != "Deadlock":
        raise MachineryError("instance D: unexpected failure %s" % rd.violated)
    cfgd = tlc.subst_cfg("C15_MC.cfg", replace=[("X_", "DS_")])
    rds = tlc.run(ctx, "C15_MC", "gen_DS.cfg", cfg_text=cfgd, workers=4, timeout=600, name="mcDS")
    if not rds.ok:
        raise MachineryError("instance DS must be deadlock free: %s" % rds.violated)
    states += rds.distinct
    trans += rds.generated
    mc.append({"instance": "D (deadlock expected: known finding)", "deadlock_found": design_deadlock, "distinct": rd.distinct})
    mc.append({"instance": "DS", "distinct": rds.distinct, "generated": rds.generated})
    # node drop / re-creation with an emitter created late (instances L, L2): the real tryDropNode (re-check under
    # both locks) leaves no subscriber behind; the design variant that trusts its caller's earlier check must fail
    for x in (["L", "L2"] if thorough else ["L"]):
        cfg = tlc.subst_cfg("C15_MC.cfg", replace=[("X_", x + "_"), ("INVARIANTS " + INVS, "INVARIANTS " + INVS + " NoOrphan")])
        r = tlc.run(ctx, "C15_MC", "gen_%s.cfg" % x, cfg_text=cfg, workers=4, timeout=900, name="mc" + x)
        if not r.ok:
            raise MachineryError("design-level failure in C15 instance %s: %s\n%s" % (x, r.violated, r.out[-2000:]))
        states += r.distinct
        trans += r.generated
        mc.append({"instance": x + " (late emitter)", "distinct": r.distinct, "generated": r.generated})
    cfg = tlc.subst_cfg("C15_MC.cfg", replace=[("X_", "L_"), ("DropTrustsCaller = FALSE", "DropTrustsCaller = TRUE")])
    r = tlc.run(ctx, "C15_MC", "gen_Lq.cfg", cfg_text=cfg, workers=2, timeout=600, name="mcLq")
    if r.ok or r.violated != "ExactlyOnce":
        raise MachineryError("the design variant DropTrustsCaller must violate ExactlyOnce in instance L (got %s)" % r.violated)
    mc.append({"instance": "L with DropTrustsCaller (ExactlyOnce must fail)", "violated": r.violated, "distinct": r.distinct})
    # vacuity: retained events and full channels are reachable
    for probe in ("ReachRetained", "ReachFullChan", "ReachTerminated"):
        cfg = tlc.subst_cfg("C15_MC.cfg", replace=[("X_", "BQ_"), ("INVARIANTS " + INVS, "INVARIANTS " + probe)])
        r = tlc.run(ctx, "C15_MC", "gen_probe.cfg", cfg_text=cfg, workers=4, timeout=600, name="probe")
        if r.ok or r.violated != probe:
            raise MachineryError("vacuity guard %s not reachable in the bounded model" % probe)
    if thorough:
        # liveness: every run terminates under weak fairness (no state constraint)
        cfg = tlc.subst_cfg("C15_MC.cfg", replace=[("X_", "BQ_"), ("SPECIFICATION Spec", "SPECIFICATION FairSpec"),
                                                   ("INVARIANTS " + INVS, "PROPERTIES Termination")])
        r = tlc.run(ctx, "C15_MC", "gen_live.cfg", cfg_text=cfg, workers=6, timeout=2400, name="live")
        if not r.ok:
            raise MachineryError("liveness (Termination) failed on the bounded model: %s" % r.violated)
        mc.append({"instance": "BQ-liveness", "distinct": r.distinct, "generated": r.generated, "wall_s": r.wall})

    # (2) real bus: seeded concurrent scenarios, L1 monitors, traces recorded
    iters = 4000 if thorough else 400
    ntr = 600 if thorough else 80
    try:
        res = goenv.run_harness(ctx, PKG, "^TestVerifC15Stress$", timeout=1500,
                                env={"VERIF_C15_ITERS": iters, "VERIF_C15_TRACES": ntr})
    except HarnessCrash as e:
        res = crash_verdict(ctx, e, iters)
    stalls = [m for m in res["mismatches"] if m["class"] == "stall"]
    if stalls:
        # a stall is a violation only if it reproduces with the same seed
        res2 = goenv.run_harness(ctx, PKG, "^TestVerifC15Stress$", timeout=1500,
                                 env={"VERIF_C15_ITERS": iters, "VERIF_C15_TRACES": 0})
        if not [m for m in res2["mismatches"] if m["class"] == "stall"]:
            raise MachineryError("a scenario stalled once and did not stall again with the same seed (inconclusive)")
    div = classify_mismatches(ctx, res, "stress")
    # (2b) TLC's deadlock counterexample of instance D driven into the real bus with hook gates
    dl = goenv.run_harness(ctx, PKG, "^TestVerifC15SubscribeDeadlock$", timeout=300)
    div += classify_mismatches(ctx, dl, "deadlock")
    cc = goenv.run_harness(ctx, PKG, "^TestVerifC15CloseUnderContention$", timeout=300)
    div += classify_mismatches(ctx, cc, "close-contention")
    # (2c) the last subscriber of an emitter-less type closes while another Subscribe is in flight
    lc = goenv.run_harness(ctx, PKG, "^TestVerifC15SubscribeVsLastClose$", timeout=300)
    div += classify_mismatches(ctx, lc, "subscribe-vs-last-close")
    # (2d) a wildcard Subscribe (announced, not yet attached) overlapped by the Close of another wildcard subscription
    wj = goenv.run_harness(ctx, PKG, "^TestVerifC15WildcardJoinVsLeave$", timeout=300)
    div += classify_mismatches(ctx, wj, "wildcard-join-vs-leave")
    if design_deadlock and not dl["mismatches"]:
        ctx.notes.append("instance D deadlocks in the model but the real bus did not reproduce it in 5 gated attempts")

    # (3) TLC validates the recorded traces
    traces = []
    for p in res.get("traces") or []:
        if os.path.exists(p):
            traces += tracecheck.load_ndjson(p)
    if not traces and not ctx.violations:
        raise MachineryError("the harness recorded no traces")
    verdicts, tstates = ([], 0) if not traces else tracecheck.validate(ctx, "C15_Trace", "C15_Trace.cfg", traces, tag="c15", timeout=900, batch=150)
    accepted = sum(1 for v in verdicts if v.accepted)
    rejected = [v for v in verdicts if not v.accepted]
    l1_classes = {m["class"] for m in res["mismatches"] if not m["class"].startswith("L2:")}
    for v in rejected:
        # an L2 rejection is a violation only together with an L1 failure (already classified above)
        div += 1
        ctx.notes.append("trace %s rejected by C15_Trace at event %d/%d (%s)%s" % (
            v.name, v.matched, v.length, v.next_event, " invariant " + v.invariant if v.invariant else ""))
        save_replay(ctx, "trace-rejected-seed%d-%s.json" % (ctx.seed, v.name), v.as_dict())
    if rejected and not l1_classes:
        log("C15: %d trace(s) diverge from the model without any observable (L1) failure: DIVERGENCE" % len(rejected))
    log("C15: MC %d states; %d scenarios, %d events; traces %d accepted / %d rejected"
        % (states, res["replayed"], res["steps"], accepted, len(rejected)))
    cov = evidence.mc_coverage(
        states, trans, accepted, res.get("samples") or [], exhaustive=True,
        checker_cmd="tlc C15_MC.tla (instances %s, deadlock check on); tlc C15_Trace.tla on recorded traces" % ",".join(insts),
        mc_instances=mc, deadlock_counterexample_attempts=dl["replayed"], close_contention_scenarios=cc["replayed"], scenarios_run=res["replayed"], events_recorded=res["steps"],
        distinct_scenarios_with_delivery=res["distinct"], traces_recorded=len(traces), traces_accepted=accepted,
        traces_rejected=len(rejected), trace_states=tstates, divergences_L2=div, notes=ctx.notes[:10], rule=res.get("rule"))
    return {"level": "model_checking", "coverage": cov, "assumptions": [
        "bounded instances (2 emitters, <=2 events each, <=2 typed + <=2 wildcard subscribers, capacity 1); rendezvous (capacity 0) channels are exercised on the real bus only",
        "hook events are emitted under the lock they describe, or before the channel operation they announce (p2p/host/eventbus/verif_hook_on.go)",
        "a subscriber that calls Close may lose buffered events to the bus's own drain goroutine; completeness is demanded for subscribers that outlive the emitters",
    ]}


def crash_verdict(ctx, e, iters):
    """The test process died.  A Go panic raised inside the bus's own goroutines (send on a closed
    channel, ...) cannot be recovered by the harness; it is a violation if it happens again."""
    pat = re.compile(r"^panic: (.*)$", re.M)
    m = pat.search(e.log)
    in_bus = "p2p/host/eventbus/basic.go" in e.log
    if not (m and in_bus):
        raise e
    try:
        goenv.run_harness(ctx, PKG, "^TestVerifC15Stress$", timeout=1500,
                          env={"VERIF_C15_ITERS": iters, "VERIF_C15_TRACES": 0})
    except HarnessCrash as e2:
        m2 = pat.search(e2.log)
        if m2 and "p2p/host/eventbus/basic.go" in e2.log:
            what = "the bus panicked in one of its own goroutines: %s" % m2.group(1)
            return {"replayed": 1, "steps": 0, "distinct": 0, "samples": [], "traces": [],
                    "mismatches": [{"class": "panic", "what": what, "got": e2.log[-3000:], "walk": -1, "step": -1}]}
        raise e2
    raise MachineryError("the harness process panicked once (%s) and not again with the same seed (inconclusive)" % m.group(1))


MANIFEST = {
    "technique": "TLA+ spec of the bus at critical-section grain, exhaustive TLC (safety invariants + deadlock freedom, liveness under fairness in thorough); seeded concurrent workloads on the real bus with hook-point schedule perturbation decided by observable monitors; TLC trace validation of the recorded executions against C15_Trace.tla with every invariant evaluated at every step",
    "category": "model_checking",
    "text": "The bus is a small lock-and-channel protocol whose failures need specific interleavings (close vs emit, subscribe vs emit with a retained event, wildcard RWMutex vs slow reader). TLC explores all interleavings of bounded instances for exactly-once/in-order delivery, retained-event-first, no send on a closed channel and absence of deadlock; the binding validates hundreds of real concurrent executions, event by event, against the same actions, so an implementation whose critical sections are ordered differently is rejected even when the race did not manifest, and observable monitors turn manifested races into violations.",
    "note": "Violations come only from observable monitors on the real bus (panic, duplicate, reorder, loss while live, completeness at quiescence, retained-first, reproducible stall). A trace rejected by TLC without an observable failure is reported as DIVERGENCE (exit 0). Hooks: p2p/host/eventbus/verif_hook_on.go (tag verif). Bounded model; real runs sample schedules.",
    "engines": [{"name": "C15_EventBus", "path": "spec/C15_EventBus.tla", "serves_properties": ["C15"], "kind_free_text": "TLA+ spec + TLC exhaustive + trace validation (C15_Trace.tla)"}],
}
