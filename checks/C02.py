"""C02 - secured connections and streams deliver bytes intact, in order, once.

spec/C02_Channel.tla (the Noise reader/writer state machines: three read paths, chunking, nonce
discipline, single wire faults) model-checked exhaustively; every transition of the replay instances
executed on real Noise session pairs over a frame-aware man-in-the-middle pipe at real lengths chosen by
a boundary-class scale map, the same behaviours on libp2p-TLS connections (L1 only); the layer instances
C02_Psk / C02_Sampled / C02_Mux / C02_LazyMS likewise model-checked and replayed on pskConn,
wrappedSampledConn, yamux sessions (plain, over Noise, over TLS) and BasicHost streams (optimistic
multistream path).  Verdicts come only from the L1 ledger: the bytes returned by Read are a prefix of
the bytes accepted by Write (equal at the end of a fault-free run), no error on an untouched channel,
and on an authenticated channel nothing beyond a tampered position is delivered before an error."""
import concurrent.futures as cf
import os

from lib import evidence, goenv, graph, tlc
from lib.common import HarnessCrash, MachineryError, classify_mismatches, log


def _fast_unescape(s, _slow=tlc._unescape):
    return s.replace('\\"', '"') if "\\\\" not in s else _slow(s)


tlc._unescape = _fast_unescape

ALL_FAULTS = '{"flip", "fliplen", "drop", "dup", "swap", "cut", "cuteof", "trunc"}'
CH_INV = "INVARIANTS TypeOK Prefix Complete Conservation Nonces ErrNoLater NeverPast"
CH_PROPS = "PROPERTIES ErrDeliversNothing ReadCount PathGuard"


def S(xs):
    return "{" + ", ".join(str(x) for x in xs) + "}"


# ------------------------------------------------------------------------------------------------
# instances

def chan_exhaustive(ctx):
    """Exhaustive-only instance of the Noise channel (not printed)."""
    n = 10 if ctx.tier == "thorough" else 8
    return "chan-x", {"Tag": 2, "MaxPT": 3, "MaxSent": n, "MaxWrite": n, "Bufs": S(range(1, 7)),
                      "Shorts": S([0, 1, 2]), "Faults": ALL_FAULTS, "MaxFaults": 1}


def chan_replay(ctx):
    """Instances whose whole graph is printed and replayed."""
    out = [
        # three-unit frames: short / nearly full / full last frames, up to 2 full frames per write
        ("chan_a", {"Tag": 2, "MaxPT": 3, "MaxSent": 6, "MaxWrite": 6, "Bufs": S(range(1, 7)),
                    "Shorts": S([0, 1, 2]), "Faults": ALL_FAULTS, "MaxFaults": 1}),
        # two-unit frames: payloads of more than three frames (3 * MaxPT + 1), zero-length reads
        ("chan_b", {"Tag": 2, "MaxPT": 2, "MaxSent": 7, "MaxWrite": 7, "Bufs": S([0, 1, 2, 4, 5]),
                    "Shorts": S([0, 2]), "Faults": '{"flip", "drop", "dup", "swap"}', "MaxFaults": 1}),
    ]
    return out


LAYERS = {
    # name: (MC module, cfg template, quick consts, thorough consts, deadlock checking)
    "psk": ("C02_MCPsk", "C02_MCPsk.cfg",
            {"NonceLen": 2, "MaxSent": 6, "MaxWrite": 3, "Bufs": S([0, 1, 2, 3, 4]), "Shorts": S([0, 1, 2])},
            {"NonceLen": 2, "MaxSent": 8, "MaxWrite": 4, "Bufs": S([0, 1, 2, 3, 4, 5]), "Shorts": S([0, 1, 2])}),
    "sampled": ("C02_MCSampled", "C02_MCSampled.cfg",
                {"PeekSize": 3, "MaxSent": 6, "MaxWrite": 4, "Bufs": S([0, 1, 2, 3, 4]), "Shorts": S([0, 1, 2])},
                {"PeekSize": 3, "MaxSent": 8, "MaxWrite": 5, "Bufs": S([0, 1, 2, 3, 4, 5]), "Shorts": S([0, 1, 2])}),
    "mux": ("C02_MCMux", "C02_MCMux.cfg",
            {"Streams": S([1, 2]), "MaxSent": 2, "MaxWrite": 2, "MaxMsg": 1, "MaxTotal": 2, "Bufs": S([1, 2])},
            {"Streams": S([1, 2]), "MaxSent": 2, "MaxWrite": 2, "MaxMsg": 1, "MaxTotal": 3, "Bufs": S([1, 2])}),
    "lazy": ("C02_MCLazyMS", "C02_MCLazyMS.cfg",
             {"MaxSent": 2, "MaxWrite": 2, "Bufs": S([1, 2])},
             {"MaxSent": 3, "MaxWrite": 2, "Bufs": S([1, 2])}),
}
MUX_EXHAUSTIVE = {"Streams": S([1, 2]), "MaxSent": 2, "MaxWrite": 2, "MaxMsg": 1, "MaxTotal": 4, "Bufs": S([1, 2])}


# ------------------------------------------------------------------------------------------------
# TLC jobs (each runs in a worker process; at most 4 TLC workers at any time overall)

def _exhaustive(args):
    ctx, module, template, name, consts, workers, deadlock = args
    cfg = tlc.subst_cfg(template, consts)
    r = tlc.run(ctx, module, "gen_%s_mc.cfg" % name, cfg_text=cfg, workers=workers, timeout=1500, name="mc" + name,
                deadlock=deadlock)
    if not r.ok:
        raise MachineryError("design-level failure in C02 %s: %s violated\n%s" % (name, r.violated, r.out[-2500:]))
    return name, r.distinct, r.generated, r.wall


def _graph(args):
    """One TLC run with all invariants AND every transition printed; covering walks written to beh_dir."""
    ctx, module, template, name, consts, beh_dir, max_len, deadlock, limit = args
    cfg = tlc.subst_cfg(template, consts, replace=[
        ("INIT Init", "INIT MCInit"), ("VIEW View", "VIEW View\nACTION_CONSTRAINT EmitEdge")])
    r = tlc.run(ctx, module, "gen_%s_edges.cfg" % name, cfg_text=cfg, workers=1, timeout=1500, name="ed" + name,
                deadlock=deadlock)
    if not r.ok:
        raise MachineryError("design-level failure in C02 %s: %s violated\n%s" % (name, r.violated, r.out[-2500:]))
    conf = [o for t, o in r.prints if t == "VFCONF"]
    if not conf:
        raise MachineryError("no VFCONF line for " + name)
    g = graph.Graph(r.inits, r.edges)
    if g.n_edges() == 0:
        raise MachineryError("no edges printed for " + name)
    stats = _edge_stats(g)
    walks = g.covering_walks(seed=ctx.seed, max_len=max_len, limit_edges=limit)
    steps = sum(len(w["steps"]) for w in walks)
    graph.write_behaviours(os.path.join(beh_dir, name + ".jsonl"), walks,
                           {"name": name, "conf": conf[0], "edges": g.n_edges(), "states": g.n_states()})
    return name, r.distinct, r.generated, g.n_edges(), len(walks), steps, stats, r.wall


def _edge_stats(g):
    """Kinds of transitions present in a printed graph (vacuity guards are counted on these)."""
    st = {}

    def inc(k):
        st[k] = st.get(k, 0) + 1
    for sk, op, tk in g.edges:
        n = op["name"]
        inc("op:" + n)
        if n == "read" and "path" in op:
            inc("path:" + op["path"])
            inc("rel:" + op["rel"])
            if op["err"]:
                inc("read-error")
            t = g.states[tk]
            s = g.states[sk]
            if isinstance(t, list) and len(t) == 14:
                if t[5] and t[6] == t[7]:
                    inc("quirk-queue-kept-empty")
                if t[5] and 0 < t[7] < t[6]:
                    inc("queue-partial")
                if s[10] and op["n"] > 0:
                    inc("delivery-after-error")
        if n == "fault":
            inc("fault:" + op["kind"])
        if n == "write" and "frames" in op:
            inc("write-frames:%d" % min(len(op["frames"]), 4))
        if n in ("read", "creadend", "sread") and op.get("halfclosed") and op.get("n", 0) > 0:
            inc("read-after-own-closewrite")
        if n in ("read", "creadend", "sread") and op.get("eof"):
            inc("eof")
        if n == "read" and op.get("from") == "peeked" and op.get("b", 9) < 3:
            inc("peeked-short-buffer")
        if n == "write" and op.get("nonce") is False:
            inc("psk-second-write")
        if n in ("cwrite", "creadbegin", "cclosewrite") and op.get("first"):
            inc("lazy-flush-by:" + n)
    return st


CHAN_NEED = ["path:queued", "path:inplace", "path:pooled", "path:end", "rel:lt", "rel:eq", "rel:gt", "rel:lt_pt",
             "rel:eq_pt", "rel:mid", "rel:eq_len", "rel:gt_len", "read-error", "quirk-queue-kept-empty",
             "queue-partial", "delivery-after-error", "write-frames:2", "op:short"] + \
            ["fault:" + k for k in ("flip", "fliplen", "drop", "dup", "swap", "cut", "cuteof", "trunc")]
LAYER_NEED = {
    "psk": ["op:write", "op:read", "op:short", "psk-second-write"],
    "sampled": ["op:peek", "op:send", "op:close", "peeked-short-buffer", "eof"],
    "mux": ["op:open", "op:write", "op:closewrite", "op:read", "read-after-own-closewrite", "eof"],
    "lazy": ["lazy-flush-by:cwrite", "lazy-flush-by:creadbegin", "lazy-flush-by:cclosewrite", "op:swrite", "op:sread",
             "read-after-own-closewrite", "eof"],
}


def _need(stats, keys, where):
    miss = [k for k in keys if not stats.get(k)]
    if miss:
        raise MachineryError("vacuous replay graph %s: no transition of kind %s" % (where, miss))


# ------------------------------------------------------------------------------------------------
# harness jobs

HARNESSES = {
    # key: (package, test, behaviour files it needs)
    "noise": ("./p2p/security/noise", "^TestVerifC02Noise$"),
    "tls": ("./p2p/security/tls", "^TestVerifC02TLS$"),
    "psk": ("./p2p/net/pnet", "^TestVerifC02Psk$"),
    "sampled": ("./p2p/transport/tcpreuse/internal/sampledconn", "^TestVerifC02Sampled$"),
    "mux": ("./p2p/muxer/yamux", "^TestVerifC02Mux$"),
    "lazy": ("./p2p/host/basic", "^TestVerifC02LazyMS$"),
}


def _harness(args):
    ctx, key, beh_dir, env = args
    pkg, test = HARNESSES[key]
    try:
        res = goenv.run_harness(ctx, pkg, test, inputs=beh_dir, env=env, timeout=1500)
    except HarnessCrash as e:
        return key, {"crash": str(e)[-3000:]}
    return key, res


def _prebuild(args):
    ctx, key = args
    pkg, _ = HARNESSES[key]
    rc, out = goenv.go_test(ctx, pkg, "^$", timeout=1200)
    if rc != 0:
        raise MachineryError("harness does not build against the current tree (%s):\n%s" % (pkg, out[-3000:]))
    return key


def run(ctx):
    if ctx.replay:
        raise MachineryError("C02 artefacts hold the executed prefix with the real lengths; re-run `VERIF_SEED=<seed in file name> ./check C02`")
    thorough = ctx.tier == "thorough"
    tlc.stage(ctx)
    beh_dir = ctx.sub("beh")
    rounds = 6 if thorough else 1
    env = {"VERIF_C02_ROUNDS": rounds, "VERIF_C02_PAR": 4}
    keys = list(HARNESSES)

    states = trans = 0
    per = {}
    with cf.ProcessPoolExecutor(max_workers=2) as px, cf.ProcessPoolExecutor(max_workers=2) as pg, \
            cf.ProcessPoolExecutor(max_workers=3) as pb:
        # warm the Go build cache while TLC runs
        fb = [pb.submit(_prebuild, (ctx, k)) for k in keys]
        xname, xconsts = chan_exhaustive(ctx)
        fx = [px.submit(_exhaustive, (ctx, "C02_MC", "C02_MC.cfg", xname, xconsts, 2, None)),
              px.submit(_exhaustive, (ctx, "C02_MCMux", "C02_MCMux.cfg", "mux-x", MUX_EXHAUSTIVE, 2, False))]
        fg = []
        for name, consts in chan_replay(ctx):
            fg.append(pg.submit(_graph, (ctx, "C02_MC", "C02_MC.cfg", name, consts, beh_dir, 40, None, None)))
        for lname, (module, template, quick, thor) in LAYERS.items():
            consts = thor if thorough else quick
            deadlock = False if lname in ("mux", "lazy") else None
            limit = 150000 if lname == "mux" and thorough else None
            fg.append(pg.submit(_graph, (ctx, module, template, lname + "_a", consts, beh_dir, 40, deadlock, limit)))
        gres = [f.result() for f in fg]
        log("C02: graphs and walks done at %.1fs" % ctx.wall())
        [f.result() for f in fb]
        xres = [f.result() for f in fx]
        log("C02: exhaustive runs done at %.1fs" % ctx.wall())

    edges_total = n_walks = walk_steps = 0
    chan_stats = {}
    for name, distinct, generated, nedges, nw, steps, stats, wall in gres:
        states += distinct
        trans += generated
        edges_total += nedges
        n_walks += nw
        walk_steps += steps
        per[name] = {"states": distinct, "transitions": generated, "edges": nedges, "walks": nw, "steps": steps,
                     "tlc_s": wall}
        if name.startswith("chan_"):
            for k, v in stats.items():
                chan_stats[k] = chan_stats.get(k, 0) + v
        else:
            _need(stats, LAYER_NEED[name.split("_")[0]], name)
    _need(chan_stats, CHAN_NEED, "chan_*")
    for name, distinct, generated, wall in xres:
        states += distinct
        trans += generated
        per[name] = {"states": distinct, "transitions": generated, "tlc_s": wall}

    # replay on the real code, all layers in parallel
    with cf.ProcessPoolExecutor(max_workers=len(keys)) as ph:
        hres = dict(f.result() for f in [ph.submit(_harness, (ctx, k, beh_dir, env)) for k in keys])
    log("C02: replay done at %.1fs" % ctx.wall())
    div = 0
    replayed = steps_exec = distinct = 0
    samples = []
    extras = {}
    for k in keys:
        res = hres[k]
        if "crash" in res:
            # a harness process that died: decide by re-running once
            key2, res2 = _harness((ctx, k, beh_dir, env))
            if "crash" in res2:
                raise MachineryError("harness %s crashed twice:\n%s" % (k, res2["crash"]))
            res = res2
        mach = [m for m in res.get("mismatches", []) if m["class"] == "MACHINERY"]
        if mach:
            raise MachineryError("harness %s: %s" % (k, mach[0]["what"]))
        div += classify_mismatches(ctx, res, k)
        replayed += res["replayed"]
        steps_exec += res["steps"]
        distinct += res["distinct"]
        samples += (res.get("samples") or [])[:1]
        extras[k] = dict(res.get("extra") or {}, walks=res["replayed"], steps=res["steps"], distinct=res["distinct"])
        if res["replayed"] == 0:
            raise MachineryError("harness %s replayed nothing" % k)
    floor = walk_steps * 0.9
    if not ctx.violations and steps_exec < floor:
        raise MachineryError("replay executed %d steps for %d walk steps" % (steps_exec, walk_steps))
    log("C02: %d states, %d transitions generated, %d replay transitions, %d walks; executed %d walks / %d steps"
        % (states, trans, edges_total, n_walks, replayed, steps_exec))
    cov = evidence.mc_coverage(
        states, trans, replayed, samples, exhaustive=True,
        checker_cmd="tlc C02_MC.tla / C02_MCPsk.tla / C02_MCSampled.tla / C02_MCMux.tla / C02_MCLazyMS.tla (cfg templates instantiated by checks/C02.py)",
        instances=per, replay_transitions_in_graphs=edges_total, replay_walks=n_walks, replay_steps_in_walks=walk_steps,
        replay_steps_executed=steps_exec, replay_distinct_cases=distinct, scale_rounds=rounds, harness=extras,
        divergences_L2=div, notes=ctx.notes[:10])
    return {"level": "model_checking", "coverage": cov, "assumptions": [
        "byte equality is decided by the harness ledger (position-dependent payload); TLC contributes the path-selection state machine, the nonce discipline, the fault matrix and the behaviours",
        "bounded models (Tag=2, MaxPT in {2,3}, payload <= %s units); real lengths are boundary-class members chosen by seed (quick) or rotated through all members (thorough)" % xconsts["MaxSent"],
        "flynn/noise, crypto/tls, go-yamux, go-multistream and the salsa20 stream are trusted dependencies; TLS and yamux run under the L1 ledger only",
        "ErrDry (the in-memory wire has nothing in flight) stands for a read that would block",
    ]}


MANIFEST = {
    "technique": "TLA+ specs of the channel family (C02_Channel.tla: Noise reader/writer state machines with the three read paths, chunking, nonce discipline and single wire faults; layer instances C02_Psk, C02_Sampled, C02_Mux, C02_LazyMS) model-checked exhaustively with TLC; every transition of the replay instances executed on the real objects (Noise sessions, libp2p-TLS connections, pskConn, wrappedSampledConn, yamux sessions plain/over Noise/over TLS, BasicHost streams) over an in-memory frame-aware man-in-the-middle pipe at real lengths chosen by a boundary-class scale map",
    "category": "model_checking",
    "text": "TLC enumerates, for a bounded payload, every write split x read-buffer relation (below/equal/above the queued remainder, the plaintext, the frame including its tag) x short-read regime x single wire fault (flip, length flip, drop, duplicate, swap, cut, truncation) and checks prefix/completeness/error-no-later/nonce invariants on the model of the reader's three paths; each transition is then driven through the real code with lengths around 0, 1, 65518, 65519, 65520, 65535, k*65519+-1 and buffers {1, tag-1, tag, frame-1, frame, frame+tag-1, frame+tag, larger}, and an observable-only ledger (position-dependent payload) decides: bytes returned by Read are a prefix of bytes accepted by Write, equal at the end of a fault-free run, no spurious error, nothing beyond a tampered position before an error.",
    "note": "Byte equality is decided by the harness, not by TLC. Bounded models; real lengths sampled from boundary classes (all members only in thorough, by rotation). flynn/noise, crypto/tls, go-yamux, go-multistream, salsa20 are trusted; TLS and yamux run under the L1 ledger only (no path model). QUIC/WebRTC/WebSocket/WebTransport stacks are not driven. A read that would block is represented by ErrDry of the in-memory wire.",
    "engines": [{"name": "C02_Channel", "path": "spec/C02_Channel.tla", "serves_properties": ["C02"],
                 "kind_free_text": "TLA+ spec family + TLC exhaustive + full-transition replay with boundary-class scale map"}],
}
