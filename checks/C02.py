"""C02 - secured connections and streams deliver bytes intact, in order, once.

spec/C02_Channel.tla (the Noise reader/writer state machines: three read paths, chunking, nonce
discipline, single wire faults) model-checked exhaustively; every transition of the replay instances
executed on real Noise session pairs over a frame-aware man-in-the-middle pipe at real lengths chosen by
a boundary-class scale map, the same behaviours on libp2p-TLS connections (L1 only); the layer instances
C02_Psk / C02_Sampled / C02_Mux / C02_LazyMS likewise model-checked and replayed on pskConn,
wrappedSampledConn, yamux sessions (plain, over Noise, over TLS) and BasicHost streams (optimistic
multistream path).  Verdicts come only from the L1 ledger: the bytes returned by Read are a prefix of
the bytes accepted by Write (equal at the end of a fault-free run), no error on an untouched channel,
and on an authenticated channel nothing beyond a tampered position is delivered before an error."""
import concurrent.futures as cf
import os

from lib import evidence, goenv, graph, tlc
from lib.common import HarnessCrash, MachineryError, classify_mismatches, log


def _fast_unescape(s, _slow=tlc._unescape):
    return s.replace('\\"', '"') if "\\\\" not in s else _slow(s)


tlc._unescape = _fast_unescape

ALL_FAULTS = '{"flip", "fliplen", "drop", "dup", "swap", "cut", "cuteof", "trunc"}'
GLITCHES = '{"dataerr", "temperr", "shortwrite", "eofdata", "refusewrite"}'
RGLITCHES = '{"dataerr", "temperr", "eofdata"}'
CH_INV = "INVARIANTS TypeOK Prefix Complete Conservation Nonces ErrNoLater NeverPast"
CH_PROPS = "PROPERTIES ErrDeliversNothing ReadCount PathGuard"


def S(xs):
    return "{" + ", ".join(str(x) for x in xs) + "}"


# ------------------------------------------------------------------------------------------------
# instances

ALL_OTHERS = '{"rev", "peer"}'
CH_GLITCHES = '{"dataerr", "temperr", "shortwrite", "refusewrite"}'


def chan_exhaustive(ctx):
    """Exhaustive-only instances of the Noise channel (not printed): (name, constants, cfg substitutions)."""
    t = ctx.tier == "thorough"
    n = 10 if t else 8
    # (Other leaves every variable unchanged: nothing to check exhaustively, it exists for the replay)
    base = {"Tag": 2, "MaxPT": 3, "Bufs": S(range(1, 7)), "Shorts": S([0, 1, 2]), "Faults": ALL_FAULTS,
            "Others": "{}", "Glitches": CH_GLITCHES}
    return [
        ("chan-x", dict(base, MaxSent=n, MaxWrite=n, MaxFaults=1), []),
        # two faults per behaviour: a second fault can undo the first (swap twice, duplicate then drop), so only
        # the clauses that hold whatever happened to the wire are checked: nothing but a prefix is ever delivered
        ("chan-x2", dict(base, MaxSent=6 if t else 4, MaxWrite=6 if t else 4, MaxFaults=2, Glitches="{}"),
         [(CH_INV, "INVARIANTS TypeOK Prefix Complete Conservation Nonces")]),
    ]


def chan_replay(ctx):
    """Instances whose whole graph is printed and replayed."""
    t = ctx.tier == "thorough"
    return [
        # three-unit frames: short / nearly full / full last frames, two frames per write, every fault kind,
        # every short-read regime; in every state a Write on the reverse direction and on a second live pair
        ("chan_a", {"Tag": 2, "MaxPT": 3, "MaxSent": 6 if t else 5, "MaxWrite": 6 if t else 5, "Bufs": S(range(1, 7)),
                    "Shorts": S([0, 1, 2]), "Faults": ALL_FAULTS, "MaxFaults": 1, "Others": ALL_OTHERS, "Glitches": "{}"}),
        # two-unit frames: payloads of more than three frames (3 * MaxPT + 1 in one write), zero-length reads
        ("chan_b", {"Tag": 2, "MaxPT": 2, "MaxSent": 7, "MaxWrite": 7, "Bufs": S([0, 1, 2, 4, 5]),
                    "Shorts": S([0, 2]) if t else S([0]), "Faults": '{"flip", "drop", "dup", "swap"}', "MaxFaults": 1,
                    "Others": "{}", "Glitches": "{}"}),
        # glitches of the underlying connection (bytes + timeout, temporary error, short write) in every state
        ("chan_g", {"Tag": 2, "MaxPT": 3, "MaxSent": 5 if t else 4, "MaxWrite": 5 if t else 4, "Bufs": S(range(1, 7)),
                    "Shorts": S([0, 1, 2]) if t else S([0, 2]), "Faults": "{}", "MaxFaults": 0, "Others": "{}",
                    "Glitches": CH_GLITCHES}),
    ]


MUX_CUTS = '{"cuteof", "cutrst"}'
MUX0 = {"Streams": S([1, 2]), "MaxSent": 2, "MaxWrite": 2, "MaxMsg": 1, "Glitches": "{}", "Cuts": "{}", "CutPos": "{}", "Delays": "{}"}

LAYERS = {
    # name: (MC module, cfg template, quick consts, thorough consts, deadlock checking)
    "psk": ("C02_MCPsk", "C02_MCPsk.cfg",
            {"NonceLen": 2, "MaxSent": 6, "MaxWrite": 3, "Bufs": S([0, 1, 2, 3, 4]), "Shorts": S([0, 1, 2]), "Glitches": GLITCHES},
            {"NonceLen": 2, "MaxSent": 8, "MaxWrite": 4, "Bufs": S([0, 1, 2, 3, 4, 5]), "Shorts": S([0, 1, 2]), "Glitches": GLITCHES}),
    "sampled": ("C02_MCSampled", "C02_MCSampled.cfg",
                {"PeekSize": 3, "MaxSent": 6, "MaxWrite": 4, "Bufs": S([0, 1, 2, 3, 4]), "Shorts": S([0, 1, 2]), "Glitches": RGLITCHES},
                {"PeekSize": 3, "MaxSent": 8, "MaxWrite": 5, "Bufs": S([0, 1, 2, 3, 4, 5]), "Shorts": S([0, 1, 2]), "Glitches": RGLITCHES}),
    "mux": ("C02_MCMux", "C02_MCMux.cfg",
            dict(MUX0, MaxTotal=2, MaxClose=2, Bufs=S([1, 2])),
            dict(MUX0, MaxTotal=3, MaxClose=2, Bufs=S([1, 2]))),
    # the same with one glitch of the underlying connection per behaviour
    "muxg": ("C02_MCMux", "C02_MCMux.cfg",
             dict(MUX0, MaxTotal=2, MaxClose=1, Bufs=S([2]), Glitches=CH_GLITCHES),
             dict(MUX0, MaxTotal=2, MaxClose=1, Bufs=S([1, 2]), Glitches=CH_GLITCHES)),
    # ... and with the connection CUT (plain EOF / error) after 0, 1, 2 more frames, streams open, FINs missing
    "muxc": ("C02_MCMux", "C02_MCMux.cfg",
             dict(MUX0, MaxTotal=2, MaxClose=1, Bufs=S([2]), Cuts=MUX_CUTS, CutPos=S([0, 1])),
             dict(MUX0, MaxTotal=2, MaxClose=1, Bufs=S([2]), Cuts=MUX_CUTS, CutPos=S([0, 1, 2]))),
    # ... and with (virtual) time passing between the operations
    "muxt": ("C02_MCMux", "C02_MCMux.cfg",
             dict(MUX0, MaxTotal=2, MaxClose=1, Bufs=S([2]), Delays='{"30s", "1h"}'),
             dict(MUX0, MaxTotal=2, MaxClose=2, Bufs=S([2]), Delays='{"1s", "10s", "30s", "1min", "1h"}')),
    "start": ("C02_MCStart", "C02_MCStart.cfg",
              {"HLen": 2, "MaxFrames": 2, "MaxUnits": 2, "Bufs": S([1, 2])},
              {"HLen": 2, "MaxFrames": 3, "MaxUnits": 2, "Bufs": S([1, 2])}),
    "lazy": ("C02_MCLazyMS", "C02_MCLazyMS.cfg",
             {"MaxSent": 2, "MaxWrite": 2, "Bufs": S([1, 2]), "Delays": '{"neg-", "neg+", "1h"}'},
             {"MaxSent": 3, "MaxWrite": 2, "Bufs": S([1, 2]), "Delays": '{"1s", "neg-", "neg+", "1min", "1h"}'}),
}
# second mux replay instance (thorough): every channel may be half-closed
MUX_B = {"Streams": S([1, 2]), "MaxSent": 2, "MaxWrite": 2, "MaxMsg": 1, "MaxTotal": 2, "MaxClose": 4, "Bufs": S([1, 2]),
         "Glitches": "{}", "Cuts": "{}", "CutPos": "{}", "Delays": "{}"}


def mux_exhaustive(ctx):
    return {"Streams": S([1, 2]), "MaxSent": 2, "MaxWrite": 2, "MaxMsg": 1, "MaxTotal": 4 if ctx.tier == "thorough" else 3,
            "MaxClose": 4, "Bufs": S([1, 2]), "Glitches": CH_GLITCHES if ctx.tier == "thorough" else "{}",
            "Cuts": "{}", "CutPos": "{}", "Delays": "{}"}   # (cuts are checked exhaustively on the printed instance mux_c)


# ------------------------------------------------------------------------------------------------
# TLC jobs (each runs in a worker process; at most 4 TLC workers at any time overall)

def _exhaustive(args):
    ctx, module, template, name, consts, workers, deadlock, repl = args
    cfg = tlc.subst_cfg(template, consts, replace=repl)
    r = tlc.run(ctx, module, "gen_%s_mc.cfg" % name, cfg_text=cfg, workers=workers, timeout=1500, name="mc" + name,
                deadlock=deadlock)
    if not r.ok:
        raise MachineryError("design-level failure in C02 %s: %s violated\n%s" % (name, r.violated, r.out[-2500:]))
    return name, r.distinct, r.generated, r.wall


def _graph(args):
    """One TLC run with all invariants AND every transition printed; covering walks written to beh_dir."""
    ctx, module, template, name, consts, beh_dir, max_len, deadlock, limit = args
    cfg = tlc.subst_cfg(template, consts, replace=[
        ("INIT Init", "INIT MCInit"), ("VIEW View", "VIEW View\nACTION_CONSTRAINT EmitEdge")])
    r = tlc.run(ctx, module, "gen_%s_edges.cfg" % name, cfg_text=cfg, workers=1, timeout=1500, name="ed" + name,
                deadlock=deadlock)
    if not r.ok:
        raise MachineryError("design-level failure in C02 %s: %s violated\n%s" % (name, r.violated, r.out[-2500:]))
    conf = [o for t, o in r.prints if t == "VFCONF"]
    if not conf:
        raise MachineryError("no VFCONF line for " + name)
    g = graph.Graph(r.inits, r.edges)
    if g.n_edges() == 0:
        raise MachineryError("no edges printed for " + name)
    stats = _edge_stats(g)
    walks = _covering_walks(g, ctx.seed, max_len)
    steps = sum(len(w["steps"]) for w in walks)
    graph.write_behaviours(os.path.join(beh_dir, name + ".jsonl"), walks,
                           {"name": name, "conf": conf[0], "edges": g.n_edges(), "states": g.n_states()})
    return name, r.distinct, r.generated, g.n_edges(), len(walks), steps, stats, r.wall


def _covering_walks(g, seed, max_len, budget=400):
    """Walks from the initial state that together traverse every edge at least once.  Same scheme as
    lib/graph.covering_walks (BFS-tree prefix, then greedy through uncovered edges with a bounded
    look-ahead) but SHALLOW states first: the channel graphs are almost acyclic (payload and delivery
    only grow), so a walk that starts its uncovered stretch near the root runs through fresh
    transitions all the way down, which needs 4-5 times fewer walks than deepest-first."""
    import collections
    import random
    rnd = random.Random(seed)
    parent = {}
    dq = collections.deque()
    for i in g.inits:
        parent[i] = None
        dq.append(i)
    order = []
    while dq:
        u = dq.popleft()
        order.append(u)
        for ei in g.out.get(u, ()):
            v = g.edges[ei][2]
            if v not in parent:
                parent[v] = (u, ei)
                dq.append(v)
    unc = {k: list(v) for k, v in g.out.items()}
    for k in sorted(unc):
        rnd.shuffle(unc[k])
    covered = set()
    walks = []

    def live(u):
        lst = unc.get(u)
        while lst and lst[-1] in covered:
            lst.pop()
        return bool(lst)

    def path_to(u):
        p = []
        while parent[u] is not None:
            pu, pe = parent[u]
            p.append(pe)
            u = pu
        p.reverse()
        return u, p

    def near(u, room):
        prev = {u: None}
        q = collections.deque([(u, 0)])
        n = 0
        while q and n < budget:
            x, d = q.popleft()
            n += 1
            if d >= room:
                continue
            for ei in g.out.get(x, ()):
                v = g.edges[ei][2]
                if v in prev:
                    continue
                prev[v] = (x, ei)
                if live(v):
                    p = []
                    while prev[v] is not None:
                        px, pe = prev[v]
                        p.append(pe)
                        v = px
                    p.reverse()
                    return p
                q.append((v, d + 1))
        return None

    for u in order:
        while live(u):
            start, walk = path_to(u)
            covered.update(walk)
            cur = u
            first = True
            while first or len(walk) < max_len:
                first = False
                if live(cur):
                    ei = unc[cur].pop()
                    covered.add(ei)
                    walk.append(ei)
                    cur = g.edges[ei][2]
                    continue
                p = near(cur, min(4, max_len - len(walk) - 1))
                if not p:
                    break
                covered.update(p)
                walk.extend(p)
                cur = g.edges[p[-1]][2]
            walks.append(g._mk(start, walk))
    if len(covered) != g.n_edges():
        raise MachineryError("covering walks cover %d of %d transitions" % (len(covered), g.n_edges()))
    return walks


def _edge_stats(g):
    """Kinds of transitions present in a printed graph (vacuity guards are counted on these)."""
    st = {}

    def inc(k):
        st[k] = st.get(k, 0) + 1
    for sk, op, tk in g.edges:
        n = op["name"]
        inc("op:" + n)
        if n == "read" and "path" in op:
            inc("path:" + op["path"])
            inc("rel:" + op["rel"])
            if op["err"]:
                inc("read-error")
            t = g.states[tk]
            s = g.states[sk]
            if isinstance(t, list) and len(t) == 21:
                if t[5] and t[6] == t[7]:
                    inc("quirk-queue-kept-empty")
                if t[5] and 0 < t[7] < t[6]:
                    inc("queue-partial")
                if s[10] and op["n"] > 0:
                    inc("delivery-after-error")
        if n == "fault":
            inc("fault:" + op["kind"])
        if n == "other":
            s = g.states[sk]
            if isinstance(s, list) and len(s) == 21:
                inc("other:%s:%s" % (op["who"], "queue-partial" if s[5] and s[7] < s[6] else "queue-kept-empty" if s[5] else "no-queue"))
        if n == "sock" and op.get("coalesced"):
            inc("start-coalesced")
        if n == "sock" and op.get("boundary"):
            inc("start-boundary")
        if n == "finish" and op.get("carry", 0) > 0:
            inc("start-carry")
        if n == "wait" and op.get("afterclose"):
            inc("wait-after-closewrite")
        if n == "wait" and op.get("readpending"):
            inc("wait-read-pending")
        if n == "cut":
            inc("cut:" + op["kind"])
            if op.get("open", 0) >= 2:
                inc("cut-two-streams-open")
        if n == "read" and op.get("term") == "err":
            inc("term:err")
        if n == "glitch":
            inc("glitch:" + op["kind"])
        if n == "read" and op.get("glitch", "none") != "none":
            inc("read-glitch:" + op["glitch"])
        if n == "write" and op.get("short"):
            inc("write-short")
        if n == "write" and op.get("refused"):
            inc("write-refused")
            if "nonce" in op:
                inc("write-refused-first" if op["nonce"] else "write-refused-later")
        if n == "write" and "frames" in op:
            inc("write-frames:%d" % min(len(op["frames"]), 4))
        if n in ("read", "creadend", "sread") and op.get("halfclosed") and op.get("n", 0) > 0:
            inc("read-after-own-closewrite")
        if n in ("read", "creadend", "sread") and op.get("eof"):
            inc("eof")
        if n == "read" and op.get("from") == "peeked" and op.get("b", 9) < 3:
            inc("peeked-short-buffer")
        if n == "write" and op.get("nonce") is False:
            inc("psk-second-write")
        if n in ("cwrite", "creadbegin", "cclosewrite") and op.get("first"):
            inc("lazy-flush-by:" + n)
    return st


CHAN_NEED = ["path:queued", "path:inplace", "path:pooled", "path:end", "rel:lt", "rel:eq", "rel:gt", "rel:lt_pt",
             "rel:eq_pt", "rel:mid", "rel:eq_len", "rel:gt_len", "read-error", "quirk-queue-kept-empty",
             "queue-partial", "delivery-after-error", "write-frames:2", "op:short", "write-short", "write-refused",
             "read-glitch:dataerr", "read-glitch:temperr"] + \
            ["other:%s:%s" % (w, q) for w in ("rev", "peer") for q in ("queue-partial", "queue-kept-empty", "no-queue")] + \
            ["fault:" + k for k in ("flip", "fliplen", "drop", "dup", "swap", "cut", "cuteof", "trunc")]
LAYER_NEED = {
    "psk": ["op:write", "op:read", "op:short", "psk-second-write", "write-short", "write-refused-first",
            "write-refused-later", "read-glitch:dataerr",
            "read-glitch:temperr", "glitch:eofdata", "eof"],
    "sampled": ["op:peek", "op:send", "op:close", "peeked-short-buffer", "eof", "read-glitch:dataerr",
                "read-glitch:temperr", "glitch:eofdata"],
    "mux": ["op:open", "op:write", "op:closewrite", "op:read", "read-after-own-closewrite", "eof"],
    "muxg": ["op:open", "op:write", "op:read", "glitch:dataerr", "glitch:temperr", "glitch:shortwrite", "glitch:refusewrite"],
    "muxt": ["op:open", "op:write", "op:read", "op:wait", "eof"],
    "muxc": ["op:open", "op:write", "op:read", "cut:cuteof", "cut:cutrst", "cut-two-streams-open", "term:err", "eof"],
    "start": ["op:write", "op:finish", "op:read", "start-coalesced", "start-boundary", "start-carry"],
    "lazy": ["wait-after-closewrite", "wait-read-pending", "lazy-flush-by:cwrite", "lazy-flush-by:creadbegin", "lazy-flush-by:cclosewrite", "op:swrite", "op:sread",
             "read-after-own-closewrite", "eof"],
}


def _need(stats, keys, where):
    miss = [k for k in keys if not stats.get(k)]
    if miss:
        raise MachineryError("vacuous replay graph %s: no transition of kind %s" % (where, miss))


# ------------------------------------------------------------------------------------------------
# harness jobs

HARNESSES = {
    # key: (package, test)
    "noise": ("./p2p/security/noise", "^TestVerifC02Noise$"),
    "tls": ("./p2p/security/tls", "^TestVerifC02TLS$"),
    "psk": ("./p2p/net/pnet", "^TestVerifC02Psk$"),
    "sampled": ("./p2p/transport/tcpreuse/internal/sampledconn", "^TestVerifC02Sampled$"),
    "mux": ("./p2p/muxer/yamux", "^TestVerifC02Mux$"),
    "noise-start": ("./p2p/security/noise", "^TestVerifC02NoiseStart$"),
    "tls-start": ("./p2p/security/tls", "^TestVerifC02TLSStart$"),
    "upgrade-start": ("./p2p/net/upgrader", "^TestVerifC02UpgradeStart$"),
    "lazy": ("./p2p/host/basic", "^TestVerifC02LazyMS$"),
    "lazy-time": ("./p2p/host/basic", "^TestVerifC02LazyTime$"),
    "mux-time": ("./p2p/muxer/yamux", "^TestVerifC02MuxTime$"),
    "stack": ("./p2p/host/basic", "^TestVerifC02Stack$"),
}


def _own(ctx, name):
    """A copy of ctx with its own scratch dir: goenv writes overlay.json into ctx.tmp, and several harness
    processes run at the same time."""
    import copy
    c = copy.copy(ctx)
    c.tmp = ctx.sub("h-" + name)
    return c


def _harness(args):
    ctx, key, beh_dir, env = args
    pkg, test = HARNESSES[key]
    ctx = _own(ctx, key)
    try:
        res = goenv.run_harness(ctx, pkg, test, inputs=beh_dir, env=env, timeout=1500)
    except HarnessCrash as e:
        return key, {"crash": str(e)[-3000:]}
    return key, res


CODE_PATHS = ("p2p/security/noise/rw.go", "p2p/security/noise/crypto.go", "p2p/net/pnet/psk_conn.go",
              "sampledconn/sampledconn.go", "p2p/muxer/yamux/stream.go", "p2p/muxer/yamux/conn.go",
              "p2p/host/basic/basic_host.go", "p2p/net/swarm/swarm_stream.go", "p2p/security/tls/conn.go",
              "go-yamux", "go-multistream")


def _crash_verdict(key, log1, log2):
    """The harness process died twice with the same seed.  If both deaths are Go panics whose stacks run
    through the channel code, that is an observable failure of the channel; anything else is machinery."""
    import re
    pat = re.compile(r"^panic: (.*)$", re.M)
    m1, m2 = pat.search(log1), pat.search(log2)
    if m1 and m2 and any(p in log1 for p in CODE_PATHS) and any(p in log2 for p in CODE_PATHS):
        return {"replayed": 1, "steps": 0, "distinct": 0, "samples": [], "extra": {},
                "mismatches": [{"class": key + "-panic", "what": "the channel code panicked on one of its own goroutines (twice, same seed): %s" % m2.group(1),
                                "got": log2[-3000:], "walk": -1, "step": -1}]}
    raise MachineryError("harness %s crashed twice:\n%s" % (key, log2))


def _prebuild(args):
    ctx, key = args
    if key in ("stack", "noise-start", "tls-start", "lazy-time", "mux-time"):
        return key      # same package as another harness
    pkg, _ = HARNESSES[key]
    rc, out = goenv.go_test(_own(ctx, "b-" + key), pkg, "^$", timeout=1200)
    if rc != 0:
        raise MachineryError("harness does not build against the current tree (%s):\n%s" % (pkg, out[-3000:]))
    return key


def run(ctx):
    if ctx.replay:
        raise MachineryError("C02 artefacts hold the executed prefix with the real lengths; re-run `VERIF_SEED=<seed in file name> ./check C02`")
    thorough = ctx.tier == "thorough"
    tlc.stage(ctx)
    beh_dir = ctx.sub("beh")
    rounds = 6 if thorough else 1
    stacks = "tcp-noise-yamux,tcp-tls-yamux,tcp-psk-noise-yamux,ws-noise-yamux,quic,webtransport,webrtc-direct"
    base = {"VERIF_C02_PAR": 4, "VERIF_C02_STACKS": stacks}
    # rounds rotate the members of every boundary class; the trusted-dependency layers get fewer of them
    envs = {
        "noise": dict(base, VERIF_C02_ROUNDS=rounds),
        "tls": dict(base, VERIF_C02_ROUNDS=2 if thorough else 1, VERIF_C02_TLS_SHARE=1 if thorough else 4),
        "psk": dict(base, VERIF_C02_ROUNDS=rounds),
        "sampled": dict(base, VERIF_C02_ROUNDS=rounds),
        "mux": dict(base, VERIF_C02_ROUNDS=1, VERIF_C02_MUX_SHARE=1 if thorough else 2),
        "noise-start": dict(base, VERIF_C02_ROUNDS=rounds),
        "tls-start": dict(base, VERIF_C02_ROUNDS=rounds),
        "upgrade-start": dict(base, VERIF_C02_ROUNDS=rounds),
        "lazy": dict(base, VERIF_C02_ROUNDS=rounds),
        "lazy-time": dict(base, VERIF_C02_ROUNDS=1, VERIF_C02_TIME_SHARE=2 if thorough else 4),
        "mux-time": dict(base, VERIF_C02_ROUNDS=2 if thorough else 1, VERIF_C02_TIME_SHARE=1 if thorough else 2),
        "stack": dict(base, VERIF_C02_ROUNDS=2 if thorough else 1, VERIF_C02_STACK_SHARE=1 if thorough else 2),
    }
    keys = list(HARNESSES)

    states = trans = 0
    per = {}
    # At most 4 TLC workers at any time: the exhaustive runs one after the other (quick: 1 worker, thorough: 2),
    # the printing runs in lanes with 1 worker each (quick: 3, thorough: 2).  The Go test binaries are built meanwhile, and the replay starts as
    # soon as the behaviours are written (the exhaustive lane may still be running then).
    lanes, xw = (2, 2) if thorough else (3, 1)
    with cf.ProcessPoolExecutor(max_workers=1) as px, cf.ProcessPoolExecutor(max_workers=lanes) as pg, \
            cf.ProcessPoolExecutor(max_workers=3) as pb, cf.ProcessPoolExecutor(max_workers=len(keys)) as ph:
        fb = [pb.submit(_prebuild, (ctx, k)) for k in sorted(set(k for k in keys))]
        xinst = chan_exhaustive(ctx)
        xconsts = xinst[0][1]
        fx = [px.submit(_exhaustive, (ctx, "C02_MC", "C02_MC.cfg", name, consts, xw, False, repl))
              for name, consts, repl in xinst]
        fx.append(px.submit(_exhaustive, (ctx, "C02_MCMux", "C02_MCMux.cfg", "mux-x", mux_exhaustive(ctx), xw, False, [])))
        fg = []
        jobs = [("C02_MC", "C02_MC.cfg", name, consts, False) for name, consts in chan_replay(ctx)]
        for lname, (module, template, quick, thor) in LAYERS.items():
            gname = {"muxg": "mux_g", "muxc": "mux_c", "muxt": "muxt_a"}.get(lname, lname + "_a")
            jobs.append((module, template, gname, thor if thorough else quick, False))
        if thorough:
            jobs.append(("C02_MCMux", "C02_MCMux.cfg", "mux_b", MUX_B, False))
        # biggest first so that the two lanes finish together
        order = {"chan_a": 0, "chan_b": 1, "mux_a": 2, "mux_b": 3, "mux_c": 4, "chan_g": 5, "mux_g": 6}
        jobs.sort(key=lambda j: order.get(j[2], 9))
        for module, template, name, consts, deadlock in jobs:
            fg.append(pg.submit(_graph, (ctx, module, template, name, consts, beh_dir, 40, deadlock, None)))
        gres = [f.result() for f in fg]
        log("C02: graphs and walks done at %.1fs" % ctx.wall())
        [f.result() for f in fb]
        fh = [ph.submit(_harness, (ctx, k, beh_dir, envs[k])) for k in keys]
        hres = dict(f.result() for f in fh)
        log("C02: replay done at %.1fs" % ctx.wall())
        xres = [f.result() for f in fx]
        log("C02: exhaustive runs done at %.1fs" % ctx.wall())

    edges_total = n_walks = walk_steps = 0
    chan_stats = {}
    for name, distinct, generated, nedges, nw, steps, stats, wall in gres:
        states += distinct
        trans += generated
        edges_total += nedges
        n_walks += nw
        walk_steps += steps
        per[name] = {"states": distinct, "transitions": generated, "edges": nedges, "walks": nw, "steps": steps,
                     "tlc_s": wall}
        if name.startswith("chan_"):
            for k, v in stats.items():
                chan_stats[k] = chan_stats.get(k, 0) + v
        else:
            _need(stats, LAYER_NEED[{"mux_g": "muxg", "mux_c": "muxc"}.get(name, name.split("_")[0])], name)
    _need(chan_stats, CHAN_NEED, "chan_*")
    for name, distinct, generated, wall in xres:
        states += distinct
        trans += generated
        per[name] = {"states": distinct, "transitions": generated, "tlc_s": wall}

    div = 0
    machinery = []
    replayed = steps_exec = distinct = 0
    samples = []
    extras = {}
    for k in keys:
        res = hres[k]
        if "crash" in res:
            # a harness process that died (a panic on a goroutine of the code under test or of a library cannot
            # be recovered by the harness): decide by re-running once
            key2, res2 = _harness((ctx, k, beh_dir, envs[k]))
            if "crash" in res2:
                try:
                    res = _crash_verdict(k, res["crash"], res2["crash"])
                except MachineryError as e:
                    # (no verdict from this harness; a violation found by another one still stands)
                    machinery.append(str(e)[:3000])
                    res = {"replayed": 1, "steps": 0, "distinct": 0, "samples": [], "extra": {}, "mismatches": []}
            else:
                ctx.notes.append("harness %s crashed once and not again with the same seed" % k)
                res = res2
        machinery += ["harness %s: %s" % (k, m["what"]) for m in res.get("mismatches", []) if m["class"] == "MACHINERY"]
        res["mismatches"] = [m for m in res.get("mismatches", []) if m["class"] != "MACHINERY"]
        div += classify_mismatches(ctx, res, k)
        replayed += res["replayed"]
        steps_exec += res["steps"]
        distinct += res["distinct"]
        samples += (res.get("samples") or [])[:1]
        extras[k] = dict(res.get("extra") or {}, walks=res["replayed"], steps=res["steps"], distinct=res["distinct"])
        if res["replayed"] == 0 and not res.get("mismatches"):
            machinery.append("harness %s replayed nothing (%s)" % (k, {a: b for a, b in (res.get("extra") or {}).items() if a.startswith("stack_unavailable")}))
    if machinery and not ctx.violations:
        # (with a violation at hand a harness that could not go on is a consequence, not a machinery problem)
        raise MachineryError(machinery[0])
    # vacuity: every fault kind must have been applied to real sessions and every walk step executed (walks are
    # cut short only after a violation or a noted divergence)
    if not ctx.violations and not div:
        nz = extras["noise"]
        for kind in ("flip", "fliplen", "drop", "dup", "swap", "cut", "cuteof", "trunc"):
            if not nz.get("faults_" + kind):
                raise MachineryError("no %s fault was applied to a real Noise session" % kind)
        if not nz.get("noise_real_handshakes"):
            raise MachineryError("no real Noise handshake was run")
        # (walks of chan_g may be cut short: a reader that failed for good after a glitch ends its walk)
        chan_steps = sum(v["steps"] for k, v in per.items() if k in ("chan_a", "chan_b"))
        if nz["steps"] < rounds * chan_steps:
            raise MachineryError("Noise replay executed %d steps for %d channel walk steps" % (nz["steps"], rounds * chan_steps))
        for k in ("psk", "sampled", "lazy"):  # (mux, tls and the stacks replay a share)
            if extras[k]["steps"] < per[k + "_a"]["steps"]:
                raise MachineryError("%s replay executed %d steps for %d walk steps" % (k, extras[k]["steps"], per[k + "_a"]["steps"]))
    log("C02: %d states, %d transitions generated, %d replay transitions, %d walks; executed %d walks / %d steps"
        % (states, trans, edges_total, n_walks, replayed, steps_exec))
    cov = evidence.mc_coverage(
        states, trans, replayed, samples, exhaustive=True,
        checker_cmd="tlc C02_MC.tla / C02_MCPsk.tla / C02_MCSampled.tla / C02_MCMux.tla / C02_MCLazyMS.tla (cfg templates instantiated by checks/C02.py)",
        instances=per, replay_transitions_in_graphs=edges_total, replay_walks=n_walks, replay_steps_in_walks=walk_steps,
        replay_steps_executed=steps_exec, replay_distinct_cases=distinct, scale_rounds=rounds, harness=extras,
        divergences_L2=div, notes=ctx.notes[:10])
    return {"level": "model_checking", "coverage": cov, "assumptions": [
        "byte equality is decided by the harness ledger (position-dependent payload); TLC contributes the path-selection state machine, the nonce discipline, the fault matrix and the behaviours",
        "bounded models (Tag=2, MaxPT in {2,3}, payload <= %s units); real lengths are boundary-class members chosen by seed (quick) or rotated through the members (thorough, %d rounds)" % (xconsts["MaxSent"], rounds),
        "flynn/noise, crypto/tls, go-yamux, go-multistream and the salsa20 stream are trusted dependencies; TLS, yamux and the loopback stacks run under the L1 ledger only",
        "ErrDry (the in-memory wire has nothing in flight) stands for a read that would block; cloned Noise sessions reuse the keys of one real handshake (1 walk in 32 runs its own)",
        "a walk that stalls is a violation only if it stalls again when repeated (watchdogs 20 s / 40 s); on the loopback stacks the harness keeps the unread total below the transport's connection-level window (QUIC, WebRTC)",
    ]}


MANIFEST = {
    "technique": "TLA+ specs of the channel family (C02_Channel.tla: Noise reader/writer state machines with the three read paths, chunking, nonce discipline and single/double wire faults; layer instances C02_Psk, C02_Sampled, C02_Mux, C02_LazyMS) model-checked exhaustively with TLC; every transition of the replay instances executed on the real objects (Noise sessions, libp2p-TLS connections, pskConn, wrappedSampledConn, yamux sessions plain/over Noise/over TLS, BasicHost streams on the optimistic multistream path in memory and between libp2p nodes over seven loopback transport x security x muxer stacks) at real lengths chosen by a boundary-class scale map, over an in-memory frame-aware man-in-the-middle pipe for the fault matrix",
    "category": "model_checking",
    "text": "TLC enumerates, for a bounded payload, every write split x read-buffer relation (below/equal/above the queued remainder, the plaintext, the frame including its tag) x short-read regime x wire fault (flip, length flip, drop, duplicate, swap, cut, truncation inside / at a frame boundary) and checks prefix / completeness / conservation / nonce / error-no-later invariants on the model of the reader's three paths (with the code's quirk that the pooled path keeps an emptied queue for one more Read); each transition is then driven through the real code with lengths around 0, 1, 65518, 65519, 65520, 65535, k*65519+-1 and buffers {1, tag-1, tag, frame-1, frame, frame+tag-1, frame+tag, larger}, and an observable-only ledger (position-dependent payload) decides: bytes returned by Read are a prefix of bytes accepted by Write, equal at the end of a fault-free run, no spurious error, nothing beyond a tampered position before an error, EOF only after everything, per-stream FIFO without cross-talk, half-close leaves the other direction intact.",
    "note": "Byte equality is decided by the harness, not by TLC. Bounded models; real lengths sampled from boundary classes (quick: seeded pick; thorough: rotation through the members). flynn/noise, crypto/tls, go-yamux, go-multistream, salsa20, quic-go, pion are trusted; TLS, yamux and the loopback stacks run under the L1 ledger only (no path model, no fault injection below QUIC/WebRTC). A read that would block is represented by ErrDry of the in-memory wire; cloned Noise sessions reuse the keys of one real handshake. The in-place guard change `>=` -> `>` is behaviour-preserving for the statement and is reported as L2 divergence only. A stall is a violation only if it reproduces (20 s / 40 s watchdogs); a harness-process panic only if it reproduces with a stack through the channel code.",
    "engines": [{"name": "C02_Channel", "path": "spec/C02_Channel.tla", "serves_properties": ["C02"],
                 "kind_free_text": "TLA+ spec family (C02_Channel, C02_Psk, C02_Sampled, C02_Mux, C02_LazyMS) + TLC exhaustive + full-transition replay with boundary-class scale map"}],
}
