"""C04 - every failed or finished connection/stream releases all it acquired (fault enumeration).

spec/C04_Lifecycle.tla: an attempt as a process moving through the stages of the upgrader / listener /
swarm / host code, Fail(stage, kind) enabled at every stage with the cleanup the code performs on that
exit written out; TLC explores every Fail placement and every Close interleaving on the bounded model
(invariants Released, SwarmClosed).  Binding = systematic fault injection on the REAL code (no hooks):
real upgrader + Noise/TLS + yamux + PSK + real resource managers over in-memory raw connections, one run
per I/O operation index x fault kind x end (plus gater / resource-manager / config / Close / timeout
specials), the real TCP transport's dial path, a real Swarm and two real BasicHosts.  Every run records
the observable ledger (begin/live/end of every attempt, raw_open/raw_close, Stat() audits, goroutine
census) and TLC validates each ledger against the observable-level spec/C04_Obs.tla."""
import concurrent.futures
import json
import os
import re

from lib import evidence, findings, goenv, tlc, tracecheck
from lib.common import HarnessCrash, MachineryError, classify_mismatches, log, save_replay

USAGE_KEYS = ("sIn", "sOut", "cIn", "cOut", "fd", "mem", "tsIn", "tsOut", "tcIn", "tcOut", "tfd", "tmem", "other")

FAMILIES = [
    # (name, package, test regex, quick?, required)
    ("upgrader", "./p2p/net/upgrader", "^TestVerifC04Upgrader$"),
    ("tcp", "./p2p/transport/tcp", "^TestVerifC04Tcp$"),
    ("swarm", "./p2p/net/swarm", "^TestVerifC04Swarm$"),
    ("host", "./p2p/host/basic", "^TestVerifC04Host$"),
    # fifth family "transports": the transports the other four do not drive
    ("tcpreuse", "./p2p/transport/tcpreuse", "^TestVerifC04Tcpreuse$"),
    ("ws", "./p2p/transport/websocket", "^TestVerifC04Websocket$"),
    ("quic", "./p2p/transport/quic", "^TestVerifC04Quic$"),
]


# ------------------------------------------------------------------------------------------------
# naming a rejected ledger: a python fold of the same ledger, used ONLY to derive a stable class key
# (the verdict itself is TLC's: the ledger is not a behaviour of C04_Obs)

def diagnose(reset, evs):
    probs, raw, obj, stage, rmof, kinds, fds = [], {}, {}, {}, {}, {}, {}
    for e in evs:
        ev = e["ev"]
        if ev == "begin":
            if e["o"] in obj:
                probs.append("begin-twice:" + e["o"])
            obj[e["o"]] = "pending"
            rmof[e["o"]] = e.get("rm")
            kinds[e["o"]] = (e.get("kind"), e.get("dir"))
            fds[e["o"]] = bool(e.get("fd"))
        elif ev == "live":
            if obj.get(e["o"]) != "pending":
                probs.append("live-not-pending:" + e["o"])
            obj[e["o"]] = "live"
        elif ev == "end":
            if obj.get(e["o"]) not in ("pending", "live"):
                probs.append("end-twice:" + e["o"])
            obj[e["o"]] = "ended"
            stage[e["o"]] = e.get("stage", "")
        elif ev == "raw_open":
            raw[e["o"]] = "open"
        elif ev == "raw_close":
            raw[e["o"]] = "closed"
        elif ev == "deadlock":
            probs.append("goroutine-blocked-forever")
        elif ev in ("bad_return", "bad_accept"):
            probs.append(ev)
        elif ev == "swarm_closed":
            if e.get("conns") or e.get("listeners"):
                probs.append("after-close:conns=%s,listeners=%s" % (e.get("conns"), e.get("listeners")))
            for o in obj:
                if rmof.get(o) == e.get("rm"):
                    obj[o] = "ended"
        elif ev == "residue":
            r = e["rm"]
            mine = [o for o in obj if rmof.get(o) == r and obj[o] in ("pending", "live")]
            if e.get("holepunch"):
                probs.append("residue:%s:holepunch" % r)
            if e.get("endpoints"):
                probs.append("residue:%s:endpoints" % r)
            if e.get("conns", 0) > sum(1 for o in mine if kinds.get(o, ("", ""))[0] == "conn"):
                probs.append("residue:%s:conns" % r)
            if not mine and e.get("listeners"):
                probs.append("residue:%s:listeners" % r)
        elif ev == "audit":
            r = e["rm"]
            mine = [o for o in obj if rmof.get(o) == r]

            def cnt(kind, d, st):
                return sum(1 for o in mine if kinds.get(o) == (kind, d) and obj[o] == st)
            for key, kind, d in (("cIn", "conn", "in"), ("cOut", "conn", "out"), ("sIn", "stream", "in"), ("sOut", "stream", "out")):
                lo, hi = cnt(kind, d, "live"), cnt(kind, d, "live") + cnt(kind, d, "pending")
                if not (lo <= e.get(key, 0) <= hi):
                    probs.append("usage:%s:%s" % (r, key))
            nconn = sum(1 for o in mine if kinds.get(o, ("", ""))[0] == "conn" and obj[o] in ("live", "pending"))
            nlive = sum(1 for o in mine if kinds.get(o, ("", ""))[0] == "conn" and obj[o] == "live" and fds.get(o))
            if not (nlive <= e.get("fd", 0) <= nconn):
                probs.append("usage:%s:fd" % r)
            if not any(obj[o] in ("live", "pending") for o in mine):
                for k in ("mem", "tmem", "other", "tsIn", "tsOut", "tcIn", "tcOut", "tfd"):
                    if e.get(k):
                        probs.append("usage:%s:%s" % (r, k))
            if e.get("final"):
                if any(s == "pending" for s in obj.values()):
                    probs.append("pending-at-final")
                if e.get("gor") and all(s == "ended" for s in obj.values()):
                    probs.append("goroutines")
                for o, s in raw.items():
                    if s != "closed" and obj.get(o) == "ended":
                        probs.append("raw-not-closed:" + o)
    return sorted(set(probs)), stage, obj


def class_key(reset, evs):
    """Stable class key of a rejected ledger: what is left over + where the attempt stopped."""
    probs, stage, _obj = diagnose(reset, evs)
    fam, kind = reset.get("family", "?"), reset.get("kind", "?")
    pj = reset.get("p") or {}
    acceptor = not pj.get("no_accept", False)
    # genuine findings on the unchanged tree have precise keys (see known_findings.d/C04.json)
    if fam in ("upgrader", "tcp") and kind == "nilpeer" and probs == ["raw-not-closed:d1"]:
        return "raw-conn-not-closed:upgrade-nil-peer", probs
    if fam == "upgrader" and kind == "forcepnet" and probs and all(p.startswith("raw-not-closed:") for p in probs):
        return "raw-conn-not-closed:upgrade-force-pnet-without-psk", probs
    if fam == "tcp" and kind == "tracing-conn-error" and probs == ["raw-not-closed:d1"]:
        return "raw-conn-not-closed:tcp-dial-tracing-conn-error", probs
    # an inbound connection whose upgrade COMPLETED (stage muxed), that was never handed out although
    # somebody was accepting, whose raw connection was closed BEFORE the listener / swarm began to close
    # (it died in the queue), and whose scope is all that is left
    rm = {"upgrader": "l", "tcp": "l", "host": "b"}.get(fam)
    if rm and acceptor and set(probs) == {"usage:%s:%s" % (rm, k) for k in ("cIn", "fd", "other")}:
        closing = [i for i, e in enumerate(evs) if e["ev"] == "lclose_call" or (e["ev"] == "swarm_closed" and e.get("rm") == rm)
                   or (e["ev"] == "note" and e.get("what") == "host_close_race")]
        inbound = [e["o"] for e in evs if e["ev"] == "begin" and e.get("rm") == rm and e.get("kind") == "conn" and e.get("dir") == "in"]
        lost = []
        for o in inbound:
            died = [i for i, e in enumerate(evs) if e["ev"] == "raw_close" and e["o"] == o]
            if stage.get(o) == "muxed" and not any(e["ev"] == "live" and e["o"] == o for e in evs) \
                    and died and (not closing or died[0] < closing[0]):
                lost.append(o)
        final = [e for e in evs if e["ev"] == "audit" and e.get("rm") == rm]
        # every connection scope left over is accounted for by exactly such a connection
        if lost and final and final[-1].get("cIn") == len(lost) and final[-1].get("fd") == len(lost):
            return "conn-scope-leak:accept-skips-closed-queued-conn", probs
    what = "+".join(re.sub(r"\d+$", "", p) for p in probs) or "ledger-rejected"
    st = reset.get("stage") or "-"
    return "%s:%s:%s@%s:%s" % (fam, what[:80], kind, st, reset.get("side", "")), probs


# ------------------------------------------------------------------------------------------------

def run(ctx):
    thorough = ctx.tier == "thorough"
    tlc.stage(ctx)
    # TLC on the lifecycle model runs in its own process while the harnesses run (tracecheck re-points
    # tlc's staging directory module-wide, so the two must not share a python process)
    with concurrent.futures.ProcessPoolExecutor(max_workers=1) as pool:
        fut = pool.submit(design_level, ctx, thorough)
        fam_res, traces, resets, hangs = {}, [], {}, []
        env = {"GOLOG_LOG_LEVEL": "error+8"}                # the code logs every injected failure at error level
        if thorough:
            env["VERIF_C04_SWARM_ITERS"] = 600
        for name, pkg, rx in FAMILIES:
            try:
                res = goenv.run_harness(ctx, pkg, rx, timeout=1500, env=env)
            except HarnessCrash as e:
                res = crash_verdict(ctx, e, name, pkg, rx, env)
            classify_mismatches(ctx, res, name)
            fam_res[name] = res
            for p in res.get("traces") or []:
                if os.path.exists(p):
                    for (tname, reset, evs) in tracecheck.load_ndjson(p):
                        tname = name + "-" + tname
                        reset = dict(reset, trace=tname)
                        if reset.get("hang"):
                            # the bubble stopped making progress in real time (a goroutine blocked on a mutex
                            # whose holder waits for virtual time): inconclusive, never a verdict
                            hangs.append("%s %s %s: %s" % (tname, reset.get("cfg"), reset.get("plan"), reset["hang"][:300]))
                            continue
                        traces.append((tname, reset, evs))
                        resets[tname] = (reset, evs)
        if not traces:
            raise MachineryError("the C04 harnesses recorded no ledgers")
        verdicts = validate_ledgers(ctx, traces)
        mc = fut.result()
    acc = sum(1 for v in verdicts if v.accepted)
    rej = [v for v in verdicts if not v.accepted]
    classes, first, inconclusive = {}, {}, []
    for v in rej:
        reset, evs = resets[v.name]
        cls, probs = class_key(reset, evs)
        classes[cls] = classes.get(cls, 0) + 1
        first.setdefault(cls, []).append((v, reset, evs, probs))
    fams = {n: (pkg, rx) for n, pkg, rx in FAMILIES}
    reproduced = 0
    for cls, items in first.items():
        known = findings.match(ctx.pid, cls) is not None
        if not known and reproduced >= 5:
            continue            # the point is made; the remaining classes are listed in rejected_classes
        for v, reset, evs, probs in items[:2]:
            rep = "listed in known_findings.d (reproduced by construction in every run)"
            if not known:
                # a violation is reported only after the very case has been executed again and rejected again
                rep = reproduce(ctx, cls, reset, fams[reset["family"]], env)
                if rep is None:
                    inconclusive.append("%s (%s %s)" % (cls, reset.get("cfg", ""), reset.get("plan", "")))
                    ctx.notes.append("INCONCLUSIVE: %s rejected once and not again in 6 repetitions" % inconclusive[-1])
                    break
                reproduced += 1
            fname = "ledger-seed%d-%s.json" % (ctx.seed, v.name)
            if known:
                fname = "known-%s.json" % re.sub(r"[^A-Za-z0-9_.-]+", "_", cls)   # one artefact per known finding, overwritten
            path = save_replay(ctx, fname, {
                "verdict": v.as_dict(), "case": reset, "class": cls, "left_over": probs, "events": evs, "reproduction": rep,
                "how_to_rerun": "VERIF_C04_ONLY='%s' VERIF_C04_REPEAT=6 ./tools_gotest.sh %s '%s' -v" % (
                    only_arg(reset), fams[reset["family"]][0], fams[reset["family"]][1])})
            ctx.violations.append({"cls": cls, "replay": path, "what": "%s: ledger %s (%s %s) is not a behaviour of C04_Obs at event %d/%d %s; left over: %s" % (
                cls, v.name, reset.get("cfg", ""), reset.get("plan", ""), v.matched, v.length,
                json.dumps(v.next_event)[:160], ", ".join(probs) or "-")})
            break
    if inconclusive and not any(findings.match(ctx.pid, v["cls"]) is None for v in ctx.violations):
        # nothing but unreproducible rejections: exit 2, never a verdict
        raise MachineryError("rejected once and not reproduced: %s" % inconclusive[:4])
    # TLC and the python fold must agree on which ledgers are clean (the fold only names classes)
    for v in verdicts:
        if v.accepted:
            probs = diagnose(*resets[v.name])[0]
            if probs:
                raise MachineryError("ledger %s accepted by C04_Obs but the class fold sees %s" % (v.name, probs))
    # evidence
    evals = sum(int(r.get("extra", {}).get("evaluations", r.get("replayed", 0))) for r in fam_res.values())
    fired = sum(int(r.get("extra", {}).get("fired", 0)) for r in fam_res.values())
    distinct = sum(int(r.get("distinct", 0)) for r in fam_res.values())
    exits = sorted(set(x for r in fam_res.values() for x in r.get("extra", {}).get("exits", [])))
    aborted = sum(int(r.get("extra", {}).get("skipped_after_stuck", 0)) for r in fam_res.values())
    if aborted and not ctx.violations:
        raise MachineryError("%d runs were skipped after scenarios that could not finish, but no ledger was rejected" % aborted)
    missing = check_exits(mc, exits) if not aborted else ["(not checked: %d runs skipped after stuck scenarios)" % aborted]
    samples = []
    for r in fam_res.values():
        samples += (r.get("samples") or [])[:2]
    log("C04: MC %d states; %d fault runs (%d fired, %d distinct tuples); ledgers %d accepted, %d rejected %s"
        % (mc["states"], evals, fired, distinct, acc, len(rej), classes))
    if not aborted and (evals < (700 if not thorough else 2500) or fired < evals // 2):
        raise MachineryError("vacuous run: %d evaluations, %d fired" % (evals, fired))
    if len(hangs) * 100 > evals:
        raise MachineryError("%d of %d runs made no progress in real time: %s" % (len(hangs), evals, hangs[:3]))
    for h in hangs[:5]:
        ctx.notes.append("INCONCLUSIVE (real-time hang under synctest) " + h)
    cov = {
        "evaluations": evals,
        "distinct_nontrivial": distinct,
        "rule": "; ".join("[%s] %s" % (n, r.get("rule", "")) for n, r in fam_res.items()),
        "samples": samples[:6] or ["(none)"],
        "states": mc["states"], "transitions": mc["transitions"], "exhaustive": False,
        "traces_validated_against_impl": acc,
        "checker_cmd": "tlc C04_MC.tla (Released, SwarmClosed, Drained; CodeQuirks instances must violate Released); tlc C04_Obs.tla on every recorded ledger",
        "mc_instances": mc["instances"], "faults_fired": fired, "ledgers_accepted": acc, "ledgers_rejected": len(rej),
        "rejected_classes": classes, "exits_hit": exits, "model_exits": mc.get("exits"),
        "model_exits_not_hit": missing, "inconclusive_hangs": len(hangs), "notes": ctx.notes[:10],
        "per_family": {n: {"evaluations": r.get("extra", {}).get("evaluations", r.get("replayed")),
                           "fired": r.get("extra", {}).get("fired"), "distinct": r.get("distinct"),
                           "ops": {k[4:]: v for k, v in r.get("extra", {}).items() if k.startswith("ops/")}}
                       for n, r in fam_res.items()},
    }
    return {"level": "fault_enumeration", "coverage": cov, "assumptions": [
        "raw connections are in-memory (buffered, full-duplex, deadlines in virtual time); a fault is sticky from operation k on; one fault per run",
        "virtual time (testing/synctest): stalls run into the code's own deadlines (accept timeout, negotiate timeout, yamux keep-alive, dial and NewStream contexts)",
        "usage is read with Stat() at quiescent points; final audits are taken after the owner of every object has closed it (or the swarm/host was closed) and the listener's Close has returned; the goroutine census is the set of goroutines left in the run's bubble",
        "swarm family: stub transport connections that own a real connection scope; host family: an in-memory TCP-shaped transport around the real upgrader",
        "transports family: QUIC over an in-memory UDP network (faults = black-holing a direction from datagram k, cancel / Close at datagram k); the raw QUIC connection counts as closed when no datagram flows during eight keep-alive periods after everything was closed; tcpreuse and the websocket listener are built around a fake manet.Listener by a harness copy of their constructors' struct literals (the socket is the only thing replaced); websocket Dial runs over loopback sockets with verdicts from Stat(), socket descriptors and what the server saw",
        "wss (TLS websocket), WebTransport and WebRTC are not fault-injected; QUIC key-extraction failure in wrapConn is not reachable through a real handshake",
    ]}


_SEQ = [0]


def only_arg(reset):
    pj = json.dumps(reset.get("p") or {})
    return "%s|%s" % (reset.get("cfg", ""), pj) if reset.get("family") == "upgrader" else pj


def reproduce(ctx, cls, reset, fam, env, repeat=6):
    """Execute the rejected case again (several times: most are races) and let TLC judge the new ledgers;
    not reproduced = inconclusive = machinery failure, never a verdict."""
    pkg, rx = fam
    e = dict(env, VERIF_C04_ONLY=only_arg(reset), VERIF_C04_REPEAT=repeat)
    try:
        res = goenv.run_harness(ctx, pkg, rx, timeout=900, env=e)
    except HarnessCrash as ex:
        raise MachineryError("reproducing %s crashed the harness:\n%s" % (cls, (ex.log or "")[-1500:]))
    traces = []
    for p in res.get("traces") or []:
        if os.path.exists(p):
            for (tname, r2, evs) in tracecheck.load_ndjson(p):
                if not r2.get("hang"):
                    traces.append(("re-" + tname, dict(r2, trace="re-" + tname), evs))
    if not traces:
        raise MachineryError("reproducing %s recorded no ledger" % cls)
    again = [v for v in validate_ledgers(ctx, traces) if not v.accepted]
    same = other = 0
    for v in again:
        r2, evs = [(t[1], t[2]) for t in traces if t[0] == v.name][0]
        c2 = class_key(r2, evs)[0]
        if c2 == cls:
            same += 1
        elif findings.match(ctx.pid, c2) is None:
            other += 1          # the same case fails again, with a different residue (races)
    if not same and not other:
        return None
    return "rejected again in %d of %d repetitions (%d with the same class)" % (same + other, len(traces), same)


def validate_ledgers(ctx, traces, batch=700):
    """TLC validates every ledger against C04_Obs in one pass per batch: the specification consumes all
    ledgers and records the rejected ones itself (variable `bad`, printed as VFBAD by the postcondition)."""
    verdicts = []
    for bi in range(0, len(traces), batch):
        chunk = traces[bi:bi + batch]
        _SEQ[0] += 1
        hw, violated, nlines, res = tracecheck._run_batch(ctx, "C04_Obs", "C04_Obs.cfg", chunk, "c04-%d" % _SEQ[0], 900, True)
        if violated or hw != nlines + 1:
            raise MachineryError("C04_Obs did not consume its batch (hw=%s of %d, %s):\n%s" % (hw, nlines, violated, res.out[-1500:]))
        bad = None
        for tag, obj in res.prints:
            if tag == "VFBAD":
                bad = {b["trace"]: b for b in obj["bad"]}
        if bad is None:
            raise MachineryError("C04_Obs printed no VFBAD line")
        pos = 0
        for name, _reset, evs in chunk:
            v = tracecheck.TraceVerdict(name)
            v.length = len(evs)
            if name in bad:
                v.matched = max(0, int(bad[name]["at"]) - (pos + 1) - 1)
                v.next_event = evs[v.matched] if v.matched < len(evs) else None
            else:
                v.accepted, v.matched = True, len(evs)
            verdicts.append(v)
            pos += 1 + len(evs)
        unknown = set(bad) - set(t[0] for t in chunk)
        if unknown:
            raise MachineryError("C04_Obs rejected ledgers that are not in the batch: %s" % sorted(unknown))
    return verdicts


INVS = "INVARIANTS TypeOK Released SwarmClosed NoOrphan"
QUIRKS = ["tracing", "nilpeer", "forcepnet", "skip"]


def design_level(ctx, thorough):
    out = {"states": 0, "transitions": 0, "instances": [], "exits": None}

    def mc(x, ws, live, quirks="{}", workers=2, invs=INVS):
        repl = [("X_", x + "_")]
        if live:
            repl += [("SPECIFICATION Spec", "SPECIFICATION FairSpec"), (INVS, INVS + "\nPROPERTIES Drained")]
        elif invs != INVS:
            repl += [(INVS, invs)]
        cfg = tlc.subst_cfg("C04_MC.cfg", {"WithStreams": ws, "CodeQuirks": quirks}, replace=repl)
        return tlc.run(ctx, "C04_MC", "gen_%s.cfg" % x, cfg_text=cfg, workers=workers, timeout=1500, name="mc" + x)

    plan = [("A", "TRUE", True), ("B", "FALSE", False)]
    if thorough:
        plan = [("A", "TRUE", True), ("C", "TRUE", True), ("B", "FALSE", False), ("D", "TRUE", False)]
    for x, ws, live in plan:
        r = mc(x, ws, live)
        if not r.ok:
            raise MachineryError("design-level failure in C04 %s: %s\n%s" % (x, r.violated, r.out[-2500:]))
        out["states"] += r.distinct
        out["transitions"] += r.generated
        out["instances"].append({"instance": x, "streams": ws, "liveness": live, "distinct": r.distinct,
                                 "generated": r.generated, "wall_s": r.wall})
        for tag, obj in r.prints:
            if tag == "VFEXITS":
                out["exits"] = sorted("|".join(e) for e in obj["exits"])
    if not out["exits"]:
        raise MachineryError("C04_MC printed no VFEXITS line")
    # the exits the code gets wrong, modelled as they are: TLC must report Released violated (design-level
    # image of the known findings); one run for all in quick, one per exit in thorough
    for q in ([QUIRKS] if not thorough else [[x] for x in QUIRKS]):
        r = mc("A", "FALSE", False, quirks="{%s}" % ", ".join('"%s"' % x for x in q))
        out["instances"].append({"instance": "A with CodeQuirks=%s (Released expected to fail)" % q, "violated": r.violated})
        if r.ok or r.violated != "Released":
            raise MachineryError("CodeQuirks %s: expected Released to be violated, got %s" % (q, r.violated))
    # doClose forgetting the stream map last (snapshot / reset / forget as three steps): a stream admitted in
    # the window is in nobody's snapshot - TLC must find NoOrphan violated
    r = mc("A", "TRUE", False, quirks='{"lateforget"}')
    out["instances"].append({"instance": "A with CodeQuirks=lateforget (NoOrphan expected to fail)", "violated": r.violated})
    if r.ok or r.violated != "NoOrphan":
        raise MachineryError("CodeQuirks lateforget: expected NoOrphan to be violated, got %s" % r.violated)
    for probe in ("ReachQueuedDead", "ReachCloseRace", "ReachStreamReset", "ReachAdmitDuringClose"):
        r = mc("A", "TRUE", False, invs="INVARIANTS " + probe)
        if r.ok or r.violated != probe:
            raise MachineryError("vacuity guard %s not reachable" % probe)
    return out


_IO = {"err": "io", "eof": "io", "stall": "io", "cancel": "ctx", "lclose": "ctx"}
_DIRS = {"d": ["out"], "l": ["in"]}


def model_exit(x):
    """Map an exit hit by a harness to the model's <<dir, stage, kind>> triples (or [] when the model has
    no such exit because nothing is released there: faults on an established connection, stream stages)."""
    p = x.split("|")
    if p[0] == "tcp":
        return {"rm-open": ["out|dial|rcmgr-open"], "rm-setpeer": ["out|dial|rcmgr-setpeer"], "dial-error": ["out|dial|dial-error"],
                "ctx-cancelled": ["out|dial|dial-error"], "tracing-conn-error": ["out|dial|tracing"],
                "nilpeer": ["out|entry|nilpeer"]}.get(p[1], [])
    if p[0] == "swarm":
        return {"handed:gater": ["in|handed|gater", "out|handed|gater"],
                "handed:swarmclosed": ["in|handed|swarmclosed", "out|handed|swarmclosed"]}.get(p[1], [])
    if p[0] == "host":
        return []
    if p[0] == "quic":   # the QUIC handshake is the transport's "dial"; gater / SetPeer come after it
        return {"rm-open-a": ["out|dial|rcmgr-open"], "rm-setpeer-a": ["out|dial|rcmgr-setpeer"], "no-listener": ["out|dial|dial-error"],
                "wrong-key": ["out|dial|dial-error"], "ctx-cancelled": ["out|dial|dial-error"], "drop": ["out|dial|dial-error"],
                "cancel": ["out|dial|dial-error"], "gater-secured-a": ["out|gated|gater"], "rm-open-b": ["in|accept|rcmgr-open"],
                "gater-accept-b": ["in|accept|gater"], "gater-secured-b": ["in|gated|gater"], "rm-setpeer-b": ["in|setpeer|rcmgr"]}.get(p[1], [])
    if p[0] == "ws":
        return {"lo-rm-open": ["out|dial|rcmgr-open"], "lo-refused": ["out|dial|dial-error"], "lo-tcp-close": ["out|dial|dial-error"],
                "lo-tcp-silent": ["out|dial|dial-error"], "lo-http-200": ["out|dial|dial-error"], "lo-ctx-cancelled": ["out|dial|dial-error"],
                "lo-rm-setpeer": ["out|setpeer|rcmgr"], "lo-gater-secured": ["out|gated|gater"],
                "silent": ["in|wsneg|ctx"], "half-request": ["in|wsneg|ctx"], "http-get": ["in|wsneg|io"], "garbage": ["in|wsneg|io"],
                "rm-open-l": ["in|accept|rcmgr-open"], "rm-setpeer-l": ["in|setpeer|rcmgr"], "gater-secured-l": ["in|gated|gater"]}.get(p[1], [])
    if p[0] == "tcpreuse":
        return {"sample-close": ["in|demux|io"], "sample-silent": ["in|demux|io"], "fault": ["in|demux|io"], "route": ["in|demux|nolistener"],
                "accept-timeout": ["in|demux|ctx"], "close": ["in|demux|ctx"]}.get(p[1], [])
    side, stage, kind = p
    if side == "":
        return {"gater-accept": ["in|accept|gater"], "gater-secured-d": ["out|gated|gater"], "gater-secured-l": ["in|gated|gater"],
                "rm-open-l": ["in|accept|rcmgr-open"], "rm-setpeer-d": ["out|setpeer|rcmgr"], "rm-setpeer-l": ["in|setpeer|rcmgr"],
                "nilpeer": ["out|entry|nilpeer"], "forcepnet": ["in|entry|forcepnet", "out|entry|forcepnet"],
                "badpsk": ["in|entry|badpsk", "out|entry|badpsk"], "noaccept": ["in|queued|ctx"], "threshold": ["in|queued|ctx"],
                "hangup-queued": ["in|queued|skip"]}.get(kind, [])
    if kind in _IO and stage in ("secneg", "handshake", "muxneg"):
        return ["%s|%s|%s" % (d, stage, _IO[kind]) for d in _DIRS[side]]
    if kind == "lclose" and side == "l" and stage == "muxed":
        return ["in|queued|ctx"]
    return []


def check_exits(mc, exits):
    """Every exit of the model must have been taken by at least one fault run, and no run may land on a
    <<dir, stage, kind>> the model lacks (model and enumeration describe the same code)."""
    if not mc.get("exits"):
        return []
    model = set(mc["exits"])
    hit = set()
    for x in exits:
        for m in model_exit(x):
            if m not in model:
                raise MachineryError("the enumeration hit exit %s (%s) that C04_Lifecycle does not have" % (m, x))
            hit.add(m)
    missing = sorted(model - hit)
    if missing:
        raise MachineryError("model exits never taken by the fault enumeration: %s" % missing)
    return missing


_CRASH = re.compile(r"^(panic: .*|fatal error: .*)$", re.M)


def crash_verdict(ctx, e, name, pkg, rx, env):
    """A harness process that dies (panic inside library goroutines, fatal error): reproduce once, then it
    is a violation of 'no goroutine started for the attempt keeps running / clean teardown' only if the
    same signature comes back; otherwise inconclusive (machinery)."""
    m = _CRASH.search(e.log or "")
    if not m:
        raise e
    sig = re.sub(r"0x[0-9a-f]+|\d+", "N", m.group(1))[:120]
    try:
        res = goenv.run_harness(ctx, pkg, rx, timeout=1500, env=env)
        ctx.notes.append("the %s harness process died once (%s) and ran to completion when repeated" % (name, sig))
        return res
    except HarnessCrash as e2:
        m2 = _CRASH.search(e2.log or "")
        if m2 and re.sub(r"0x[0-9a-f]+|\d+", "N", m2.group(1))[:120] == sig:
            return {"replayed": 0, "steps": 0, "distinct": 0, "samples": [], "traces": [], "extra": {}, "mismatches": [
                {"class": "crash:%s:%s" % (name, sig), "what": "the %s harness process dies while tearing down an attempt: %s" % (name, m.group(1)),
                 "got": e2.log[-3000:], "walk": -1, "step": -1}]}
        raise e2


MANIFEST = {
    "technique": "TLA+ lifecycle model (attempt stages x Fail(stage, kind) x Close interleavings, invariants Released / SwarmClosed) model-checked with TLC; systematic fault enumeration on the real upgrader / TCP dial path / Swarm / BasicHost with real resource managers over in-memory raw connections under testing/synctest; every run's observable ledger validated by TLC against the observable-level spec C04_Obs whose guards are the statement's clauses",
    "category": "fault_enumeration",
    "text": "A leak on one early return shows only when a failure lands exactly there: the check re-runs a connection attempt once for every I/O operation index of a fault-free dry run x {read/write error, path cut (EOF), stall until the deadline, context cancel / listener Close, conn Close} x end x {Noise, TLS} x {early muxer, multistream} x {PSK, none}, plus every gater hook rejecting, the real resource manager refusing at OpenConnection / SetPeer / the muxer's span / OpenStream / SetProtocol / SetService / ReserveMemory, nil peer, forced private network, accept-queue timeout and threshold scenarios, the TCP transport's dial exits, seeded swarm operation sequences and BasicHost.NewStream stages, and audits after each one: Stat() of system, transient and every other scope back to zero, Close observed on the raw connection of every ended attempt, no goroutine left in the bubble, nothing left after Swarm/Host.Close. The TLA+ lifecycle model states per exit what the code releases and TLC checks Released / SwarmClosed / Drained for every Fail placement and Close interleaving; every model exit must be taken by at least one fault run.",
    "note": "Trusted: synctest quiescence, the in-memory pipe, the ledger recorder; Stat() is the resource manager's own accounting (C03 checks it). Established-connection faults are resolved by the owner closing the connection. Four genuine findings on the unchanged tree are listed in known_findings.d/C04.json.",
    "engines": [{"name": "C04_Lifecycle", "path": "spec/C04_Lifecycle.tla", "serves_properties": ["C04"],
                 "kind_free_text": "TLA+ spec + TLC exhaustive + fault enumeration on the real code + trace validation against C04_Obs.tla"}],
}
