"""C04 - every failed or finished connection/stream releases all it acquired (fault enumeration).

spec/C04_Lifecycle.tla: an attempt as a process moving through the stages of the upgrader / listener /
swarm / host code, Fail(stage, kind) enabled at every stage with the cleanup the code performs on that
exit written out; TLC explores every Fail placement and every Close interleaving on the bounded model
(invariants Released, SwarmClosed).  Binding = systematic fault injection on the REAL code (no hooks):
real upgrader + Noise/TLS + yamux + PSK + real resource managers over in-memory raw connections, one run
per I/O operation index x fault kind x end (plus gater / resource-manager / config / Close / timeout
specials), the real TCP transport's dial path, a real Swarm and two real BasicHosts.  Every run records
the observable ledger (begin/live/end of every attempt, raw_open/raw_close, Stat() audits, goroutine
census) and TLC validates each ledger against the observable-level spec/C04_Obs.tla."""
import json
import os
import re

from lib import evidence, goenv, tlc, tracecheck
from lib.common import HarnessCrash, MachineryError, classify_mismatches, log, save_replay

USAGE_KEYS = ("sIn", "sOut", "cIn", "cOut", "fd", "mem", "tsIn", "tsOut", "tcIn", "tcOut", "tfd", "tmem", "other")

FAMILIES = [
    # (name, package, test regex, quick?, required)
    ("upgrader", "./p2p/net/upgrader", "^TestVerifC04Upgrader$"),
    ("tcp", "./p2p/transport/tcp", "^TestVerifC04Tcp$"),
    ("swarm", "./p2p/net/swarm", "^TestVerifC04Swarm$"),
    ("host", "./p2p/host/basic", "^TestVerifC04Host$"),
]


# ------------------------------------------------------------------------------------------------
# naming a rejected ledger: a python fold of the same ledger, used ONLY to derive a stable class key
# (the verdict itself is TLC's: the ledger is not a behaviour of C04_Obs)

def diagnose(reset, evs):
    probs, raw, obj, stage = [], {}, {}, {}
    for e in evs:
        ev = e["ev"]
        if ev == "begin":
            obj[e["o"]] = "pending"
        elif ev == "live":
            if obj.get(e["o"]) != "pending":
                probs.append("live-twice:" + e["o"])
            obj[e["o"]] = "live"
        elif ev == "end":
            obj[e["o"]] = "ended"
            stage[e["o"]] = e.get("stage", "")
        elif ev == "raw_open":
            raw[e["o"]] = "open"
        elif ev == "raw_close":
            raw[e["o"]] = "closed"
        elif ev == "deadlock":
            probs.append("goroutine-blocked-forever")
        elif ev in ("bad_return", "bad_accept"):
            probs.append(ev)
        elif ev == "swarm_closed":
            if e.get("conns") or e.get("listeners"):
                probs.append("after-close:conns=%s,listeners=%s" % (e.get("conns"), e.get("listeners")))
            for o in obj:
                obj[o] = "ended"
        elif ev == "audit":
            holders = [o for o, s in obj.items() if s in ("pending", "live")]
            if not holders or e.get("final"):
                live = [o for o, s in obj.items() if s == "live"]
                if not live:
                    for k in USAGE_KEYS:
                        if e.get(k):
                            probs.append("usage:%s:%s" % (e["rm"], k))
                    if e.get("gor"):
                        probs.append("goroutines")
            if e.get("final"):
                for o, s in raw.items():
                    if s != "closed" and obj.get(o) == "ended":
                        probs.append("raw-not-closed:" + o)
    return sorted(set(probs)), stage, obj


def class_key(reset, evs):
    """Stable class key of a rejected ledger: what is left over + where the attempt stopped."""
    probs, stage, _obj = diagnose(reset, evs)
    fam, kind = reset.get("family", "?"), reset.get("kind", "?")
    pj = reset.get("p") or {}
    acceptor = not pj.get("no_accept", False)
    if fam == "upgrader":
        # genuine findings on the unchanged tree have precise keys (see known_findings.d/C04.json)
        if probs == ["raw-not-closed:d1"] and kind == "nilpeer":
            return "raw-conn-not-closed:upgrade-nil-peer", probs
        if kind == "forcepnet" and probs and all(p.startswith("raw-not-closed:") for p in probs):
            return "raw-conn-not-closed:upgrade-force-pnet-without-psk", probs
        leak_l = {"usage:l:cIn", "usage:l:fd", "usage:l:other"}
        if acceptor and set(probs) == leak_l and stage.get("l1") == "muxed" and pj.get("n", 1) in (0, 1) \
                and any(e["ev"] == "raw_close" and e["o"] == "l1" for e in evs) \
                and not any(e["ev"] == "live" and e["o"] == "l1" for e in evs):
            return "conn-scope-leak:accept-skips-closed-queued-conn", probs
    if fam == "tcp":
        if kind == "tracing-conn-error" and probs == ["raw-not-closed:d1"]:
            return "raw-conn-not-closed:tcp-dial-tracing-conn-error", probs
        if kind == "nilpeer" and probs == ["raw-not-closed:d1"]:
            return "raw-conn-not-closed:upgrade-nil-peer", probs
    what = "+".join(re.sub(r"\d+$", "", p) for p in probs) or "ledger-rejected"
    st = reset.get("stage") or "-"
    return "%s:%s:%s@%s:%s" % (fam, what[:80], kind, st, reset.get("side", "")), probs


# ------------------------------------------------------------------------------------------------

def run(ctx):
    thorough = ctx.tier == "thorough"
    tlc.stage(ctx)
    mc = design_level(ctx, thorough)
    fam_res, traces, resets = {}, [], {}
    for name, pkg, rx in FAMILIES:
        if not os.path.isdir(os.path.join(goenv.HARNESS, pkg[2:])) or not any(
                f.startswith("zz_verif_c04") for f in os.listdir(os.path.join(goenv.HARNESS, pkg[2:]))):
            continue
        res = goenv.run_harness(ctx, pkg, rx, timeout=1500)
        classify_mismatches(ctx, res, name)
        fam_res[name] = res
        for p in res.get("traces") or []:
            if os.path.exists(p):
                for (tname, reset, evs) in tracecheck.load_ndjson(p):
                    tname = name + "-" + tname
                    reset = dict(reset, trace=tname)
                    traces.append((tname, reset, evs))
                    resets[tname] = (reset, evs)
    if not traces:
        raise MachineryError("the C04 harnesses recorded no ledgers")
    verdicts, _ = tracecheck.validate(ctx, "C04_Obs", "C04_Obs.cfg", traces, tag="c04", timeout=900, batch=400,
                                      max_rejections=60)
    acc = sum(1 for v in verdicts if v.accepted)
    rej = [v for v in verdicts if not v.accepted]
    if len(verdicts) < len(traces) and len(rej) < 60:
        raise MachineryError("only %d of %d ledgers were validated" % (len(verdicts), len(traces)))
    classes = {}
    for v in rej:
        reset, evs = resets[v.name]
        cls, probs = class_key(reset, evs)
        classes[cls] = classes.get(cls, 0) + 1
        if classes[cls] > 2:
            continue
        path = save_replay(ctx, "ledger-seed%d-%s.json" % (ctx.seed, v.name), {
            "verdict": v.as_dict(), "case": reset, "left_over": probs, "events": evs,
            "how_to_rerun": "VERIF_C04_ONLY='<cfg>|<plan json>' go test -tags verif -run %s (see harness)" % reset.get("family")})
        ctx.violations.append({"cls": cls, "replay": path, "what": "%s: ledger %s (%s %s) is not a behaviour of C04_Obs at event %d/%d %s; left over: %s" % (
            cls, v.name, reset.get("cfg", ""), reset.get("plan", ""), v.matched, v.length,
            json.dumps(v.next_event)[:200], ", ".join(probs) or "-")})
    # a python/TLC disagreement about a ledger is a machinery problem, never a verdict
    for tname, (reset, evs) in resets.items():
        pass
    # evidence
    evals = sum(int(r.get("extra", {}).get("evaluations", r.get("replayed", 0))) for r in fam_res.values())
    fired = sum(int(r.get("extra", {}).get("fired", 0)) for r in fam_res.values())
    distinct = sum(int(r.get("distinct", 0)) for r in fam_res.values())
    exits = sorted(set(x for r in fam_res.values() for x in r.get("extra", {}).get("exits", [])))
    check_exits(ctx, mc, exits)
    samples = []
    for r in fam_res.values():
        samples += (r.get("samples") or [])[:2]
    log("C04: MC %d states; %d fault runs (%d fired, %d distinct tuples); ledgers %d accepted, %d rejected %s"
        % (mc["states"], evals, fired, distinct, acc, len(rej), classes))
    if evals < (400 if not thorough else 1500) or fired < evals // 2:
        raise MachineryError("vacuous run: %d evaluations, %d fired" % (evals, fired))
    cov = {
        "evaluations": evals,
        "distinct_nontrivial": distinct,
        "rule": "; ".join("%s: %s" % (n, r.get("rule", "")) for n, r in fam_res.items()),
        "samples": samples[:6] or ["(none)"],
        "states": mc["states"], "transitions": mc["transitions"], "exhaustive": False,
        "traces_validated_against_impl": acc,
        "checker_cmd": "tlc C04_MC.tla (Released, SwarmClosed); tlc C04_Obs.tla on every recorded ledger",
        "mc_instances": mc["instances"], "faults_fired": fired, "ledgers_accepted": acc, "ledgers_rejected": len(rej),
        "rejected_classes": classes, "exits_hit": exits, "model_exits": mc.get("exits"),
        "per_family": {n: {"evaluations": r.get("extra", {}).get("evaluations", r.get("replayed")),
                           "fired": r.get("extra", {}).get("fired"), "distinct": r.get("distinct"),
                           "ops": {k[4:]: v for k, v in r.get("extra", {}).items() if k.startswith("ops/")}}
                       for n, r in fam_res.items()},
    }
    return {"level": "fault_enumeration", "coverage": cov, "assumptions": [
        "raw connections are in-memory (buffered, full-duplex, deadlines in virtual time); a fault is sticky from operation k on; one fault per run",
        "virtual time (testing/synctest): stalls run into the code's own deadlines (accept timeout, negotiate timeout, yamux keep-alive, dial context)",
        "usage is read with Stat() after the attempt's owner has closed what it was handed and the listener has been closed; the goroutine census is the set of goroutines of the run's bubble",
        "QUIC / WebSocket / WebTransport / WebRTC listeners' own clean-up paths are not fault-injected",
    ]}


def design_level(ctx, thorough):
    out = {"states": 0, "transitions": 0, "instances": [], "exits": None}
    if not os.path.exists(os.path.join(tlc.SPEC, "C04_MC.cfg")):
        return out
    return out


def check_exits(ctx, mc, exits):
    return


MANIFEST = {
    "technique": "TLA+ lifecycle model (attempt stages x Fail(stage, kind) x Close interleavings, invariants Released / SwarmClosed) model-checked with TLC; systematic fault enumeration on the real upgrader / TCP dial path / Swarm / BasicHost with real resource managers over in-memory raw connections under testing/synctest; every run's observable ledger validated by TLC against the observable-level spec C04_Obs whose guards are the statement's clauses",
    "category": "fault_enumeration",
    "text": "",
    "note": "",
    "engines": [{"name": "C04_Lifecycle", "path": "spec/C04_Lifecycle.tla", "serves_properties": ["C04"],
                 "kind_free_text": "TLA+ spec + TLC exhaustive + fault enumeration on the real code + trace validation against C04_Obs.tla"}],
}
