"""C01 - security handshakes authenticate the remote peer's identity.

spec/C01_Handshake.tla holds three small machines:
  N  symbolic (Dolev-Yao) model of the Noise XX handshake of p2p/security/noise under an attacker who owns
     the wire (drop, duplicate, inject, truncate, extend, flip every field and the length prefix, splice
     or replay the messages of another session, reflect, forge messages with its own keys and with every
     combination of claimed identity key and signature), for every expected-peer setting on either side
     and every prologue pairing; the statement is the invariants AuthN / ExpectN / NoAlteredN / AgreeN;
     five deliberately broken rules must violate them;
  T  the libp2p TLS certificate verifier against a malicious endpoint with a crafted certificate;
  S  swarm: Dial(P) over transports that return a connection authenticated as somebody else.
Every transition of the printed graphs is replayed on the real code: two real Noise transports joined by
a framing-aware man-in-the-middle inside a synctest bubble (harness/p2p/security/noise), real TLS
transports with crafted certificates (harness/p2p/security/tls), a real Swarm over scripted transports
(harness/p2p/net/swarm/zz_verif_c01_swarm_test.go).  Abstract edits are concretised as every byte position
of the real field, every cut, every bit of the length prefix; identity key types are crossed."""
import concurrent.futures as cf
import os

from lib import evidence, goenv, graph, tlc
from lib.common import MachineryError, classify_mismatches, log

PKG_N = "./p2p/security/noise"
PKG_T = "./p2p/security/tls"
PKG_S = "./p2p/net/swarm"
PKG_Q = "./p2p/transport/quic"
PKG_U = "./p2p/net/upgrader"
INV_N = "INVARIANTS TypeOKN AuthN ExpectN NoAlteredN AgreeN"
BROKEN_N = ("nosig", "sigunbound", "checkinit", "noaead", "nodh")
BROKEN_T = ("nosig", "sigunbound", "chain2")
BROKEN_S = ("noaddrcheck", "nochecks")
BROKEN_H = ("addronly", "servernocheck", "panicdone")
REACH_N = ("ReachBothDone", "ReachMasI", "ReachMasR")


def _fast_unescape(s, _slow=tlc._unescape):
    return s.replace('\\"', '"') if "\\\\" not in s else _slow(s)


tlc._unescape = _fast_unescape


def _cfg(part, consts=None, inv=None, edges=False):
    rep = []
    init = ("MCInit" if edges else "Init") + part
    if part != "N" or edges:
        rep.append(("INIT InitN", "INIT " + init))
    if part != "N":
        rep.append(("NEXT NextN", "NEXT Next" + part))
    tail = ""
    if inv:
        tail += "INVARIANTS " + inv
    if edges:
        tail += "\nACTION_CONSTRAINT EmitEdge"
    rep.append((INV_N, tail))
    return tlc.subst_cfg("C01_MC.cfg", consts or {}, replace=rep)


def _set(xs):
    return "{" + ", ".join('"%s"' % x for x in xs) + "}"


def _job(args):
    """One TLC run; returns a small picklable summary (+ graph pieces for the edge runs)."""
    ctx, name, cfg_text, expect = args[:4]
    workers = args[4] if len(args) > 4 else 1
    r = tlc.run(ctx, "C01_MC", "gen_%s.cfg" % name, cfg_text=cfg_text, workers=workers, timeout=1500, name=name,
                deadlock=False)
    out = {"name": name, "ok": r.ok, "violated": r.violated, "distinct": r.distinct, "generated": r.generated,
           "wall": r.wall, "inits": r.inits, "edges": r.edges, "cmd": r.cmd}
    if expect is None:
        if not r.ok:
            raise MachineryError("design-level failure in C01 run %s: %s violated\n%s" % (name, r.violated, r.out[-2500:]))
    elif r.ok or r.violated not in expect:
        raise MachineryError("vacuity guard %s: expected one of %s to be violated, got ok=%s violated=%s"
                             % (name, expect, r.ok, r.violated))
    return out


def _faults(ctx, pkg, run, beh):
    """A fault harness whose process dies did so because a panic inside a handshake propagated: acceptable
    behaviour under the statement ("the call returns an error or the panic propagates"), not a verdict."""
    from lib.common import HarnessCrash
    try:
        return goenv.run_harness(ctx, pkg, run, inputs=beh, timeout=900)
    except HarnessCrash as e:
        if "injected panic" in (e.log or ""):
            ctx.notes.append("fault harness %s: an injected panic propagated and ended the harness process (allowed)" % run)
            return {"replayed": 0, "steps": 0, "distinct": 0, "mismatches": [], "extra": {}, "_rc": 0, "_log": ""}
        raise


def _kinds(g, field="name"):
    k = {}
    for _s, op, _t in g.edges:
        k[op[field]] = k.get(op[field], 0) + 1
    return k


ALL_EXP = ("match", "diff", "empty", "off")
ALL_PRO = ("none", "eq", "diff", "one")


def run(ctx):
    if ctx.replay:
        raise MachineryError("C01 artefacts hold the failing action history, key types and seed: re-run "
                             "`VERIF_SEED=<seed in the file name> ./check C01`")
    thorough = ctx.tier == "thorough"
    tlc.stage(ctx)
    beh = ctx.sub("beh")
    allN = {"ExpI": _set(ALL_EXP), "ExpR": _set(ALL_EXP), "Pros": _set(ALL_PRO)}
    invN = "TypeOKN AuthN ExpectN NoAlteredN AgreeN"
    rot = ctx.seed % 3
    sub = {"ExpI": _set((ALL_EXP[ctx.seed % 4],)), "ExpR": _set(ALL_EXP), "Pros": _set(("none", ALL_PRO[1 + (rot + 1) % 3]))}
    if thorough:
        jobs = [
            # N: every configuration, two attacker actions per handshake: invariants + every transition printed
            (ctx, "N-edges2", _cfg("N", dict(allN, MaxEdits=2), inv=invN, edges=True), None),
            (ctx, "N-deep3", _cfg("N", dict(allN, MaxEdits=3), inv=invN), None, 3),
        ]
    else:
        jobs = [
            # N: every configuration, two attacker actions: invariants only; printed: one action in every
            # configuration, two actions in 8 of the 64 configurations (rotating with the seed; the responder's
            # setting, which decides the two-step impersonation of an initiator towards it, is always crossed in full)
            (ctx, "N-all2", _cfg("N", dict(allN, MaxEdits=2), inv=invN), None),
            (ctx, "N-edges2", _cfg("N", dict(sub, MaxEdits=2), inv=invN, edges=True), None),
            (ctx, "N-edges1", _cfg("N", dict(allN, MaxEdits=1), inv=invN, edges=True), None),
        ]
    jobs += [
        (ctx, "T-edges", _cfg("T", {"TMaxMut": 3 if thorough else 2}, inv="AuthT ExpectT", edges=True), None),
        (ctx, "S-edges", _cfg("S", {"SAddrs": 4 if thorough else 3}, inv="DialAuthS WrongClosedS", edges=True), None),
        (ctx, "H-edges", _cfg("H", {}, inv="DialAuthH", edges=True), None),
        (ctx, "U-edges", _cfg("U", {}, inv="ExpectU", edges=True), None),
        (ctx, "F-edges", _cfg("F", {}, inv="FaultFailsF", edges=True), None),
        (ctx, "F-broken-panicdone", _cfg("F", {"Variant": '"panicdone"'}, inv="FaultFailsF"), ("FaultFailsF",)),
        (ctx, "U-broken-servernocheck", _cfg("U", {"Variant": '"servernocheck"'}, inv="ExpectU"), ("ExpectU",)),
        (ctx, "U-ReachServerNamedU", _cfg("U", {}, inv="ReachServerNamedU"), ("ReachServerNamedU",)),
        (ctx, "H-broken-addronly", _cfg("H", {"Variant": '"addronly"'}, inv="DialAuthH"), ("DialAuthH",)),
        (ctx, "H-ReachPunchedH", _cfg("H", {}, inv="ReachPunchedH"), ("ReachPunchedH",)),
        (ctx, "H-ReachRefusedH", _cfg("H", {}, inv="ReachRefusedH"), ("ReachRefusedH",)),
    ]
    for v in BROKEN_N:
        jobs.append((ctx, "N-broken-" + v, _cfg("N", dict(allN, MaxEdits=2, Variant='"%s"' % v), inv=invN),
                     ("AuthN", "ExpectN", "NoAlteredN", "AgreeN")))
    for v in BROKEN_T:
        jobs.append((ctx, "T-broken-" + v, _cfg("T", {"Variant": '"%s"' % v}, inv="AuthT ExpectT"), ("AuthT", "ExpectT")))
    for v in BROKEN_S:
        jobs.append((ctx, "S-broken-" + v, _cfg("S", {"Variant": '"%s"' % v}, inv="DialAuthS WrongClosedS"), ("DialAuthS",)))
    for p in REACH_N:
        jobs.append((ctx, "N-" + p, _cfg("N", dict(allN, MaxEdits=2), inv=p), (p,)))
    for p in ("ReachAcceptT", "ReachVictimCertT"):
        jobs.append((ctx, "T-" + p, _cfg("T", {"TMaxMut": 3}, inv=p), (p,)))
    jobs.append((ctx, "S-ReachWrongS", _cfg("S", {}, inv="ReachWrongS"), ("ReachWrongS",)))
    # build the three test binaries while TLC runs
    ov = goenv.make_overlay(ctx)
    goenv.make_overlay = lambda _ctx, _p=ov: _p
    tpool = cf.ThreadPoolExecutor(max_workers=5)
    builds = [tpool.submit(goenv.go_test, ctx, p, "^$", timeout=1200) for p in (PKG_N, PKG_T, PKG_S, PKG_Q, PKG_U)]
    # at most 4 TLC workers at a time (thorough: the deep run takes 3 and is started first; the others follow
    # one at a time next to it)
    if thorough:
        with cf.ProcessPoolExecutor(max_workers=2) as ex:
            fdeep = ex.submit(_job, jobs[1])
            rest = [ex.submit(_job, j) for j in [jobs[0]] + jobs[2:]]
            results = {r["name"]: r for r in [f.result() for f in [fdeep] + rest]}
    else:
        with cf.ProcessPoolExecutor(max_workers=4) as ex:
            results = {r["name"]: r for r in ex.map(_job, jobs)}
    for b in builds:
        rc, out = b.result()
        if rc != 0:
            raise MachineryError("harness does not build against the current tree:\n%s" % out[-3000:])
    log("C01: %d TLC runs done at %.1fs" % (len(results), ctx.wall()))
    states = sum(r["distinct"] for r in results.values())
    trans = sum(r["generated"] for r in results.values())

    # ---- graphs, vacuity on the printed graphs, behaviours
    gN = graph.Graph(results["N-edges2"]["inits"], results["N-edges2"]["edges"])
    results["N-edges2"]["edges"] = results["N-edges2"]["inits"] = None
    gT = graph.Graph(results["T-edges"]["inits"], results["T-edges"]["edges"])
    gS = graph.Graph(results["S-edges"]["inits"], results["S-edges"]["edges"])
    gH = graph.Graph(results["H-edges"]["inits"], results["H-edges"]["edges"])
    gU = graph.Graph(results["U-edges"]["inits"], results["U-edges"]["edges"])
    if sum(1 for _s, op, _t in gU.edges if op["name"] == "upgrade" and op["ok"]) == 0 or \
            sum(1 for _s, op, _t in gU.edges if op["name"] == "upgrade" and op["why"] == "mismatch") == 0:
        raise MachineryError("vacuous: part U graph lacks accepting or refusing upgrades")
    gF = graph.Graph(results["F-edges"]["inits"], results["F-edges"]["edges"])
    if gF.n_edges() < 40:
        raise MachineryError("vacuous: part F graph has %d transitions" % gF.n_edges())
    kH = _kinds(gH)
    for need in ("plain", "punch", "arrive", "cancel"):
        if not kH.get(need):
            raise MachineryError("vacuous: part H graph has no %s transition" % need)
    kN = {}
    for _s, op, _t in gN.edges:
        key = op["name"] + (":" + op["kind"] if op["name"] == "edit" else ":" + str(op["k"]) + op["v"] if op["name"] == "forge" else "")
        kN[key] = kN.get(key, 0) + 1
    if not any(op["name"] == "warm" for _s, op, _t in gN.edges) or not any(op["name"] == "warm" for _s, op, _t in gT.edges):
        raise MachineryError("vacuous: no warm history in the printed graphs")
    for need in ("edit:drop", "edit:dup", "edit:inject", "edit:starve", "edit:lensmall", "edit:truncfix", "edit:extfix",
                 "edit:flip", "edit:splice", "edit:reflect", "forge:1own", "forge:2own", "forge:2claimM", "forge:2claimO",
                 "forge:2claimG", "forge:2ownG", "forge:2bad", "forge:2relay", "forge:3own", "forge:3claimM", "forge:3claimO",
                 "forge:3claimG", "forge:3ownG", "forge:3bad", "deliver", "close"):
        if not kN.get(need):
            raise MachineryError("vacuous: part N graph has no %s transition" % need)
    kT, kS = _kinds(gT), _kinds(gS)
    mT = {}
    for _s, op, _t in gT.edges:
        if op["name"] == "mutate":
            mT[op["m"]] = mT.get(op["m"], 0) + 1
    for need in ("extabsent", "extdup", "extpub", "extsig", "certkey", "chain"):
        if not mT.get(need):
            raise MachineryError("vacuous: part T graph has no %s mutation" % need)
    accT = sum(1 for _s, op, _t in gT.edges if op["name"] == "handshake" and op["hok"])
    if not accT or not kS.get("dial"):
        raise MachineryError("vacuous: no accepting TLS handshake / no dial in the printed graphs")

    wN = gN.covering_walks(seed=ctx.seed, max_len=40)
    nN_states, nN_edges = gN.n_states(), gN.n_edges()
    if not thorough:
        # plus: one attacker action in every configuration (the walks of the first graph with fewer than two
        # attacker actions are repeated there)
        g1 = graph.Graph(results["N-edges1"]["inits"], results["N-edges1"]["edges"])
        results["N-edges1"]["edges"] = results["N-edges1"]["inits"] = None
        wN = [w for w in wN if sum(1 for s in w["steps"] if s["op"]["name"] in ("edit", "forge")) >= 2]
        wN += g1.covering_walks(seed=ctx.seed, max_len=40)
        nN_states += g1.n_states()
        nN_edges += g1.n_edges()
    wT = gT.covering_walks(seed=ctx.seed, max_len=20)
    wS = gS.covering_walks(seed=ctx.seed, max_len=5)
    graph.write_behaviours(os.path.join(beh, "N.jsonl"), wN, {"part": "N", "edges": gN.n_edges()})
    graph.write_behaviours(os.path.join(beh, "T.jsonl"), wT, {"part": "T", "edges": gT.n_edges()})
    graph.write_behaviours(os.path.join(beh, "S.jsonl"), wS, {"part": "S", "edges": gS.n_edges()})
    wU = gU.covering_walks(seed=ctx.seed, max_len=4)
    graph.write_behaviours(os.path.join(beh, "U.jsonl"), wU, {"part": "U", "edges": gU.n_edges()})
    wF = gF.covering_walks(seed=ctx.seed, max_len=3)
    graph.write_behaviours(os.path.join(beh, "F.jsonl"), wF, {"part": "F", "edges": gF.n_edges()})
    wH = gH.covering_walks(seed=ctx.seed, max_len=8)
    graph.write_behaviours(os.path.join(beh, "H.jsonl"), wH, {"part": "H", "edges": gH.n_edges()})
    log("C01: at %.1fs graphs N %d/%d  T %d/%d  S %d/%d (states/edges); walks %d/%d/%d"
        % (ctx.wall(), nN_states, nN_edges, gT.n_states(), gT.n_edges(), gS.n_states(), gS.n_edges(),
           len(wN), len(wT), len(wS)))

    # ---- replay on the real code
    fn = tpool.submit(goenv.run_harness, ctx, PKG_N, "^TestVerifC01NoiseReplay$", inputs=beh, timeout=1500)
    ft = tpool.submit(goenv.run_harness, ctx, PKG_T, "^TestVerifC01TLSReplay$", inputs=beh, timeout=1500)
    fs = tpool.submit(goenv.run_harness, ctx, PKG_S, "^TestVerifC01SwarmReplay$", inputs=beh, timeout=1500)
    try:
        rs = fs.result()
        # real swarms over loopback TCP (Noise, TLS) and QUIC: truthful and misdirected dials
        re_ = goenv.run_harness(ctx, PKG_S, "^TestVerifC01EndToEnd$", timeout=900)
        # the QUIC transport driven directly over loopback UDP: plain dial and every hole-punch history
        rq = goenv.run_harness(ctx, PKG_Q, "^TestVerifC01QuicReplay$", inputs=beh, timeout=900)
        # the real upgrader and the real TCP transport's Dial in both roles, with a peer named or not
        ru = goenv.run_harness(ctx, PKG_U, "^TestVerifC01UpgraderReplay$", inputs=beh, timeout=900)
        # faults inside the handshake: every I/O index of either side, failing user callbacks
        rfn = _faults(ctx, PKG_N, "^TestVerifC01NoiseFaults$", beh)
        rft = _faults(ctx, PKG_T, "^TestVerifC01TLSFaults$", beh)
        rn, rt = fn.result(), ft.result()
    finally:
        tpool.shutdown(wait=True)
    div = 0
    for res, what in ((rn, "noise"), (rt, "tls"), (rs, "swarm"), (re_, "e2e"), (rq, "quic"), (ru, "upgrader"), (rfn, "noise-faults"),
                      (rft, "tls-faults")):
        if res["_rc"] != 0:
            raise MachineryError("harness test %s failed:\n%s" % (what, res["_log"][-3000:]))
        div += classify_mismatches(ctx, res, what)
    xn, xt, xs, xe = rn.get("extra", {}), rt.get("extra", {}), rs.get("extra", {}), re_.get("extra", {})
    xq = rq.get("extra", {})
    xu = ru.get("extra", {})
    xf = dict(rfn.get("extra", {}))
    xf.update(rft.get("extra", {}))
    if ru["replayed"] < len(wU):
        raise MachineryError("upgrader replay executed %d behaviours for %d walks" % (ru["replayed"], len(wU)))
    if rq["replayed"] < len(wH):
        raise MachineryError("quic replay executed %d behaviours for %d walks" % (rq["replayed"], len(wH)))
    if rn["replayed"] < len(wN):
        raise MachineryError("noise replay executed %d behaviours for %d walks" % (rn["replayed"], len(wN)))
    if rt["replayed"] < len(wT) or rs["replayed"] < len(wS):
        raise MachineryError("tls/swarm replay executed %d/%d behaviours for %d/%d walks"
                             % (rt["replayed"], rs["replayed"], len(wT), len(wS)))
    if not ctx.violations:
        # vacuity on the real code: honest handshakes complete for every key type in both roles, the attacker
        # speaking for itself is accepted where nobody else was named, every byte class was enumerated
        for typ in ("Ed25519", "ECDSA", "Secp256k1", "RSA"):
            for side in ("I", "R"):
                if not xn.get("N.completed.%s.%s" % (side, typ)):
                    raise MachineryError("vacuous: no real handshake completed on side %s with a %s identity" % (side, typ))
        for need in ("N.completed-with-attacker.I", "N.completed-with-attacker.R", "N.liveswap", "N.warm", "N.enumerated-forms.flip",
                     "N.enumerated-forms.starve", "N.enumerated-forms.truncfix", "N.enumerated-forms.lensmall"):
            if not xn.get(need):
                raise MachineryError("vacuous: noise replay counter %s is zero" % need)
        for need in ("T.accepted.client", "T.accepted.server", "T.refused", "T.records-flipped", "T.warm"):
            if not xt.get(need):
                raise MachineryError("vacuous: tls replay counter %s is zero" % need)
        for need in ("S.returned", "S.refused", "S.wrong-closed", "S.warm"):
            if not xs.get(need):
                raise MachineryError("vacuous: swarm replay counter %s is zero" % need)
        for via in ("upgrade", "tcp"):
            for role in ("client", "server"):
                for sc in ("noise", "tls"):
                    for mux in ("early", "mss"):
                        if not xu.get("U.returned.%s.%s.%s.%s" % (via, role, sc, mux)):
                            raise MachineryError("vacuous: no connection returned via %s in the %s role over %s/%s" % (via, role, sc, mux))
        for need in ("U.refused.client.mismatch", "U.refused.server.mismatch", "U.refused.client.nilpeer"):
            if not xu.get(need):
                raise MachineryError("vacuous: upgrader replay counter %s is zero (%s)" % (need, xu))
        for kind in ("error", "eof", "deadline", "panic", "cancel"):
            if not xf.get("F.noise.fired.io." + kind) or not xf.get("F.tls.fired." + kind):
                raise MachineryError("vacuous: no %s fault fired at an I/O index (%s)" % (kind, xf))
        for need in ("F.noise.fired.send.panic", "F.noise.fired.received.error", "F.noise.fired.received.panic",
                     "F.noise.refused", "F.tls.refused"):
            if not xf.get(need):
                raise MachineryError("vacuous: fault counter %s is zero (%s)" % (need, xf))
        for need in ("H.plain.P", "H.plain.err", "H.punch.P", "H.punch.err", "H.surfaced.P", "H.surfaced.Q"):
            if not xq.get(need):
                raise MachineryError("vacuous: quic replay counter %s is zero (%s)" % (need, xq))
        for combo in ("tcp.noise", "tcp.tls", "quic.tls13"):
            for kind in ("connected", "refused"):
                if not xe.get("E.%s.%s" % (kind, combo)):
                    raise MachineryError("vacuous: no %s dial over %s in the end-to-end run (%s)" % (kind, combo, xe))

    cov = evidence.mc_coverage(
        states, trans, rn["replayed"] + rt["replayed"] + rs["replayed"] + re_["replayed"] + rq["replayed"] + ru["replayed"] + rfn["replayed"] + rft["replayed"],
        (rn.get("samples") or [])[:1] + (rt.get("samples") or [])[:1] + (rs.get("samples") or [])[:1],
        exhaustive=True,
        checker_cmd="tlc C01_MC.tla (template C01_MC.cfg; parts N, T, S; broken variants %s must violate the invariants)"
                    % ",".join(BROKEN_N + BROKEN_T + BROKEN_S + BROKEN_H),
        tlc_runs={n: {"distinct": r["distinct"], "generated": r["generated"], "wall_s": r["wall"], "violated": r["violated"]}
                  for n, r in sorted(results.items())},
        partN={"states": nN_states, "transitions": nN_edges, "walks": len(wN), "edge_kinds": kN,
               "printed": "all 64 configurations x 2 actions" if thorough else
               "all 64 configurations x 1 action + %s x 2 actions" % sub},
        partT={"states": gT.n_states(), "transitions": gT.n_edges(), "walks": len(wT), "mutations": mT, "accepting_handshakes": accT},
        partS={"states": gS.n_states(), "transitions": gS.n_edges(), "walks": len(wS)},
        replay_noise={"runs": rn["replayed"], "steps": rn["steps"], "distinct": rn["distinct"],
                      "counters": {k: v for k, v in sorted(xn.items()) if k.startswith("N.")}},
        replay_tls={"runs": rt["replayed"], "steps": rt["steps"], "distinct": rt["distinct"],
                    "counters": {k: v for k, v in sorted(xt.items()) if k.startswith("T.")}},
        replay_swarm={"runs": rs["replayed"], "steps": rs["steps"], "distinct": rs["distinct"],
                      "counters": {k: v for k, v in sorted(xs.items()) if k.startswith("S.")}},
        partU={"states": gU.n_states(), "transitions": gU.n_edges(), "walks": len(wU)},
        replay_upgrader={"runs": ru["replayed"], "steps": ru["steps"], "distinct": ru["distinct"],
                         "counters": {k: v for k, v in sorted(xu.items()) if k.startswith("U.")}},
        partF={"states": gF.n_states(), "transitions": gF.n_edges(), "walks": len(wF)},
        replay_faults={"runs": rfn["replayed"] + rft["replayed"], "counters": {k: v for k, v in sorted(xf.items()) if k.startswith("F.")}},
        partH={"states": gH.n_states(), "transitions": gH.n_edges(), "walks": len(wH), "edge_kinds": kH},
        replay_quic={"runs": rq["replayed"], "steps": rq["steps"], "distinct": rq["distinct"],
                     "counters": {k: v for k, v in sorted(xq.items()) if k.startswith("H.")}},
        end_to_end={"dials": re_["replayed"], "counters": {k: v for k, v in sorted(xe.items()) if k.startswith("E.")}},
        divergences_L2=div, notes=ctx.notes[:12])
    return {"level": "model_checking", "coverage": cov, "assumptions": [
        "symbolic perfect cryptography in the model (DH, AEAD, signatures are terms); flynn/noise, crypto/tls, crypto/x509, x/crypto and the signature primitives are trusted - the byte-level runs exercise them only on the enumerated positions",
        "bounded: 2 sessions, at most %d attacker actions per Noise handshake (replayed: 2), at most %d certificate mutations"
        % (3 if thorough else 2, 3 if thorough else 2),
        "TLS 1.3 itself (CertificateVerify binds the certificate key, Finished binds the transcript) is assumed; record-layer byte flips are only sampled",
        "QUIC, WebTransport and WebRTC are covered only through Identity.ConfigForPeer / PubKeyFromCertChain and the Noise session options they use (prologue, DisablePeerIDCheck); no real QUIC/WebRTC handshake is run",
        "a Connected notification or a ConnsToPeer listing of a connection authenticated as somebody else counts as 'handing it to the application'",
    ]}


MANIFEST = {
    "technique": "TLA+ spec (C01_Handshake.tla: symbolic Dolev-Yao model of Noise XX as coded in p2p/security/noise, the libp2p TLS certificate verifier against crafted certificates, swarm dial re-checks) model-checked exhaustively with TLC for every expected-peer setting, prologue pairing and bounded attacker; every transition replayed on real transports joined by a framing-aware man-in-the-middle in a synctest bubble, with each abstract edit expanded to every byte position / cut / prefix bit of the real message and identity key types crossed; verdicts from a ledger of who holds which key and who produced which byte",
    "category": "model_checking",
    "text": "The statement is an authentication claim over all inputs, fault positions and configurations. The specification states it once, symbolically: a completed side reports the ID of the identity key held by whoever holds the static (or certificate) key used towards it, a named expected peer is the reported one, every message a completed side consumed is the unaltered output of one live participant, and a dial for P only ever yields P. TLC checks these invariants exhaustively against an attacker who drops, duplicates, injects, truncates, extends, flips, splices, reflects and forges (own keys, every claimed-identity/signature combination, relayed victim material) in every configuration, and confirms that five broken Noise rules, three broken TLS rules and two broken swarm rules each violate them. The replay binds model and code: each abstract transition is executed on the real SecureInbound/SecureOutbound with real bytes, the abstract 'flip field f' is run for every byte of f's real range (layout measured on a dry run), and L1 monitors over return values, RemotePeer(), RemotePublicKey() and the harness's own key/byte ledger decide violations.",
    "note": "Trusted: TLC; flynn/noise, crypto/tls, crypto/x509 and the signature primitives; testing/synctest for quiescence. Bounded attacker (2 actions per handshake replayed, 3 checked in the thorough tier). QUIC/WebTransport/WebRTC only through ConfigForPeer and the Noise session options they use. Disagreement with the model alone (status, error stage) is an L2 divergence. Deterministic in its verdict per seed; key material is fresh randomness.",
    "engines": [{"name": "C01_Handshake", "path": "spec/C01_Handshake.tla", "serves_properties": ["C01"],
                 "kind_free_text": "TLA+ spec + TLC exhaustive (three machines) + full-transition replay + byte-level concretisation"}],
}
