"""C09pm - extension engine of C09: who removes a peer's data from the peerstore and when.

Component: p2p/host/pstoremanager/pstoremanager.go (PeerstoreManager: subscription to EvtPeerConnectednessChanged, the
`background` loop with its `disconnected` map and ticker, Start/Close) together with RemovePeer of the in-memory peerstore.

  spec/C09pm_PstoreManager.tla  statement (clauses K1..K9) and model: one action per step of the loop and per public call; the
                                environment (network state, publishers, writers of the peerstore, clock, caller of Close)
                                moves independently, also while the loop is inside network.Connectedness; exhaustive TLC
                                (safety as invariants / action properties, K9 as liveness under fairness, vacuity probes)
  replay                        every transition of the printed instances (sequential skeleton `Prio`, see the module) executed
                                on a real manager + real event bus + real pstoremem peerstore under testing/synctest, gated at
                                the select (subscription wrapper) and inside network.Connectedness (stub network); projected
                                state compared after every step, clauses monitored from the harness's own ledger
  scenarios                     default configuration (grace 1 min, interval grace/2, subscription buffer 16), removal instants
                                for disconnects 1 ns around every tick of a gate-free manager, Close without Start / twice,
                                a failing Subscribe, Start twice (characterised, not promised)
"""
import concurrent.futures as cf
import os
import time

from lib import evidence, goenv, graph, tlc
from lib.common import MachineryError, classify_mismatches, log

PKG = "./p2p/host/pstoremanager"
PARENT = "C09"      # extension engine of C09 (lib/extension.py): classes are reported with property=C09
INV = "INVARIANTS TypeOK QueueBound DiscSound Timely Inert ScanShape"
PROPS = ("PROPERTIES RemovedOnlyIfReportedDisconnected GraceLower ReconnectKeeps Isolation AfterExit ExitRemovesRemembered "
         "AddrKept")
P1, P2 = '{"p1"}', '{"p1", "p2"}'
CLN, CN = '{"C", "L", "N"}', '{"C", "N"}'


def C(peers=P1, kinds=CLN, g=2, i=1, buf=1, t=5, e=3, close=1, startby=1, init=True, atomic=False):
    return {"Peers": peers, "Kinds": kinds, "G": g, "I": i, "Buf": buf, "MaxTime": t, "MaxEmit": e, "MaxClose": close,
            "StartBy": startby, "InitData": "TRUE" if init else "FALSE", "Atomic": "TRUE" if atomic else "FALSE"}


def exhaustive_instances(thorough):
    """(name, constants, TLC workers)"""
    out = [("x1", C(), 1),                                                    # one peer, every kind, stepwise cleanup runs
           ("x2a", C(P2, CN, g=1, i=1, t=4, atomic=True), 2),                 # two peers, atomic runs
           ("x2s", C(P2, CN, g=1, i=1, t=4, e=2), 1)]                        # two peers, stepwise (any scan order)
    if thorough:
        out = [("x1", C(t=6), 1),
               ("x1b", C(g=1, i=2, buf=2, close=2), 1),                               # interval longer than the grace period
               ("x1c", C(g=3, i=2, t=6, init=False), 1),                     # ticks not aligned with grace; peers unknown at first
               ("x2a", C(P2, CN, g=1, i=1, t=4, atomic=True), 1),
               ("x2s", C(P2, CN, g=1, i=1, t=4, e=3), 1)]
    return out


def replay_instances(thorough):
    out = [("r1", C(), None),
           ("r2a", C(P2, CN, g=1, i=1, t=4, close=0, startby=0, atomic=True), None)]
    if thorough:
        out = [("r1", C(close=2), None),
               ("r1c", C(g=3, i=2, t=6, startby=0, init=False), None),
               ("r1b", C(g=1, i=2, buf=2, t=4), None),
               ("r2a", C(P2, CN, g=1, i=1, t=4, startby=0, atomic=True), None),
               ("r2b", C(P2, CN, g=1, i=1, buf=2, t=3, startby=0, atomic=True), None)]
    return out


def liveness_instances(thorough):
    out = [("l1", C(t=3, e=2, startby=0))]
    if thorough:
        out.append(("l2a", C(P2, CN, g=1, i=1, t=2, e=2, startby=0, atomic=True)))
    return out


PROBES = [("ReachRace", C()), ("ReachWindow", C()), ("ReachStalled", C()), ("ReachExitConnected", C()), ("ReachLateTick", C())]


def _exhaustive(args):
    ctx, (name, consts, workers) = args
    cfg = tlc.subst_cfg("C09pm_MC.cfg", consts)
    r = tlc.run(ctx, "C09pm_MC", "gen_pm_%s.cfg" % name, cfg_text=cfg, workers=workers, timeout=1500, name="pm" + name)
    if not r.ok:
        raise MachineryError("design-level failure in C09pm_PstoreManager %s: %s violated\n%s" % (name, r.violated, r.out[-2500:]))
    return name, r.distinct, r.generated, r.wall


def _liveness(args):
    ctx, (name, consts) = args
    cfg = tlc.subst_cfg("C09pm_MC.cfg", consts, replace=[
        ("INIT Init\nNEXT Next\nVIEW View", "SPECIFICATION FairSpec"), (INV, "INVARIANTS TypeOK"),
        (PROPS, "PROPERTIES CloseTerminates PublisherReleased")])
    r = tlc.run(ctx, "C09pm_MC", "gen_pm_%s.cfg" % name, cfg_text=cfg, workers=1, timeout=1500, name="pm" + name)
    if not r.ok:
        raise MachineryError("design-level failure in C09pm liveness %s: %s violated\n%s" % (name, r.violated, r.out[-2500:]))
    return name, r.distinct, r.generated, r.wall


def _reach(args):
    ctx, probe, consts = args
    cfg = tlc.subst_cfg("C09pm_MC.cfg", consts, replace=[(INV, "INVARIANTS " + probe), (PROPS, "")])
    r = tlc.run(ctx, "C09pm_MC", "gen_pm_%s.cfg" % probe, cfg_text=cfg, workers=1, timeout=600, name="pm" + probe)
    if r.ok or r.violated != probe:
        raise MachineryError("vacuity guard: %s is not reachable in C09pm_PstoreManager" % probe)
    return probe


# kinds of transition that must occur in the printed graphs (vacuity)
NEED = ("start", "emit-queued", "emit-blocked", "emit-lost", "setnet", "learn", "advance", "advance-fires", "close-returns",
        "close-waits", "recv-remember", "recv-forget", "recv-noop", "recv-unblocks", "tick-none", "tick-overdue",
        "query-connected", "query-disconnected", "apply-removed", "apply-kept", "apply-race", "apply-window", "apply-close-waiting",
        "tick-atomic-removed", "tick-atomic-kept", "tick-atomic-two", "exit-removes", "exit-removes-connected", "exit-unblocks",
        "exit-drops-events", "late-tick")


def _kinds(g):
    k = {}

    def inc(n):
        k[n] = k.get(n, 0) + 1
    for sk, op, tk in g.edges:
        s, t = g.states[sk], g.states[tk]
        n = op["name"]
        if n == "emit":
            inc("emit-" + ("blocked" if op["blocked"] else "lost" if op["lost"] else "queued"))
        elif n == "advance":
            inc("advance-fires" if op["fires"] else "advance")
            if op["fires"] and s["tickPending"]:
                inc("late-tick")
        elif n == "close":
            inc("close-returns" if op["returns"] else "close-waits")
        elif n == "recv":
            p = op["p"]
            if op["k"] in ("C", "L"):
                inc("recv-forget" if s["disc"][p] >= 0 else "recv-noop")
            else:
                inc("recv-remember" if s["disc"][p] < 0 else "recv-noop")
            if op["unblocked"]:
                inc("recv-unblocks")
        elif n == "tick":
            if "removed" in op:
                if len(op["removed"]) >= 2:
                    inc("tick-atomic-two")
                if op["removed"]:
                    inc("tick-atomic-removed")
                if len(op["overdue"]) > len(op["removed"]):
                    inc("tick-atomic-kept")
                if not op["overdue"]:
                    inc("tick-none")
            else:
                inc("tick-overdue" if op["overdue"] else "tick-none")
        elif n == "query":
            inc("query-connected" if op["reply"] in ("C", "L") else "query-disconnected")
        elif n == "apply":
            p = op["p"]
            inc("apply-removed" if op["removed"] else "apply-kept")
            if not op["removed"] and any(e["p"] == p and e["k"] in ("C", "L") for e in s["q"]):
                inc("apply-race")           # the network said connected while the Connected event still waits
            if op["removed"] and s["net"][p] in ("C", "L") and op["had"]:
                inc("apply-window")         # connected after the answer, removed all the same
            if s["nwait"]:
                inc("apply-close-waiting")  # Close called in the middle of a cleanup run
        elif n == "exit":
            if op["removed"]:
                inc("exit-removes")
            if any(s["net"][p] in ("C", "L") and s["data"][p] for p in op["removed"]):
                inc("exit-removes-connected")
            if op["unblocked"]:
                inc("exit-unblocks")
            if op["dropped"]:
                inc("exit-drops-events")
        else:
            inc(n)
    return k


def _print_instance(args):
    ctx, (name, consts, limit), beh_dir = args
    cfg = tlc.subst_cfg("C09pm_MC.cfg", consts, replace=[
        ("INIT Init", "INIT MCInit"), ("VIEW View", "VIEW ViewNoGhost\nACTION_CONSTRAINT EmitPrio"), (PROPS, "")])
    r = tlc.run(ctx, "C09pm_MC", "gen_pm_%s_edges.cfg" % name, cfg_text=cfg, workers=1, timeout=1500, name="pme" + name)
    if not r.ok:
        raise MachineryError("design-level failure in C09pm (printing %s): %s violated\n%s" % (name, r.violated, r.out[-2500:]))
    g = graph.Graph(r.inits, r.edges)
    if g.n_edges() == 0:
        raise MachineryError("nothing printed for C09pm instance " + name)
    walks = g.covering_walks(seed=ctx.seed, max_len=60, limit_edges=limit)
    if limit is None and getattr(g, "covered", g.n_edges()) < g.n_edges():
        raise MachineryError("covering walks of %s cover %d of %d edges" % (name, g.covered, g.n_edges()))
    import json
    hdr = {"instance": name, "peers": json.loads(consts["Peers"].replace("{", "[").replace("}", "]")), "G": consts["G"], "I": consts["I"],
           "Buf": consts["Buf"], "atomic": consts["Atomic"] == "TRUE", "initData": consts["InitData"] == "TRUE",
           "edges": g.n_edges(), "states": g.n_states()}
    graph.write_behaviours(os.path.join(beh_dir, name + ".jsonl"), walks, hdr)
    target = g.n_edges() if limit is None else min(limit, g.n_edges())
    return name, r.distinct, r.generated, g.n_states(), g.n_edges(), len(walks), sum(len(w["steps"]) for w in walks), _kinds(g), r.wall, target


def _go(ctx, beh):
    return goenv.run_harness(ctx, PKG, "^TestVerifC09pm(Replay|Scenarios)$", inputs=beh, timeout=900, parallel=4)


def replay(ctx):
    """Re-execute one saved mismatch (its executed prefix) on the current tree under the clause monitors (no model states)."""
    import json
    with open(ctx.replay) as f:
        m = json.load(f)
    if not m.get("prefix"):
        raise MachineryError("scenario artefacts are replayed by the scenario test as a whole: run ./check C09pm")
    cfgm = m.get("cfg") or {}
    d = ctx.sub("beh")
    hdr = {"instance": "replay-" + str(cfgm.get("instance")), "peers": cfgm.get("peers") or ["p1", "p2"], "G": cfgm.get("G"),
           "I": cfgm.get("I"), "Buf": cfgm.get("Buf"), "atomic": bool(cfgm.get("atomic")), "initData": bool(cfgm.get("initData", True)),
           "monitorsOnly": True}
    graph.write_behaviours(os.path.join(d, "replay.jsonl"), [{"init": {}, "steps": [{"op": op, "state": {}} for op in m["prefix"]]}], hdr)
    res = goenv.run_harness(ctx, PKG, "^TestVerifC09pmReplay$", inputs=d, timeout=900)
    div = classify_mismatches(ctx, res, "replay")
    cov = evidence.mc_coverage(0, 0, res["replayed"], [], exhaustive=False, replay_of=ctx.replay, replay_steps_executed=res["steps"],
                               divergences_L2=div)
    return {"level": "model_checking", "coverage": cov, "assumptions": ["re-execution of one saved prefix under the clause monitors"]}


def run(ctx):
    if ctx.replay:
        return replay(ctx)
    thorough = ctx.tier == "thorough"
    t0 = time.time()
    marks = []

    def mark(n):
        marks.append("%s %.0fs" % (n, time.time() - t0))
    tlc.stage(ctx)
    beh = ctx.sub("beh")
    xin, rin, lin = exhaustive_instances(thorough), replay_instances(thorough), liveness_instances(thorough)
    probes = PROBES
    if os.environ.get("VERIF_C09PM_DEV") and os.path.realpath(os.environ.get("VERIF_REPO", "/repo")) != "/repo":
        xin, lin, probes = [], [], []     # mutation self-tests in a scratch worktree: the model has not changed
    with cf.ProcessPoolExecutor(max_workers=4) as pool, cf.ThreadPoolExecutor(max_workers=1) as tp:
        fp = [pool.submit(_print_instance, (ctx, i, beh)) for i in rin]
        fx = [pool.submit(_exhaustive, (ctx, i)) for i in xin]
        fl = [pool.submit(_liveness, (ctx, i)) for i in lin]
        fg = [pool.submit(_reach, (ctx, p, c)) for p, c in probes]
        pres = [f.result() for f in fp]
        mark("graphs")
        fgo = tp.submit(_go, ctx, beh)
        xres = [f.result() for f in fx]
        lres = [f.result() for f in fl]
        guards = [f.result() for f in fg]
        mark("tlc")
        res = fgo.result()
        mark("go")
    kinds = {}
    for r in pres:
        for k, v in r[7].items():
            kinds[k] = kinds.get(k, 0) + v
    for k in NEED:
        if not kinds.get(k):
            raise MachineryError("vacuity guard: no printed C09pm transition of kind %s" % k)
    target = sum(r[9] for r in pres)
    div = classify_mismatches(ctx, res, "replay")
    l1 = [m for m in res["mismatches"] if not m["class"].startswith("L2:")]
    if not res["mismatches"] and res["distinct"] < target:
        raise MachineryError("replay executed %d distinct transitions of %d" % (res["distinct"], target))
    spath = os.path.join(res["_out"], "scenarios", "result.json")
    if not os.path.exists(spath):
        raise MachineryError("the scenario test wrote no result:\n%s" % res["_log"][-2000:])
    import json
    with open(spath) as f:
        scen = json.load(f)
    div += classify_mismatches(ctx, scen, "scenario")
    sx = scen.get("extra") or {}
    if not scen["mismatches"]:
        for k in ("default_buffer", "boundary_cases", "close_without_start", "second_removals"):
            if not sx.get(k) and not (res.get("extra") or {}).get(k):
                raise MachineryError("vacuous C09pm scenario run: %s missing in %s" % (k, sx))
    states = sum(r[1] for r in xres) + sum(r[1] for r in lres) + sum(r[1] for r in pres)
    trans = sum(r[2] for r in xres) + sum(r[2] for r in lres) + sum(r[2] for r in pres)
    summary = ("exhaustive %s; liveness %s; probes %s; printed+replayed %s = %d transitions, %d walks, %d steps, %d distinct executed; "
               "scenarios %d (%s); L2 divergences %d" % (
                   [(r[0], r[1]) for r in xres], [(r[0], r[1]) for r in lres], guards, [(r[0], r[3], r[4]) for r in pres], target,
                   sum(r[5] for r in pres), res["steps"], res["distinct"], scen["replayed"], sx, div))
    log("C09pm: " + summary + " [" + ", ".join(marks) + "]")
    cov = evidence.mc_coverage(
        states, trans, res["replayed"] + scen["replayed"], (res.get("samples") or [])[:2], exhaustive=True,
        checker_cmd="tlc C09pm_MC.tla (template C09pm_MC.cfg instantiated per instance by checks/C09pm.py)",
        exhaustive_instances={r[0]: {"states": r[1], "transitions": r[2], "wall_s": r[3]} for r in xres},
        liveness_instances={r[0]: {"states": r[1], "transitions": r[2]} for r in lres},
        replay_instances={r[0]: {"states": r[3], "transitions": r[4], "walks": r[5], "steps": r[6]} for r in pres},
        replay_transition_kinds=kinds, replay_transitions_in_graphs=target, replay_steps_executed=res["steps"],
        replay_distinct_transitions_executed=res["distinct"], replay_extra=res.get("extra"), scenarios=scen["replayed"],
        scenario_extra=sx, probes=guards, divergences_L2=div, l1_mismatches=len(l1), notes=ctx.notes[:10], rule=res.get("rule"),
        parent_property="C09")
    return {"level": "model_checking", "coverage": cov, "assumptions": [
        "bounded instances (<= 2 peers, integer time, <= 4 events); production grace/interval/buffer only by the scenario test",
        "the replayed graphs follow the sequential skeleton Prio of the module (orders of Go's select excluded by it commute with "
        "an included one); the full interleaving is explored by TLC on the model only",
        "Start is called at most once and not after Close (what happens otherwise is characterised by a scenario, not promised)",
        "two-peer cleanup runs are replayed without interference inside the run (Go's map iteration order is not controllable)",
    ]}


MANIFEST = {
    "technique": "TLA+ spec (C09pm_PstoreManager.tla) of the peerstore manager's background loop, its subscription buffer, ticker, "
                 "Close and the environment racing with it, model-checked exhaustively with TLC (safety, liveness, vacuity probes); "
                 "every transition of the printed instances replayed on a real PeerstoreManager + real event bus + real pstoremem "
                 "under testing/synctest with gates at the select and inside network.Connectedness",
    "category": "model_checking",
    "text": "Extension of C09 (address book) to the question the address-book model leaves open: who removes the rest of a peer's "
            "data and when. Clauses K1..K9 of the module (never while the network reports the peer connected, not before the grace "
            "period, a processed reconnect keeps the data, cleaned within grace+interval, isolation between peers, Close removes "
            "exactly the remembered peers and returns only after the loop has gone, RemovePeer clears keys/protocols/metadata/"
            "metrics and not addresses, no event lost and publishers released, termination).",
    "note": "Trusted: TLC, synctest's virtual clock, the wrappers around the subscription/network/peerstore (delegating to the real "
            "objects). The statement is the engine's own (derived from code, comments and tests of the component).",
    "engines": [{"name": "C09pm_PstoreManager", "path": "spec/C09pm_PstoreManager.tla", "serves_properties": ["C09"],
                 "kind_free_text": "TLA+ spec + TLC exhaustive + full-transition replay under synctest"}],
}
