"""C18 - WebTransport serves a valid, advertised certificate at all times; dialers pin it.

spec/C18_CertManager.tla: exhaustive TLC on small instances (every offset, every integer instant, every
Advance/Restart length up to two timer instants) with the statement's clauses as invariants; the same spec
at the real proportions (validity = 336 skew units, 3 ticks per skew so that the instants 1 ms before and
after every boundary are model instants) printed as a graph and replayed, every transition, on the real
certManager (mock clock and real clock inside a synctest bubble) next to a never-restarted companion.
spec/C18_Verifier.tla: the dialer's decision tables (verifyRawCerts rows, Dial rows) replayed on
verifyRawCerts / crypto/tls and on two real transports over loopback QUIC.  A seeded sweep (arbitrary keys,
millisecond instants) runs under the statement's monitors only."""
import concurrent.futures as cf
import copy
import os
import random

from lib import evidence, goenv, graph, tlc
from lib.common import MachineryError, classify_mismatches, log

PKG = "./p2p/transport/webtransport"


def _fast_unescape(s, _slow=tlc._unescape):
    # TLC escapes only \" and \\ ; without a literal backslash a C-level replace does the job (the generic
    # routine of lib/tlc.py costs ~65 us per printed edge)
    return s.replace('\\"', '"') if "\\\\" not in s else _slow(s)


tlc._unescape = _fast_unescape
INV = "INVARIANTS TypeOK ValidNow Short Advertised NextServedNext LearnedKeepsVerifying LearnedSurvivesRestart Deterministic"


def small_instances(ctx):
    """(name, K, VU): all offsets 0..V-1, starts StartLo..StartLo+2V, deltas 1..2W+K+1."""
    out = [("k1v3", 1, 3), ("k1v4", 1, 4), ("k2v4", 2, 4), ("k1v7", 1, 7), ("k3v5", 3, 5), ("k3v6", 3, 6)]
    if ctx.tier == "thorough":
        out += [("k2v9", 2, 9), ("k1v16", 1, 16), ("k4v5", 4, 5), ("k3v8", 3, 8)]
    return out


def _small_consts(K, VU):
    V = K * VU
    W = V - 2 * K
    start_lo = V + K
    return {"K": K, "VU": VU, "MaxLifeU": VU, "StartLo": start_lo, "MaxT": start_lo + 2 * V + 3 * W + K}


def _exhaustive(args):
    ctx, (name, K, VU) = args
    cfg = tlc.subst_cfg("C18_MC.cfg", _small_consts(K, VU))
    r = tlc.run(ctx, "C18_MC", "gen_%s_mc.cfg" % name, cfg_text=cfg, workers=1, timeout=1500, name="mc" + name)
    if not r.ok:
        raise MachineryError("design-level failure in C18 %s: %s violated\n%s" % (name, r.violated, r.out[-2500:]))
    return name, r.distinct, r.generated, r.wall


def _reach(args):
    ctx, probe = args
    cfg = tlc.subst_cfg("C18_MC.cfg", _small_consts(2, 4), replace=[(INV, "INVARIANTS " + probe)])
    r = tlc.run(ctx, "C18_MC", "gen_reach_%s.cfg" % probe, cfg_text=cfg, workers=1, timeout=600, name="reach" + probe)
    if r.ok or r.violated != probe:
        raise MachineryError("vacuity guard: %s is not reachable in the bounded model" % probe)
    return probe


def _selftest_variant(ctx):
    """Design variant RestartForgetsLast (the defect repaired by /repo aa4b128) MUST violate LearnedSurvivesRestart."""
    cfg = tlc.subst_cfg("C18_MC.cfg", dict(_small_consts(2, 4), RestartForgetsLast="TRUE"),
                        replace=[(INV, "INVARIANTS LearnedSurvivesRestart")])
    r = tlc.run(ctx, "C18_MC", "gen_variant_forgets.cfg", cfg_text=cfg, workers=1, timeout=600, name="variantforgets")
    if r.ok or r.violated != "LearnedSurvivesRestart":
        raise MachineryError("self-test: the design variant RestartForgetsLast does not violate LearnedSurvivesRestart")
    return "RestartForgetsLast violates LearnedSurvivesRestart"


def replay_consts(ctx):
    """The instance at the real proportions.  Offsets (ticks, multiples of K = whole skews) and the
    positions relative to the bucket grid at which the clock is sampled; a few of both depend on the seed."""
    K, VU = 3, 336
    V, W = K * VU, K * VU - 2 * K
    rnd = random.Random(ctx.seed * 7919 + 18)
    thorough = ctx.tier == "thorough"
    # offset classes in skews: 0, 1, just below / at / above the bucket width (the offset is taken modulo the
    # validity, which is two skews longer than a bucket), the last one, the middle
    offs = {0, 1, 167, W // K - 1, W // K, VU - 1}
    while len(offs) < (24 if thorough else 10):
        offs.add(rnd.randrange(VU))
    # positions (ticks after a bucket start p): p-1ms..p+1ms, the switch instant p+skew (-1ms, +1ms), the
    # predecessor's NotAfter p+2*skew (-1ms, +1ms), the middle, and seed-dependent ones
    rel = {W - 1, 0, 1, K - 1, K, K + 1, 2 * K - 1, 2 * K, 2 * K + 1, W // 2}
    while len(rel) < (20 if thorough else 14):
        rel.add(rnd.randrange(W))
    start_lo = 2 * V
    consts = {"K": K, "VU": VU, "MaxLifeU": 336, "StartLo": start_lo, "MaxT": start_lo + (5 if thorough else 4) * W + 2 * K,
              "RelPts": "{" + ", ".join(str(x) for x in sorted(rel)) + "}"}
    replace = [("Offsets <- MCOffsetsAll", "Offsets = {" + ", ".join(str(o * K) for o in sorted(offs)) + "}"),
               ("Starts <- MCStartsAll", "Starts <- MCStartsRel"),
               ("Deltas <- MCDeltasAll", "Deltas <- MCDeltasRel"),
               ("RDeltas <- MCRDeltasAll", "RDeltas <- MCRDeltasRel"),
               ("INIT Init", "INIT MCInit"),
               ("VIEW View", "VIEW ViewNoGhost\nACTION_CONSTRAINT EmitEdge")]
    return consts, replace, sorted(offs), sorted(rel)


def _edge_stats(edges):
    st = {"start": 0, "advance": 0, "restart": 0, "advance_one_roll": 0, "advance_two_rolls": 0, "advance_no_roll": 0,
          "restart_same_bucket": 0, "restart_later_bucket": 0, "restart_after_roll": 0, "at_roll_instant": 0,
          "one_tick_before_roll": 0, "one_tick_after_roll": 0, "start_at_switch_instant": 0}
    for s, op, t in edges:
        n = op["name"]
        st[n] += 1
        fires = op.get("fires") or []
        if n == "advance":
            st["advance_no_roll" if not fires else "advance_one_roll" if len(fires) == 1 else "advance_two_rolls"] += 1
            if fires and fires[-1] == t["now"]:
                st["at_roll_instant"] += 1
            if fires and fires[-1] == t["now"] - 1:
                st["one_tick_after_roll"] += 1
            if t["timer"] == t["now"] + 1:
                st["one_tick_before_roll"] += 1
        if n == "restart":
            st["restart_later_bucket" if t["cur"] != s["cur"] else "restart_same_bucket"] += 1
            if op.get("fires"):
                st["restart_after_roll"] += 1     # the continuously running manager rolled during the down-time
        if n == "start" and t["now"] == t["cur"] + 3:
            st["start_at_switch_instant"] += 1
    return st


def _replay_graph(args):
    ctx, beh_dir = args
    consts, replace, offs, rel = replay_consts(ctx)
    cfg = tlc.subst_cfg("C18_MC.cfg", consts, replace=replace)
    r = tlc.run(ctx, "C18_MC", "gen_real_edges.cfg", cfg_text=cfg, workers=1, timeout=1500, name="edreal")
    if not r.ok:
        raise MachineryError("design-level failure in the C18 replay instance: %s violated\n%s" % (r.violated, r.out[-2500:]))
    conf = [o for t, o in r.prints if t == "VFCONF"]
    if not conf:
        raise MachineryError("no VFCONF line")
    g = graph.Graph(r.inits, r.edges)
    if g.n_edges() == 0:
        raise MachineryError("no edges printed for the replay instance")
    stats = _edge_stats([(g.states[e[0]], e[1], g.states[e[2]]) for e in g.edges])
    walks = g.covering_walks(seed=ctx.seed, max_len=14)
    steps = sum(len(w["steps"]) for w in walks)
    graph.write_behaviours(os.path.join(beh_dir, "mgr.jsonl"), walks,
                           {"conf": conf[0], "edges": g.n_edges(), "states": g.n_states(), "offset_classes_skews": offs,
                            "positions_ticks": rel,
                            "scale": "tick 3j+r -> tick0 + j*clockSkewAllowance + {0, +1ms, skew-1ms}[r]; tick0 = B*(certValidity-2*skew) after the Unix epoch + (key offset mod skew)"})
    return r.distinct, r.generated, g.n_edges(), len(walks), steps, stats, r.wall, offs, rel


def _verifier_graph(args):
    ctx, beh_dir = args
    r = tlc.run(ctx, "C18_MCVerifier", "C18_MCVerifier.cfg", workers=1, timeout=600, name="edver")
    if not r.ok:
        raise MachineryError("design-level failure in C18_Verifier: %s violated\n%s" % (r.violated, r.out[-2000:]))
    g = graph.Graph(r.inits, r.edges)
    nv = sum(1 for e in g.edges if e[1]["name"] == "verify")
    nd = sum(1 for e in g.edges if e[1]["name"] in ("dial", "dialchain"))
    acc = sum(1 for e in g.edges if e[1]["name"] == "verify" and True in e[1]["allowed"])
    comp = sum(1 for e in g.edges if e[1]["name"] == "dial" and e[1]["completes"])
    # history: a certificate accepted earlier in the behaviour is asked again after its NotAfter / with another list
    rep_exp = sum(1 for e in g.edges if e[1]["name"] == "verify" and e[1]["repeat"] and e[1]["when"] == "expired"
                  and e[1]["list"] == "sha256" and e[1]["chain"] == "S")
    rep_unp = sum(1 for e in g.edges if e[1]["name"] == "verify" and e[1]["repeat"] and e[1]["list"] == "absent")
    if not (nv and nd and acc and comp and acc < nv and comp < nd and rep_exp and rep_unp):
        raise MachineryError("vacuous verifier model: %d verify transitions (%d accept, %d repeated-after-expiry, %d repeated-unpinned), %d dial rows (%d complete)"
                             % (nv, acc, rep_exp, rep_unp, nd, comp))
    walks = g.covering_walks(seed=ctx.seed, max_len=120)
    graph.write_behaviours(os.path.join(beh_dir, "ver.jsonl"), walks, {"verify_rows": nv, "dial_rows": nd})
    return r.distinct, r.generated, nv, nd, acc, comp


def _go(args):
    ctx, run, inputs = args
    # one scratch dir per harness run: several go test processes run side by side and each writes its overlay.json
    c = copy.copy(ctx)
    c.tmp = ctx.sub("go-" + run.strip("^$"))
    return goenv.run_harness(c, PKG, run, inputs=inputs, timeout=1500)


def run(ctx):
    if ctx.replay:
        raise MachineryError("C18 artefacts hold the failing prefix, the key offset and the scale; re-run `VERIF_SEED=<seed in file name> ./check C18`")
    tlc.stage(ctx)
    beh_mgr, beh_ver = ctx.sub("beh-mgr"), ctx.sub("beh-ver")
    smalls = small_instances(ctx)
    # at most 4 TLC JVMs at a time (1 worker each); the sweep needs no TLC output, so it (and the build of
    # the test binary) runs meanwhile
    with cf.ProcessPoolExecutor(max_workers=4) as px, cf.ProcessPoolExecutor(max_workers=2) as pg:
        fsweep = pg.submit(_go, (ctx, "^TestVerifC18Sweep$", None))
        frep = px.submit(_replay_graph, (ctx, beh_mgr))
        fver = px.submit(_verifier_graph, (ctx, beh_ver))
        fex = [px.submit(_exhaustive, (ctx, i)) for i in smalls]
        fre = [px.submit(_reach, (ctx, p)) for p in ("ReachRolled", "ReachRestartAfterRoll", "ReachMultiFire", "ReachLearnedExpired")]
        fvar = px.submit(_selftest_variant, ctx)
        ver = fver.result()
        fvgo = pg.submit(_go, (ctx, "^TestVerifC18Verifier$", beh_ver))
        fdgo = pg.submit(_go, (ctx, "^TestVerifC18Dial$", beh_ver))
        rep = frep.result()
        log("C18: replay graph done at %.1fs: %d states, %d edges, %d walks" % (ctx.wall(), rep[0], rep[2], rep[3]))
        frgo = pg.submit(_go, (ctx, "^TestVerifC18Replay$", beh_mgr))
        eres = [f.result() for f in fex]
        guards = [f.result() for f in fre] + [fvar.result()]
        log("C18: exhaustive done at %.1fs" % ctx.wall())
        sweep, vres, dres, rres = fsweep.result(), fvgo.result(), fdgo.result(), frgo.result()

    stats = rep[5]
    for k in ("advance_no_roll", "advance_one_roll", "advance_two_rolls", "restart_same_bucket", "restart_later_bucket",
              "restart_after_roll", "at_roll_instant", "one_tick_before_roll", "one_tick_after_roll", "start_at_switch_instant"):
        if not stats.get(k):
            raise MachineryError("vacuity guard: no replayed transition of kind %s" % k)

    div = 0
    div += classify_mismatches(ctx, rres, "replay")
    div += classify_mismatches(ctx, sweep, "sweep")
    div += classify_mismatches(ctx, vres, "verifier")
    div += classify_mismatches(ctx, dres, "dial")
    if not rres["mismatches"] and rres["distinct"] < rep[2]:
        raise MachineryError("replay executed %d distinct transitions of %d" % (rres["distinct"], rep[2]))
    if vres["distinct"] < ver[2]:
        raise MachineryError("verifier executed %d rows of %d" % (vres["distinct"], ver[2]))
    if dres["distinct"] < ver[3]:
        raise MachineryError("dial executed %d rows of %d" % (dres["distinct"], ver[3]))
    if sweep["replayed"] == 0:
        raise MachineryError("sweep executed no schedule")

    states = sum(r[1] for r in eres) + rep[0] + ver[0]
    trans = sum(r[2] for r in eres) + rep[1] + ver[1]
    log("C18: exhaustive %s; replay instance %d states / %d transitions (%.1fs), %d walks, %d steps executed, %d instants monitored; "
        "verifier %d rows (%s), dial %d rows (%s); sweep %d schedules / %d steps; L2 divergences %d; guards %s"
        % ([(r[0], r[1], r[2], r[3]) for r in eres], rep[0], rep[2], rep[6], rep[3], rres["steps"],
           (rres.get("extra") or {}).get("instants_monitored", 0), ver[2], vres.get("extra"), ver[3], dres.get("extra"),
           sweep["replayed"], sweep["steps"], div, guards))
    cov = evidence.mc_coverage(
        states, trans, rres["replayed"] + sweep["replayed"] + vres["replayed"] + dres["replayed"],
        (rres.get("samples") or [])[:2], exhaustive=True,
        checker_cmd="tlc C18_MC.tla (template C18_MC.cfg: exhaustive %s; printed+replayed: K=3, VU=336) ; tlc C18_MCVerifier.tla" % ",".join(r[0] for r in eres),
        instances=len(eres) + 2,
        exhaustive_only={r[0]: {"states": r[1], "transitions": r[2], "wall_s": r[3]} for r in eres},
        replay_instance={"states": rep[0], "transitions": rep[2], "walks": rep[3], "offset_classes_skews": rep[7], "positions_ticks": rep[8], "tlc_wall_s": rep[6]},
        replay_transition_kinds=stats, replay_steps_executed=rres["steps"], replay_distinct_transitions_executed=rres["distinct"],
        replay_extra=rres.get("extra"),
        verifier_rows=ver[2], verifier_rows_table_accepts=ver[4], verifier_extra=vres.get("extra"),
        dial_rows=ver[3], dial_rows_table_completes=ver[5], dial_extra=dres.get("extra"),
        sweep_schedules=sweep["replayed"], sweep_steps=sweep["steps"], sweep_extra=sweep.get("extra"),
        divergences_L2=div, notes=ctx.notes[:10], rule=rres.get("rule"), sweep_rule=sweep.get("rule"),
        verifier_rule=vres.get("rule"), dial_rule=dres.get("rule"))
    return {"level": "model_checking", "coverage": cov, "assumptions": [
        "instants at least one validity period plus one skew after the Unix epoch plus the key offset (getCurrentBucketStartTime divides with truncation toward zero; before 1970-01-16 the bucket start can lie in the future) - the repository's own tests make the same assumption",
        "the roll is atomic at the timer instant: the interval between the timer firing and the goroutine taking the lock (microseconds on a real clock) is not an instant of the model; testing/synctest makes the harness wait until the goroutine is idle",
        "exhaustive instances: validity 3..7 (thorough ..16) skew units, 1..3 (4) ticks per skew, every offset, every integer instant, every Advance/Restart of up to two timer instants; the real proportions (336) are covered by the replay instance at the boundary-relative positions and by the seeded sweep, not exhaustively",
        "the clock-skew allowance is the code's constant (1 h); 14 days is the statement's",
        "Dial rows: the server's early data is crafted by overwriting certManager.serializedCertHashes in-package; the served certificate is always the current one; both ends use the wall clock (a dial refused for another reason is L2, never a violation)",
        "verifier rows use real X.509 certificates (ECDSA P-256, Ed25519, RSA-2048 PKCS#1 v1.5 and PSS, RSA key certified by an ECDSA issuer, ECDSA key certified by an RSA issuer - the last one is left free by the table); a refusal of an acceptable row is L2 (the statement says `only if`)",
    ]}


MANIFEST = {
    "technique": "TLA+ spec (C18_CertManager.tla) of the certificate manager's bucket arithmetic, roll-over, timer and advertised hash sets, model-checked exhaustively with TLC on small instances (every offset, instant and advance/restart length) with the statement's clauses as invariants; the same spec at the real proportions printed as a state graph whose every transition is executed on the real certManager (mock clock and real clock inside a testing/synctest bubble, never-restarted companion manager) with the statement's monitors evaluated on the public surface after every step and 1 ms around every roll; TLA+ decision tables (C18_Verifier.tla) for verifyRawCerts and for Dial replayed row by row on real certificates, crypto/tls and two real transports over loopback QUIC; seeded sweep under the monitors",
    "category": "model_checking",
    "text": "The spec measures time in ticks (K per clock-skew allowance), identifies a certificate with its NotBefore, and transcribes init (bucket containing now - skew, offset from the key, Go's truncating division), rollConfig, the timer at End - skew and both advertised sets. TLC checks on every reachable state: the served certificate is valid for at least one skew both ways, validity <= 14 d, {current, next} are in the early-data list and in the address component, `next` is exactly what the next roll installs and is then valid for a skew both ways, an address published in the current or previous period contains the served certificate, and the served/next certificates equal those of a manager that was never restarted and the closed form bucket(now - skew). The replay instance uses 3 ticks per skew and a monotone scale map (tick 3j+r -> j h + {0, 1 ms, 1 h - 1 ms}) so that the instants just before, at and just after every boundary are model instants; keys are generated until their offset (read as the code reads it) falls in the model's class. Determinism is concretised over representations of an instant: walks run with the clock returning times in UTC / +02:00 / -08:00 / +05:45 / its native Location, with and without monotonic reading, and with time.Local set to each zone in turn; every certificate (served, and advertised as next) and advertised list seen for a (key, bucket) is compared across all managers of all walks (rolled into / started in / restarted in the bucket), and generateCert is called with every representation of the same instants. The learned-address clause is end to end: every address learned earlier is dialed at every later sampled instant (1 ns / 1 ms / 1 s around each boundary, 1 h after a roll, the end of the following period) with extractCertHashes, verifyRawCerts and the every-hash-confirmed comparison of transport.upgrade against decodeCertHashesFromProtobuf(SerializedCertHashes()), until the second roll after learning. The verifier model has a clock and a history of accepted certificates: the same certificates are queried by one process before NotBefore, inside, at the bounds and after NotAfter, so a remembered verdict shows. Monitors (L1) use only GetConfig().Certificates[0], SerializedCertHashes(), AddrComponent(), verifyRawCerts and certificate bytes; equality with the model is L2.",
    "note": "Trusted: TLC, testing/synctest (idle detection of the timer goroutine; virtual time for the real-clock runs and for the verifier's boundary instants), the benbjohnson mock clock, crypto/x509 and crypto/tls for building test certificates and handshakes, loopback UDP for the dial rows. The bucket grid itself (which offset a key gets) is not fixed by the statement: a disagreement with the model's grid alone is an L2 divergence. The interval between timer expiry and the roll on a real clock is outside the model. Real proportions are sampled at boundary-relative positions and by a seeded sweep, not exhaustively.",
    "engines": [{"name": "C18_CertManager", "path": "spec/C18_CertManager.tla", "serves_properties": ["C18"], "kind_free_text": "TLA+ spec + TLC exhaustive (small instances) + full-transition replay at real proportions"},
                {"name": "C18_Verifier", "path": "spec/C18_Verifier.tla", "serves_properties": ["C18"], "kind_free_text": "TLA+ decision tables replayed row by row on verifyRawCerts, crypto/tls and real transports"}],
}
