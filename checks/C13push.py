"""C13, identify PUSH / snapshot part (called from checks/C13.py: run_part(ctx, thorough)).

Extension engine around the C13 statement (which is about what a RECEIVER of identify / identify-push records):
this part checks the SENDER side of p2p/protocol/identify/id.go, i.e. that what a peer running this code pushes
is its current snapshot, to the connections that should get it, once, in order, and eventually.

  spec/C13_Push.tla      snapshot (seq, content), event queue with coalescing, sendPushes rounds, per-connection
                         PushSupport / last pushed seq / push goroutine, connection life cycle, Close; safety
                         clauses as invariants / action properties, convergence as liveness under fairness
  replay                 every transition of the printed instances (sequential skeleton: internal steps have
                         priority) executed on the real idService through gates, inside testing/synctest
                         (harness/p2p/protocol/identify/zz_verif_c13push_test.go)
  spec/C13_PushObs.tla   observable-level spec (guards = the clauses); TLC validates traces of gate-free concurrent
                         runs (virtual-time delays, scripted failures)
"""
import concurrent.futures as cf
import json
import os
import time

from lib import goenv, graph, tlc, tracecheck
from lib.common import MachineryError, classify_mismatches, log, save_replay

PKG = "./p2p/protocol/identify"
INV = "INVARIANTS TypeOK Conc SnapCurrent GoroutineScope Delivered"
PROPS = "PROPERTIES PushOnce PushMonotone ListEligible PickEligible PushCurrent FailInert ClosedQuiet"
SYM = ("CHECK_DEADLOCK FALSE", "CHECK_DEADLOCK FALSE\nSYMMETRY Perms")


def S(*names):
    return "{" + ", ".join('"%s"' % n for n in names) + "}"


def exhaustive_instances(thorough):
    out = [("x2c2", {"Conns": "{c1, c2}", "MaxChanges": 2}, [SYM]),
           ("x2c2sem", {"Conns": "{c1, c2}", "MaxChanges": 2, "MaxConc": 1, "Off": S("svcclose", "idresp", "identno")}, [SYM]),
           ("x1c3", {"Conns": "{c1}", "MaxChanges": 3, "MaxConc": 1}, [])]
    if thorough:
        out += [("x2c3", {"Conns": "{c1, c2}", "MaxChanges": 3}, [SYM]),
                ("x2c3sem", {"Conns": "{c1, c2}", "MaxChanges": 3, "MaxConc": 1}, [SYM])]
    return out


def replay_instances(thorough):
    out = [("one3", {"Conns": S("c1"), "MaxChanges": 3, "MaxConc": 1}),
           ("two2c", {"MaxChanges": 2, "Off": S("svcclose", "idresp", "identno")})]
    if thorough:
        out += [("two3n", {"MaxChanges": 3, "Off": S("svcclose", "idresp", "identno", "connclose")}),
                ("two2i", {"MaxChanges": 2, "Off": S("svcclose", "connclose", "openfail")})]
    return out


def liveness_instances(thorough):
    # (with "revert" among the kinds no push may fail in a liveness run, with only "fresh" they may while changes remain)
    out = [("l1c3", {"Conns": S("c1"), "MaxChanges": 3, "MaxConc": 1, "FailLate": "FALSE"}),
           ("l2c1sem", {"MaxChanges": 1, "MaxConc": 1, "FailLate": "FALSE", "Kinds": S("fresh")})]
    if thorough:
        out.append(("l1c3f", {"Conns": S("c1"), "MaxChanges": 3, "MaxConc": 1, "FailLate": "FALSE", "Kinds": S("fresh")}))
        out.append(("l2c2sem", {"MaxChanges": 2, "MaxConc": 1, "FailLate": "FALSE", "Kinds": S("fresh")}))
    return out


def _exhaustive(args):
    ctx, (name, consts, rep), workers = args
    cfg = tlc.subst_cfg("C13_PushMC.cfg", consts, replace=rep)
    r = tlc.run(ctx, "C13_PushMC", "gen_p_%s.cfg" % name, cfg_text=cfg, workers=workers, timeout=1500, name="p" + name)
    if not r.ok:
        raise MachineryError("design-level failure in C13_Push %s: %s violated\n%s" % (name, r.violated, r.out[-2500:]))
    return name, r.distinct, r.generated, r.wall


def _liveness(args):
    ctx, (name, consts) = args
    cfg = tlc.subst_cfg("C13_PushMC.cfg", consts, replace=[
        ("INIT Init\nNEXT Next\nVIEW View", "SPECIFICATION FairSpec"), (INV, "INVARIANTS TypeOK"), (PROPS, "PROPERTIES Converge")])
    r = tlc.run(ctx, "C13_PushMC", "gen_p_%s.cfg" % name, cfg_text=cfg, workers=1, timeout=1500, name="p" + name)
    if not r.ok:
        raise MachineryError("design-level failure in C13_Push liveness %s: %s violated\n%s" % (name, r.violated, r.out[-2500:]))
    return name, r.distinct, r.generated, r.wall


def _reach(args):
    ctx, probe, consts = args
    cfg = tlc.subst_cfg("C13_PushMC.cfg", consts, replace=[(INV, "INVARIANTS " + probe), (PROPS, "")])
    r = tlc.run(ctx, "C13_PushMC", "gen_p_%s.cfg" % probe, cfg_text=cfg, workers=1, timeout=600, name="p" + probe)
    if r.ok or r.violated != probe:
        raise MachineryError("vacuity guard: %s is not reachable in C13_Push" % probe)
    return probe


# kinds of transition that must occur in the printed graphs (vacuity).  (The regress of entry.Sequence - an identify
# response between a push goroutine's write and its bookkeeping - needs an interleaving the sequential skeleton does
# not have: it is explored by the exhaustive runs, probe ReachRegress.)
NEED = ("change-fresh", "change-revert", "update-new", "update-noop", "rstart", "pick-go", "pick-skip", "pick-dead", "open-ok",
        "open-fail", "write-ok", "write-fail", "write-newer-than-round", "rec", "rend", "connected",
        "identified-yes", "identified-no", "idresp", "connclose", "disconnected", "svcclose", "coalesced", "retry-after-fail")


def _kinds(g):
    k = {}

    def inc(n):
        k[n] = k.get(n, 0) + 1
    for sk, op, tk in g.edges:
        s, t = g.states[sk], g.states[tk]
        n = op["name"]
        if n == "change":
            inc("change-" + op["kind"])
            if s["evq"] >= 1:
                inc("coalesced")
        elif n == "update":
            inc("update-new" if op["updated"] else "update-noop")
        elif n == "pick":
            inc("pick-dead" if op["dead"] else "pick-go" if op["go"] else "pick-skip")
            if op["go"] and s["c"][op["c"]]["hi"] < s["snap"]["seq"] - 1 and s["snap"]["seq"] >= 3:
                inc("retry-after-fail")
        elif n in ("open", "write"):
            inc(n + ("-ok" if op["ok"] else "-fail"))
            if n == "write" and op["ok"] and s["c"][op["c"]]["last"] < op["seq"] - 1:
                inc("write-newer-than-round")
        elif n == "rec":
            inc("rec")
            if t["c"][op["c"]]["last"] < s["c"][op["c"]]["last"]:
                inc("rec-regress")
        elif n == "identified":
            inc("identified-" + ("yes" if op["sup"] else "no"))
        else:
            inc(n)
    return k


def _print_instance(args):
    ctx, (name, consts), beh_dir = args
    cfg = tlc.subst_cfg("C13_PushMC.cfg", consts, replace=[
        ("INIT Init", "INIT MCInit"), ("VIEW View", "VIEW View\nACTION_CONSTRAINT EmitPrio"), (PROPS, "")])
    r = tlc.run(ctx, "C13_PushMC", "gen_p_%s_edges.cfg" % name, cfg_text=cfg, workers=1, timeout=1500, name="pe" + name)
    if not r.ok:
        raise MachineryError("design-level failure in C13_Push %s: %s violated\n%s" % (name, r.violated, r.out[-2500:]))
    conf = [o for t, o in r.prints if t == "VFCONF"]
    g = graph.Graph(r.inits, r.edges)
    if not conf or g.n_edges() == 0:
        raise MachineryError("nothing printed for C13_Push instance " + name)
    walks = g.covering_walks(seed=ctx.seed, max_len=40)
    if getattr(g, "covered", g.n_edges()) < g.n_edges():
        raise MachineryError("covering walks of %s cover %d of %d edges" % (name, g.covered, g.n_edges()))
    graph.write_behaviours(os.path.join(beh_dir, name + ".jsonl"), walks,
                           {"name": name, "conf": conf[0], "edges": g.n_edges(), "states": g.n_states()})
    return name, r.distinct, r.generated, g.n_states(), g.n_edges(), len(walks), sum(len(w["steps"]) for w in walks), _kinds(g), r.wall


def obs_class(v):
    e = v.next_event or {}
    ev = e.get("ev", "rejected")
    if ev == "open":
        return "push-concurrency-exceeds-limit" if e.get("flight", 0) > 32 else "push-to-disconnected-conn"
    if ev == "deliver":
        return "push-delivery-clause"      # stale / older than delivered / repeated / on a connection that is gone
    if ev == "final":
        return "change-never-snapshotted"
    if ev == "rest":
        return "push-supporting-conn-left-behind"
    return "push-obs-" + ev


def _go(ctx, beh, iters):
    return goenv.run_harness(ctx, PKG, "^TestVerifC13p(Replay|Free)$", inputs=beh, timeout=1500,
                             env={"VERIF_C13P_ITERS": iters})


def run_part(ctx, thorough):
    t0 = time.time()
    marks = []

    def mark(name):
        marks.append("%s %.0fs" % (name, time.time() - t0))
    tlc.stage(ctx)
    beh = ctx.sub("beh-push")
    xin, rin, lin = exhaustive_instances(thorough), replay_instances(thorough), liveness_instances(thorough)
    probes = [("ReachRegress", {"MaxChanges": 3}), ("ReachSemBlock", {"MaxConc": 1})]
    if thorough:
        probes += [("ReachCoalesce", {}), ("ReachRetry", {"MaxChanges": 3})]
    # <= 4 TLC workers at a time: four lanes of single-worker runs (graphs first, then the biggest)
    with cf.ProcessPoolExecutor(max_workers=4) as pool, cf.ThreadPoolExecutor(max_workers=1) as tp:
        fp = [pool.submit(_print_instance, (ctx, i, beh)) for i in rin]
        fx = [pool.submit(_exhaustive, (ctx, i, 1)) for i in sorted(xin, key=lambda i: -i[1]["MaxChanges"])]
        fl = [pool.submit(_liveness, (ctx, i)) for i in lin]
        fg = [pool.submit(_reach, (ctx, p, c)) for p, c in probes]
        pres = [f.result() for f in fp]
        mark("graphs")
        # the Go side starts as soon as the graphs are there, next to what is left of the TLC lanes
        fgo = tp.submit(_go, ctx, beh, 6000 if thorough else 600)
        xres = [f.result() for f in fx]
        lres = [f.result() for f in fl]
        guards = [f.result() for f in fg]
        mark("tlc")
        res = fgo.result()
        mark("go")
    kinds = {}
    for r in pres:
        for k, v in r[7].items():
            kinds[k] = kinds.get(k, 0) + v
    for k in NEED:
        if not kinds.get(k):
            raise MachineryError("vacuity guard: no printed C13_Push transition of kind %s" % k)
    edges_total = sum(r[4] for r in pres)
    div = classify_mismatches(ctx, res, "push")
    if not res["mismatches"] and res["distinct"] < edges_total:
        raise MachineryError("push replay executed %d distinct transitions of %d" % (res["distinct"], edges_total))
    fpath = os.path.join(res["_out"], "free", "result.json")
    if not os.path.exists(fpath):
        raise MachineryError("the gate-free test wrote no result:\n%s" % res["_log"][-2000:])
    with open(fpath) as f:
        free = json.load(f)
    div += classify_mismatches(ctx, free, "push-free")
    fx_ = free.get("extra") or {}
    if not free["mismatches"] or all(m["class"].startswith("L2:") for m in free["mismatches"]):
        if fx_.get("limit_attempts_in_flight_while_held") != 32 or not fx_.get("free_failed_attempts") or not fx_.get("free_deliveries"):
            raise MachineryError("vacuous gate-free run: %s" % fx_)
    traces = []
    for p in free.get("traces") or []:
        if os.path.exists(p):
            traces += tracecheck.load_ndjson(p)
    if not traces:
        raise MachineryError("the gate-free push scenarios recorded no traces")
    verdicts, _ = tracecheck.validate(ctx, "C13_PushObs", "C13_PushObs.cfg", traces, tag="c13p", timeout=900, batch=800)
    acc = sum(1 for v in verdicts if v.accepted)
    rej = [v for v in verdicts if not v.accepted]
    classes = {}
    for v in rej:
        cls = obs_class(v)
        classes[cls] = classes.get(cls, 0) + 1
        if classes[cls] > 2:
            continue
        path = save_replay(ctx, "push-trace-seed%d-%s.json" % (ctx.seed, v.name), v.as_dict())
        ctx.violations.append({"cls": cls, "replay": path, "what": "%s: trace %s is not a behaviour of C13_PushObs at event %d/%d: %s" % (
            cls, v.name, v.matched, v.length, v.next_event)})
    mark("traces")
    states = sum(r[1] for r in xres) + sum(r[1] for r in lres) + sum(r[1] for r in pres)
    trans = sum(r[2] for r in xres) + sum(r[2] for r in lres) + sum(r[2] for r in pres)
    summary = ("exhaustive %s; liveness (Converge under fairness) %s; printed+replayed %s = %d transitions, %d walks, %d steps on the real "
               "idService (%d messages decoded); gate-free scenarios %d (%d events, %d messages, %d failed attempts; %d attempts in flight with "
               "%d connections held), traces %d accepted / %d rejected %s; L2 divergences %d; startup-window change lost: %s; probes %s"
               % ([(r[0], r[1]) for r in xres], [(r[0], r[1]) for r in lres], [(r[0], r[3], r[4]) for r in pres], edges_total,
                  sum(r[5] for r in pres), res["steps"], (res.get("extra") or {}).get("push_deliveries", 0), free["replayed"], free["steps"],
                  fx_.get("free_deliveries", 0), fx_.get("free_failed_attempts", 0), fx_.get("limit_attempts_in_flight_while_held", 0),
                  fx_.get("limit_conns", 0), acc, len(rej), classes, div, fx_.get("startup_window_change_lost"), guards))
    log("C13push: " + summary + " [" + ", ".join(marks) + "]")
    return {"summary": summary, "states": states, "transitions": trans, "replayed": res["replayed"] + acc,
            "samples": (res.get("samples") or [])[:2],
            "exhaustive": {r[0]: {"states": r[1], "transitions": r[2], "wall_s": r[3]} for r in xres},
            "liveness": {r[0]: {"states": r[1], "transitions": r[2]} for r in lres},
            "replay_instances": {r[0]: {"states": r[3], "transitions": r[4], "walks": r[5], "steps": r[6]} for r in pres},
            "replay_transition_kinds": kinds, "replay_distinct_transitions_executed": res["distinct"],
            "free_scenarios": free["replayed"], "free_extra": fx_, "traces_accepted": acc, "traces_rejected": len(rej),
            "divergences_L2": div}


def run(ctx):
    """Developer entry (`./check C13push`): the push part alone."""
    from lib import evidence
    p = run_part(ctx, ctx.tier == "thorough")
    cov = evidence.mc_coverage(p["states"], p["transitions"], p["replayed"], p["samples"], exhaustive=True,
                               checker_cmd="tlc C13_PushMC.tla; tlc C13_PushObs.tla", push={k: v for k, v in p.items() if k != "samples"})
    return {"level": "model_checking", "coverage": cov, "assumptions": ["developer run of the push part of C13"]}


# engine entry for the MANIFEST of C13 (checks/C13.py lists the engines; this part must not edit it)
ENGINE = {"name": "C13_Push", "path": "spec/C13_Push.tla", "serves_properties": ["C13"],
          "kind_free_text": "TLA+ spec of the identify push / snapshot side + TLC exhaustive (safety, convergence as liveness) + "
                            "full-transition replay through gates on the real idService + TLC validation of gate-free concurrent "
                            "runs against the observable-level spec C13_PushObs.tla"}
