"""C11cl - extension engine of C11: the CLIENT side of circuit relay v2 (the relay is the adversary).

C11's check drives the relay (relay.go, constraints.go); the property's anchors also name the client:
client/reservation.go, client/dial.go, client/handlers.go and proto/voucher.go.  This engine covers them:

  spec/C11cl_Client.tla    transport.go Dial/dialAndUpgrade, dial.go dial/dialPeer/connect, handlers.go handleStreamV2,
                           listen.go Accept/Close, conn.go Close/tagHop/untagHop as the code is: one action per public
                           call and per blocking point (host.NewStream, the relay's answer, the upgrader, the accept
                           queue), faults (resource refusals, write failures, upgrade failures closing the connection
                           once or twice) and timers (relative time) as separate actions; clauses K1..K8 as invariants /
                           action properties
  spec/C11cl_Reserve.tla   reservation.go Reserve against a Dolev-Yao relay: the reply is any term the attacker can build
                           from its own keys and the honest relay's envelopes it has seen; clauses V1..V6
  replay                   every transition of every printed instance executed on the real Client / Reserve through a
                           fake host inside testing/synctest: NewStream and the upgrader are gates, the relay's answers
                           and STOP messages are scripted from the TLC graph, real resource-manager scopes, a real
                           BasicConnMgr, virtual time; abstract answers / vouchers concretised over families (key types
                           Ed25519 / Secp256k1 / ECDSA / RSA per role, address forms, limit values, status codes,
                           malformed encodings, bit flips and truncations of valid envelopes)
  monitors (L1)            from the harness's own ledger (which calls returned what, which gates are occupied, what the
                           relay's end of every stream saw), never from the model
"""
import collections
import concurrent.futures as cf
import json
import os
import re

from lib import evidence, goenv, graph, tlc
from lib.common import MachineryError, classify_mismatches, log

PARENT = "C11"
PKG = "./p2p/protocol/circuitv2/client"

INV = "INVARIANTS TypeOK OneActive NoStaleActive Rollback TagExact CountExact ExactlyOne AcceptBounded NoMissedRendezvous CloseUnblocks"
INV_ASIS = "INVARIANTS TypeOK OneActive NoStaleActive Rollback ExactlyOne AcceptBounded NoMissedRendezvous CloseUnblocks"
PROPS = "PROPERTIES DedupRule ConnOnlyIfOK LimitedIff"

# the code as it is: Conn.Close decrements the hop count on every call (finding hop-tag-refcount-broken-by-second-close).
# Flip to True once /repo makes the second Close harmless: TagExact / CountExact then become invariants of every instance.
CLOSE_ONCE = False

ALL_ANSWERS = ("ok", "oklim", "oklim0", "status", "status0", "wrongtype", "garbage", "toolarge", "reset", "eof", "trunc")
ALL_STOPS = ("ok", "oklim", "oklim0", "badtype", "nopeer", "badpeer", "garbage", "toolarge", "reset", "eof", "trunc")
DIAL_FAULTS = ("connlim", "peerlim", "nsfail", "mem", "wfail", "upfail", "upfail2")
TIMEOUTS = {"AcceptTO": 2, "StreamTO": 3, "DialTO": 3, "RelayTO": 1}     # units of 5 s (package variables: one setting per run)


def _fast_unescape(s, _slow=tlc._unescape):
    return s.replace('\\"', '"') if "\\\\" not in s else _slow(s)


tlc._unescape = _fast_unescape


def S(names):
    return "{" + ", ".join('"%s"' % n for n in names) + "}"


def inst(name, relays=("r1", "r2"), dests=("d1",), answers=ALL_ANSWERS, stops=ALL_STOPS, faults=(), features=(), **kw):
    c = {"Relays": S(relays), "Dests": S(dests), "MaxDial": 2, "MaxPerDest": 2, "MaxIn": 0, "MaxAcc": 0,
         "Answers": S(answers), "StopMsgs": S(stops), "Faults": S(faults), "Features": S(features),
         "CloseOnce": "TRUE" if CLOSE_ONCE else "FALSE"}
    c.update(TIMEOUTS)
    for k, v in kw.items():
        if k not in c:
            raise MachineryError("unknown constant " + k)
        c[k] = v
    hdr = {"name": name, "relays": list(relays), "dests": list(dests), "maxDial": c["MaxDial"], "maxIn": c["MaxIn"], "maxAcc": c["MaxAcc"],
           "acceptTO": c["AcceptTO"], "streamTO": c["StreamTO"], "dialTO": c["DialTO"], "relayTO": c["RelayTO"],
           "closeOnce": c["CloseOnce"] == "TRUE"}
    second = "dblclose" in features or "upfail2" in faults
    return name, c, hdr, second


def client_replay_instances(ctx):
    out = [
        # the whole dial path: every answer of the relay, every fault, two dials racing on one destination through the
        # same / different relays, cancellation, address errors
        inst("dial", faults=[f for f in DIAL_FAULTS if f != "upfail2"], features=("cancel", "badaddr")),
        # three dials over two destinations (independence of the per-destination dedup)
        inst("dial3s", dests=("d1", "d2"), MaxDial=3, answers=("ok", "status"), faults=("nsfail",)),
        # the same with time: NewStream / answer time-outs racing with retries
        inst("dialtime", answers=("ok", "status", "garbage"), faults=("nsfail",), features=("time", "cancel")),
        # the accept side: STOP messages of every kind, late messages, two Accept callers, write failures of the answer,
        # accept time-out, Listener.Close
        inst("accept", relays=("r1",), MaxDial=0, MaxIn=2, MaxAcc=2, faults=("awfail",), features=("time", "close", "late")),
        # tags across directions: dialled and accepted circuits through the same relay, upgrade failures that close
        # the connection once or twice, second Close by the application
        inst("mixed", relays=("r1",), answers=("ok", "status"), stops=("ok", "oklim"), MaxDial=2, MaxIn=1, MaxAcc=1,
             faults=("upfail", "upfail2"), features=("dblclose",)),
        # the same with two relays (the tag of one is not touched by circuits through the other), one dial
        inst("mixed2", answers=("ok", "status"), stops=("ok", "oklim"), MaxDial=1, MaxIn=1, MaxAcc=1,
             faults=("upfail", "upfail2"), features=("dblclose",)),
    ]
    if ctx.tier == "thorough":
        out += [
            # three dials over two destinations
            inst("dial3", dests=("d1", "d2"), MaxDial=3, answers=("ok", "oklim", "status", "reset"), faults=("nsfail", "upfail"),
                 features=("cancel",)),
            # accept side with two relays and second Close
            inst("accept2", MaxDial=0, MaxIn=2, MaxAcc=2, stops=("ok", "oklim", "badtype", "reset"), faults=("awfail",),
                 features=("time", "close", "dblclose")),
            # two relays, two dials, one accepted circuit, connections closed twice
            inst("mixed3", answers=("ok",), stops=("ok",), MaxDial=2, MaxIn=1, MaxAcc=1, faults=("upfail2",), features=("dblclose",)),
        ]
    return out


def client_exhaustive_instances(ctx):
    """Checked exhaustively only (not printed)."""
    out = [
        # Accept on a closed listener with a connection still queued: both cases of its select are ready
        inst("acceptrace", relays=("r1",), MaxDial=0, MaxIn=2, MaxAcc=2, stops=("ok", "oklim", "badtype"), faults=("awfail",),
             features=("time", "close", "acceptrace")),
    ]
    if ctx.tier == "thorough":
        out += [
            # three dials of ONE destination: which waiter takes over is the scheduler's choice
            inst("dial3same", MaxDial=3, MaxPerDest=3, answers=("ok", "status", "reset"), faults=("nsfail", "upfail"),
                 features=("cancel", "time")),
            # both directions, time, Close, cancellation and second Closes together
            inst("all", MaxDial=2, MaxIn=1, MaxAcc=1, answers=("ok", "status"), stops=("ok", "badtype"),
                 faults=("upfail2", "awfail"), features=("time", "close", "cancel", "dblclose")),
        ]
    return out


def _cfg(consts, second, replace=None):
    rep = list(replace or [])
    if not CLOSE_ONCE and second:
        # as the code is, the tag clauses fail once a connection is closed twice: they are checked separately (_finding)
        rep.append((INV, INV_ASIS))
    return tlc.subst_cfg("C11cl_MC.cfg", consts, rep)


def _edge_stats(g):
    st = collections.Counter()
    for _s, op, _t in g.edges:
        n = op["name"]
        st[n] += 1
        if n == "dial":
            st["dial:" + op["out"]] += 1
            if op["how"] != "ok":
                st["dial:" + op["how"]] += 1
        elif n == "ns":
            st["ns:" + op["how"]] += 1
        elif n == "respond":
            st["respond:" + op["a"]] += 1
        elif n == "upgrade":
            st["upgrade:" + op["how"]] += 1
        elif n in ("cclose", "iclose"):
            if op["second"]:
                st[n + ":second"] += 1
        elif n in ("stop", "stopmsg"):
            st["stop:" + op["m"]] += 1
            st["stop->" + op["out"]] += 1
        elif n == "accept":
            st["accept:" + op["out"]] += 1
            if op["resets"]:
                st["accept:skipped-unwritable"] += 1
        elif n == "closel":
            if op["unblocked"]:
                st["closel:unblocked"] += 1
        elif n == "tick":
            for e in op["ended"]:
                st["tick:" + e["err"]] += 1
            for e in op["refused"]:
                st["tick->" + e["out"]] += 1
        for e in op.get("ended", ()):
            if isinstance(e, dict) and e["err"].startswith("dedup"):
                st[e["err"]] += 1
        if op.get("next"):
            st["waiter-takes-over"] += 1
        hop = g.states[_t][6]
        if any(v >= 2 for v in hop.values()):
            st["two-circuits-through-one-relay"] += 1
        if any(v < 0 for v in hop.values()):
            st["negative-hop-count"] += 1
    return dict(st)


REQUIRED_KINDS = (
    ["dial:ns", "dial:wait", "dial:err", "dial:connlim", "dial:peerlim", "dial:nocircuit", "dial:norelay", "dial:badrelay",
     "ns:ok", "ns:nsfail", "ns:mem", "ns:wfail", "upgrade:ok", "upgrade:upfail", "upgrade:upfail2", "cclose", "cclose:second",
     "iclose", "iclose:second", "cancel", "dedup-ok", "dedup-proto", "waiter-takes-over", "tick:nstimeout", "tick:read",
     "tick->CONNECTION_FAILED", "tick->MALFORMED_MESSAGE", "tick->reset", "stop->queued", "stop->delivered", "stop->read",
     "stop->reset", "stop->MALFORMED_MESSAGE", "stop->UNEXPECTED_MESSAGE", "accept:blocked", "accept:delivered", "accept:closed",
     "accept:skipped-unwritable", "closel", "closel:unblocked", "two-circuits-through-one-relay"]
    + ["respond:" + a for a in ALL_ANSWERS] + ["stop:" + m for m in ALL_STOPS] + ["stop:late"])


def _replay_instance(args):
    """One TLC run: all invariants and properties AND every transition printed (VIEW without op)."""
    ctx, (name, consts, hdr, second), beh_dir = args
    cfg = _cfg(consts, second, [("INIT Init", "INIT MCInit"), ("VIEW View", "VIEW View\nACTION_CONSTRAINT EmitEdge")])
    r = tlc.run(ctx, "C11cl_MC", "gen_%s_edges.cfg" % name, cfg_text=cfg, workers=1, timeout=1500, name="ed" + name)
    if not r.ok:
        raise MachineryError("design-level failure in C11cl_Client %s: %s violated\n%s" % (name, r.violated, r.out[-2500:]))
    g = graph.Graph(r.inits, r.edges)
    if g.n_edges() == 0:
        raise MachineryError("no edges printed for " + name)
    h = dict(hdr)
    h.update({"edges": g.n_edges(), "states": g.n_states()})
    walks = g.covering_walks(seed=ctx.seed, max_len=40)
    graph.write_behaviours(os.path.join(beh_dir, "cl_%s.jsonl" % name), walks, h)
    return {"inst": name, "states": r.distinct, "generated": r.generated, "edges": g.n_edges(), "walks": len(walks),
            "steps": sum(len(w["steps"]) for w in walks), "kinds": _edge_stats(g), "wall": r.wall, "cmd": r.cmd}


def _exhaustive(args):
    ctx, (name, consts, _hdr, second), workers = args
    r = tlc.run(ctx, "C11cl_MC", "gen_%s_mc.cfg" % name, cfg_text=_cfg(consts, second), workers=workers, timeout=1500, name="mc" + name)
    if not r.ok:
        raise MachineryError("design-level failure in C11cl_Client %s: %s violated\n%s" % (name, r.violated, r.out[-2500:]))
    return {"inst": name, "states": r.distinct, "generated": r.generated, "wall": r.wall, "cmd": r.cmd}


LIVE = {
    # instance -> liveness properties (an empty slot set would make a property a tautology, which TLC refuses)
    "liveaccept": "StopDecided",
    "livedial": "DialDecided WaiterDecided",
}


def live_instances():
    return [
        inst("liveaccept", relays=("r1",), MaxDial=0, MaxIn=2, MaxAcc=1, stops=("ok", "badtype"), faults=("awfail",), features=("time", "close", "late")),
        inst("livedial", answers=("ok", "status", "garbage"), faults=("nsfail",), features=("time", "cancel")),
    ]


def _live(args):
    """Liveness under weak fairness of Tick (time passes): whatever waits on a timer is decided."""
    ctx, (name, consts, _hdr, _second) = args
    cfg = tlc.subst_cfg("C11cl_MC.cfg", consts, [("INIT Init\nNEXT Next\nVIEW View\n", "SPECIFICATION LiveSpec\n"), ("CONSTRAINT HopBound\n", ""),
                                                 (INV, ""), (PROPS, "PROPERTIES " + LIVE[name])])
    r = tlc.run(ctx, "C11cl_MC", "gen_%s_live.cfg" % name, cfg_text=cfg, workers=1, timeout=900, name="live" + name)
    if not r.ok:
        raise MachineryError("design-level failure in C11cl_Client %s: liveness %s violated\n%s" % (name, r.violated, r.out[-2500:]))
    return {"inst": name, "states": r.distinct, "generated": r.generated, "wall": r.wall, "cmd": r.cmd, "liveness": LIVE[name]}


def _finding_one(args):
    """The tag clause K6 alone on the instance with second Closes, for one value of CloseOnce."""
    ctx, (name, consts, _hdr, _second), once = args
    c = dict(consts, CloseOnce=once)
    cfg = tlc.subst_cfg("C11cl_MC.cfg", c, [(INV, "INVARIANTS TagExact"), (PROPS, "")])
    r = tlc.run(ctx, "C11cl_MC", "gen_%s_tag_%s.cfg" % (name, once), cfg_text=cfg, workers=1, timeout=900, name="tag" + name + once)
    return once, {"violated": r.violated, "states": r.distinct, "generated": r.generated, "depth": r.depth, "wall": r.wall,
                  "shortest_history": re.findall(r"^State \d+: <(\w+\(.*?\)) line", r.out, re.M)[:12]}


def _finding_verdict(out):
    """K6 is violated by the code as it is (the shortest history is the finding's witness) and an invariant of the
    intended behaviour."""
    if out["TRUE"]["violated"]:
        raise MachineryError("TagExact fails in the model of the INTENDED behaviour (CloseOnce = TRUE)")
    if out["FALSE"]["violated"] != "TagExact":
        raise MachineryError("TagExact is not violated by the model of the code as it is (CloseOnce = FALSE): the spec changed?")
    return out


RESERVE_TO = 2
RESERVE_KINDS = ("reply:ok", "reply:ok-voucher-own", "reply:ok-voucher-replayed", "reply:ok-no-voucher", "reply:read", "reply:type", "reply:status",
                 "reply:norsvp", "reply:expired", "reply:empty", "reply:garbage", "reply:damaged", "reply:signature", "reply:unregistered",
                 "reply:payload", "reply:type-voucher", "reply:signer", "reply:peer", "reply:forged-H", "reply:replayed-H-for-D",
                 "reply:replayed-H-peer-record", "start:nsfail", "start:wfail", "tick:timeout", "issue")


def _reserve_instance(args):
    """C11cl_Reserve: invariants / action properties and the printed graph in one run."""
    ctx, beh_dir = args
    cfg = tlc.subst_cfg("C11cl_ReserveMC.cfg", {"TO": RESERVE_TO},
                        [("INIT Init", "INIT MCInit"), ("VIEW View", "VIEW View\nACTION_CONSTRAINT EmitEdge")])
    r = tlc.run(ctx, "C11cl_ReserveMC", "gen_reserve_edges.cfg", cfg_text=cfg, workers=1, timeout=900, name="edreserve")
    if not r.ok:
        raise MachineryError("design-level failure in C11cl_Reserve: %s violated\n%s" % (r.violated, r.out[-2500:]))
    g = graph.Graph(r.inits, r.edges)
    if g.n_edges() == 0:
        raise MachineryError("no edges printed for C11cl_Reserve")
    st = collections.Counter()
    for _s, op, _t in g.edges:
        n = op["name"]
        if n == "reply":
            res, v = op["res"], op["rp"]["v"]
            if res["ok"]:
                st["reply:ok"] += 1
                st["reply:ok-" + ("no-voucher" if v["k"] == "absent" else "voucher-replayed" if v["k"] == "H" else "voucher-own")] += 1
            else:
                w = res["why"]
                st["reply:" + ("type-voucher" if (w == "type" and op["rp"]["typ"] == "status") else w)] += 1
                if v["k"] == "H" and v["mut"] == "none":
                    st["reply:" + ("forged-H" if v["sig"] != "good" else "replayed-H-peer-record" if v["typ"] == "peerrec" else "replayed-H-for-" + v["peer"])] += 1
        elif n == "start":
            st["start:" + op["how"]] += 1
        elif n == "tick":
            st["tick:" + ("timeout" if op["res"]["status"] != "-" else "wait")] += 1
        else:
            st[n] += 1
    walks = g.covering_walks(seed=ctx.seed, max_len=40)
    graph.write_behaviours(os.path.join(beh_dir, "rs_reserve.jsonl"), walks, {"to": RESERVE_TO, "edges": g.n_edges(), "states": g.n_states()})
    return {"inst": "reserve", "states": r.distinct, "generated": r.generated, "edges": g.n_edges(), "walks": len(walks),
            "steps": sum(len(w["steps"]) for w in walks), "kinds": dict(st), "wall": r.wall, "cmd": r.cmd}


def _go(ctx, run, inputs=None, env=None):
    res = goenv.run_harness(ctx, PKG, run, inputs=inputs, timeout=1500, env=env)
    x = res.get("extra") or {}
    if x.get("harness_panics") and not any(not m["class"].startswith("L2:") for m in res.get("mismatches", [])):
        # the harness itself panicked and no clause had failed before: not a verdict
        raise MachineryError("%s: the harness panicked %d times without a recorded violation:\n%s" % (run, x["harness_panics"], x.get("harness_panic_sample", "")[:3000]))
    return res


def _job(a):
    return a[0](a[1])


def run_part(ctx, thorough):
    tlc.stage(ctx)
    beh = ctx.sub("beh")
    rinsts = client_replay_instances(ctx)
    einsts = client_exhaustive_instances(ctx)
    mixed = [i for i in rinsts if i[0] == "mixed"][0]
    big = {"accept": 0, "dial3": 0, "dial3s": 0, "all": 0, "dial3same": 0, "mixed3": 1, "accept2": 1, "dial": 2}
    jobs = [(_replay_instance, (ctx, i, beh)) for i in rinsts] + [(_exhaustive, (ctx, i, 1)) for i in einsts] + \
           [(_finding_one, (ctx, mixed, once)) for once in ("TRUE", "FALSE")] + [(_reserve_instance, (ctx, beh))] + \
           [(_live, (ctx, i)) for i in live_instances()]
    jobs.sort(key=lambda j: big.get(j[1][1][0] if isinstance(j[1][1], tuple) else "", 9))
    # 4 lanes x 1 TLC worker; the model-free scenarios (and with them the build of the harness) run meanwhile
    with cf.ProcessPoolExecutor(max_workers=4) as pt, cf.ProcessPoolExecutor(max_workers=1) as pg:
        fg = pg.submit(_go, ctx, "^TestVerifC11clDirect$", None, {"VERIF_C11CL_ITERS": 200 if thorough else 40})
        results = list(pt.map(_job, jobs))
        direct = fg.result()
    rres = [r for r in results if isinstance(r, dict) and "edges" in r and r["inst"] != "reserve"]
    eres = [r for r in results if isinstance(r, dict) and "edges" not in r and "liveness" not in r]
    lres = [r for r in results if isinstance(r, dict) and "liveness" in r]
    rsv = [r for r in results if isinstance(r, dict) and r["inst"] == "reserve"][0]
    finding = _finding_verdict(dict(r for r in results if isinstance(r, tuple)))
    log("C11cl: graphs and walks done at %.1fs" % ctx.wall())
    tot = collections.Counter()
    for r in rres:
        tot.update(r["kinds"])
    for k in REQUIRED_KINDS:
        if not tot.get(k):
            raise MachineryError("vacuity guard: no replayed transition of kind %s" % k)
    for k in RESERVE_KINDS:
        if not rsv["kinds"].get(k):
            raise MachineryError("vacuity guard: no Reserve transition of kind %s (%s)" % (k, rsv["kinds"]))
    if rsv["kinds"].get("reply:ok-voucher-replayed"):
        ctx.notes.append("OBSERVATION (no clause): Reserve accepts a genuine voucher of ANOTHER relay H (issued by H to this client) handed over by the relay "
                         "it asked, and does not look at the voucher's own Expiration; reservation.go checks signer == voucher.Relay and voucher.Peer == self only")
    edges_total = sum(r["edges"] for r in rres)
    div = classify_mismatches(ctx, direct, "direct")
    dx = direct.get("extra") or {}
    if not dx.get("real_upgrader_closed_the_connection_twice") and not CLOSE_ONCE:
        ctx.notes.append("the real upgrader no longer closes a relayed connection twice after a failed security handshake")
    took_closed = any(k.startswith("accept_race_delivered_0") for k in dx)
    took_conn = any(k.startswith("accept_race_delivered_") and not k.startswith("accept_race_delivered_0") for k in dx)
    if not direct["mismatches"] and not (took_closed and took_conn):
        raise MachineryError("vacuous accept-race scenarios: only one branch of Accept's select was taken (%s)" % dx)
    if not direct["mismatches"] and direct["distinct"] < 90:
        raise MachineryError("vacuous voucher codec scenarios: %d cases" % direct["distinct"])
    res = _go(ctx, "^TestVerifC11clReplay$", inputs=beh)
    div += classify_mismatches(ctx, res, "replay")
    if not res["mismatches"] and res["distinct"] < edges_total:
        raise MachineryError("replay executed %d distinct transitions of %d" % (res["distinct"], edges_total))
    rv = _go(ctx, "^TestVerifC11clReserve$", inputs=beh)
    div += classify_mismatches(ctx, rv, "reserve")
    if not rv["mismatches"] and rv["distinct"] < rsv["edges"]:
        raise MachineryError("Reserve replay executed %d distinct transitions of %d" % (rv["distinct"], rsv["edges"]))
    states = sum(r["states"] for r in rres + eres + lres + [rsv])
    trans = sum(r["generated"] for r in rres + eres + lres + [rsv])
    log("C11cl: client replay %s; exhaustive %s; %d replay transitions, %d steps; L2 %d"
        % ([(r["inst"], r["states"], r["edges"], r["wall"]) for r in rres], [(r["inst"], r["states"], r["generated"], r["wall"]) for r in eres],
           edges_total, res["steps"], div))
    cov = {
        "client_replay_instances": {r["inst"]: {k: r[k] for k in ("states", "generated", "edges", "walks", "steps", "wall")} for r in rres},
        "client_exhaustive_only": {r["inst"]: {k: r[k] for k in ("states", "generated", "wall")} for r in eres},
        "client_liveness": {r["inst"]: {k: r[k] for k in ("states", "generated", "wall", "liveness")} for r in lres},
        "client_replay_transitions_in_graphs": edges_total, "client_replay_steps_executed": res["steps"],
        "client_replay_distinct_transitions_executed": res["distinct"], "client_transition_kinds": dict(tot),
        "tag_clause_K6": {"intended_behaviour_CloseOnce_TRUE": finding["TRUE"], "code_as_it_is_CloseOnce_FALSE": finding["FALSE"]},
        "reserve_instance": {k: rsv[k] for k in ("states", "generated", "edges", "walks", "steps", "wall")},
        "reserve_transition_kinds": rsv["kinds"], "reserve_replay_steps_executed": rv["steps"],
        "reserve_replay_distinct_transitions_executed": rv["distinct"], "reserve_walks": rv["replayed"],
        "direct_scenarios": direct["replayed"], "direct_steps": direct["steps"], "voucher_codec_cases": direct["distinct"], "direct_extra": dx,
        "divergences_L2": div, "rule": res.get("rule"),
    }
    return {"states": states, "transitions": trans, "replayed": res["replayed"] + rv["replayed"] + direct["replayed"], "samples": (res.get("samples") or [])[:3], "coverage": cov,
            "cmd": "tlc C11cl_MC.tla (template C11cl_MC.cfg instantiated: printed+replayed %s; exhaustive only %s)" % (
                ",".join(r["inst"] for r in rres), ",".join(r["inst"] for r in eres) or "-")}


def run(ctx):
    if ctx.replay:
        raise MachineryError("C11cl artefacts hold the failing prefix, the instance and the concretisation; re-run `VERIF_SEED=<seed in file name> ./check C11cl`")
    p = run_part(ctx, ctx.tier == "thorough")
    cov = evidence.mc_coverage(p["states"], p["transitions"], p["replayed"], p["samples"], exhaustive=True, checker_cmd=p["cmd"],
                               parent_property=PARENT, **p["coverage"])
    cov["notes"] = ctx.notes[:10]
    return {"level": "model_checking", "coverage": cov, "assumptions": [
        "bounded instances: <= 3 dials in flight, <= 2 per destination in the replayed instances (which waiter takes over is the scheduler's choice otherwise), <= 2 STOP streams, <= 2 Accept callers, time-outs of 1-3 units of 5 s (the package variables are set accordingly)",
        "fake host: NewStream and the upgrader are gates; the stub upgrader keeps the contract of p2p/net/upgrader the client relies on (failure: connection closed - once or, as after a failed security handshake, twice - and scope released; success: Stat() of the wrapped connection, Close closes it and the scope)",
        "resource refusals are injected by tightening the system / peer limits of a real resource manager for exactly the call under test",
        "Accept on a closed listener while a connection is still queued (both select cases ready) is model-checked and run free, not replayed",
        "the wording of errors is L2 except what a waiting dial learns (K2)",
    ]}


ENGINE = {"name": "C11cl_Client", "path": "spec/C11cl_Client.tla", "serves_properties": [PARENT],
          "kind_free_text": "TLA+ specs of the circuit-v2 client (dial dedup / CONNECT handshake / upgrade / accept queue / hop tag refcount; Reserve "
                            "against a Dolev-Yao relay) + TLC exhaustive + full-transition replay on the real client through a fake host in "
                            "virtual time with ledger monitors"}
MANIFEST = {
    "technique": "TLA+ specs (C11cl_Client.tla, C11cl_Reserve.tla) model-checked exhaustively with TLC; every transition of every printed instance replayed on the real client inside testing/synctest (gated fake host, real rcmgr scopes, real BasicConnMgr); clauses monitored from an independent ledger",
    "category": "model_checking",
    "text": "Extension engine of C11 for the client side of circuit relay v2 with the relay as adversary: reservation acceptance and voucher validation, one active dial per destination, connection only on STATUS OK, Limited iff the relay attached a limit (both directions), rollback of scopes / streams / buffers / activeDials on every exit, hop tag held exactly while a circuit is open, exactly one answer per STOP stream, accept time-out, Listener.Close.",
    "note": "Trusted: TLC, the fake host / streams / stub upgrader, testing/synctest, the harness ledger. In-package reads (activeDials, hopCount, ctx) are L2 except a left-over activeDials entry (named by the statement).",
    "engines": [ENGINE],
}
