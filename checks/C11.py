"""C11 - circuit relay v2 honours reservations, ACL, caps and per-circuit limits.

spec/C11_Relay.tla models relay.go / constraints.go / resources.go / acl.go as the code is (time kept
relative, so no horizon).  Bounded instances are model-checked exhaustively with TLC; for the replay
instances every transition is printed and covering walks are executed on a real Relay driven through a
fake host inside a synctest bubble (real resource manager scopes, real BasicConnMgr, virtual time), with
the client-visible results and the in-package projection compared after every step and the statement's
clauses evaluated as L1 monitors on the harness's own ledger (fed by observations of the real relay only).
The two defects found by this check (DESIGN section 9 items 7 and 8, fixed in /repo 6cf8d1a and 6390169)
are kept as regressions: Caps and TagsRollback are invariants of every instance, and the shortest failing
histories of the old code are replayed as explicit walks on the real relay."""
import collections
import concurrent.futures as cf
import json
import os

from lib import evidence, extension, goenv, graph, tlc
from lib.common import MachineryError, classify_mismatches, log

PKG = "./p2p/protocol/circuitv2/relay"

INV = ("INVARIANTS TypeOK Caps CapsCounted CountedAreLive LiveAreCounted TagsRollback ReservationSound CircuitSound "
       "MaxCircuits Rollback TagsWhileReserved Limits HandshakeBounded")
PROPS = "PROPERTIES ConnectOnlyIfAllowed GrantOnlyIfAllowed DeliveredWithinLimit EndedMeansRolledBack"

ALL_FAULTS = ("mem", "badpeer", "open", "svc", "smem", "swrite", "reset", "wrongtype", "nonok", "h_svc", "h_mem", "h_bad")


def _fast_unescape(s, _slow=tlc._unescape):
    return s.replace('\\"', '"') if "\\\\" not in s else _slow(s)


tlc._unescape = _fast_unescape


def S(names):
    return "{" + ", ".join('"%s"' % n for n in names) + "}"


def inst(name, topo, features, static=(), faults=(), acl=True, off=(), **kw):
    c = {"Topo": '"%s"' % topo, "ACLOn": "TRUE" if acl else "FALSE", "Features": S(features), "Static": S(static),
         "Off": S(off),
         "Faults": S(faults), "MaxRes": 2, "MaxPerIP": 1, "MaxPerASN": 2, "MaxCirc": 1, "TTL": 2, "GCP": 2,
         "Limited": "TRUE", "DataLimit": 3, "Duration": 2, "HSTimeout": 2, "MaxAtt": 1, "Chunks": "{1, 2}"}
    for k, v in kw.items():
        if k not in c:
            raise MachineryError("unknown constant " + k)
        c[k] = v
    return name, c


def replay_instances(ctx):
    """Instances whose whole state graph is printed and replayed."""
    out = [
        # reservations: total and per-IP caps, refresh from another IP, relayed link, disconnect with a
        # limited connection left, expiry / collection; connects only as probes for a reservation
        # (also: the client leaving before the answer is written, Relay.Close)
        inst("rsvp", "rsvp", ("time", "updown", "probe", "rabort", "close"), static=("b1", "a2")),
        # per-ASN cap (IPv6), an address without IP, ACL on reservations (no connects)
        inst("asn", "asn", ("time", "updown"), static=("n1", "b2", "b3"), MaxRes=3, MaxPerIP=2, MaxPerASN=1, MaxAtt=0),
        # the hop/stop handshake with a failure at each of its exits, two attempts racing on the counters
        inst("conn", "conn", ("updown", "cabort", "abort"), static=("b2", "r1"), faults=ALL_FAULTS, MaxAtt=2, MaxCirc=1,
             DataLimit=1, Chunks="{1}", MaxRes=3, MaxPerIP=2),
        # one circuit of a limited relay: payloads around the data limit in each direction, duration,
        # handshake time-out, half-close, reset
        inst("data", "data", ("updown", "sclose", "abort", "time", "cabort", "quietreserve"), static=("a2",),
             faults=("open", "reset", "nonok"), MaxRes=3, MaxPerIP=2, TTL=3),
        # the same without limits
        inst("nolimit", "data", ("sclose", "abort", "time", "quietreserve"), static=("a1", "a2"), faults=("reset",),
             Limited="FALSE", MaxRes=3, MaxPerIP=2, TTL=3, Chunks="{2}"),
    ]
    if ctx.tier == "thorough":
        out += [
            # every connection dynamic
            inst("rsvp-full", "rsvp", ("time", "updown", "probe", "rabort", "close"), static=(), off=("u3",)),
            # the ASN population with probes, the client leaving before the answer, only the no-IP link static
            inst("asn-full", "asn", ("time", "updown", "probe", "rabort"), static=("n1",), MaxRes=3, MaxPerIP=2, MaxPerASN=1),
            # MaxCircuits 2: the caps are reached by two attempts of the same peer
            inst("conn2", "conn", ("updown", "abort"), static=("a2", "b2", "r1", "a3"), off=("u1",), faults=("open", "nonok"), MaxAtt=2,
                 MaxCirc=2, DataLimit=1, Chunks="{1}", MaxRes=3, MaxPerIP=2),
            # longer circuits: data limit 4 with writes of 1, 3 and 5 bytes, duration 3 units
            inst("data-big", "data", ("updown", "sclose", "abort", "time", "cabort", "quietreserve"), static=("a2",),
                 faults=("reset",), MaxRes=3, MaxPerIP=2, TTL=3, DataLimit=4, Chunks="{1, 3, 5}", Duration=3),
        ]
    return out


def exhaustive_instances(ctx):
    """Bigger instances checked exhaustively only."""
    if ctx.tier == "thorough":
        return [
            # handshakes racing with expiry, collection, handshake time-out and circuit deadlines
            inst("conn-time", "conn", ("updown", "cabort", "abort", "time"), static=("a2", "b2", "r1"), off=("u1",),
                 faults=("open", "reset", "nonok"), MaxAtt=2, MaxCirc=1, DataLimit=1, Chunks="{1}", MaxRes=3, MaxPerIP=2),
            # three attempts in flight, MaxCircuits 2
            inst("conn3", "conn", ("updown", "abort"), static=("a2", "b2", "r1", "a3"), off=("u1",), faults=("open", "nonok"), MaxAtt=3,
                 MaxCirc=2, DataLimit=1, Chunks="{1}", MaxRes=3, MaxPerIP=2),
        ]
    return []


def _cfg(consts, replace=None):
    return tlc.subst_cfg("C11_MC.cfg", consts, replace)


def _exhaustive(args):
    ctx, (name, consts), workers = args
    r = tlc.run(ctx, "C11_MC", "gen_%s_mc.cfg" % name, cfg_text=_cfg(consts), workers=workers, timeout=1500, name="mc" + name)
    if not r.ok:
        raise MachineryError("design-level failure in C11 %s: %s violated\n%s" % (name, r.violated, r.out[-2500:]))
    return name, r.distinct, r.generated, r.wall


def _expect_violated(args):
    """A design-level finding still open in /repo: TLC must find the property violated (else the model no longer
    contains the behaviour and the run is vacuous for it)."""
    ctx, (name, consts), prop = args
    cfg = _cfg(consts, [(PROPS, "PROPERTIES " + prop)])
    r = tlc.run(ctx, "C11_MC", "gen_%s_%s.cfg" % (name, prop), cfg_text=cfg, workers=1, timeout=600, name="x" + name + prop)
    if r.ok or r.violated != prop:
        raise MachineryError("%s is not violated in instance %s (got %s)" % (prop, name, r.violated))
    return prop, r.depth


def _edge_stats(g, conf):
    st = collections.Counter()
    links = conf["links"]     # link -> [peer, address, Stat().Limited]
    relayed_unlimited = {l for l, v in links.items() if v[1] in ("relay", "relayu") and not v[2]}
    relayed_limited = {l for l, v in links.items() if v[1] in ("relay", "relayu") and v[2]}
    for sk, op, _t in g.edges:
        n = op["name"]
        st[n] += 1
        if n in ("connect", "reserve") and op["l"] in relayed_unlimited:
            st[n + ":requester-relayed-unlimited"] += 1
        if n in ("connect", "reserve") and op["l"] in relayed_limited:
            st[n + ":requester-relayed-limited"] += 1
        if n == "connect":
            st["connect:" + op["exit"]] += 1
            if op["via"] in relayed_unlimited:
                st["connect:destination-over-relayed-unlimited"] += 1
            if op["exit"] in ("hs", "swrite") and g.states[sk][RSVP][op["d"]] < 0:
                st["connect:served-by-expired-uncollected-reservation"] += 1
        elif n == "reserve":
            st["reserve:" + op["why"]] += 1
            if op["why"] != "ok" and op["why"] in ("total", "ip", "asn", "noip") and op["live"]:
                st["reserve:refused-refresh"] += 1
            if op.get("ab"):
                st["reserve:aborted"] += 1
        elif n == "stop":
            st["stop:" + op["kind"]] += 1
            if op["status"] == "none":
                st["stop:response-write-error"] += 1
        elif n == "fwd":
            if op["delivered"] < op["n"]:
                st["fwd:truncated"] += 1
            if op["eof"]:
                st["fwd:limit-reached"] += 1
        elif n == "tick":
            if op["hs"]:
                st["tick:handshake-timeout"] += 1
            if op["collected"]:
                st["tick:collected"] += 1
            if len(op["ended"]) > len(op["hs"]):
                st["tick:deadline"] += 1
        elif n == "down":
            if op["dropped"]:
                st["down:reservation-dropped"] += 1
            if op["ended"]:
                st["down:ended"] += 1
            if op["cut"]:
                st["down:source-cut-in-handshake"] += 1
    return dict(st)


# layout of a printed state (C11_MC!StOf)
UP, CLOSED, PH, RSVP, CONS, CIRC, TAGR, TAGH, SVC, ATT, GL = range(11)
NONE = -9

# The shortest histories on which the code before 6cf8d1a / 6390169 violated the statement (found by this check
# as TLC counterexamples of Caps / TagsRollback).  Replayed on the real relay in every run: (instance, name, ops);
# an op is (action, link[, ab]).  The last grant of each caps history must now be refused.
REGRESSIONS = (
    ("rsvp", "caps-after-refused-refresh-ip",
     (("up", "a1"), ("up", "a3"), ("reserve", "b1"), ("reserve", "a3"), ("reserve", "a1"), ("reserve", "a2"))),
    ("rsvp", "caps-after-refused-refresh-ip-unseen",
     (("up", "a1"), ("up", "a3"), ("reserve", "b1"), ("reserve", "a3"), ("reserve", "a1", True), ("reserve", "a2"))),
    ("asn", "caps-after-refused-refresh-noip-asn",
     (("up", "a1"), ("reserve", "a1"), ("reserve", "n1"), ("up", "a3"), ("reserve", "a3"))),
    ("rsvp", "tag-after-disconnect-with-limited-connection",
     (("up", "a3"), ("up", "r3"), ("reserve", "a3"), ("down", "a3"))),
)


def _follow(g, ops, what):
    """The walk of the printed graph that performs the given requests from the initial state."""
    cur = g.inits[0]
    path = []
    for o in ops:
        for ei in g.out.get(cur, ()):
            op = g.edges[ei][1]
            if op["name"] == o[0] and op.get("l") == o[1] and bool(op.get("ab")) == (len(o) > 2 and o[2]):
                path.append(ei)
                cur = g.edges[ei][2]
                break
        else:
            raise MachineryError("regression walk %s: no transition %s in the printed graph" % (what, (o,)))
    return g._mk(g.inits[0], path)


def _replay_instance(args):
    """One TLC run: all invariants and properties AND every transition printed (VIEW without op)."""
    ctx, (name, consts), beh_dir = args
    cfg = _cfg(consts, [("INIT Init", "INIT MCInit"), ("VIEW View", "VIEW View\nACTION_CONSTRAINT EmitEdge")])
    r = tlc.run(ctx, "C11_MC", "gen_%s_edges.cfg" % name, cfg_text=cfg, workers=1, timeout=1500, name="ed" + name)
    if not r.ok:
        raise MachineryError("design-level failure in C11 %s: %s violated\n%s" % (name, r.violated, r.out[-2500:]))
    conf = [o for t, o in r.prints if t == "VFCONF"]
    if not conf:
        raise MachineryError("no VFCONF line for " + name)
    g = graph.Graph(r.inits, r.edges)
    if g.n_edges() == 0:
        raise MachineryError("no edges printed for " + name)
    stats = _edge_stats(g, conf[0])
    hdr = {"name": name, "consts": consts, "conf": conf[0], "edges": g.n_edges(), "states": g.n_states()}
    wit = {}
    for iname, rname, ops in REGRESSIONS:
        if iname == name:
            w = _follow(g, ops, rname)
            wit[rname] = [s["op"] for s in w["steps"]]
            graph.write_behaviours(os.path.join(beh_dir, "%s-regression-%s.jsonl" % (name, rname)), [w], hdr)
    walks = g.covering_walks(seed=ctx.seed, max_len=50)
    steps = sum(len(w["steps"]) for w in walks)
    graph.write_behaviours(os.path.join(beh_dir, name + ".jsonl"), walks, hdr)
    return name, r.distinct, r.generated, g.n_edges(), len(walks), steps, stats, r.wall, wit


REQUIRED_KINDS = (
    "connect:requester-relayed-unlimited", "connect:requester-relayed-limited", "reserve:requester-relayed-unlimited",
    "reserve:requester-relayed-limited", "connect:destination-over-relayed-unlimited",
    "reserve:ok", "reserve:relayed", "reserve:acl", "reserve:total", "reserve:ip", "reserve:asn", "reserve:noip",
    "reserve:refused-refresh", "tick:collected", "down:reservation-dropped",
    "connect:hs", "connect:relayed", "connect:acl", "connect:norsvp", "connect:srccap", "connect:dstcap",
    "connect:mem", "connect:badpeer", "connect:open", "connect:svc", "connect:smem", "connect:swrite",
    "connect:h_svc", "connect:h_mem", "connect:h_bad", "connect:served-by-expired-uncollected-reservation",
    "reserve:aborted", "close",
    "stop:ok", "stop:reset", "stop:wrongtype", "stop:nonok", "stop:response-write-error",
    "fwd:truncated", "fwd:limit-reached", "tick:handshake-timeout", "tick:deadline", "down:ended",
    "down:source-cut-in-handshake", "sclose", "abort", "cabort",
)


def _go(ctx, run, inputs=None, env=None):
    return goenv.run_harness(ctx, PKG, run, inputs=inputs, timeout=1500, env=env)


def run(ctx):
    if ctx.replay:
        raise MachineryError("C11 artefacts hold the failing prefix and the instance; re-run `VERIF_SEED=<seed in file name> ./check C11`")
    thorough = ctx.tier == "thorough"
    ext = extension.start_all(ctx, ["C11cl"])   # the client side named in the anchors (Reserve's voucher checks, dial, accept)
    tlc.stage(ctx)
    beh_dir = ctx.sub("beh")
    rinsts = replay_instances(ctx)
    einsts = exhaustive_instances(ctx)
    iters = 400 if thorough else 60

    # at most 4 TLC workers at a time: three printing lanes (1 worker each) + one lane for the exhaustive-only
    # instances; the Go-only parts (and with them the build) run meanwhile
    with cf.ProcessPoolExecutor(max_workers=3) as pr, cf.ProcessPoolExecutor(max_workers=1) as pe, \
            cf.ProcessPoolExecutor(max_workers=1) as pg:
        fg = pg.submit(_go, ctx, "^TestVerifC11Direct$", None, {"VERIF_C11_ITERS": iters})
        fr = [pr.submit(_replay_instance, (ctx, i, beh_dir)) for i in rinsts]
        fe = [pe.submit(_exhaustive, (ctx, i, 2 if len(einsts) > 1 else 1)) for i in einsts]
        fx = pe.submit(_expect_violated, (ctx, rinsts[0], "DestinationDirect"))
        rres = [f.result() for f in fr]
        expected = [fx.result()]
        log("C11: graphs and walks done at %.1fs" % ctx.wall())
        eres = [f.result() for f in fe]
        direct = fg.result()
        log("C11: forward/burst done at %.1fs" % ctx.wall())

    states = sum(r[1] for r in rres) + sum(r[1] for r in eres)
    trans = sum(r[2] for r in rres) + sum(r[2] for r in eres)
    edges_total = sum(r[3] for r in rres)
    n_walks = sum(r[4] for r in rres)
    tot = collections.Counter()
    wit = {}
    for r in rres:
        tot.update(r[6])
        for k, v in r[8].items():
            wit.setdefault(k, {"instance": r[0], "ops": v})
    for k in REQUIRED_KINDS:
        if not tot.get(k):
            raise MachineryError("vacuity guard: no replayed transition of kind %s" % k)
    for _i, rname, _ops in REGRESSIONS:
        if rname not in wit:
            raise MachineryError("regression walk %s was not generated" % rname)
    # the caps histories must end in a refusal in the model of the fixed code
    for rname, v in wit.items():
        if rname.startswith("caps-") and v["ops"][-1].get("why") == "ok":
            raise MachineryError("regression walk %s: the model grants the last reservation" % rname)

    div = classify_mismatches(ctx, direct, "direct")
    res = _go(ctx, "^TestVerifC11Replay$", inputs=beh_dir)
    div += classify_mismatches(ctx, res, "replay")
    if not res["mismatches"] and res["distinct"] < edges_total:
        raise MachineryError("replay executed %d distinct transitions of %d" % (res["distinct"], edges_total))
    log("C11: replay %s; exhaustive %s; %d states, %d transitions generated, %d replay transitions, %d walks, %d steps; "
        "direct %d scenarios; L2 divergences %d; regression walks %s"
        % ([(r[0], r[1], r[3], r[7]) for r in rres], [(r[0], r[1], r[2], r[3]) for r in eres], states, trans, edges_total,
           n_walks, res["steps"], direct["replayed"], div, sorted(wit)))
    cov = evidence.mc_coverage(
        states, trans, res["replayed"] + direct["replayed"], res.get("samples") or [], exhaustive=True,
        checker_cmd="tlc C11_MC.tla (template C11_MC.cfg instantiated: printed+replayed %s; exhaustive only %s)" % (
            ",".join(r[0] for r in rres), ",".join(r[0] for r in eres) or "-"),
        instances=len(rres) + len(eres),
        replay_instances={r[0]: {"states": r[1], "transitions": r[3], "walks": r[4], "tlc_wall_s": r[7]} for r in rres},
        exhaustive_only={r[0]: {"states": r[1], "transitions": r[2], "tlc_wall_s": r[3]} for r in eres},
        replay_transitions_in_graphs=edges_total, replay_steps_executed=res["steps"],
        replay_distinct_transitions_executed=res["distinct"], replay_transition_kinds=dict(tot),
        design_level_expected_violations=[{"property": e[0], "tlc_depth": e[1]} for e in expected],
        regression_walks={k: {"instance": v["instance"], "ops": [json.dumps(o, sort_keys=True) for o in v["ops"]]} for k, v in wit.items()},
        direct_scenarios=direct["replayed"], direct_steps=direct["steps"], direct_extra=direct.get("extra"),
        divergences_L2=div, notes=ctx.notes[:10], rule=res.get("rule"))
    extension.finish_all(ctx, ext, cov)
    return {"level": "model_checking", "coverage": cov, "assumptions": [
        "bounded instances: <=3 peers, <=6 connections, caps 1-3, MaxCircuits 1-2, <=3 attempts in flight, TTL 2-3 units of 30 s, data limit 3 bytes (BufferSize 2); production-sized limits only in the direct forwarding scenarios",
        "fake host: stream handler invoked directly; a connection's remote address (/p2p-circuit or not) and its Stat().Limited are independent attributes (relayed+limited, relayed+unlimited, direct+unlimited; direct+limited does not exist: only the circuit transport sets Limited); Connectedness and the connection for the stop stream are chosen as the swarm does (Connected iff a non-limited connection; non-limited before limited, direct before relayed); streams of a closed connection are reset locally as the swarm does",
        "the statement's 'neither party reached the relay through another relay' is keyed on the /p2p-circuit address only (for the requester of RESERVE/CONNECT and for the connection carrying the stop stream)",
        "resource refusals are injected by tightening the relay service's limits (a mutable Limit object in a real resource manager) for exactly the call under test",
        "a live reservation = granted (status OK seen by the client), not past its expiry, holder still directly connected; expired-but-uncollected reservations are not counted against the caps and may still serve connects",
        "a connection is not closed while a circuit only writes to (no longer reads from) one of its streams; Relay.Close only without circuits in flight",
        "a different refusal status than the model's, or a refusal where the model grants, is L2 (the statement only bounds grants)",
        "concurrency: seeded bursts of RESERVE/CONNECT from many goroutines audited at quiescence; no linearisation check of intermediate states",
    ]}


MANIFEST = {
    "technique": "TLA+ spec (C11_Relay.tla) of the relay's reservation, constraint, connect-handshake, forwarding, disconnect, collection and close logic as the code is (relative time), model-checked exhaustively with TLC on bounded instances; every transition of the replay instances executed on the real Relay through a fake host in a synctest bubble (real rcmgr scopes, real BasicConnMgr, virtual time) with client-visible results and the in-package projection compared after each step; the statement's clauses evaluated as L1 monitors on the harness's own ledger; the failing histories of two repaired defects replayed as regression walks",
    "category": "model_checking",
    "text": "Reservations, caps, ACL, circuit counters and their rollback depend on histories (refresh from another address, disconnect with a limited connection left, expiry vs collection, a failure at each of the sixteen exits of the connect handler, two attempts racing on the per-peer counters, payloads around the data limit). TLC enumerates all of them on bounded instances and checks the clauses as invariants / action properties; covering walks over the complete printed graphs drive the real relay, so each (state, request, fault) combination of the instances is executed and its status code, voucher, delivered bytes, counters, tags and service-scope usage are compared; the monitors judge the real observations alone.",
    "note": "Trusted: TLC, the fake host and in-memory streams, testing/synctest, the harness ledger (fed only by what the real relay sent or did; when the client leaves before the answer, by the answer the relay tried to write). In-package reads (Relay.rsvp, Relay.conns, constraints lists) are L2 except Relay.conns (named by the statement). Found by this check and fixed in /repo: a refused refresh un-counted a live reservation (6cf8d1a); disconnected() left the relay-reservation tag when a limited connection remained (6390169); both kept as invariants of every instance and as explicit regression walks.",
    "engines": [{"name": "C11cl_Client", "path": "spec/C11cl_Client.tla", "serves_properties": ["C11"], "kind_free_text": "extension engine (checks/C11cl.py, run as a part of C11): the client side of circuit relay v2 with the relay as adversary - C11cl_Client (dial dedup, CONNECT handshake, upgrade, accept queue, hop tag, relative timers) and C11cl_Reserve (Dolev-Yao voucher terms); TLC exhaustive incl. liveness; every printed transition replayed on the real Client/Reserve through a gated fake host in virtual time with real rcmgr scopes and a real BasicConnMgr"},
                {"name": "C11_Relay", "path": "spec/C11_Relay.tla", "serves_properties": ["C11"], "kind_free_text": "TLA+ spec + TLC exhaustive + full-transition replay under virtual time + L1 ledger monitors + concurrent burst audit"}],
}
