"""C10 - blocked peers, addresses and subnets never obtain a connection; rules persist.

spec/C10_Gater.tla: the gater's in-memory and persisted rule sets, every Block*/Unblock* call cut around
its datastore write, Crash at every point, Reopen, and the admission pipeline of a connection attempt.
  (1) exhaustive TLC on bounded instances (Durable for every crash point, NeverAdmitted, DialRefusedEarly ...),
  (2) every transition of the printed persistence / interleaving graphs replayed on the real
      BasicConnectionGater over a datastore whose writes stop at a gate (apply / fail / crash before / crash
      after), rule lists + raw store + all Intercept* answers over an address-form matrix compared after
      every step, the statement's clauses evaluated from the harness's own ledger of returned calls,
  (3) every transition of the network instances executed with real swarms over loopback, consultation by
      consultation: the gated host's Intercept* calls and transport Dial calls are stopped and released one at a
      time as the model's stages say, so rule calls land between the stages as in the model; attempts start from
      what the swarm already holds (nothing / relayed / direct) and are made with every dial option (plain,
      ForceDirectDial, SimultaneousConnect client/server, both = a real QUIC hole punch, NewStream NoDial /
      AllowLimitedConn); TCP, QUIC, WebSocket, WebTransport and WebRTC listeners."""
import concurrent.futures as cf
import os

from lib import evidence, goenv, graph, tlc
from lib.common import MachineryError, classify_mismatches, log

PKG = "./p2p/net/conngater"

INV = "INVARIANTS TypeOK DurableDisk Durable NoSpurious MemDiskAgree PathsGated"
PROPS = "PROPERTIES WriteBeforeMem NeverAdmitted DialRefusedEarly NoNewConnOnceBlocked ClosedAtAccept ClosedAfterHandshake NotOverBlocking"


def _fast_unescape(s, _slow=tlc._unescape):
    return s.replace('\\"', '"') if "\\\\" not in s else _slow(s)


tlc._unescape = _fast_unescape


def S(names):
    return "{" + ", ".join('"%s"' % n for n in names) + "}"


ALL_OPTS = ("plain", "force", "simc", "sims", "hpc", "hps", "nodial", "limited")
ALL_PRES = ("none", "relayed", "direct")


def inst(name, peers, addrs, subnets, eps=(), dirs=("out", "in"), tpts=("tcp",), faults=("fail", "crash"),
         exclusive=False, pres=("none",), opts=("plain",)):
    return name, {"PeerRules": S(peers), "AddrRules": S(addrs), "SubnetRules": S(subnets), "EPs": S(eps),
                  "Dirs": S(dirs), "Tpts": S(tpts), "Faults": S(faults), "Pres": S(pres), "Opts": S(opts),
                  "Exclusive": "TRUE" if exclusive else "FALSE"}


def exhaustive_instances(ctx):
    """Checked exhaustively with every invariant and action property (ghosts in the state identity)."""
    if ctx.tier == "thorough":
        return [
            # both families, all four subnets: persistence only
            inst("persist7", ("p2",), ("a2", "a6"), ("n31", "n8", "n32", "n128")),
            # calls, faults and attempts from three endpoints over two transports interleaved
            inst("mixed5", ("p2",), ("a2", "a6"), ("n31", "n8"), eps=("e22", "e33", "e66"), tpts=("tcp",)),
            inst("paths3x", ("p2",), ("a2",), ("n31",), eps=("e22",), tpts=("tcp", "quic"), pres=ALL_PRES, opts=ALL_OPTS),
        ]
    return [inst("mixed4", ("p2",), ("a2", "a6"), ("n31",), eps=("e22", "e33", "e66"), tpts=("tcp",)),
            # every way an attempt can be made x what the swarm already holds, interleaved with rule calls and faults
            inst("paths2x", ("p2",), ("a2",), (), eps=("e22",), tpts=("tcp", "quic"), pres=ALL_PRES, opts=ALL_OPTS)]


def replay_instances(ctx):
    """Printed completely (state identity without the ghosts) and replayed transition by transition."""
    if ctx.tier == "thorough":
        return [
            inst("persist8", ("p2", "p3"), ("a2", "a6"), ("n31", "n8", "n32", "n128")),
            inst("interleave4", ("p2",), ("a2",), ("n31", "n8"), eps=("e22", "e23", "e24")),
            inst("interleave5", ("p2", "p6"), ("a6",), ("n32", "n128"), eps=("e66", "e33", "e32"), tpts=("tcp", "quic")),
        ]
    return [
        inst("persist7", ("p2",), ("a2", "a6"), ("n31", "n8", "n32", "n128")),
        inst("interleave3", ("p2",), ("a2",), ("n31",), eps=("e22", "e23")),
    ]


def alias_instance(ctx):
    """Regression instance for the repaired finding (commit 9a893a1): subnets given with host bits set next to
    their masked spelling.  Both spellings are ONE rule (Canon): a block given with host bits set is listed (masked),
    enforced and unblockable by its listed value, before and after a reopen.  Checked exhaustively with every
    invariant and replayed completely; TLC's former Durable counterexample is the first replayed walk."""
    return inst("alias4", (), (), ("n31", "n31h", "n8", "n8h"))


def net_instances(ctx):
    """Executed on real swarms, consultation by consultation (every transition of each instance)."""
    out = [
        # block before the attempt (Exclusive): every rule set x three remotes x both directions x TCP/QUIC/WebSocket,
        # restarts of the gater in between
        inst("net6", ("p2",), ("a2", "a6"), ("n31", "n8", "n128"), eps=("e22", "e33", "e66"),
             tpts=("tcp", "quic", "ws"), faults=("crash",), exclusive=True),
        # what the swarm already holds (nothing / relayed / direct) x how the attempt is made (DialPeer plain, forced
        # direct, simultaneous connect client/server, both = hole punch; NewStream NoDial / AllowLimitedConn)
        inst("paths", ("p2",), ("a2",), (), eps=("e22",), tpts=("tcp", "quic"), faults=(), exclusive=True,
             pres=ALL_PRES, opts=ALL_OPTS),
        # rule calls INTERLEAVED with the stages of an attempt (block between InterceptPeerDial and the transport dial,
        # between the start of a hole punch and the arrival of the remote's connection at the listener ...)
        inst("race", ("p2",), ("a2",), (), eps=("e22",), tpts=("tcp", "quic"), faults=(),
             pres=("none", "relayed"), opts=("plain", "hps")),
        # the transports with gating call sites of their own, both directions, remote at ::1
        inst("xports", ("p6",), ("a6",), ("n128",), eps=("e66",), tpts=("quic", "wt"), faults=(), exclusive=True),
        # WebRTC chooses its own source address (any address of the machine): the address rule is ::/0
        inst("xrtc", ("p6",), (), ("n0",), eps=("e66",), tpts=("rtc",), faults=(), exclusive=True),
    ]
    return out


def _exhaustive(args):
    ctx, (name, consts), workers = args
    cfg = tlc.subst_cfg("C10_MC.cfg", consts)
    r = tlc.run(ctx, "C10_MC", "gen_%s_mc.cfg" % name, cfg_text=cfg, workers=workers, timeout=1500, name="mc" + name)
    if not r.ok:
        raise MachineryError("design-level failure in C10 %s: %s violated\n%s" % (name, r.violated, r.out[-2500:]))
    return name, r.distinct, r.generated, r.wall


def _probe(args):
    """Vacuity guard: a reachability probe that is expected to be violated."""
    ctx, (name, consts), probe, is_prop = args
    rep = [(INV, "INVARIANTS TypeOK"), (PROPS, "PROPERTIES " + probe)] if is_prop else \
        [(INV, "INVARIANTS " + probe), (PROPS, "")]
    cfg = tlc.subst_cfg("C10_MC.cfg", consts, replace=rep)
    r = tlc.run(ctx, "C10_MC", "gen_%s_%s.cfg" % (name, probe), cfg_text=cfg, workers=1, timeout=600,
                name="probe" + name + probe)
    if r.ok or r.violated != probe:
        raise MachineryError("vacuity guard: %s is not reachable in instance %s" % (probe, name))
    return probe


def _kind(op):
    k = op["name"]
    if k == "crash":
        k += ":" + op["at"]
    elif k == "write":
        k += ":" + op["outcome"]
    elif k == "att_step" and op["end"] != "-":
        k += ":%s@%s:%s" % (op["end"], op["stage"], op["dir"])
    return k


ALIAS_SCRIPT = [{"name": "begin", "kind": "block", "r": "n31h"}, {"name": "write", "outcome": "ok"}, {"name": "finish"},
                {"name": "crash", "at": "idle"}, {"name": "reopen"},
                {"name": "begin", "kind": "unblock", "r": "n31"}, {"name": "write", "outcome": "ok"}, {"name": "finish"}]


def _scripted(g, ops):
    """The walk from the initial state that follows the given (partial) action records."""
    cur, path = g.inits[0], []
    for want in ops:
        nxt = [ei for ei in g.out.get(cur, ()) if all(g.edges[ei][1].get(k) == v for k, v in want.items())]
        if len(nxt) != 1:
            raise MachineryError("scripted walk: %d edges match %s" % (len(nxt), want))
        path.append(nxt[0])
        cur = g.edges[nxt[0]][2]
    return g._mk(g.inits[0], path)


def _complete(g, walk):
    """Net walks must not stop in the middle of an attempt (the real swarm cannot un-start a connection): follow
    att_step edges until the attempt is over.  State layout: [mem, disk, up, call, [dir, peer, ip, tpt, k, pre, opt], shown]."""
    steps = walk["steps"]
    if not steps:
        return walk
    cur = graph.key(steps[-1]["state"])
    for _ in range(10):
        if g.states[cur][4][4] == 0:
            break
        nxt = [ei for ei in g.out.get(cur, ()) if g.edges[ei][1]["name"] == "att_step"]
        if not nxt:
            raise MachineryError("attempt in progress without an att_step edge")
        _s, op, t = g.edges[nxt[0]]
        steps.append({"op": op, "state": g.states[t]})
        cur = t
    return walk


def _printed(args):
    ctx, (name, consts), beh_dir, mode = args
    cfg = tlc.subst_cfg("C10_MC.cfg", consts, replace=[
        ("INIT Init", "INIT MCInit"), ("VIEW View", "VIEW ViewNoGhost\nACTION_CONSTRAINT EmitEdge"),
        (INV, "INVARIANTS TypeOK MemDiskAgree PathsGated"), (PROPS, "PROPERTIES WriteBeforeMem ClosedAtAccept ClosedAfterHandshake NotOverBlocking")])
    r = tlc.run(ctx, "C10_MC", "gen_%s_edges.cfg" % name, cfg_text=cfg, workers=1, timeout=1500, name="ed" + name)
    if not r.ok:
        raise MachineryError("design-level failure in C10 %s (printing run): %s\n%s" % (name, r.violated, r.out[-2500:]))
    conf = [o for t, o in r.prints if t == "VFCONF"]
    if not conf:
        raise MachineryError("no VFCONF line for " + name)
    g = graph.Graph(r.inits, r.edges)
    if g.n_edges() == 0:
        raise MachineryError("no edges printed for " + name)
    kinds = {}
    for _s, op, _t in g.edges:
        k = _kind(op)
        kinds[k] = kinds.get(k, 0) + 1
    hdr = {"name": name, "conf": conf[0], "edges": g.n_edges(), "states": g.n_states(),
           "state_layout": "[mem, disk, up, [call kind, rule, pc], [att dir, peer, ip, tpt, next stage, conn held, dial option], listed]"}
    if mode == "cover":
        walks = g.covering_walks(seed=ctx.seed, max_len=150)
        if ctx.tier == "thorough" and g.n_edges() < 50000:
            walks += g.covering_walks(seed=ctx.seed + 7919, max_len=250)
    else:
        n, depth = mode
        walks = g.random_walks(n, depth, seed=ctx.seed)
    if beh_dir.endswith("net") and ctx.tier == "thorough":
        # the same transitions again along other paths, with other address forms chosen by the harness
        walks += g.covering_walks(seed=ctx.seed + 104729, max_len=100)
    if beh_dir.endswith("net"):
        walks = [_complete(g, w) for w in walks]
    if name.startswith("alias"):
        walks = [_scripted(g, ALIAS_SCRIPT)] + walks      # the history of the repaired finding first: a short artefact
    steps = sum(len(w["steps"]) for w in walks)
    graph.write_behaviours(os.path.join(beh_dir, name + ".jsonl"), walks, hdr)
    return name, r.distinct, r.generated, g.n_edges(), len(walks), steps, kinds, r.wall


REPLAY_KINDS = ("begin", "write:ok", "write:fail", "finish", "crash:idle", "crash:atwrite", "crash:written", "reopen",
                "att_step:admitted@upgraded:out", "att_step:admitted@upgraded:in", "att_step:refused@peerdial:out",
                "att_step:refused@addrdial:out", "att_step:refused@accept:in", "att_step:refused@secured_in:in")


def run(ctx):
    if ctx.replay:
        raise MachineryError("C10 artefacts hold the failing prefix and the instance; re-run `VERIF_SEED=<seed in file name> ./check C10`")
    thorough = ctx.tier == "thorough"
    tlc.stage(ctx)
    beh_dir, net_dir = ctx.sub("beh"), ctx.sub("net")
    einsts, rinsts, ninsts = exhaustive_instances(ctx), replay_instances(ctx), net_instances(ctx)
    ainst = alias_instance(ctx)
    rinsts = rinsts + [ainst]
    net_mode = "cover"

    # at most 4 TLC workers at a time: the exhaustive lane uses 2, the two printing lanes 1 each; the test binary
    # is built meanwhile
    with cf.ProcessPoolExecutor(max_workers=1) as pe, cf.ProcessPoolExecutor(max_workers=2) as pr, \
            cf.ProcessPoolExecutor(max_workers=1) as pb:
        fb = pb.submit(goenv.go_test, ctx, PKG, "^$", None, 1500)
        fe = [pe.submit(_exhaustive, (ctx, i, 2)) for i in einsts]
        fr = [pr.submit(_printed, (ctx, i, beh_dir, "cover")) for i in rinsts]
        fn = [pr.submit(_printed, (ctx, i, net_dir, net_mode)) for i in ninsts]
        probe_inst = inst("probe3", ("p2",), ("a2",), ("n31",), eps=("e22", "e23"))
        fa = pr.submit(_exhaustive, (ctx, ainst, 1))
        # (quick: the first two are implied by the replayed transition kinds write:ok / crash:atwrite + reopen, which are guarded)
        probes = (("ReachMemDiskDiffer", False), ("ReachFreeAfterReopen", False), ("ReachAdmittedWhileSomeRule", True))
        fg = [pr.submit(_probe, (ctx, probe_inst, p, isp)) for p, isp in (probes if thorough else probes[2:])]
        hp_inst = inst("probehp", ("p2",), ("a2",), (), eps=("e22",), tpts=("quic",), faults=(), pres=("none", "relayed"), opts=("hps",))
        fg.append(pr.submit(_probe, (ctx, hp_inst, "ReachHolePunchArrivalRefused", True)))
        rres = [f.result() for f in fr]
        nress = [f.result() for f in fn]
        guards = [f.result() for f in fg]
        ares = fa.result()
        log("C10: graphs and walks done at %.1fs" % ctx.wall())
        rc, out = fb.result()
        if rc != 0:
            raise MachineryError("harness does not build against the current tree (%s):\n%s" % (PKG, out[-3000:]))
        # replay while the exhaustive lane may still be running
        res = goenv.run_harness(ctx, PKG, "^TestVerifC10Replay$", inputs=beh_dir, timeout=1500)
        log("C10: replay done at %.1fs" % ctx.wall())
        try:
            net = goenv.run_harness(ctx, PKG, "^TestVerifC10Net$", inputs=net_dir, timeout=1500)
        except MachineryError as e:
            # real sockets: one more try before calling it a machinery failure
            log("C10: network composition failed once, retrying: %s" % str(e)[-1500:])
            ctx.notes.append("network composition needed a second run (first: %s)" % str(e)[-300:])
            net = goenv.run_harness(ctx, PKG, "^TestVerifC10Net$", inputs=net_dir, timeout=1500)
        log("C10: network composition done at %.1fs" % ctx.wall())
        eres = [f.result() for f in fe]
        log("C10: exhaustive done at %.1fs" % ctx.wall())

    tot = {}
    for r in rres:
        for k, v in r[6].items():
            tot[k] = tot.get(k, 0) + int(v)
    for k in REPLAY_KINDS:
        if not tot.get(k):
            raise MachineryError("vacuity guard: no replayed transition of kind %s" % k)
    edges_total = sum(r[3] for r in rres)

    # artefacts are saved per class (a later one overwrites): keep the one with the shortest history
    for r in (res, net):
        r["mismatches"].sort(key=lambda m: -len(m.get("prefix") or []))
    div = classify_mismatches(ctx, res, "replay")
    div += classify_mismatches(ctx, net, "net")
    if res["distinct"] < edges_total:
        raise MachineryError("replay executed %d distinct transitions of %d" % (res["distinct"], edges_total))
    nx = net.get("extra") or {}
    for k in ("attempts_admitted", "attempts_refused", "attempts_out", "attempts_in", "attempts_tcp", "attempts_quic", "attempts_ws",
              "attempts_wt", "attempts_rtc", "attempts_form_dns", "attempts_form_mapped", "attempts_refused_at_peerdial",
              "attempts_refused_at_addrdial", "attempts_refused_at_accept", "attempts_refused_at_secured_in", "reopens",
              "attempts_pre_relayed", "attempts_pre_direct", "attempts_end_reused", "attempts_end_noconn",
              "attempts_holepunch_admitted", "attempts_holepunch_refused_at_listener",
              "attempts_with_interleaved_rule_calls") + tuple("attempts_opt_" + o for o in ALL_OPTS):
        if not nx.get(k) and not ctx.violations:      # a violation found is never masked by a guard
            raise MachineryError("vacuity guard: network composition ran no %s" % k)

    states = sum(r[1] for r in eres) + sum(r[1] for r in rres) + sum(r[1] for r in nress) + ares[1]
    trans = sum(r[2] for r in eres) + sum(r[2] for r in rres) + sum(r[2] for r in nress) + ares[2]
    log("C10: exhaustive %s; printed %s; net %s; replay %d walks %d steps (%d distinct of %d); net %d walks %d steps %s; L2 divergences %d; guards %s"
        % ([(r[0], r[1], r[2], r[3]) for r in eres], [(r[0], r[1], r[3], r[7]) for r in rres],
           [(r[0], r[1], r[3]) for r in nress], res["replayed"], res["steps"], res["distinct"], edges_total,
           net["replayed"], net["steps"], {k: v for k, v in nx.items() if k.startswith("attempts")}, div, guards))
    cov = evidence.mc_coverage(
        states, trans, res["replayed"] + net["replayed"], res.get("samples") or [], exhaustive=True,
        checker_cmd="tlc C10_MC.tla (template C10_MC.cfg instantiated: exhaustive %s; printed+replayed %s; composition %s)" % (
            ",".join(r[0] for r in eres), ",".join(r[0] for r in rres), ",".join(r[0] for r in nress)),
        instances=len(eres) + len(rres) + 1,
        exhaustive_only={r[0]: {"states": r[1], "transitions": r[2], "wall_s": r[3]} for r in eres},
        replay_instances={r[0]: {"states": r[1], "transitions": r[3], "walks": r[4], "steps": r[5]} for r in rres},
        replay_transitions_in_graphs=edges_total, replay_steps_executed=res["steps"],
        replay_distinct_transitions_executed=res["distinct"], replay_transition_kinds=tot,
        replay_extra=res.get("extra"),
        net_instances={r[0]: {"states": r[1], "transitions": r[3], "walks": r[4], "steps": r[5]} for r in nress},
        net_extra=nx, vacuity_probes=guards,
        alias_regression_instance={"name": ares[0], "states": ares[1], "transitions": ares[2],
                                   "all_invariants_hold": True}, divergences_L2=div, notes=ctx.notes[:10], rule=res.get("rule"),
        net_rule=net.get("rule"))
    return {"level": "model_checking", "coverage": cov, "assumptions": [
        "bounded instances: <=2 peer rules, 2 address rules (127.0.0.2, ::1), 4 subnets (/8, /31, /32, /128); Block*/Unblock* calls are sequential (one in flight), attempts and crashes interleave with them at the datastore write",
        "a datastore write that returns an error has not been applied; a call that returned an error obliges nothing new, a call interrupted by a crash may or may not have taken effect",
        "the in-memory update and the successful return of a call are one step (no observer can separate them)",
        "subnets are given as net.ParseCIDR produces them (network number masked) in IPv4, IPv4-mapped and mixed-length forms; the spelling with host bits set is exercised by the regression instance alias4 (both spellings are one rule in the model, as in the code since 9a893a1; the harness ledger keeps obligations per spelling and lets an opposite call on the other spelling make them lapse, so it does not presume the identification); non-contiguous masks are outside the model (BlockSubnet accepts one and the next NewBasicConnectionGater fails on it: observed, not judged)",
        "the gated host's swarm is the one the statement speaks about: a QUIC dialer may see its connection established and then closed with the gated error code; only the gated host's Connected notifications / ConnsToPeer / DialPeer results are L1",
        "a block that lands AFTER the consultation responsible for it (peer: InterceptPeerDial / inbound InterceptSecured; address: InterceptAddrDial / InterceptAccept) is not required to stop the connection (inherent check-then-act window); L1 = blocked before the attempt began, or in force at every consultation of the connection (for a connection reaching a listener, hole punch included: from its arrival on)",
        "simultaneous connect as server over TCP/WebSocket needs a true simultaneous open from the remote: those attempts are followed up to the transport dial only; WebSocket and WebRTC dialers cannot be bound to a source address (used from ::1 / with the address rule ::/0)",
        "loopback networking (127.0.0.1-3, ::1) works; a network time-out is a machinery failure, never a verdict",
    ]}


MANIFEST = {
    "technique": "TLA+ spec (C10_Gater.tla) of the gater's persisted and in-memory rule sets, the Block*/Unblock* calls cut at their datastore write, crashes at every point, reopening, and the admission pipeline of a connection attempt; model-checked exhaustively with TLC; every transition of the printed instances replayed on the real BasicConnectionGater over a datastore that can fail or stop the process at any write, with rule lists, raw store and every Intercept* answer over a matrix of address forms compared after each step; every transition of the network instances executed on real swarms over loopback (TCP, QUIC, WebSocket, WebTransport, WebRTC) with the gated host's Intercept* and transport Dial calls stopped and released one at a time as the model's stages say",
    "category": "model_checking",
    "text": "TLC checks on every reachable state that what the successfully returned calls oblige is on disk at every moment (so at every crash point) and in every running process (Durable), that the datastore write precedes the in-memory update, that an attempt during all of whose consultations one matching rule was in memory is never admitted and never reaches the transport dial, and that refusals happen at accept (address/subnet) or right after the handshake (peer). Covering walks over the complete printed graphs (each source state x each call step x each fault: failed write, crash before/after the write, crash when idle; consultations interleaved with rule changes) drive the real gater; argument forms of the rules (4-/16-byte IPs, IPv4 / IPv4-mapped / mixed CIDRs) vary per call. After each step ~170 address forms (ports and trailing components, ws/quic/webtransport/webrtc, /p2p suffix, circuit via a relay at the address, bare IP, IPv4-mapped IPv6 in three spellings, expanded IPv6, ip6zone, subnet first/last/adjacent addresses, dns/dnsaddr/circuit/unix without IP) are evaluated through every Intercept* function and the statement's clauses are decided from the harness's own ledger (blocked = Block returned success and nothing since). The admission pipeline of the model is parameterised by what the swarm already holds for the peer (nothing / a relayed connection / a direct one) and by how the attempt is made (DialPeer plain, ForceDirectDial, SimultaneousConnect client/server, both; NewStream with NoDial / AllowLimitedConn), with the exits that create no connection (re-use, no dial), the transport dial, the arrival of a connection at a listener and the hole-punch hand-over (QUIC listener -> waiting Dial) as stages; TLC checks that once a Block call has returned no new connection is admitted and no transport dial starts, whatever the path, and that every path passes the consultations the statement names. The network instances are executed on real swarms: net6 (64 rule sets x 3 remotes x 2 directions x TCP/QUIC/WebSocket, restarts), paths (3 x 8 x 2 paths x 4 rule sets), race (rule calls interleaved with the stages: the harness stops every Intercept* and transport Dial call of the gated host and releases them as the model says; the hole punch is a real one, the remote dialling the listener from the punched address), xports/xrtc (QUIC, WebTransport, WebRTC listeners); the recording wrapper proves which Intercept* call was made with which direction, in which order (L2 against the model's stage list).",
    "note": "Trusted: TLC, the harness ledger and projections (public API only: ListBlocked*, Intercept*), the gate in the datastore wrapper, loopback networking. Disagreement with the model that the ledger does not condemn (rule set while a call is in flight, raw keys, which gate refuses, error classes, refusal of something never blocked) is L2 only. Real sockets: TCP, QUIC, WebSocket, WebTransport, WebRTC-direct (WebSocket/WebRTC inbound only from ::1; WebRTC with the address rule ::/0 because it picks its own source address). The relayed connection is a WebSocket connection whose transport reports Proxy()==true and a limited connection (no circuit relay is run). Concurrent Block*/Unblock* calls on the same rule are not modelled (two overlapping calls on one rule can leave memory and datastore in different orders). Regression instance alias4: a subnet blocked with host bits set is listed masked, enforced and unblockable by its listed value before and after a reopen (finding fixed by 9a893a1; the former counterexample is the first replayed walk).",
    "engines": [{"name": "C10_Gater", "path": "spec/C10_Gater.tla", "serves_properties": ["C10"], "kind_free_text": "TLA+ spec + TLC exhaustive + full-transition replay with fault injection + real-swarm composition"}],
}
