"""C19 - HTTP Peer-ID auth reports only proven identities.

spec/C19_HttpAuth.tla is a symbolic (Dolev-Yao style) model of the header protocol: two servers with
different HMAC secrets, two hostnames, an honest client, an attacker that is the network.  TLC checks
the statement's clauses exhaustively on bounded instances (ServerReports, BearerReports, TokensProven,
Integrity, ClientReports as invariants / action properties); the state graphs of the replay instances
are printed and every transition is executed on the real handshake objects (in-package clock and
randomness) and, for the server side, through the real http.Handler; every abstract alteration is
run over every byte of the concrete field.  Verdicts come from the harness's ledger oracle (L1); the
model's expected results are L2."""
import concurrent.futures as cf
import copy
import os

from lib import evidence, goenv, graph, tlc
from lib.common import MachineryError, classify_mismatches, log

PKG_HS = "./p2p/http/auth/internal/handshake"
PKG_AUTH = "./p2p/http/auth"

INV = "INVARIANTS TypeOK TokensProven ClientReports KindsSeparate CacheProven TokensDated"
PROPS = "PROPERTIES ServerReports BearerReports Integrity ClientOpReports TokReports"
STATE_PROPS = ("ReachClientDoneS", "ReachTokReport")


def _fast_unescape(s, _slow=tlc._unescape):
    return s.replace('\\"', '"') if "\\\\" not in s else _slow(s)


tlc._unescape = _fast_unescape


def inst(name, maxt, mint, tok, cli, explicit, verifiers="MCVerifiersS", samekey=True, rich=False,
         places="MCPlaces3", chalttl=1, tokttl=1, alias=False, seq=False, stale=True, careless=False, mixed=True):
    t = lambda b: "TRUE" if b else "FALSE"
    return name, {"MaxT": maxt, "ChalTTL": chalttl, "TokTTL": tokttl, "MaxMint": mint, "MaxTok": tok, "MaxCli": cli,
                  "S2SameKey": t(samekey), "Explicit": t(explicit), "Rich": t(rich), "SeqSessions": t(seq),
                  "StaleStart": t(stale), "Careless": t(careless), "Mixed": t(mixed)}, [
        ("Verifiers <- MCVerifiersS", "Verifiers <- " + verifiers),
        ("MintPlaces <- MCPlaces3", "MintPlaces <- " + places),
        ("AliasHosts <- MCNoAlias", "AliasHosts <- " + ("MCAlias" if alias else "MCNoAlias")),
        ("CliHosts <- MCCliAll", "CliHosts <- " + ("MCCliAlias" if alias else "MCCliAll"))]


def host_inst(name, mint, places="MCPlacesAlias", **kw):
    """one client, exchanges one after the other with h1 and its alias h1a: the token cache"""
    return inst(name, 0, mint, 2, 2, True, verifiers="MCVerifiersNone", samekey=False, places=places, alias=True, seq=True,
                stale=False, **kw)


def time_inst(name, chalttl, tokttl, maxt):
    """one challenge and its tokens aged across both lifetimes"""
    return inst(name, maxt, 1, 2, 0, False, places="MCPlaces1", chalttl=chalttl, tokttl=tokttl)


def mc_instances(ctx):
    """Instances that are only model-checked (exhaustively, all properties).  The replay instances below are
    model-checked too (same run that prints their graph).  The model cannot see a change of /repo, so the quick
    tier keeps this part short."""
    out = [
        # server side, honest signatures on demand: two challenges, all swaps, expiry of challenges and tokens
        inst("srv", 3, 2, 2, 0, False),
    ]
    if ctx.tier == "thorough":
        out += [
            inst("srvk", 3, 2, 2, 0, False, samekey=False),
            # client side, explicit signatures: two sessions against one minted challenge / one session against two
            inst("cli12", 0, 1, 2, 2, True, verifiers="MCVerifiersNone"),
            inst("cli21", 0, 2, 2, 1, True, verifiers="MCVerifiersNone", samekey=False),
            # everything explicit: the attacker relays between C and S
            inst("mix", 2, 1, 1, 1, True),
            inst("srvrich", 3, 2, 2, 0, False, verifiers="MCVerifiersBoth", samekey=False, rich=True, places="MCPlaces4"),
            inst("srvttl", 4, 2, 2, 0, False, chalttl=1, tokttl=2),
            inst("mix2", 3, 1, 2, 1, True, samekey=False),
            inst("mixrich", 2, 1, 1, 1, True, rich=True),
        ]
    return out


def edge_instances(ctx):
    """Instances whose whole state graph is printed and replayed."""
    out = [
        inst("srv-r", 2, 2, 1, 0, False),
        inst("cli-r", 0, 1, 2, 1, True, verifiers="MCVerifiersNone", samekey=False),
        inst("mix-r", 0, 1, 1, 1, True, places="MCPlacesS", mixed=False),
        # lifetimes: TokenTTL <, =, > challenge lifetime (in ticks); the clock crosses every boundary
        time_inst("time12-r", 1, 2, 4), time_inst("time21-r", 2, 1, 4), time_inst("time13-r", 1, 3, 5),
        # the client's token cache and the alias hostname
        host_inst("host-r", 0),
    ]
    if ctx.tier == "thorough":
        out += [
            inst("srv-t", 3, 2, 2, 0, False, samekey=False),
            inst("srvttl-t", 3, 2, 1, 0, False, chalttl=1, tokttl=2, places="MCPlacesS"),
            inst("srvboth-t", 2, 2, 1, 0, False, verifiers="MCVerifiersBoth", samekey=False, places="MCPlaces4"),
            inst("cli-t", 0, 1, 2, 1, True, verifiers="MCVerifiersNone", samekey=False, rich=True),
            inst("mix-t", 1, 1, 1, 1, True, places="MCPlacesS", samekey=False, mixed=False),
            time_inst("time31-t", 3, 1, 5), time_inst("time22-t", 2, 2, 5),
            host_inst("host1-t", 1, places="MCPlaces1"),
            host_inst("host-t", 1),
        ]
    return out


def _mc(args):
    ctx, (name, consts, repl) = args
    cfg = tlc.subst_cfg("C19_MC.cfg", consts, repl)
    r = tlc.run(ctx, "C19_MC", "gen_%s_mc.cfg" % name, cfg_text=cfg, workers=1, timeout=1500, name="mc" + name,
                deadlock=False)
    if not r.ok:
        raise MachineryError("design-level failure in C19 instance %s: %s violated\n%s" % (name, r.violated, r.out[-2500:]))
    return name, r.distinct, r.generated, r.wall


def _reach(args):
    ctx, prop, (name, consts, repl) = args
    cfg = tlc.subst_cfg("C19_MC.cfg", consts, repl + [(INV, "INVARIANTS TypeOK" + (" " + prop if prop in STATE_PROPS else "")),
                                                       (PROPS, "" if prop in STATE_PROPS else "PROPERTIES " + prop)])
    r = tlc.run(ctx, "C19_MC", "gen_%s_%s.cfg" % (name, prop), cfg_text=cfg, workers=1, timeout=600,
                name="reach" + name + prop, deadlock=False)
    if r.ok or r.violated != prop:
        raise MachineryError("vacuity guard: %s is not reachable in instance %s (violated=%s)" % (prop, name, r.violated))
    return prop


# edge kinds that must occur in the printed graphs (vacuity of the replay)
def edge_kind(op):
    n = op.get("name")
    if n in ("verify", "bearer") and op.get("mix", "none") != "none":
        return "%s+%s/%s" % (n, op["mix"], op["res"])
    if n in ("verify", "bearer"):
        if op.get("alt") != "none":
            return "%s/alt:%s" % (n, op["alt"])
        return "%s/%s%s" % (n, op["res"], ("/" + op["peer"]) if op["res"] == "ok" else "")
    if n in ("cwww", "cinfo"):
        if op.get("alt") != "none":
            return "%s/alt:%s" % (n, op["alt"])
        return "%s/%s%s" % (n, op["res"], ("/" + op["reports"]) if op["reports"] != "none" else "")
    if n == "cstart" and op.get("mode") == "tok":
        return "cstart/tok"
    if n == "ctok":
        return "ctok/" + op["status"]
    return n


REQUIRED_KINDS = ["challenge", "sign", "tick", "cstart", "cstart/tok", "ctok/200", "ctok/403", "ctok/500",
                  "verify/ok/kC", "verify/ok/kA", "verify/hmac", "verify/expired", "verify/kind", "verify/host",
                  "verify/nokey", "verify/sig", "verify/nochs",
                  "bearer/ok/kC", "bearer/ok/kA", "bearer/hmac", "bearer/kind", "bearer/expired",
                  "bearer+cs+pk/ok", "bearer+cs+pk/expired", "bearer+cs+pk/kind", "bearer+o+cs+pk/expired", "bearer+sig+cs+pk/expired",
                  "verify+bearer/ok", "verify+bearer/expired", "verify+bearer/kind",
                  "cwww/signed", "cwww/verified/kS", "cwww/verified/kA", "cwww/err", "cinfo/done/kS", "cinfo/done/kA", "cinfo/err"] + \
                 ["verify/alt:" + a for a in ("o.mac", "o.tok", "o.cpk", "o.pid", "o.ch", "o.host", "o.t", "o.trunc", "o.ext",
                                              "sig", "sig.trunc", "sig.ext", "pk")] + \
                 ["bearer/alt:" + a for a in ("o.mac", "o.tok", "o.pid", "o.host", "o.t", "o.trunc", "o.ext")] + \
                 ["cwww/alt:sig", "cwww/alt:pk", "cinfo/alt:sig", "cinfo/alt:sig.trunc", "cinfo/alt:sig.ext"]


def _edges(args):
    ctx, (name, consts, repl), beh_dir = args
    cfg = tlc.subst_cfg("C19_MC.cfg", consts, repl + [
        ("INIT Init", "INIT MCInit"),
        ("VIEW View", "VIEW View\nACTION_CONSTRAINT EmitEdge")])
    r = tlc.run(ctx, "C19_MC", "gen_%s_edges.cfg" % name, cfg_text=cfg, workers=1, timeout=1500, name="ed" + name,
                deadlock=False)
    if not r.ok:
        raise MachineryError("design-level failure in C19 replay instance %s: %s violated\n%s" % (name, r.violated, r.out[-2500:]))
    conf = [o for tag, o in r.prints if tag == "VFCONF"]
    if not conf:
        raise MachineryError("no VFCONF printed for " + name)
    g = graph.Graph(r.inits, r.edges)
    if g.n_edges() == 0:
        raise MachineryError("no edges printed for " + name)
    kinds = {}
    for _s, op, _t in g.edges:
        k = edge_kind(op)
        kinds[k] = kinds.get(k, 0) + 1
    walks = g.covering_walks(seed=ctx.seed, max_len=250)
    steps = sum(len(w["steps"]) for w in walks)
    graph.write_behaviours(os.path.join(beh_dir, name + ".jsonl"), walks,
                           {"conf": conf[0], "instance": name, "edges": g.n_edges(), "states": g.n_states()})
    return name, g.n_edges(), g.n_states(), len(walks), steps, kinds, r.distinct, r.generated


def run(ctx):
    if ctx.replay:
        raise MachineryError("replay of C19 artefacts: run `VERIF_SEED=<seed in the file name> ./check C19`; the artefact holds the "
                             "failing prefix (ops), the instance and the concrete header")
    tlc.stage(ctx)
    beh_dir = ctx.sub("beh")
    beh_small = ctx.sub("beh-small")
    mcs = mc_instances(ctx)
    eds = edge_instances(ctx)
    by = dict((i[0], i) for i in mcs)
    reach = []
    if ctx.tier == "thorough":
        reach = [("ReachServerReportsC", by["srv"]), ("ReachBearerC", by["srv"]), ("ReachExpiredTok", by["srv"]),
                 ("ReachExpiredChal", by["srv"]), ("ReachClientDoneS", by["cli12"]), ("ReachServerReportsC", by["mix"]),
                 ("ReachClientDoneS", by["mix"]),
                 # the model can express the alias attack: with a carelessly keyed cache TokReports fails
                 ("TokReports", host_inst("careless", 0, careless=True)),
                 ("ReachTokReport", host_inst("hostreach", 0))]
    # at most four single-worker TLC processes at a time
    with cf.ProcessPoolExecutor(max_workers=4) as ex:
        f_ed = [ex.submit(_edges, (ctx, i, beh_dir)) for i in eds]
        f_mc = [ex.submit(_mc, (ctx, i)) for i in mcs]
        f_re = [ex.submit(_reach, (ctx, p, i)) for p, i in reach]
        ed_res = [f.result() for f in f_ed]
        mc_res = [f.result() for f in f_mc]
        [f.result() for f in f_re]
    states = sum(r[1] for r in mc_res) + sum(r[6] for r in ed_res)
    trans = sum(r[2] for r in mc_res) + sum(r[7] for r in ed_res)
    for name, d, gen, wall in mc_res:
        log("C19 mc %-8s %7d states %9d transitions %.1fs" % (name, d, gen, wall))
    kinds = {}
    edges_total = steps_total = walks_total = 0
    for name, ne, ns, nw, st, ks, _d, _g in ed_res:
        log("C19 edges %-8s %7d edges %6d states %5d walks %7d steps" % (name, ne, ns, nw, st))
        edges_total += ne
        steps_total += st
        walks_total += nw
        for k, v in ks.items():
            kinds[k] = kinds.get(k, 0) + v
    missing = [k for k in REQUIRED_KINDS if not kinds.get(k)]
    if missing:
        raise MachineryError("vacuous replay: edge kinds missing from the printed graphs: %s" % missing)

    # --- replay on the real code.  Handshake level: every walk, all key types in thorough (one process
    # per key profile: the clock and randomness are package variables).  Handler level: the small files.
    profiles = ["ed25519"]
    small = [i[0] for i in edge_instances(ctx) if i[0].endswith("-r")]
    for n in small:
        os.link(os.path.join(beh_dir, n + ".jsonl"), os.path.join(beh_small, n + ".jsonl"))
    if ctx.tier == "thorough":
        profiles += ["ecdsa", "secp256k1", "rsa", "mixed"]

    def sub_ctx(tag):
        # own scratch (overlay.json, out dir) per concurrently running harness process
        c = copy.copy(ctx)
        c.tmp = ctx.sub("h-" + tag)
        return c

    def hs(profile):
        return goenv.run_harness(sub_ctx(profile), PKG_HS, "^TestVerifC19Replay$",
                                 inputs=beh_dir if profile == "ed25519" else beh_small,
                                 env={"VERIF_C19_KEYS": profile}, timeout=1500)

    def handler(_):
        return goenv.run_harness(sub_ctx("handler"), PKG_AUTH, "^TestVerifC19Handler$", inputs=beh_small,
                                 env={"VERIF_C19_KEYS": "ed25519" if ctx.tier != "thorough" else "mixed",
                                      "VERIF_C19_MAXWALKS": "0" if ctx.tier == "thorough" else "4000"}, timeout=1500)

    with cf.ThreadPoolExecutor(max_workers=6) as ex:
        futs = [(p, ex.submit(hs, p)) for p in profiles]
        if not os.environ.get("VERIF_C19_NOHANDLER"):
            futs.append(("handler", ex.submit(handler, None)))
        results = [(p, f.result()) for p, f in futs]
    div = 0
    replayed = steps = distinct = 0
    extra = {}
    family = {}
    dims = {"lifetime_configs_in_model_ticks(chal,tok)": [[1, 1], [1, 2], [2, 1], [1, 3]] + ([[3, 1], [2, 2]] if ctx.tier == "thorough" else [])}
    samples = []
    for p, res in results:
        div += classify_mismatches(ctx, res, "replay-" + p)
        replayed += res["replayed"]
        steps += res["steps"]
        distinct = max(distinct, res["distinct"])
        for k, v in (res.get("extra") or {}).items():
            if isinstance(v, int) and not k.startswith("secret_pair") and not k.startswith("hostname_pairs"):
                extra[k] = extra.get(k, 0) + v
        for k in ("secret_pair_family", "secret_lengths", "secret_differences", "secret_pairs", "secret_pairs_hmac_equivalent"):
            if k in (res.get("extra") or {}):
                family[k] = res["extra"][k]
        for k in ("token_ttls", "hostname_pair_family", "client_host_matrix_responders"):
            if k in (res.get("extra") or {}):
                dims[k] = res["extra"][k]
        dims.setdefault("hostname_pairs_used_in_replay", {})[p] = (res.get("extra") or {}).get("hostname_pairs_used_in_replay")
        family.setdefault("secret_pairs_used_in_replay", {})[p] = (res.get("extra") or {}).get("secret_pairs_used_in_replay")
        samples += (res.get("samples") or [])[:1]
        log("C19 replay %-9s walks=%d steps=%d mismatches=%d extra=%s" % (p, res["replayed"], res["steps"], len(res["mismatches"]),
                                                                          res.get("extra")))
    # one note per divergence class, with the number of harness processes that saw it
    classes = {}
    for _p, res in results:
        for m in res.get("mismatches", []):
            if m["class"].startswith("L2:"):
                classes[m["class"]] = classes.get(m["class"], 0) + 1
    uniq, seen = [], set()
    for n in ctx.notes:
        c = n[len("DIVERGENCE "):].split(": ", 1)[0]
        if c not in seen:
            seen.add(c)
            uniq.append(n[:400])
    ctx.notes[:] = uniq
    r0 = dict(results)["ed25519"]
    if not r0["mismatches"] and r0["steps"] < steps_total:
        raise MachineryError("replay executed %d steps for %d walk steps" % (r0["steps"], steps_total))
    for k in ("server_requests", "server_accepts", "altered_requests", "reencoded_requests", "client_deliveries", "secret_matrix_requests",
              "time_matrix_requests", "host_matrix_requests", "client_host_matrix_cases", "default_secret_cases",
              "mixed_state_requests", "cross_field_requests"):
        if not extra.get(k):
            raise MachineryError("vacuous replay: counter %s is zero" % k)
    cov = evidence.mc_coverage(
        states, trans, replayed, samples, exhaustive=True,
        checker_cmd="tlc C19_MC.tla (template C19_MC.cfg; instances %s)" % ", ".join(i[0] for i in mcs + eds),
        instances=len(mcs) + len(eds), replay_instances=[i[0] for i in eds], replay_transitions_in_graphs=edges_total,
        replay_walks=walks_total, replay_steps_executed=steps, replay_distinct_classes=distinct,
        key_profiles=profiles, edge_kinds=len(kinds), divergences_L2=div, divergence_classes=classes, notes=ctx.notes[:12], second_server_secrets=family, time_and_hostname_dimensions=dims,
        rule=r0.get("rule"), **extra)
    return {"level": "model_checking", "coverage": cov, "assumptions": [
        "symbolic cryptography: HMAC-SHA256, the four signature schemes of core/crypto, base64 and encoding/json are a trusted base; "
        "a signature/public-key encoding that core/crypto itself accepts as valid for the same key counts as that key's signature",
        "bounded model: <=2 challenges in flight, <=2 honest client sessions, two hostnames, two server secrets, clock <= 3-4 TTL steps; "
        "byte-level alterations are exhaustive over single-bit flips, truncations and a fixed family of extensions, not over all strings",
        "two secrets that HMAC itself cannot tell apart (RFC 2104 zero-pads keys up to the 64-byte block: K and K||00) are the same secret; "
        "such pairs of the family are run and counted but expected to be interchangeable",
        "the bearer path does not compare the token's hostname (as in the code; the statement does not require it)",
        "expiry boundary: a challenge/token is unexpired up to and including created+TTL (the code's strict After)",
    ]}


MANIFEST = {
    "technique": "TLA+ symbolic (Dolev-Yao) protocol model (C19_HttpAuth.tla) model-checked exhaustively with TLC on bounded instances; every transition of the replay instances' state graphs executed on the real handshake server/client objects and through the real http.Handler, with every abstract alteration expanded to every byte of the concrete field; verdicts from a ledger oracle",
    "category": "model_checking",
    "text": "The model has two servers with different HMAC secrets, two hostnames, an honest client and an attacker that is the network (replays, drops, swaps parameters between sessions, hostnames, clients and servers, alters any field, signs only with its own key). TLC checks on every reachable state/step that a server reports a peer only for a signature by that peer's key over its own unexpired challenge, its key and the request's hostname or for an unexpired token it issued, that nothing altered, foreign, expired or of the wrong kind passes, and that the client reports a server key only if that key signed the client's own challenge, key and hostname. The harness concretises every model transition into real header strings built from real handshakes (virtual clock, reproducible challenges), runs bit flips over every byte of the decoded opaque/token/signature/public key plus truncations/extensions and re-encodings (order, separators, duplicates, base64 variants, dropped parameters), probes the expiry instants at nanosecond offsets, and judges every acceptance with a ledger of who really signed what and which server issued which blob when.",
    "note": "Trusted: TLC, core/crypto signature primitives, crypto/hmac, encoding/json, base64. Bounded instances (2 sessions); byte-level exploration is bounded enumeration with a model/ledger oracle, not a decision over all header strings. Encodings that core/crypto itself accepts for the same key (e.g. trailing bytes after an ECDSA DER signature) are reported as L2 divergence, not as violations.",
    "engines": [{"name": "C19_HttpAuth", "path": "spec/C19_HttpAuth.tla", "serves_properties": ["C19"],
                 "kind_free_text": "TLA+ symbolic protocol spec + TLC exhaustive + full-transition replay with byte-level expansion"}],
}
