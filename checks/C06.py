"""C06 - Connected/Disconnected notifications and connectedness events.
spec/C06_ConnEvents.tla (emitter + the feeding part of addConn/doClose, exhaustive), every transition
replayed on a real connectionEventsEmitter under synctest (spec -> code), and a real Swarm driven by
seeded concurrent workloads whose observable traces TLC validates against spec/C06_Obs.tla (code -> spec)."""
import concurrent.futures as cf
import os

from lib import evidence, goenv, graph, tlc, tracecheck
from lib.common import MachineryError, classify_mismatches, log, save_replay

PKG = "./p2p/net/swarm"
INVS = "INVARIANTS Once Order Truthful NoRepeat CloseWaits"
HDR = {
    "A": {"Conns": ["c1", "c2"], "PeerOf": {"c1": "p1", "c2": "p1"}, "Limited": ["c2"]},
    "B": {"Conns": ["c1", "c2", "c3"], "PeerOf": {"c1": "p1", "c2": "p1", "c3": "p2"}, "Limited": ["c2"]},
}



def _job(arg):
    ctx, (kind, x, wc, sim), beh = arg
    if kind == "mc":
        cfg = tlc.subst_cfg("C06_MC.cfg", {"WithClose": "TRUE" if wc else "FALSE"}, replace=[("X_", x + "_")])
        r = tlc.run(ctx, "C06_MC", "gen_%s.cfg" % x, cfg_text=cfg, workers=4, timeout=1500, name="mc" + x)
        if not r.ok:
            raise MachineryError("design-level failure in C06 %s: %s\n%s" % (x, r.violated, r.out[-1500:]))
        return {"instance": x, "with_close": wc, "distinct": r.distinct, "generated": r.generated}
    if kind == "probe":
        cfg = tlc.subst_cfg("C06_MC.cfg", replace=[("X_", "A_"), (INVS, "INVARIANTS " + x)])
        r = tlc.run(ctx, "C06_MC", "gen_probe_%s.cfg" % x, cfg_text=cfg, workers=2, timeout=240, name="probe" + x)
        if r.ok or r.violated != x:
            raise MachineryError("vacuity guard %s not reachable" % x)
        return {}
    cfg = tlc.subst_cfg("C06_MC.cfg", {"WithClose": "TRUE" if wc else "FALSE"}, replace=[
        ("X_", x + "_"), ("INIT Init", "INIT MCInit"), ("VIEW View", "VIEW View\nACTION_CONSTRAINT EmitEdge"),
        (INVS, "")])
    # A: the complete graph; B (millions of transitions): the sub-graph visited by seeded TLC simulation
    r = tlc.run(ctx, "C06_MC", "gen_%s_edges.cfg" % x, cfg_text=cfg, workers=1, timeout=1500, name="ed" + x,
                simulate=("num=%d" % sim) if sim else None, depth=45 if sim else None,
                seed=ctx.seed if sim else None)
    if not r.ok:
        raise MachineryError("edge run failed: %s" % r.violated)
    g = graph.Graph(r.inits, r.edges)
    walks = g.covering_walks(seed=ctx.seed, max_len=45)
    n = sum(len(w["steps"]) for w in walks)
    graph.write_behaviours(os.path.join(beh, x + ".jsonl"), walks, dict(HDR[x], edges=g.n_edges()))
    return {"replay_instance": x, "edges_in_graph": g.n_edges(), "walks": len(walks), "steps": n}


def run(ctx):
    thorough = ctx.tier == "thorough"
    tlc.stage(ctx)
    states = trans = 0
    mc = []
    # (1) exhaustive + vacuity probes + (2) printed graphs, all TLC jobs side by side
    beh = ctx.sub("beh")
    jobs = [("mc", x, wc, None) for x, wc in ([("A", True), ("B", True)] if thorough else [("A", True), ("B", False)])]
    jobs += [("probe", p, None, None) for p in ("ReachParked", "ReachForcedN", "ReachLimited", "ReachStaleRead")]
    # spec -> code: all transitions of instance A (with Close); a seeded share of instance B
    jobs += [("edges", "A", True, None), ("edges", "B", True, 6000 if thorough else 1200)]
    with cf.ProcessPoolExecutor(max_workers=8) as ex:
        outs = list(ex.map(_job, [(ctx, j, beh) for j in jobs]))
    edges_total = 0
    for j, o in zip(jobs, outs):
        if j[0] == "mc":
            states += o["distinct"]
            trans += o["generated"]
            mc.append(o)
        elif j[0] == "edges":
            edges_total += o["edges_in_graph"]
            mc.append(o)
    res = goenv.run_harness(ctx, PKG, "^TestVerifC06Emitter$", inputs=beh, timeout=1500)
    div = classify_mismatches(ctx, res, "emitter")
    if not res["mismatches"] and res["distinct"] < edges_total * 0.9:
        raise MachineryError("emitter replay executed %d distinct transitions, expected about %d" % (res["distinct"], edges_total))
    # (3) code -> spec: real Swarm, observable traces validated by TLC
    sw = swarm_part(ctx, thorough)
    div += sw["div"]
    log("C06: MC %d states; emitter replay %d transitions; swarm scenarios %d, traces %d accepted"
        % (states, res["distinct"], sw["scenarios"], sw["accepted"]))
    cov = evidence.mc_coverage(
        states, trans, res["replayed"] + sw["accepted"], (res.get("samples") or []) + sw["samples"], exhaustive=True,
        checker_cmd="tlc C06_MC.tla (A: 2 conns 1 peer with Close; B: 3 conns 2 peers); tlc C06_Obs.tla on recorded swarm traces",
        mc_instances=mc, emitter_walks=res["replayed"], emitter_steps=res["steps"],
        emitter_distinct_transitions=res["distinct"], swarm_scenarios=sw["scenarios"], swarm_events=sw["events"],
        swarm_traces_accepted=sw["accepted"], swarm_traces_rejected=sw["rejected"], divergences_L2=div,
        notes=ctx.notes[:10], rule=res.get("rule"))
    return {"level": "model_checking", "coverage": cov, "assumptions": [
        "the emitter is driven at the grain of schedulable segments (callbacks, connectedness call, call/return); the two short critical sections inside a segment are not interleaved further (they commute across connections)",
        "swarm level: stub transport connections and in-memory streams; schedules are sampled (seeded yields), every recorded execution is checked event by event",
    ]}


def swarm_part(ctx, thorough):
    iters = 1500 if thorough else 150
    res = goenv.run_harness(ctx, PKG, "^TestVerifC06Swarm$", timeout=1500, env={"VERIF_C06_ITERS": iters})
    div = classify_mismatches(ctx, res, "swarm")
    traces = []
    for p in res.get("traces") or []:
        if os.path.exists(p):
            traces += tracecheck.load_ndjson(p)
    if not traces and not ctx.violations:
        raise MachineryError("the swarm harness recorded no traces")
    verdicts, _ = ([], 0) if not traces else tracecheck.validate(ctx, "C06_Obs", "C06_Obs.cfg", traces, tag="c06", timeout=900, batch=200)
    acc = sum(1 for v in verdicts if v.accepted)
    rej = [v for v in verdicts if not v.accepted]
    for v in rej:
        # C06_Obs is an observable-level specification: a rejected trace IS a property failure
        path = save_replay(ctx, "swarm-trace-seed%d-%s.json" % (ctx.seed, v.name), v.as_dict())
        cls = "obs-" + (v.invariant or (v.next_event or {}).get("ev", "rejected"))
        ctx.violations.append({"cls": cls, "replay": path, "what": "swarm trace %s is not a behaviour of C06_Obs: %s at event %d/%d %s" % (
            v.name, v.invariant or "no enabled action", v.matched, v.length, v.next_event)})
    return {"div": div, "scenarios": res["replayed"], "events": res["steps"], "accepted": acc, "rejected": len(rej),
            "samples": res.get("samples") or []}


MANIFEST = {
    "technique": "TLA+ spec of the connection-events emitter and its feeders, exhaustive TLC; every transition replayed on the real emitter with callbacks as scheduler gates under testing/synctest; real Swarm under seeded concurrent workloads with the recorded observable traces validated by TLC against an observable-level TLA+ spec (C06_Obs) whose invariants are the statement's clauses",
    "category": "model_checking",
    "text": "The guarantees depend on how two critical sections and a run loop interleave with blocking callbacks; TLC enumerates all schedules of 2-3 connections (parked disconnect, forced NotConnected, limited/direct mix, Close during callbacks) and the replay forces each of them on the real emitter deterministically; the swarm-level traces check the same clauses (exactly once, Disconnected after Connected returned, no stream before Connected, Close waits, no repeated connectedness, truthful at quiescence) on real concurrent executions including closes from inside handlers and shutdown races.",
    "note": "Trusted: synctest's quiescence detection, the harness gates, stub CapableConn. Emitter replay compares callbacks/returns/events as L1 and the emitter's maps as L2. Swarm traces are observable-only; schedules are sampled.",
    "engines": [{"name": "C06_ConnEvents", "path": "spec/C06_ConnEvents.tla", "serves_properties": ["C06", "C12"], "kind_free_text": "TLA+ spec + TLC exhaustive + gated schedule replay + trace validation (C06_Obs.tla)"}],
}
