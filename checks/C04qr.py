"""C04qr - extension engine of C04 (everything acquired is released): the QUIC transport pool and the ALPN
demultiplexer of p2p/transport/quicreuse.

  spec/C04qr_Pool.tla    ConnManager / reuse / refcountedTransport / singleOwnerTransport: sockets, pool classes, reference
                         counts, "unused since", GC ticks, listener registry, dial preference, lending, sharing, Close;
                         faults of the environment as action parameters; clauses Q1-Q9 as invariants / action properties.
  spec/C04qr_Demux.tla   quicListener / listener: handshakes in flight, dispatch by negotiated ALPN, per-listener queue
                         and its overflow, Accept, Close of one protocol listener vs. the last one; clauses D1-D6.
  replay                 every transition of the printed instances on a real ConnManager over an in-memory datagram
                         network inside testing/synctest bubbles (virtual time: the GC ticker, unusedSince; real
                         quic-go handshakes for the demultiplexer), L1 monitors from the harness's own ledger, internal
                         state compared as L2 (harness/p2p/transport/quicreuse/zz_verif_c04qr_*_test.go).
"""
import concurrent.futures as cf
import os
import re
import time

from lib import evidence, findings, goenv, graph, tlc
from lib.common import HarnessCrash, MachineryError, classify_mismatches, log

PARENT = "C04"
PKG = "./p2p/transport/quicreuse"

POOL_INV = "INVARIANTS TypeOK NeverClosedInUse CountIsUsers ClosedWhenDue SingleOwner Lender Registry OneAddrOneListener CloseClosesAll"
POOL_PROPS = "PROPERTIES ClosedOnlyAfterPeriod SiblingsSurvive DialPreference ClosedIsFinal"


def S(*names):
    return "{" + ", ".join('"%s"' % n for n in names) + "}"


def _pool_consts(reuse=True, sock=2, ln=2, dial=1, share=0, lend=0, faults=0, protos=("a", "b"), assocs=(), addrs="AddrsGlobal",
                 uips=(), kinds=("tfd",), fk=("oserr", "bad", "noalpn", "selerr"), gc=2, unused=1):
    return ({"Reuse": "TRUE" if reuse else "FALSE", "MaxSock": sock, "MaxLn": ln, "MaxDial": dial, "MaxShare": share, "MaxLend": lend,
             "MaxFaults": faults, "Protos": S(*protos), "Assocs": S(*assocs), "UIPs": S(*uips), "DialKinds": S(*kinds),
             "Faults": S(*fk), "GcEvery": gc, "MaxUnused": unused},
            [("LAddrs <- AddrsMixed", "LAddrs <- " + addrs)])


def pool_print_instances(thorough):
    """(name, (consts, replace), harness conf) of the pool instances whose whole graph is printed and replayed."""
    u5 = {"unit_s": 5, "set_vars": True}
    out = [
        ("core", _pool_consts(sock=2, ln=2, dial=1), u5),
        ("assoc", _pool_consts(sock=3, ln=2, dial=1, protos=("a",), assocs=("x",), addrs="AddrsA0", kinds=("tfd", "dq")), u5),
        ("unicast", _pool_consts(sock=2, ln=2, dial=1, protos=("a",), addrs="AddrsA0U0", uips=("u1",)), u5),
        ("dq", _pool_consts(sock=2, ln=1, dial=1, share=1, lend=1, protos=("a",), addrs="AddrsA1", kinds=("dq",)), u5),
        ("pref6", _pool_consts(sock=2, ln=1, dial=2, protos=("a",), addrs="AddrsA1", kinds=("tfd", "dq")), {"unit_s": 5, "set_vars": True, "v6": True}),
        ("uassoc", _pool_consts(sock=2, ln=2, dial=1, protos=("a",), assocs=("x",), addrs="AddrsU0", uips=("u1",)), u5),
        ("faults", _pool_consts(sock=2, ln=1, dial=1, faults=1, protos=("a",), addrs="AddrsA0U0", uips=("u1",), kinds=("dq",)), u5),
        ("single", _pool_consts(reuse=False, sock=2, ln=2, dial=1, share=1, faults=1, kinds=("tfd", "dq")), u5),
        # the package's own constants (30 s / 10 s), untouched
        ("prod", _pool_consts(sock=2, ln=1, dial=1, protos=("a",), addrs="AddrsA0", gc=3, unused=1), {"unit_s": 10, "set_vars": False}),
    ]
    if thorough:
        out += [
            ("pref", _pool_consts(sock=2, ln=1, dial=2, protos=("a",), addrs="AddrsA1"), u5),
            ("core3", _pool_consts(sock=3, ln=2, dial=1, share=1, addrs="AddrsGlobal"), u5),
            ("dial2", _pool_consts(sock=2, ln=1, dial=2, protos=("a",), addrs="AddrsA0U0", uips=("u1",), kinds=("tfd", "dq")), u5),
            ("lend", _pool_consts(sock=3, ln=2, dial=1, lend=1, protos=("a",), addrs="AddrsGlobal", kinds=("tfd", "dq")), u5),
            ("faults2", _pool_consts(sock=2, ln=2, dial=1, faults=2, protos=("a",), addrs="AddrsA1U1", uips=("u1",), kinds=("tfd", "dq")), u5),
        ]
    return out


def pool_mc_instances(thorough):
    """(name, (consts, replace)) of the exhaustive runs (all clauses, free interleaving of the two dial steps)."""
    out = [("x-dial2", _pool_consts(sock=3, ln=2, dial=2, protos=("a",), assocs=("x",), addrs="AddrsA0U0", uips=("u1",)))]
    if thorough:
        out += [("x-single", _pool_consts(reuse=False, sock=3, ln=3, dial=2, share=1, faults=2, kinds=("tfd", "dq"))),("x-mixed", _pool_consts(sock=2, ln=2, dial=1, share=1, lend=1, faults=1, assocs=("x",), addrs="AddrsMixed", uips=("u1",), kinds=("tfd", "dq"))),
                ("x-uni2", _pool_consts(sock=3, ln=2, dial=1, protos=("a",), assocs=("x",), addrs="AddrsA0U0", uips=("u1",))),
                ("x-dial2-faults", _pool_consts(sock=2, ln=2, dial=2, share=1, lend=1, faults=1, addrs="AddrsGlobal", kinds=("tfd", "dq")))]
    else:
        out += [("x-single", _pool_consts(reuse=False, sock=2, ln=2, dial=2, share=1, faults=1, kinds=("tfd", "dq"))),
                ("x-mixed", _pool_consts(sock=2, ln=2, dial=1, share=0, lend=1, faults=1, protos=("a",), assocs=("x",), addrs="AddrsMixed", uips=("u1",), kinds=("tfd", "dq")))]
    return out


DEMUX_INV = "INVARIANTS TypeOK QueueConsistent ByAlpn QueueBound OneServer RunningIffOpen NoHandshakeWithoutListener"
DEMUX_PROPS = "PROPERTIES FatesFinal AcceptByAlpn RefusedOnlyUnserved OverflowClosesNewcomer Fifo SiblingsSurvive CloseDrains"


def _demux_consts(ln, conn, q, alpns=("a", "b", "z")):
    return ({"MaxLn": ln, "MaxConn": conn, "QueueLen": q, "Alpns": S(*alpns)}, [])


def demux_print_instances(thorough):
    out = [("l2c3q1", _demux_consts(2, 3, 1), {"queueLen": 1, "scaled": True}),
           ("l3c2q1", _demux_consts(3, 2, 1, ("a", "b")), {"queueLen": 1, "scaled": True})]
    if thorough:
        out += [("l3c3q1", _demux_consts(3, 3, 1), {"queueLen": 1, "scaled": True}),
                ("l2c3q2", _demux_consts(2, 3, 2, ("a", "b")), {"queueLen": 2, "scaled": True})]
    return out


def demux_mc_instances(thorough):
    out = [("dx-l3c4q2", _demux_consts(3, 4, 2))]
    if thorough:
        out.append(("dx-l3c5q2", _demux_consts(3, 5, 2)))
    return out


def _mc(args):
    ctx, module, template, name, (consts, rep), workers = args
    cfg = tlc.subst_cfg(template, consts, replace=rep)
    r = tlc.run(ctx, module, "gen_%s.cfg" % name, cfg_text=cfg, workers=workers, timeout=1500, name=name)
    if not r.ok:
        raise MachineryError("design-level failure in %s %s: %s violated\n%s" % (module, name, r.violated, r.out[-3000:]))
    return name, r.distinct, r.generated, r.wall


def _reach(args):
    ctx, module, template, probe, (consts, rep), inv, props = args
    # (no VIEW: a probe may mention `op`, which the view leaves out)
    cfg = tlc.subst_cfg(template, consts, replace=rep + [(inv, "INVARIANTS " + probe), (props, ""), ("VIEW View", "")])
    r = tlc.run(ctx, module, "gen_%s.cfg" % probe, cfg_text=cfg, workers=1, timeout=900, name=probe)
    if r.ok or r.violated != probe:
        raise MachineryError("vacuity guard: %s is not reachable in %s" % (probe, module))
    return probe


def _pool_kinds(g):
    k = {}

    def inc(n):
        k[n] = k.get(n, 0) + 1
    for sk, op, tk in g.edges:
        s, t = g.states[sk], g.states[tk]
        n = op["name"]
        if n == "listen":
            inc("listen-ok" if op["ok"] else "listen-" + op["err"])
            if op["ok"] and s["ql"][op["sock"] - 1]["rc"] > 0:
                inc("listen-shared")
            if op["ok"] and op["sock"] <= s["n"] and s["socks"][op["sock"] - 1]["pool"] == "D":
                inc("listen-reuses-dialer")
        elif n == "closeln":
            if op["again"]:
                inc("closeln-again")
            else:
                inc("closeln-last" if all(q["rc"] == 0 for q in t["ql"]) or
                    any(a["rc"] > 0 and b["rc"] == 0 for a, b in zip(s["ql"], t["ql"])) else "closeln-sibling")
        elif n == "dialbegin":
            inc("dialbegin-routed" if op["routed"] else "dialbegin")
        elif n == "dialend":
            inc("dialend-ok" if op["ok"] else "dialend-" + op["err"])
            if op["ok"] and op["sock"] > s["n"]:
                inc("dial-new-socket")
            if op["ok"] and op["sock"] <= s["n"]:
                inc("dial-reuse-" + s["socks"][op["sock"] - 1]["pool"])
        elif n == "tick":
            inc("tick-gc" if op["gc"] else "tick")
            if op["collected"]:
                inc("gc-collects")
        else:
            inc(n)
        if n != "tick" and any(d["st"] == "begun" for d in s["dials"]) and n not in ("dialend", "dialbegin"):
            inc("interleaved-with-dial")
        if n == "tick" and any(d["st"] == "begun" for d in s["dials"]):
            inc("tick-inside-dial")
    return k


def _demux_kinds(g):
    k = {}

    def inc(n):
        k[n] = k.get(n, 0) + 1
    for sk, op, tk in g.edges:
        s = g.states[sk]
        n = op["name"]
        if n == "add":
            inc("add-ok" if op["ok"] else "add-dup")
            if op["ok"] and any(l["st"] == "closed" for l in s["lns"]):
                inc("add-after-close")
        elif n == "start":
            inc("start-ok" if op["ok"] else "start-refused")
        elif n == "finish":
            inc("finish-" + op["fate"])
        elif n == "close":
            inc("close-again" if op["again"] else "close-last" if op["last"] else "close-sibling")
            if op["drained"]:
                inc("close-drains")
            if op["refused"]:
                inc("close-refuses-handshakes")
            if not op["again"] and any(c["st"] == "hs" for c in s["conns"]):
                inc("close-during-handshake")
        else:
            inc(n)
    return k


def _print(args):
    ctx, part, name, (consts, rep), conf, beh_dir = args
    if part == "pool":
        module, template, props, constraint, max_len = "C04qr_MC", "C04qr_MC.cfg", POOL_PROPS, "EmitSeq", 30
    else:
        module, template, props, constraint, max_len = "C04qr_DemuxMC", "C04qr_DemuxMC.cfg", DEMUX_PROPS, "EmitEdge", 60
    cfg = tlc.subst_cfg(template, consts, replace=rep + [
        ("INIT Init", "INIT MCInit"), ("VIEW View", "VIEW View\nACTION_CONSTRAINT " + constraint), (props, "")])
    r = tlc.run(ctx, module, "gen_p_%s.cfg" % name, cfg_text=cfg, workers=1, timeout=1500, name="pe" + name)
    if not r.ok:
        raise MachineryError("design-level failure in %s %s: %s violated\n%s" % (module, name, r.violated, r.out[-2500:]))
    g = graph.Graph(r.inits, r.edges)
    if g.n_edges() == 0:
        raise MachineryError("nothing printed for %s instance %s" % (module, name))
    walks = g.covering_walks(seed=ctx.seed, max_len=max_len)
    if getattr(g, "covered", g.n_edges()) < g.n_edges():
        raise MachineryError("covering walks of %s cover %d of %d edges" % (name, g.covered, g.n_edges()))
    hc = dict(conf)
    if part == "pool":
        hc.update({"reuse": consts["Reuse"] == "TRUE", "gcEvery": consts["GcEvery"], "maxUnused": consts["MaxUnused"]})
    graph.write_behaviours(os.path.join(beh_dir, "%s-%s.jsonl" % (part, name)), walks,
                           {"name": name, "conf": hc, "edges": g.n_edges(), "states": g.n_states()})
    kinds = _pool_kinds(g) if part == "pool" else _demux_kinds(g)
    return part, name, r.distinct, r.generated, g.n_states(), g.n_edges(), len(walks), sum(len(w["steps"]) for w in walks), kinds, r.wall


DEMUX_NEED = ("add-ok", "add-dup", "add-after-close", "start-ok", "start-refused", "finish-queued", "finish-closed-full", "finish-closed-nolistener",
              "accept", "close-again", "close-last", "close-sibling", "close-drains", "close-refuses-handshakes", "close-during-handshake")
POOL_NEED = ("listen-ok", "listen-dup", "listen-inuse", "listen-oserr", "listen-listenfail", "listen-noalpn", "listen-shared",
             "listen-reuses-dialer", "closeln-again", "closeln-last", "closeln-sibling", "dialbegin", "dialbegin-routed", "dialend-ok",
             "dialend-dialfail", "dialend-oserr", "dial-new-socket", "dial-reuse-L", "dial-reuse-D", "dial-reuse-U", "release", "share",
             "closeshare", "lend", "tick", "tick-gc", "gc-collects", "closecm", "interleaved-with-dial", "tick-inside-dial")


_OWN = ("quicreuse/connmgr.go", "quicreuse/reuse.go", "quicreuse/listener.go", "quicreuse/nonquic_packetconn.go")


def _go(ctx, beh):
    """Run the harness; a crash of the test process (panic in a goroutine of the code under test, or every goroutine of a
    bubble blocked for ever = deadlock) is a violation if it happens again, with the package's own frames on the stack."""
    def once():
        res = goenv.run_harness(ctx, PKG, "^TestVerifC04qr$", inputs=beh, timeout=2400, parallel=4, env={"VERIF_C04QR_WORKERS": 4})
        if res["_rc"] != 0:
            # the test failed although it reports mismatches itself only through result.json: a panic that the testing package
            # recovered (e.g. a bubble that could not be left)
            raise HarnessCrash("harness test failed (rc=%d):\n%s" % (res["_rc"], res["_log"][-3000:]), res["_log"])
        return res

    def sig(e):
        if not any(f in e.log for f in _OWN):
            return None
        if "VFSTALL" in e.log:
            return "stall"
        m = re.search(r"^panic: (.*)$", e.log, re.M)
        if not m:
            return None
        return "deadlock" if "deadlock" in m.group(1) else "panic"
    try:
        return once()
    except HarnessCrash as e:
        k = sig(e)
        if not k:
            raise
        try:
            once()
        except HarnessCrash as e2:
            if sig(e2) == k:
                m = re.search(r"^(?:panic: |VFSTALL: )(.*)$", e2.log, re.M)
                what = "the harness process died twice: %s in the code under test (%s)" % (k, m.group(1)[:200] if m else "")
                return {"replayed": 0, "steps": 0, "distinct": 0, "samples": [], "extra": {"crashed": k}, "_rc": 0, "_log": e2.log[-3000:],
                        "mismatches": [{"class": "harness-crash:" + k, "what": what, "got": e2.log[-3000:], "walk": -1, "step": -1}]}
            raise
        raise MachineryError("the harness process crashed once (%s) and not again with the same seed (inconclusive)" % k)


def known_or_violation(ctx):
    """Stand-alone run (`./check C04qr`): findings are filed under the parent property."""
    keep = []
    for v in ctx.violations:
        f = findings.match("C04qr", v.get("cls", ""))
        if f:
            line = "KNOWN-FINDING: property=%s %s" % ("C04qr", f.get("what", v.get("what", "")))
            if line not in ctx.known:
                ctx.known.append(line)
        else:
            keep.append(v)
    ctx.violations[:] = keep


# classes that end a walk (the real objects cannot follow the model any further): the transitions behind them stay unexecuted
# while the finding is open, so the "every printed transition was executed" guard is relaxed by what the harness reports
def run_part(ctx, thorough):
    t0 = time.time()
    marks = []

    def mark(name):
        marks.append("%s %.0fs" % (name, time.time() - t0))
    tlc.stage(ctx)
    beh = ctx.sub("beh")
    pin, xin = pool_print_instances(thorough), pool_mc_instances(thorough)
    din, dxin = demux_print_instances(thorough), demux_mc_instances(thorough)
    # reachability probes on the exhaustive models (thorough); in every tier the printed graphs are checked for the transition
    # kinds that must occur (POOL_NEED / DEMUX_NEED), which covers the same states
    probes = []
    if thorough:
        probes = [("C04qr_MC", "C04qr_MC.cfg", p, _pool_consts(sock=2, ln=2, dial=1, lend=1, protos=("a",)), POOL_INV, POOL_PROPS)
                  for p in ("ReachGcClose", "ReachReuseDialer", "ReachLentDone")]
        probes += [("C04qr_DemuxMC", "C04qr_DemuxMC.cfg", p, _demux_consts(3, 3, 1), DEMUX_INV, DEMUX_PROPS)
                   for p in ("ReachOverflow", "ReachOrphan", "ReachRefusedLate", "ReachHandover")]
    with cf.ProcessPoolExecutor(max_workers=4) as pool, cf.ThreadPoolExecutor(max_workers=1) as tp:
        fp = [pool.submit(_print, (ctx, "pool", n, c, conf, beh)) for n, c, conf in pin]
        fp += [pool.submit(_print, (ctx, "demux", n, c, conf, beh)) for n, c, conf in din]
        fx = [pool.submit(_mc, (ctx, "C04qr_MC", "C04qr_MC.cfg", n, c, 1)) for n, c in xin]
        fx += [pool.submit(_mc, (ctx, "C04qr_DemuxMC", "C04qr_DemuxMC.cfg", n, c, 1)) for n, c in dxin]
        fg = [pool.submit(_reach, (ctx,) + p) for p in probes]
        pres = [f.result() for f in fp]
        mark("graphs")
        # the Go side starts as soon as the graphs are there, next to what is left of the TLC lanes
        fgo = tp.submit(_go, ctx, beh)
        xres = [f.result() for f in fx]
        guards = [f.result() for f in fg]
        mark("tlc")
        res = fgo.result()
        mark("go")
    kinds = {"pool": {}, "demux": {}}
    for r in pres:
        for k, v in r[8].items():
            kinds[r[0]][k] = kinds[r[0]].get(k, 0) + v
    for part, need in (("pool", POOL_NEED), ("demux", DEMUX_NEED)):
        for k in need:
            if not kinds[part].get(k):
                raise MachineryError("vacuity guard: no printed %s transition of kind %s" % (part, k))
    edges_total = sum(r[5] for r in pres)
    if res["_rc"] != 0:
        raise MachineryError("the C04qr harness failed:\n%s" % res["_log"][-3000:])
    div = classify_mismatches(ctx, res, "replay")
    ex = res.get("extra") or {}
    skipped = ex.get("pool_steps_not_executed_after_violation", 0) + ex.get("demux_steps_not_executed_after_violation", 0)
    unmatched = ex.get("pool_walks_not_matched_after_retries", 0)
    if not ctx.violations:
        # (guards about the run itself only speak when the run found nothing: a real deviation legitimately cuts walks short)
        if unmatched > max(2, len(pres)):
            raise MachineryError("too many walks whose non-deterministic choices were never matched: %s" % ex)
        if res["distinct"] + skipped < edges_total and not unmatched:
            raise MachineryError("replay executed %d distinct transitions of %d (%d steps skipped after violations)" % (res["distinct"], edges_total, skipped))
        if not ex.get("demux_production_queue_steps"):
            raise MachineryError("the production-size queue scenario did not run")
    states = sum(r[1] for r in xres) + sum(r[2] for r in pres)
    trans = sum(r[2] for r in xres) + sum(r[3] for r in pres)
    summary = ("exhaustive %s; printed+replayed %s = %d transitions, %d walks, %d steps executed (%d distinct transitions) on a real ConnManager; "
               "harness counters %s; probes %s; L2 divergences %d"
               % ([(r[0], r[1]) for r in xres], [(r[0] + ":" + r[1], r[4], r[5]) for r in pres], edges_total,
                  sum(r[6] for r in pres), res["steps"], res["distinct"], ex, guards, div))
    log("C04qr: " + summary + " [" + ", ".join(marks) + "]")
    return {"summary": summary, "states": states, "transitions": trans, "replayed": res["replayed"],
            "samples": (res.get("samples") or [])[:2],
            "exhaustive_runs": {r[0]: {"states": r[1], "transitions": r[2], "wall_s": r[3]} for r in xres},
            "replay_instances": {r[0] + ":" + r[1]: {"states": r[4], "transitions": r[5], "walks": r[6], "steps": r[7]} for r in pres},
            "replay_transition_kinds": kinds, "replay_distinct_transitions_executed": res["distinct"],
            "replay_transitions_in_graphs": edges_total, "replay_steps_executed": res["steps"], "harness_counters": ex,
            "vacuity_probes": guards, "divergences_L2": div, "notes": ctx.notes[:10]}


def run(ctx):
    p = run_part(ctx, ctx.tier == "thorough")
    if ctx.pid != PARENT:
        known_or_violation(ctx)
    cov = evidence.mc_coverage(p["states"], p["transitions"], p["replayed"], p["samples"], exhaustive=True,
                               checker_cmd="tlc C04qr_MC.tla (template C04qr_MC.cfg); tlc C04qr_DemuxMC.tla",
                               **{k: v for k, v in p.items() if k not in ("samples", "states", "transitions", "replayed")})
    return {"level": "model_checking", "coverage": cov, "assumptions": [
        "sockets are an in-memory datagram network handed to the ConnManager through OverrideListenUDP (no kernel); quic-go runs unmodified on it",
        "bounded instances (<= 3 sockets, <= 3 listeners, <= 2 concurrent dials); time in units of 5 s (10 s for the package's own GC constants)"]}


ENGINE = {"name": "C04qr_Pool", "path": "spec/C04qr_Pool.tla", "serves_properties": ["C04"],
          "kind_free_text": "TLA+ spec of the quicreuse transport pool and ALPN demultiplexer + TLC exhaustive + full-transition replay on a real ConnManager over an in-memory network under virtual time"}

MANIFEST = {
    "technique": "TLA+ specs (C04qr_Pool.tla, C04qr_Demux.tla) model-checked exhaustively with TLC; every transition of the printed instances replayed on a real quicreuse.ConnManager in testing/synctest bubbles over an in-memory datagram network, with L1 monitors over socket closes, listener liveness and connection fates",
    "category": "model_checking",
    "text": "Extension engine of C04 for p2p/transport/quicreuse: a transport / UDP socket is closed iff its last user released it (and, in the reuse pool, only after the GC period), reference counts equal the live users, accepted connections reach exactly one protocol listener or are closed, closing one protocol listener leaves the others working, dial transport choice follows the documented preference, Close releases everything.",
    "note": "Trusted: TLC, the in-memory network (fake OS), quic-go, testing/synctest. Internal state (counts, pool class) compared in-package as L2; verdicts only from observable socket closes / Accept results / connection fates.",
    "engines": [ENGINE],
}
