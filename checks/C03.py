"""C03 - resource manager: usage equals the sum of holders and never exceeds limits.

spec/C03_Rcmgr.tla models every API call as a script of atomic per-scope steps (the code's grain:
lock scope, check, charge, unlock; undo of the charged prefix on refusal).  One interpreter serves
  * sequential instances ("families": memory/spans/priorities, connections/fd/subnets/SetPeer/allow
    list, streams/protocol/service/per-peer sub-scopes): exhaustive TLC with the statement's clauses as
    invariants / action properties, the printed graphs replayed transition by transition on a real
    manager built from the instance's limit table (harness ledger = L1, model equality = L2);
  * concurrent instances (two calls in flight, one per-scope step at a time): exhaustive TLC only.
spec/C03_MemGrid.tla: checkMemory's overflow-safe arithmetic evaluated by TLC on a value grid and
compared with the real function.  spec/C03_Trace.tla: TLC validation of traces recorded from 4
goroutines through the manager's own TraceReporter.  Two expected-violation instances re-derive the
still-open findings on every run (TLC counterexample + the same history failing on the real code); the
instance "gcmem" and the overflow rows of the grid are regression instances for the two repaired ones
(8b34800, 64fc8f8) and must hold."""
import concurrent.futures as cf
import json
import os
import threading

from lib import evidence, extension, goenv, graph, tlc, tracecheck
from lib.common import MachineryError, classify_mismatches, log, save_replay

PKG = "./p2p/host/resource-manager"
INV = "INVARIANTS TypeOK Sum Bounds Reparent SubnetCode SubnetStmt Zero"
PROPS = "PROPERTIES AllOrNothing PrioBound"
ALL_INV = "TypeOK Sum Bounds Reparent SubnetCode SubnetStmt Zero"


def _fast_unescape(s, _slow=tlc._unescape):
    return s.replace('\\"', '"') if "\\\\" not in s else _slow(s)


tlc._unescape = _fast_unescape

# family -> (invariants that hold, action properties that hold, invariant expected to be violated)
FINDINGS = {
    # DESIGN 9.5: allow-listed connections are not counted against the per-subnet cap
    "alsub": ("TypeOK Sum Bounds Reparent SubnetCode Zero", "AllOrNothing PrioBound", "SubnetStmt"),
    # DESIGN 9.6: a refused transferAllowedToStandard leaves the connection charged nowhere
    "xfer": ("TypeOK Bounds SubnetCode", "", "Reparent"),
    # the same with three connections (refusal by system too); thorough tier only
    "xfer3": ("TypeOK Bounds SubnetCode", "", "Reparent"),
}
# (call, error class) pairs that must occur in a family's printed graph (vacuity guard)
MUST = {
    "memp": [("reserve", "limit"), ("reserve", "closed"), ("reserve", "nil"), ("release", "nil"), ("beginspan", "nil"),
             ("beginspan", "closed"), ("setpeer", "limit"), ("setpeer", "nil"), ("gc", None)],
    "spanq": [("beginspan", "nil"), ("reserve", "limit"), ("reserve", "closed"), ("done", "nil")],
    "span": [("beginspan", "nil"), ("reserve", "limit"), ("reserve", "closed"), ("done", "nil")],
    "connq": [("openconn", "limit"), ("openconn", "nil"), ("setpeer", "limit"), ("setpeer", "other"), ("setpeer", "nil")],
    "subnetq": [("openconn", "subnet"), ("openconn", "limit"), ("openconn", "nil")],
    "subnet": [("openconn", "subnet"), ("openconn", "limit"), ("openconn", "nil")],
    "allow": [("openconn", "limit"), ("openconn", "nil"), ("setpeer", "nil"), ("setpeer", "limit")],
    "allowq": [("openconn", "limit"), ("openconn", "nil"), ("setpeer", "nil"), ("setpeer", "limit")],
    "connmem": [("setpeer", "limit"), ("reserve", "limit"), ("reserve", "nil")],
    "streamq": [("openstream", "limit"), ("setprotocol", "limit"), ("setservice", "limit"), ("setservice", "nil"),
                ("setservice", "other")],
    "stream": [("openstream", "limit"), ("setprotocol", "limit"), ("setservice", "limit"), ("setservice", "nil")],
    "streammem": [("setprotocol", "limit"), ("reserve", "limit"), ("reserve", "closed")],
    # regression instance for the repaired GC (8b34800): GC offered in every state, spans on View scopes
    "gcmem": [("gc", None), ("reserve", "nil"), ("reserve", "limit"), ("beginspan", "nil"), ("release", "nil")],
    "alsub": [("openconn", "nil"), ("openconn", "limit")],
    "xfer": [("setpeer", "limit"), ("setpeer", "nil")],
    "subcnt": [("openconn", "limit"), ("openconn", "subnet"), ("openconn", "nil")],
    "xfer3": [("setpeer", "limit"), ("setpeer", "nil")],
}


def tiers(ctx):
    if ctx.tier == "thorough":
        return {
            "printed": ["memp", "span", "connq", "subnet", "allow", "connmem", "stream", "streamq", "streammem", "gcmem", "subcnt"],
            "exhaustive": [("mem", 3), ("conn", 3)],
            "concurrent": [("cconn", 2), ("cstream", 2), ("cmem", 4)],
            "traces": 150, "races": 300, "random": 3000,
        }
    return {
        "printed": ["memp", "spanq", "connq", "subnetq", "allowq", "connmem", "streamq", "streammem", "gcmem", "subcnt"],
        "exhaustive": [],
        "concurrent": [("cconn", 1), ("cstream", 1), ("cmemq", 2)],
        "traces": 12, "races": 40, "random": 300,
    }


def cfg_text(fam, inv=ALL_INV, props="AllOrNothing PrioBound", emit=False):
    rep = [('Fam = "mem"', 'Fam = "%s"' % fam),
           (INV, ("INVARIANTS " + inv) if inv else ""),
           (PROPS, ("PROPERTIES " + props) if props else "")]
    if emit:
        rep += [("INIT Init", "INIT MCInit"), ("VIEW View", "VIEW View\nACTION_CONSTRAINT EmitEdge")]
    return tlc.subst_cfg("C03_MC.cfg", replace=rep)


def _mc(args):
    """One TLC run.  kind: 'print' (check + print every transition, workers=1), 'check', 'expect'."""
    ctx, kind, fam, inv, props, workers, beh_dir = args
    name = "%s-%s" % (kind, fam)
    if kind == "grid":
        # checkMemory: TLC evaluates the transcription on the grid (and proves it against the statement's rule)
        rg = tlc.run(ctx, "C03_MemGrid", "C03_MemGrid.cfg", workers=1, timeout=600, name="memgrid")
        grid = [o for t, o in rg.prints if t == "VFGRID"]
        if not rg.ok or len(grid) < 1000:
            raise MachineryError("C03_MemGrid failed or printed %d points:\n%s" % (len(grid), rg.out[-1500:]))
        return {"kind": "grid", "fam": fam, "grid": grid}
    r = tlc.run(ctx, "C03_MC", "gen_%s.cfg" % name, cfg_text=cfg_text(fam, inv, props, emit=(kind == "print")),
                workers=workers, timeout=3000, name=name, keep_prints=(kind == "print"))
    out = {"kind": kind, "fam": fam, "inv": inv, "ok": r.ok, "violated": r.violated, "distinct": r.distinct,
           "generated": r.generated, "depth": r.depth, "wall_s": r.wall, "tail": r.out[-1500:] if not r.ok else ""}
    if kind == "print" and r.ok:
        g = graph.Graph(r.inits, r.edges)
        conf = [o for t, o in r.prints if t == "VFCONF"]
        if not conf or g.n_edges() == 0:
            raise MachineryError("family %s printed no graph" % fam)
        kinds = {(e[1].get("name"), e[1].get("err")) for e in g.edges}
        missing = [k for k in MUST.get(fam, []) if k not in kinds]
        if missing:
            raise MachineryError("vacuous instance %s: no transition of kind %s" % (fam, missing))
        walks = g.covering_walks(seed=ctx.seed, max_len=40)
        graph.write_behaviours(os.path.join(beh_dir, fam + ".jsonl"), walks, {"conf": conf[0], "fam": fam})
        out.update(edges=g.n_edges(), states=g.n_states(), walks=len(walks), steps=sum(len(w["steps"]) for w in walks))
    return out


def run(ctx):
    if ctx.replay:
        return replay(ctx)
    T = tiers(ctx)
    ext = extension.start_all(ctx, ["C03rate"])   # per-subnet connection caps + the rate side of admission
    tlc.stage(ctx)
    beh = ctx.sub("beh")
    jobs = []
    for fam in T["printed"]:
        jobs.append((ctx, "print", fam, ALL_INV, "AllOrNothing PrioBound", 1, beh))
    for fam, (inv, props, bad) in FINDINGS.items():
        if fam == "xfer3" and ctx.tier != "thorough":
            continue
        jobs.append((ctx, "print", fam, inv, props, 1, beh))
        jobs.append((ctx, "expect", fam, bad, "", 1, beh))
    for fam, wk in T["concurrent"]:
        jobs.append((ctx, "check", fam, ALL_INV, "", wk, beh))
    jobs.append((ctx, "expect", T["concurrent"][0][0], "ReachTwoInFlight", "", 1, beh))
    for fam, wk in T["exhaustive"]:
        jobs.append((ctx, "check", fam, ALL_INV, "AllOrNothing PrioBound", wk, beh))
    jobs.append((ctx, "grid", "memgrid", "", "", 1, beh))
    # heavier runs first; at most ~4 TLC workers at a time
    jobs.sort(key=lambda j: -j[5])
    # the harness tests that need nothing from TLC run meanwhile (one after the other, in one thread)
    side = {}

    def _side():
        try:
            # random limit tables x random histories, judged by the ledger alone
            side["random"] = goenv.run_harness(ctx, PKG, "^TestVerifC03Random$", timeout=2400,
                                               env={"VERIF_C03_RANDOM": T["random"]})
            # concurrent scenarios: ledger audits at quiescence + recorded traces
            side["conc"] = goenv.run_harness(ctx, PKG, "^TestVerifC03Concurrent$", timeout=2400,
                                             env={"VERIF_C03_TRACES": T["traces"], "VERIF_C03_RACES": T["races"]})
        except BaseException as e:      # re-raised in the main thread
            side["error"] = e

    th = threading.Thread(target=_side)
    with cf.ProcessPoolExecutor(max_workers=3 if ctx.tier == "thorough" else 4) as ex:
        futs = [ex.submit(_mc, j) for j in jobs]      # the worker processes are forked here, before the thread exists
        th.start()
        try:
            results = [f.result() for f in futs]
        finally:
            th.join()
    if "error" in side:
        raise side["error"]
    log("C03: %d TLC runs done at %.0fs" % (len(results), ctx.wall()))
    grid = [r for r in results if r["kind"] == "grid"][0]["grid"]
    results = [r for r in results if r["kind"] != "grid"]

    states = trans = 0
    mc = []
    design_findings = {}
    for r in results:
        fam, kind = r["fam"], r["kind"]
        if kind == "expect":
            want = r["inv"]
            if r["ok"] or r["violated"] != want:
                raise MachineryError("instance %s: %s must be violated (known finding / vacuity guard), TLC reports %s"
                                     % (fam, want, r["violated"]))
            if fam in FINDINGS:
                design_findings[fam] = True
            continue
        if not r["ok"]:
            raise MachineryError("design-level failure in C03 instance %s (%s): %s violated\n%s"
                                 % (fam, kind, r["violated"], r["tail"]))
        states += r["distinct"]
        trans += r["generated"]
        mc.append({k: r[k] for k in r if k not in ("tail", "ok", "violated", "inv")})

    # replay of every printed transition on the real manager
    res = goenv.run_harness(ctx, PKG, "^TestVerifC03Replay$", inputs=beh, timeout=2400)
    div = classify_mismatches(ctx, res, "replay")
    want_steps = sum(r.get("edges", 0) for r in results)
    if res["steps"] < want_steps and not res["mismatches"]:
        raise MachineryError("replay executed %d steps for %d transitions" % (res["steps"], want_steps))
    # checkMemory grid on the real function
    gdir = ctx.sub("grid")
    with open(os.path.join(gdir, "grid.json"), "w") as f:
        json.dump(grid, f)
    resg = goenv.run_harness(ctx, PKG, "^TestVerifC03CheckMemory$", inputs=gdir, timeout=1200)
    div += classify_mismatches(ctx, resg, "checkmemory")
    resr, resc = side["random"], side["conc"]
    div += classify_mismatches(ctx, resr, "random")
    div += classify_mismatches(ctx, resc, "concurrent")
    log("C03: harness runs done at %.0fs" % ctx.wall())
    accepted, rejected, tstates, ntraces = validate_traces(ctx, resc)
    if rejected:
        # concurrent: a verdict needs the failure to show again with the same seed
        resc2 = goenv.run_harness(ctx, PKG, "^TestVerifC03Concurrent$", timeout=2400,
                                  env={"VERIF_C03_TRACES": T["traces"], "VERIF_C03_RACES": 0})
        _a2, rejected2, _s2, _n2 = validate_traces(ctx, resc2, tag="c03b")
        again = {v.invariant for v in rejected2 if v.invariant}
        for v in rejected:
            d = v.as_dict()
            path = save_replay(ctx, "trace-rejected-seed%d-%s.json" % (ctx.seed, v.name), d)
            if v.invariant and again:
                ctx.violations.append({"cls": "trace:" + v.invariant, "replay": path,
                                       "what": "trace:%s: recorded concurrent execution %s violates %s of C03_Trace at event %d/%d (next %s); "
                                               "a second run with the same seed violates %s"
                                               % (v.invariant, v.name, v.invariant, v.matched, v.length,
                                                  json.dumps(v.next_event)[:200], sorted(again))})
            elif v.invariant and not ctx.violations:
                raise MachineryError("trace %s violated %s once and no trace violated an invariant with the same seed again "
                                     "(inconclusive)" % (v.name, v.invariant))
            else:
                div += 1
                ctx.notes.append("DIVERGENCE trace %s not accepted by C03_Trace at event %d/%d (%s)%s"
                                 % (v.name, v.matched, v.length, json.dumps(v.next_event)[:200],
                                    " invariant " + v.invariant if v.invariant else ""))

    replayed = res["replayed"] + resr["replayed"] + resc["replayed"]
    log("C03: MC %d states / %d transitions in %d runs; replay %d walks %d steps; grid %d points; random %d; "
        "concurrent %d scenarios, traces %d accepted / %d rejected"
        % (states, trans, len(mc), res["replayed"], res["steps"], len(grid), resr["replayed"], resc["replayed"],
           accepted, len(rejected)))
    cov = evidence.mc_coverage(
        states, trans, replayed + accepted, (res.get("samples") or []) + (resc.get("samples") or []), exhaustive=True,
        checker_cmd="tlc C03_MC.tla (families %s; concurrent %s; expected-violation %s); tlc C03_MemGrid.tla; tlc C03_Trace.tla"
                    % (",".join(T["printed"] + [f for f, _ in T["exhaustive"]]), ",".join(f for f, _ in T["concurrent"]),
                       ",".join(FINDINGS)),
        mc_instances=mc, design_counterexamples={k: bool(v) for k, v in design_findings.items()},
        replay_transitions_in_graphs=want_steps, replay_walks=res["replayed"], replay_steps_executed=res["steps"],
        replay_distinct_call_outcomes=res["distinct"], checkmemory_grid_points=len(grid),
        checkmemory_evaluations=resg["steps"], random_histories=resr["replayed"], random_steps=resr["steps"],
        concurrent_scenarios=resc["replayed"], concurrent_ops=resc["steps"], traces_recorded=ntraces,
        traces_accepted=accepted, traces_rejected=len(rejected), trace_states=tstates,
        trace_events=(resc.get("extra") or {}).get("trace_events", 0), divergences_L2=div, notes=ctx.notes[:10],
        rule=res.get("rule"))
    extension.finish_all(ctx, ext, cov)
    return {"level": "model_checking", "coverage": cov, "assumptions": [
        "bounded instances (<=3 connections/streams/spans, 2 peers, 1 protocol, 1 service, limits 0..4 and 'unlimited'); "
        "larger tables and values only through seeded random histories judged by the harness ledger",
        "callers never release more than they reserved through a handle (the generators enforce it)",
        "named-scope locks held across a direct reservation are not modelled (the concurrent instances explore more "
        "interleavings than the code allows, not fewer); scope GC is atomic in the model",
        "the connection rate limiter is disabled (WithConnRateLimiters); no metrics; SetLimit is not exercised",
    ]}


def validate_traces(ctx, resc, tag="c03"):
    traces = []
    for p in resc.get("traces") or []:
        if os.path.exists(p):
            traces += tracecheck.load_ndjson(p)
    if not traces:
        if resc.get("mismatches"):
            return 0, [], 0, 0
        raise MachineryError("the concurrent harness recorded no traces")
    verdicts, tstates = tracecheck.validate(ctx, "C03_Trace", "C03_Trace.cfg", traces, tag=tag, timeout=1800, batch=60)
    accepted = sum(1 for v in verdicts if v.accepted)
    rejected = [v for v in verdicts if not v.accepted]
    if accepted + len(rejected) < len(traces) and not rejected:
        raise MachineryError("trace validation left traces without a verdict")
    return accepted, rejected, tstates, len(traces)


def replay(ctx):
    """Re-execute one saved mismatch: its family's instance is regenerated (for the limit table), the
    recorded prefix of calls is executed alone under the ledger monitors (no model states)."""
    with open(ctx.replay) as f:
        m = json.load(f)
    fam = (m.get("cfg") or {}).get("fam")
    ops = m.get("prefix") or []
    if not fam or not ops or fam in ("overflow", "concurrent", "random"):
        raise MachineryError("this artefact is not a sequential replay (class %s): re-run `VERIF_SEED=%d ./check C03`"
                             % (m.get("class"), ctx.seed))
    tlc.stage(ctx)
    inv, props, _bad = FINDINGS.get(fam, (ALL_INV, "AllOrNothing PrioBound", None))
    r = tlc.run(ctx, "C03_MC", "gen_replay.cfg", cfg_text=cfg_text(fam, "TypeOK", "", emit=True), workers=1, timeout=1200,
                name="replay")
    conf = [o for t, o in r.prints if t == "VFCONF"][0]
    beh = ctx.sub("beh")
    graph.write_behaviours(os.path.join(beh, fam + ".jsonl"),
                           [{"init": None, "steps": [{"op": op, "state": None} for op in ops]}], {"conf": conf, "fam": fam})
    res = goenv.run_harness(ctx, PKG, "^TestVerifC03Replay$", inputs=beh, timeout=600)
    classify_mismatches(ctx, res, "replay")
    cov = evidence.mc_coverage(r.distinct, r.generated, res["replayed"], res.get("samples") or [], exhaustive=False,
                               replay_steps_executed=res["steps"])
    return {"level": "model_checking", "coverage": cov, "assumptions": ["single recorded history re-executed"]}


MANIFEST = {
    "technique": "TLA+ spec of the resource manager at per-scope-step grain (C03_Rcmgr.tla: every API call compiled to a script "
                 "of atomic reserve/release steps with the code's undo paths), exhaustive TLC on sequential and concurrent "
                 "bounded instances; every transition of the sequential graphs replayed on a real manager with a "
                 "statement-level ledger as oracle; checkMemory's arithmetic evaluated by TLC on a value grid and compared "
                 "with the real function; TLC trace validation (C03_Trace.tla) of executions recorded from 4 goroutines "
                 "through the manager's TraceReporter; seeded random limit tables and shared-object races audited at quiescence",
    "category": "model_checking",
    "text": "The manager's correctness is an accounting invariant over a DAG of scopes maintained by multi-step "
            "reserve/undo/re-parent procedures; failures need a refusal at the k-th edge, a specific order of Done/SetPeer/"
            "GC, or an interleaving of two calls. TLC enumerates every history of the bounded instances (refusal at each "
            "edge, every Done order, allow-list retry, per-subnet caps, GC) and, in the concurrent instances, every "
            "interleaving of two calls at per-scope granularity, checking Sum, Bounds, AllOrNothing, Reparent, Zero and "
            "Subnet. The binding executes each model transition on the real manager and compares every scope's Stat() "
            "with an independent ledger after every step, and validates recorded concurrent executions event by event.",
    "note": "Violations come only from the real manager's observable behaviour against the harness ledger (Stat() of every "
            "scope incl. allow-listed variants and per-peer sub-scopes read in-package, error classes, per-subnet open "
            "connections) or from TLC invariants over recorded reporter events that reproduce with the same seed. Model "
            "disagreement alone is an L2 divergence. Bounded instances; GC atomic; named-scope locks not modelled; "
            "rate limiter off. The two open known findings are re-derived on every run; the two repaired ones "
            "(GC forgetting reserved memory, unlimited-scope overflow) are regression instances (known_findings.d/C03.json).",
    "engines": [{"name": "C03rate_Limiter", "path": "spec/C03rate_Limiter.tla", "serves_properties": ["C03"], "kind_free_text": "extension engine (checks/C03rate.py, run as a part of C03): TLA+ specs of the per-subnet connection limiter composed with the x/rate token-bucket limiter as rcmgr's openConnection does (C03rate_Conn, C03rate_Limiter, C03rate_Conc); TLC exhaustive; every transition replayed on the real rate.Limiter, connLimiter and resource manager in virtual time with an independent integer ledger as oracle"},
                {"name": "C03_Rcmgr", "path": "spec/C03_Rcmgr.tla", "serves_properties": ["C03", "C04"],
                 "kind_free_text": "TLA+ spec + TLC exhaustive (sequential + concurrent) + full-transition replay + trace validation (C03_Trace.tla) + function grid (C03_MemGrid.tla)"}],
}
