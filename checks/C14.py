"""C14 - connection manager trims only eligible peers, lowest value first.

spec/C14_ConnMgr.tla: exhaustive TLC on bounded instances (statement clauses as invariants / action
properties over the set of results the code's sort key allows), every transition of the replay
instances executed on the real BasicConnMgr (mock clock, synctest bubble, stub connections), plus a
concurrent stress audited at quiescence against the harness ledger."""
import concurrent.futures as cf
import os

from lib import evidence, goenv, graph, tlc
from lib.common import MachineryError, classify_mismatches, log

PKG = "./p2p/net/connmgr"


def _fast_unescape(s, _slow=tlc._unescape):
    # TLC escapes only \" and \\ ; without a literal backslash a C-level replace does the job (the
    # per-character loop of lib/tlc.py costs ~65 us per printed edge)
    return s.replace('\\"', '"') if "\\\\" not in s else _slow(s)


tlc._unescape = _fast_unescape

INV = "INVARIANTS TypeOK Shape CountExact ValueExact"
PROPS = "PROPERTIES NoProtected NoGrace LowestFirst NothingBelowLow LeavesAtMostLow ForceTrimOrder TrimInert SelectInert"


def S(*names):
    return "{" + ", ".join('"%s"' % n for n in names) + "}"


def inst(name, peers, conns, tags=("t",), tagpeers=None, vals="{1, 2}", low=1, high=2, grace=1, maxage=1,
         silence=0, force=True, profile=1, prot2=(), prot1=(), decaymax=0, decayevery=1, split=False, maxburst=2,
         dkinds=("fixed1",), bkinds=("bounded",), deltas="{1}", scale="", uwindow=False):
    return name + ("@" + scale if scale else ""), {
        "Peers": S(*peers), "Conns": S(*conns), "Tags": S(*tags),
        "TagPeers": S(*(peers if tagpeers is None else tagpeers)), "Vals": vals, "Low": low, "High": high,
        "Grace": grace, "MaxAge": maxage, "Silence": silence, "HasForce": "TRUE" if force else "FALSE",
        "Profile": profile, "Prot2": S(*prot2), "Prot1": S(*prot1), "DecayMax": decaymax, "DecayEvery": decayevery,
        "Split": "TRUE" if split else "FALSE", "MaxBurst": maxburst,
        "DecayKinds": S(*dkinds), "BumpKinds": S(*bkinds), "Deltas": deltas, "UWindow": "TRUE" if uwindow else "FALSE"}


P3 = ("p1", "p2", "p3")


def replay_instances(ctx):
    """Instances whose whole state graph is printed and replayed (each <= ~1.5e5 transitions)."""
    v12 = "{1}" if ctx.quick else "{1, 2}"   # quick: the two widest graphs with one tag value only
    out = [
        # three equal connections: every tie of the sort is a real tie; values decide otherwise
        inst("order3", P3, ("p1a", "p2a", "p3a"), profile=1),
        # grace boundary (age = Grace exactly vs older), two connections on p1, background ticker
        inst("grace2", ("p1", "p2"), ("p1a", "p1b", "p2a"), grace=2, maxage=3, silence=2, profile=3),
        # protection with two tags next to two unprotected peers; streams/direction break the ties
        inst("protect3", P3, ("p1a", "p2a", "p3a"), tagpeers=("p1", "p2"), vals=v12, prot2=("p1",), prot1=("p3",),
             profile=2),
        # several tags per peer: value arithmetic of TagPeer/UntagPeer/UpsertTag
        inst("tags2", ("p1", "p2"), ("p1a", "p1b", "p2a"), tags=("t", "u"), vals=v12, profile=2),
        # low watermark 2, four peers (24 orders), one protectable
        inst("low2", ("p1", "p2", "p3", "p4"), ("p1a", "p2a", "p3a", "p4a"), tagpeers=("p1", "p2"), vals="{1}",
             low=2, high=3, prot1=("p3",), profile=3),
        # the decaying tag d (bump, remove, decay every second unit) next to a plain tag
        inst("decay2", ("p1", "p2"), ("p1a", "p1b", "p2a"), vals="{1}", decaymax=2, decayevery=2, profile=3),
        # every decay function x bump function (18 initial states): removal with a residual `after`, overshoot
        # below zero, value 0 with the tag kept, Close, Bump/Remove after Close
        inst("decayfn", ("p1", "p2"), ("p1a", "p2a"), tagpeers=("p1",), vals="{1}", decaymax=3, profile=3, prot1=("p1",),
             dkinds=("fixed2", "half", "residual", "zerokeep") if ctx.quick else
             ("fixed1", "fixed2", "half", "none", "residual", "zerokeep"),
             bkinds=("bounded", "overwrite") if ctx.quick else ("bounded", "unbounded", "overwrite"), deltas="{1, 3}"),
        # VALUE dimension at its ends: classes {-2..2} sent to {MinInt, -100, 0, 100, MaxInt} by the harness
        inst("extreme", P3, ("p1a", "p2a", "p3a"), tagpeers=("p1", "p2"), vals="<-MCValsExt", profile=1, scale="extreme"),
    ]
    if ctx.tier == "thorough":
        out += [
            inst("order3age", P3, ("p1a", "p2a", "p3a"), maxage=2, profile=2),
            inst("order3bg", P3, ("p1a", "p2a", "p3a"), silence=2, high=3, profile=3),
            inst("protect2x2", ("p1", "p2"), ("p1a", "p1b", "p2a", "p2b"), vals="{1}", low=2, high=3,
                 prot2=("p1", "p2"), profile=2),
            inst("conns2", P3, ("p1a", "p1b", "p2a", "p2b", "p3a"), tagpeers=("p1", "p2"), maxage=2, low=2, high=4,
                 profile=3),
        ]
    return out


def gate_instance(ctx):
    """Concurrent variant (a trim = Collect ... foreign steps ... Select): its graph yields the interference
    scripts the harness delivers at the callbacks the manager makes on the stub connections during a trim."""
    return inst("conc3", P3, ("p1a", "p2a", "p3a"), vals="{1}", prot1=("p3",), profile=1, split=True, maxburst=2)


FOREIGN = ("connected", "disconnected", "tag", "untag", "upsert", "protect", "unprotect")


def _gate_scripts(g, seed, cap):
    """Scripts from the graph of the concurrent variant.

    window script: prefix to a state where a trim runs, Collect, a burst of 1..2 foreign steps, Select;
    post script:   prefix, Collect, Select, one more step (delivered while the trim closes connections);
    force script:  prefix to a state, a burst of 1..2 foreign steps delivered inside ForceTrim.
    Only source states in which two connected candidates tie on the value are used (the comparison then
    looks at the connections: that is the callback the interference hangs on).  Kept in this order up to
    `cap`: every went-and-came-back burst, every burst of length 1, post scripts, the other length-2
    bursts on ONE peer, then a seeded sample of the remaining pairs."""
    import collections
    import random
    rnd = random.Random(seed)
    st = g.states
    on = lambda k: st[k][4][0]
    prev = {k: None for k in g.inits}
    dq = collections.deque(g.inits)
    while dq:
        u = dq.popleft()
        for ei in g.out.get(u, ()):
            sk, op, tk = g.edges[ei]
            if op["name"] in ("collect", "select") or on(tk) or tk in prev:
                continue
            prev[tk] = (u, ei)
            dq.append(tk)

    def prefix(k):
        path = []
        while prev[k] is not None:
            k, ei = prev[k]
            path.append(g.edges[ei][1])
        path.reverse()
        return path

    def ties(k, cands):
        vals = [st[k][0][p][3] for p in cands if st[k][0][p][0] == "c"]
        return len(vals) != len(set(vals))

    def mk(entry, pre, window, post, final, mayprune, upsert=None):
        return {"entry": entry, "prefix": pre, "window": [g.edges[e][1] for e in window], "upsert": upsert,
                "post": [g.edges[e][1] for e in post], "final": st[final], "mayprune": mayprune}

    def select_of(k):
        outs = [e for e in g.out.get(k, ()) if g.edges[e][1]["name"] == "select"]
        # the edge pruning every reachable temporary entry (what the code does unless the keys moved)
        outs.sort(key=lambda e: -len(g.edges[e][1]["pruned"]))
        return outs[0]

    back, single, post, same, other = [], [], [], [], []
    for sk, op0, wk in g.edges:
        if op0["name"] != "collect" or sk not in prev or not ties(sk, op0["cands"]):
            continue
        pre = prefix(sk)
        for e1 in g.out.get(wk, ()):
            o1 = g.edges[e1][1]
            if o1["name"] == "select":
                continue
            k1 = g.edges[e1][2]
            es = select_of(k1)
            single.append(mk("trim", pre, [e1], [], g.edges[es][2], g.edges[es][1]["mayprune"]))
            for e2 in g.out.get(k1, ()):
                o2 = g.edges[e2][1]
                if o2["name"] == "select":
                    continue
                es = select_of(g.edges[e2][2])
                sc = mk("trim", pre, [e1, e2], [], g.edges[es][2], g.edges[es][1]["mayprune"])
                if o1["name"] == "disconnected" and not o1["dup"] and o2["name"] == "connected" and o1["p"] == o2["p"]:
                    back.append(sc)
                elif o1.get("p") == o2.get("p"):
                    same.append(sc)
                else:
                    other.append(sc)
        es = select_of(wk)
        tk = g.edges[es][2]
        if op0["target"] > 0:
            for e3 in g.out.get(tk, ()):
                o3 = g.edges[e3][1]
                if o3["name"] in FOREIGN or o3["name"] == "trim":
                    post.append(mk("trim", pre, [], [e3], g.edges[e3][2], g.edges[es][1]["mayprune"]))
    # forced trim: no state effect, so a burst is a plain path of foreign steps
    for sk in sorted(prev):
        unprot = [p for p, f in st[sk][0].items() if f[0] != "n" and not f[5]]
        if not ties(sk, unprot) or st[sk][1] <= 1:
            continue
        pre = prefix(sk)
        for e1 in g.out.get(sk, ()):
            o1 = g.edges[e1][1]
            if o1["name"] not in FOREIGN:
                continue
            single.append(mk("force", pre, [e1], [], g.edges[e1][2], []))
            for e2 in g.out.get(g.edges[e1][2], ()):
                o2 = g.edges[e2][1]
                if o2["name"] in FOREIGN and o1.get("p") == o2.get("p"):
                    sc = mk("force", pre, [e1, e2], [], g.edges[e2][2], [])
                    if o1["name"] == "disconnected" and not o1["dup"] and o2["name"] == "connected":
                        back.append(sc)
                    else:
                        same.append(sc)
    # user callbacks: one foreign step on the SAME peer delivered inside UpsertTag's callback (possible only if
    # the segment lock is free there; the tag ledger gives the verdict, so no model state is needed)
    upcb = []
    for sk in sorted(prev):
        ups = [g.edges[e][1] for e in g.out.get(sk, ()) if g.edges[e][1]["name"] == "upsert"]
        if not ups:
            continue
        pre = prefix(sk)
        for up in ups:
            for e1 in g.out.get(sk, ()):
                o1 = g.edges[e1][1]
                if o1["name"] in ("connected", "disconnected", "tag", "untag") and o1.get("p") == up["p"]:
                    upcb.append(mk("upsert", pre, [e1], [], sk, [], upsert=up))
    rnd.shuffle(upcb)
    upcb = upcb[:max(200, cap // 4)]
    counts = {"upsert_callback": len(upcb), "went_and_came_back": len(back), "single": len(single), "post": len(post), "same_peer_pairs": len(same),
              "other_pairs": len(other)}
    scripts = list(back) + upcb
    for pool in (single, post, same, other):
        rnd.shuffle(pool)
        scripts += pool[:max(0, cap - len(scripts))]
    return scripts, counts


def _gate_instance(args):
    ctx, (name, consts), out_dir, cap = args
    import json
    cfg = tlc.subst_cfg("C14_MC.cfg", consts, replace=[
        ("INIT Init", "INIT MCInit"), ("VIEW View", "VIEW View\nACTION_CONSTRAINT EmitEdge")])
    r = tlc.run(ctx, "C14_MC", "gen_%s_edges.cfg" % name, cfg_text=cfg, workers=1, timeout=1500, name="ed" + name)
    if not r.ok:
        raise MachineryError("design-level failure in C14 %s: %s violated\n%s" % (name, r.violated, r.out[-2500:]))
    conf = [o for t, o in r.prints if t == "VFCONF"]
    g = graph.Graph(r.inits, r.edges)
    scripts, counts = _gate_scripts(g, ctx.seed, cap)
    if not counts["went_and_came_back"] or not counts["single"] or not counts["post"] or not counts["upsert_callback"]:
        raise MachineryError("vacuity guard: interference script families %s from %s" % (counts, name))
    with open(os.path.join(out_dir, name + ".jsonl"), "w") as f:
        f.write(json.dumps({"header": {"name": name, "conf": conf[0], "init": g.states[g.inits[0]]}}, sort_keys=True) + "\n")
        for i, sc in enumerate(scripts):
            sc["id"] = i
            f.write(json.dumps(sc, sort_keys=True) + "\n")
    return name, r.distinct, r.generated, g.n_edges(), len(scripts), counts, r.wall


# the concurrent variant with the UpsertTag callback window (UBegin / one foreign step / UEnd), checked only
UWIN = inst("uwin", P3, ("p1a", "p2a", "p3a"), vals="{1}", prot1=("p3",), profile=1, split=True, maxburst=2, uwindow=True)


def exhaustive_instances(ctx):
    """Bigger instances checked exhaustively only (not printed)."""
    if ctx.tier == "thorough":
        return [
            inst("big-a", P3, ("p1a", "p1b", "p2a", "p3a"), maxage=2, prot2=("p1", "p2"), prot1=("p3",), profile=3),
            inst("big-b", P3, ("p1a", "p1b", "p2a", "p2b", "p3a"), maxage=1, silence=2, low=2, high=3,
                 prot2=("p1",), prot1=("p2",), profile=2),
            inst("big-c", P3, ("p1a", "p2a", "p3a"), maxage=1, decaymax=2, decayevery=2, prot1=("p1",), profile=2),
            UWIN,
        ]
    return [inst("big-q", P3, ("p1a", "p1b", "p2a", "p3a"), maxage=1, prot2=("p1",), prot1=("p2",), profile=3), UWIN]


def _exhaustive(args):
    ctx, (name, consts), workers = args
    cfg = tlc.subst_cfg("C14_MC.cfg", consts)
    r = tlc.run(ctx, "C14_MC", "gen_%s_mc.cfg" % name, cfg_text=cfg, workers=workers, timeout=1500, name="mc" + name)
    if not r.ok:
        raise MachineryError("design-level failure in C14 %s: %s violated\n%s" % (name, r.violated, r.out[-2500:]))
    return name, r.distinct, r.generated, r.wall


def _reach(args):
    """Vacuity guard on an exhaustive-only instance: the probe (expected to be violated) must be."""
    ctx, (name, consts), probe, workers = args
    cfg = tlc.subst_cfg("C14_MC.cfg", consts, replace=[(INV, "INVARIANTS TypeOK"), (PROPS, "PROPERTIES " + probe)])
    r = tlc.run(ctx, "C14_MC", "gen_%s_%s.cfg" % (name, probe), cfg_text=cfg, workers=workers, timeout=600,
                name="reach" + name + probe)
    if r.ok or r.violated != probe:
        raise MachineryError("vacuity guard: %s is not reachable in the exhaustive instance %s" % (probe, name))
    return probe


def _edge_stats(edges):
    st = {"decay_visit": 0, "bump": 0, "trim": 0, "trim_close": 0, "trim_tie": 0, "trim_grace_skip": 0, "trim_prot_skip": 0, "bg_trim": 0,
          "force": 0, "force_prot": 0, "prune": 0, "dup_notif": 0, "grace_boundary": 0}
    for e in edges:
        op = e["op"]
        n = op["name"]
        if n in ("connected", "disconnected") and op.get("dup"):
            st["dup_notif"] += 1
        if n == "bump":
            st["bump"] += 1
        if n == "tick" and op.get("decay"):
            st["decay_visit"] += 1
        if n == "forcetrim":
            st["force"] += 1
            if any(set(s) & set(op["info"]["prot"]) for s in op["allowed"]):
                st["force_prot"] += 1
        if n == "trim" or (n == "tick" and op.get("bg")):
            st["trim"] += 1
            if n == "tick":
                st["bg_trim"] += 1
            closing = any(len(s) for s in op["allowed"])
            st["trim_close"] += closing
            st["trim_tie"] += len(op["allowed"]) > 1
            st["prune"] += bool(op.get("pruned"))
            if closing and op["info"]["grace"]:
                st["trim_grace_skip"] += 1
            if closing and op["info"]["prot"]:
                st["trim_prot_skip"] += 1
    return st


def _cfg(consts, replace):
    consts = dict(consts)
    if str(consts["Vals"]).startswith("<-"):
        replace = list(replace) + [("Vals = {1, 2}", "Vals <- " + consts.pop("Vals")[2:])]
    return tlc.subst_cfg("C14_MC.cfg", consts, replace=replace)


def _replay_instance(args):
    """One run: all invariants and properties AND every transition printed (VIEW without op)."""
    ctx, (name, consts), beh_dir = args
    name, _, scale = name.partition("@")
    cfg = _cfg(consts, [("INIT Init", "INIT MCInit"), ("VIEW View", "VIEW View\nACTION_CONSTRAINT EmitEdge")])
    r = tlc.run(ctx, "C14_MC", "gen_%s_edges.cfg" % name, cfg_text=cfg, workers=1, timeout=1500, name="ed" + name)
    if not r.ok:
        raise MachineryError("design-level failure in C14 %s: %s violated\n%s" % (name, r.violated, r.out[-2500:]))
    conf = [o for t, o in r.prints if t == "VFCONF"]
    if not conf:
        raise MachineryError("no VFCONF line for " + name)
    conf[0]["scale"] = scale
    g = graph.Graph(r.inits, r.edges)
    if g.n_edges() == 0:
        raise MachineryError("no edges printed for " + name)
    stats = _edge_stats([{"op": e[1]} for e in g.edges])
    walks = g.covering_walks(seed=ctx.seed, max_len=60)
    if ctx.tier == "thorough":   # a second covering set: the same transitions reached along other paths
        walks += g.covering_walks(seed=ctx.seed + 7919, max_len=90)
    steps = sum(len(w["steps"]) for w in walks)
    graph.write_behaviours(os.path.join(beh_dir, name + ".jsonl"), walks,
                           {"name": name, "conf": conf[0], "edges": g.n_edges(), "states": g.n_states(),
                            "state_layout": "[{peer: [kind n|t|c, conns, tags(-99 absent), value, age, protection tags, decaying tag d(-99 absent)]}, connCount, ticker phase, decay phase, trim in progress, [decay fn, bump fn, closed]]"})
    return name, r.distinct, r.generated, g.n_edges(), len(walks), steps, stats, r.wall


def _harness(ctx, test, inputs):
    return goenv.run_harness(ctx, PKG, test, inputs=inputs, timeout=1500)


def run(ctx):
    if ctx.replay:
        raise MachineryError("C14 artefacts hold the failing prefix and the instance; re-run `VERIF_SEED=<seed in file name> ./check C14`")
    tlc.stage(ctx)
    beh_dir = ctx.sub("beh")
    gate_dir = ctx.sub("gate")
    rinsts = replay_instances(ctx)
    einsts = exhaustive_instances(ctx)

    # at most 4 TLC workers at any time: exhaustive runs one after the other with 2 workers, the printing runs
    # take 1 each in two lanes.  The stress needs no TLC
    # output, so it (and with it the build of the test binary) runs meanwhile in its own process; the
    # interference scenarios run there as soon as their scripts exist.
    ew, lanes = 2, 2
    with cf.ProcessPoolExecutor(max_workers=1) as pe, cf.ProcessPoolExecutor(max_workers=lanes) as pr, \
            cf.ProcessPoolExecutor(max_workers=1) as ps:
        fs = ps.submit(_harness, ctx, "^TestVerifC14Stress$", None)
        fo = ps.submit(_harness, ctx, "^TestVerifC14Overlap$", None)
        fd = ps.submit(_harness, ctx, "^TestVerifC14Decay$", None)
        fx = ps.submit(_harness, ctx, "^TestVerifC14Extremes$", None)
        fe = [pe.submit(_exhaustive, (ctx, i, ew)) for i in einsts]
        # a trim that skips a protected peer and closes another one / a forced trim closing a protected peer
        fg = [pe.submit(_reach, (ctx, einsts[0], probe, ew)) for probe in ("ReachProtSkip", "ReachForceProt")]
        fgate = pr.submit(_gate_instance, (ctx, gate_instance(ctx), gate_dir, 12000 if ctx.quick else 10 ** 9))
        # the last two printing runs queue behind the exhaustive run (its workers are free by then)
        fr = [pr.submit(_replay_instance, (ctx, i, beh_dir)) for i in rinsts[:-2]]
        fr += [pe.submit(_replay_instance, (ctx, i, beh_dir)) for i in rinsts[-2:]]
        gres = fgate.result()
        log("C14: interference scripts done at %.1fs" % ctx.wall())
        fgh = ps.submit(_harness, ctx, "^TestVerifC14Gates$", gate_dir)
        eres = [f.result() for f in fe]
        guards = [f.result() for f in fg]
        log("C14: exhaustive done at %.1fs" % ctx.wall())
        rres = [f.result() for f in fr]
        log("C14: graphs and walks done at %.1fs" % ctx.wall())
        stress = fs.result()
        overlap = fo.result()
        decay = fd.result()
        extremes = fx.result()
        gates = fgh.result()
        log("C14: stress and interference scenarios done at %.1fs" % ctx.wall())

    states = sum(r[1] for r in eres) + sum(r[1] for r in rres) + gres[1]
    trans = sum(r[2] for r in eres) + sum(r[2] for r in rres) + gres[2]
    edges_total = sum(r[3] for r in rres)
    n_walks = sum(r[4] for r in rres)
    tot = {}
    for r in rres:
        for k, v in r[6].items():
            tot[k] = tot.get(k, 0) + int(v)
    # vacuity guards on what is actually replayed
    for k in ("trim_close", "trim_tie", "trim_grace_skip", "trim_prot_skip", "bg_trim", "force_prot", "prune",
              "dup_notif", "bump", "decay_visit"):
        if not tot.get(k):
            raise MachineryError("vacuity guard: no replayed transition of kind %s" % k)

    div = classify_mismatches(ctx, stress, "stress")
    div += classify_mismatches(ctx, overlap, "overlap")
    div += classify_mismatches(ctx, decay, "decay")
    div += classify_mismatches(ctx, extremes, "extremes")
    if not extremes["mismatches"] and (extremes["replayed"] < 100 or not (extremes.get("extra") or {}).get("trims_closing")):
        raise MachineryError("vacuity guard: extreme-value histories %s" % extremes.get("extra"))
    dx = decay.get("extra") or {}
    if not decay["mismatches"] and not (dx.get("removals_with_residual") and dx.get("racing_steps") and dx.get("closes")):
        raise MachineryError("vacuity guard: decaying-tag histories %s" % dx)

    div += classify_mismatches(ctx, gates, "gates")
    gx = gates.get("extra") or {}
    if not gates["mismatches"] and not (gx.get("went_and_came_back_realised") and gx.get("runs_delivered_trim")
                                        and gx.get("runs_delivered_force")):
        raise MachineryError("vacuity guard: interference scenarios not realised: %s" % gx)
    res = goenv.run_harness(ctx, PKG, "^TestVerifC14Replay$", inputs=beh_dir, timeout=1500)
    div += classify_mismatches(ctx, res, "replay")
    if not res["mismatches"] and res["distinct"] < edges_total:
        raise MachineryError("replay executed %d distinct transitions of %d" % (res["distinct"], edges_total))
    log("C14: interference scripts %s -> %s" % (gres, gx))
    log("C14: exhaustive %s; replay %s; %d states, %d transitions generated, %d replay transitions, %d walks, %d steps; stress %d rounds; L2 divergences %d; guards %s"
        % ([(r[0], r[1], r[2], r[3]) for r in eres], [(r[0], r[1], r[3], r[7]) for r in rres], states, trans,
           edges_total, n_walks, res["steps"], stress["replayed"], div, guards))
    cov = evidence.mc_coverage(
        states, trans, res["replayed"] + stress["replayed"] + gates["replayed"], res.get("samples") or [], exhaustive=True,
        checker_cmd="tlc C14_MC.tla (template C14_MC.cfg instantiated: exhaustive %s; printed+replayed %s)" % (
            ",".join(r[0] for r in eres), ",".join(r[0] for r in rres)),
        instances=len(eres) + len(rres), exhaustive_only={r[0]: {"states": r[1], "transitions": r[2]} for r in eres},
        replay_instances={r[0]: {"states": r[1], "transitions": r[3], "walks": r[4]} for r in rres},
        replay_transitions_in_graphs=edges_total, replay_steps_executed=res["steps"],
        replay_distinct_transitions_executed=res["distinct"], replay_transition_kinds=tot,
        replay_extra=res.get("extra"),
        interference={"instance": gres[0], "states": gres[1], "transitions": gres[3], "scripts": gres[4],
                      "script_families_available": gres[5], "runs": gates["replayed"], "runs_delivered": gates["distinct"],
                      "detail": gx, "rule": gates.get("rule")},
        decaying_tags={"histories": decay["replayed"], "steps": decay["steps"], "detail": dx, "rule": decay.get("rule")},
        extreme_values={"histories_completed": extremes["replayed"], "steps": extremes["steps"],
                        "detail": extremes.get("extra"), "rule": extremes.get("rule")},
        overlapping_trims={"rounds": overlap["replayed"], "detail": overlap.get("extra"), "rule": overlap.get("rule")},
        stress_rounds=stress["replayed"], stress_operations=stress["steps"],
        divergences_L2=div, notes=ctx.notes[:10], rule=res.get("rule"), stress_rule=stress.get("rule"))
    return {"level": "model_checking", "coverage": cov, "assumptions": [
        "value dimension: the model's tag values are small classes; the instance `extreme` maps the classes {-2..2} order-preservingly to {MinInt, -100, 0, 100, MaxInt}; sums of several extreme tags are explored by ledger-driven histories (TestVerifC14Extremes); a peer's value is the Go int sum of its tags, so the ledger's totals wrap around exactly like int addition and are compared with <, never subtracted",
        "tag totals are checked against a harness-owned tag ledger after every step (plain + decaying, operations before Connected included); only the presence of an EMPTY early-tag entry and the pruning of an expired unprotected one by a trim are left free (L2)",
        "bounded instances: <=4 peers, <=2 connections per peer, <=2 tag names with values {1,2}, <=2 protection tags, grace <=2 clock units, watermarks low<=2/high<=4",
        "a trim only returns connections to close; the stub connections record Close/CloseWithError and the Disconnected notification is a separate step (as in the swarm, where it is asynchronous)",
        "ForceTrim is documented to ignore the grace period: the grace clause is applied to TrimOpenConns and the background trim only; for ForceTrim the order clause (protected only after all unprotected, lowest value first inside a class) is checked",
        "closing MORE peers than the sort key requires is not excluded by the statement: reported as L2 divergence (membership), not as a violation",
        "model: one decaying tag with the decay functions {DecayFixed(1), DecayFixed(2), DecayLinear(0.5), DecayNone, custom (after#0, rm), custom (0, keep)} x bump functions {BumpSumBounded, BumpSumUnbounded, BumpOverwrite}, Close included, the decayer's resolution equal to the clock unit; several decaying tags per peer, DecayExpireWhenInactive and commands racing a decay tick are covered by the ledger-based TestVerifC14Decay (seeded histories), not by the model",
        "concurrency: (a) interference scripts generated from the two-step (Collect/Select) variant of the spec, delivered by another goroutine at every Stat()/RemotePeer()/CloseWithError() callback of a trim; bursts of at most 2 foreign calls; a burst step on a peer whose segment lock the parked trim holds cannot be delivered at that callback; two overlapping trims' collection/selection windows are not interleaved (only a second trim while the first closes connections); (b) seeded stress audited at quiescence (counts, tag totals, protection) plus the never-closed clauses for peers protected / inside grace throughout; no linearisation check of intermediate states",
    ]}


MANIFEST = {
    "technique": "TLA+ spec (C14_ConnMgr.tla) of the connection manager's tracking, tagging, protection and both trim algorithms, model-checked exhaustively with TLC on bounded instances; every transition of the replay instances executed on the real BasicConnMgr (mock clock inside a synctest bubble, stub connections) with the public view compared after each step and every trim result checked against the statement's clauses and for membership in the model's allowed results; concurrent stress audited at quiescence",
    "category": "model_checking",
    "text": "The spec gives a trim's result as the SET of peer sets the code may close (all orders consistent with the comparison function: temporary entries, value, has-streams, inbound, stream count), so ties are free. TLC checks on every reachable state of the bounded instances that no allowed result touches a protected or in-grace peer, that no kept eligible peer has a smaller value than a closed one, that nothing is closed at or below the low watermark and at most low eligible connections are left otherwise, that the count equals the tracked connections and the cached value the sum of the tags, and the forced trim's order clause. Covering walks over the complete printed state graphs (every source state x every call with every argument, including duplicate notifications, the exact grace boundary, several protection tags, the background ticker, decaying-tag bumps and decay rounds) drive the real manager; the statement's trim clauses are evaluated on the real closed set from a ledger the harness keeps itself.",
    "note": "Trusted: TLC, the harness ledger and projection (GetInfo, GetTagInfo, IsProtected: public API only; the unexported logger is silenced), testing/synctest for waiting until the background goroutine is idle. Bounded to the listed instance sizes. Over-trimming, the pruning policy for temporary entries, FirstSeen and Unprotect/IsProtected results are L2 only (a walk continues after an L2 disagreement with the ledger-based monitors, so an observable consequence still fails the check). One decaying tag (six decay x three bump functions, Close) is modelled; several decaying tags per peer are covered by a ledger-based seeded test that applies the (after, rm) contract itself. ForceTrim is exempt from the grace clause (documented behaviour). The concurrent part is a seeded stress with a quiescence audit, not a linearisability proof.",
    "engines": [{"name": "C14_ConnMgr", "path": "spec/C14_ConnMgr.tla", "serves_properties": ["C14"], "kind_free_text": "TLA+ spec + TLC exhaustive + full-transition replay + concurrent stress audit"}],
}
