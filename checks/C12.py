"""C12 - limited (relayed) connections are never mistaken for direct ones.
Swarm level: spec/C12_Limited.tla (NewStream / waitForDirectConn / waiter list, exhaustive) and the
observable-level spec/C12_Obs.tla against which TLC validates executions of a real Swarm in virtual time.
Hole punching: spec/C12_HolePunch.tla + replay on the real holePuncher with a fake host (if built)."""
import importlib
import os

from lib import evidence, goenv, tlc, tracecheck
from lib.common import HarnessCrash, MachineryError, classify_mismatches, log, save_replay

PKG = "./p2p/net/swarm"
SPECDIR = os.path.join(os.path.dirname(os.path.dirname(os.path.abspath(__file__))), "spec")


def obs_class(v):
    e = v.next_event or {}
    ev = e.get("ev", "rejected")
    if ev == "ns_ret":
        return "newstream-%s" % e.get("res")
    if ev == "probe":
        return "connectedness-probe"
    if ev == "tdial_start":
        return "relay-address-dialed-for-direct"
    if ev == "dial_ret":
        return "force-direct-dial-returned-limited"
    return "obs-" + ev


def run(ctx):
    thorough = ctx.tier == "thorough"
    tlc.stage(ctx)
    mc, states, trans = [], 0, 0
    if os.path.exists(os.path.join(SPECDIR, "C12_MC.cfg")):
        for x in (["A", "B"] if thorough else ["A"]):
            cfg = tlc.subst_cfg("C12_MC.cfg", replace=[("X_", x + "_")])
            r = tlc.run(ctx, "C12_MC", "gen_%s.cfg" % x, cfg_text=cfg, workers=4, timeout=1500, name="mc" + x)
            if not r.ok:
                raise MachineryError("design-level failure in C12 %s: %s\n%s" % (x, r.violated, r.out[-1500:]))
            states += r.distinct
            trans += r.generated
            mc.append({"instance": x, "distinct": r.distinct, "generated": r.generated})
    iters = 3000 if thorough else 300
    res = goenv.run_harness(ctx, PKG, "^TestVerifC12Swarm$", timeout=1500, env={"VERIF_C12_ITERS": iters})
    div = classify_mismatches(ctx, res, "swarm")
    traces = []
    for p in res.get("traces") or []:
        if os.path.exists(p):
            traces += tracecheck.load_ndjson(p)
    if not traces:
        raise MachineryError("the C12 harness recorded no traces")
    verdicts, _ = tracecheck.validate(ctx, "C12_Obs", "C12_Obs.cfg", traces, tag="c12", timeout=900, batch=250)
    acc = sum(1 for v in verdicts if v.accepted)
    rej = [v for v in verdicts if not v.accepted]
    classes = {}
    for v in rej:
        cls = obs_class(v)
        classes[cls] = classes.get(cls, 0) + 1
        path = save_replay(ctx, "swarm-trace-seed%d-%s.json" % (ctx.seed, v.name), v.as_dict())
        ctx.violations.append({"cls": cls, "replay": path, "what": "trace %s is not a behaviour of C12_Obs at event %d/%d: %s" % (
            v.name, v.matched, v.length, v.next_event)})
    # vacuity: the interesting outcomes occurred
    kinds = {}
    for _n, _r, evs in traces:
        for e in evs:
            if e.get("ev") == "ns_ret":
                k = e.get("res") + ("-limited" if e.get("limited") else "")
                kinds[k] = kinds.get(k, 0) + 1
            if e.get("ev") == "probe":
                kinds["probe-" + e.get("st")] = kinds.get("probe-" + e.get("st"), 0) + 1
    for need in ("stream", "stream-limited", "ctx", "probe-L", "probe-C", "probe-N"):
        if not kinds.get(need) and not ctx.violations:
            raise MachineryError("vacuous C12 run: no %s outcome in %d scenarios" % (need, len(traces)))
    hp = holepunch_part(ctx, thorough)
    log("C12: MC %d states; scenarios %d; traces %d accepted, %d rejected %s; outcomes %s; holepunch %s"
        % (states, res["replayed"], acc, len(rej), classes, kinds, hp.get("summary")))
    cov = evidence.mc_coverage(
        max(states + hp.get("states", 0), 1), max(trans + hp.get("transitions", 0), 1), acc + hp.get("replayed", 0),
        (res.get("samples") or []) + hp.get("samples", []), exhaustive=bool(mc),
        checker_cmd="tlc C12_MC.tla; tlc C12_Obs.tla on recorded swarm traces",
        mc_instances=mc, scenarios=res["replayed"], events=res["steps"], traces_accepted=acc, traces_rejected=len(rej),
        outcome_kinds=kinds, holepunch=hp.get("summary"), divergences_L2=div, rule=res.get("rule"))
    return {"level": "model_checking", "coverage": cov, "assumptions": [
        "virtual time, scripted transports, stub connections; one remote peer per scenario",
        "connectedness probes are taken at settled instants (synctest.Wait) and compared with the raw connections that are open",
    ]}


def holepunch_part(ctx, thorough):
    """The hole-punching clauses live in checks/C12hp.py when that part is built."""
    try:
        mod = importlib.import_module("checks.C12hp")
    except ImportError:
        return {"summary": "not built"}
    return mod.run_part(ctx, thorough)


MANIFEST = {
    "technique": "observable-level TLA+ spec C12_Obs (guards = the statement's swarm clauses) validated by TLC against executions of a real Swarm under virtual time with scripted relay/direct transports; design-level TLA+ model of NewStream/waitForDirectConn/waiter list checked exhaustively",
    "category": "model_checking",
    "text": "Whether a stream may ride a limited connection, whether a waiter is woken, cancelled or left behind, and what connectedness is reported depend on the order in which limited and direct connections appear and disappear relative to callers and their deadlines; scenarios choose those instants in virtual time and every recorded execution is checked clause by clause.",
    "note": "Scenarios are sampled. The waiter-list residue is read in-package (directConnNotifs) because the statement's 'waits ... and fails' clause needs it. Hole-punching clauses: see evidence key holepunch.",
    "engines": [{"name": "C12_Obs", "path": "spec/C12_Obs.tla", "serves_properties": ["C12"], "kind_free_text": "observable-level TLA+ trace spec + TLC trace validation"}],
}
