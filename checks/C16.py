"""C16 - AutoNAT v2 server: no amplification, rate limits obeyed.

spec/C16_RateLimiter.tla (part a) and spec/C16_AutoNAT.tla (part b); exhaustive TLC on every bounded
instance, every transition of the printed graphs replayed on the real rateLimiter / the real server
(fake dialer host, scripted stream, testing/synctest), plus long seeded arrival patterns and
concurrent-request schedules under the same L1 monitors."""
import collections
import concurrent.futures as cf
import os
import random
import threading

from lib import evidence, goenv, graph, tlc
from lib.common import MachineryError, classify_mismatches, log

PKG = "./p2p/protocol/autonatv2"

INV_A = "INVARIANTS TypeOK WindowGlobal WindowPeer WindowDialData ConcurrentCap Consistency"
PROP_A = "PROPERTIES RefusalJustified"
INV_B = "INVARIANTS TypeOK AskedRange"
PROP_B = "PROPERTIES DialOnlyRequested DataBeforeDial RefuseUndialable NoDialUnlessOK"


def lim_instances(ctx):
    """(peers, RPM, PerPeerRPM, DialDataRPM, MaxConc, W, replay?)"""
    out = [(2, 1, 1, 1, 1, 3, True), (2, 2, 1, 1, 1, 3, True), (2, 2, 2, 1, 2, 3, True), (2, 3, 2, 1, 2, 3, True),
           (3, 2, 1, 1, 1, 2, True)]
    if ctx.tier == "thorough":
        out += [(2, 3, 2, 2, 2, 3, True), (2, 3, 2, 2, 2, 4, False), (3, 3, 2, 1, 2, 3, False), (2, 4, 3, 2, 2, 4, False)]
    return out


def srv_instances(ctx):
    """(MaxAddrs, MaxLen, RPM, DDRPM, MaxParts)"""
    out = [(2, 3, 3, 1, 1)]
    if ctx.tier == "thorough":
        out = [(2, 3, 3, 1, 2), (3, 4, 2, 2, 1)]
    for _a, _l, rpm, ddrpm, _p in out:
        # the server model lets time pass only by whole minutes; a walk accumulates at most one stream timeout
        # (15 s + 1) per dial-data grant and one dial wait (<= 3 s) per grant of virtual time between two Minute steps
        if ddrpm * 16 + rpm * 3 >= 60:
            raise MachineryError("server instance RPM=%d DDRPM=%d lets a walk outlive the one-minute window" % (rpm, ddrpm))
    return out


INV_C = "INVARIANTS TypeOK LedgerConcurrent LedgerGlobal LedgerPeer LedgerDialData Books"


def int_instances(ctx):
    """(slots, RPM, PerPeerRPM, DDRPM, Cap) of the interleaving model.  Virtual time of a walk between two Minute
    steps: one dial wait (3 s) per served dial-data request; parked requests have a 15 s stream deadline."""
    out = [(("a1", "a2", "b1"), 3, 2, 1, 1), (("a1", "a2", "a3", "b1"), 4, 3, 1, 2), (("a1", "a2", "b1", "b2"), 4, 2, 2, 1)]
    if ctx.tier == "thorough":
        out.append((("a1", "a2", "a3", "b1", "b2"), 5, 3, 2, 2))
    for _s, _r, _p, ddrpm, _c in out:
        if ddrpm * 3.1 >= 14:
            raise MachineryError("interleaving instance lets parked requests hit the stream deadline")
    return out


def _int(args):
    ctx, inst, beh_dir = args
    slots, rpm, ppr, ddrpm, cap = inst
    consts = {"Slots": "{%s}" % ", ".join('"%s"' % x for x in slots), "RPM": rpm, "PerPeerRPM": ppr, "DDRPM": ddrpm, "Cap": cap}
    tag = "S%dR%dp%dd%dc%d" % (len(slots), rpm, ppr, ddrpm, cap)
    r1 = tlc.run(ctx, "C16_MCInterleave", "gen_int_%s_mc.cfg" % tag, cfg_text=tlc.subst_cfg("C16_MCInterleave.cfg", consts),
                 workers=1, timeout=1500, name="mci" + tag)
    if not r1.ok:
        raise MachineryError("design-level failure in C16 interleaving %s: %s violated\n%s" % (tag, r1.violated, r1.out[-1500:]))
    # check-then-act variants: separating a limiter check from its record must break the ledger invariants
    for split, inv in (("dd", "LedgerDialData"), ("accept", None)):
        c = dict(consts)
        c["Split"] = '"%s"' % split
        rv = tlc.run(ctx, "C16_MCInterleave", "gen_int_%s_%s.cfg" % (tag, split), workers=1, timeout=600, name="mci" + tag + split,
                     cfg_text=tlc.subst_cfg("C16_MCInterleave.cfg", c, replace=[(INV_C, "INVARIANTS LedgerConcurrent LedgerGlobal LedgerPeer LedgerDialData")]))
        if rv.ok or (inv and rv.violated != inv) or not str(rv.violated).startswith("Ledger"):
            raise MachineryError("variant guard: Split=%s does not break the ledger invariants of %s (%s)" % (split, tag, rv.violated))
    r2 = tlc.run(ctx, "C16_MCInterleave", "gen_int_%s_edges.cfg" % tag, workers=1, timeout=1500, name="edi" + tag,
                 cfg_text=tlc.subst_cfg("C16_MCInterleave.cfg", consts, replace=[
                     ("INIT Init", "INIT MCInit"), ("VIEW View", "VIEW ViewNoGhost\nACTION_CONSTRAINT EmitEdge"), (INV_C, "INVARIANTS TypeOK")]))
    if not r2.ok:
        raise MachineryError("edge run failed for interleaving %s: %s" % (tag, r2.violated))
    g = graph.Graph(r2.inits, r2.edges)
    if g.n_edges() == 0:
        raise MachineryError("no edges printed for interleaving " + tag)
    kinds = set((op["name"], op.get("kind", ""), op.get("resp", "")) for _s, op, _t in g.edges)
    # overlapping dial-data requests must occur: a send(other) from a state where another slot reads dial data
    for sk, op, _t in g.edges:
        if op["name"] == "send" and op.get("kind") == "other" and '"data"' in sk:
            kinds.add(("send-other-while-another-reads-dial-data", "", op.get("resp")))
    walks = _fast_walks(g, ctx.seed, 40)
    graph.write_behaviours(os.path.join(beh_dir, "int_%s.jsonl" % tag), walks,
                           {"Slots": list(slots), "RPM": rpm, "PerPeerRPM": ppr, "DDRPM": ddrpm, "Cap": cap,
                            "edges": g.n_edges(), "states": g.n_states()})
    return ("int", r1.distinct, r1.generated, g.n_edges(), kinds)


def _fast_walks(g, seed, max_len, budget=1000):
    """Covering walks (every edge at least once) in O(E * depth): BFS-tree prefix to a state with uncovered
    out-edges, then greedy through uncovered edges with a bounded look-ahead.  Same output format as
    graph.Graph.covering_walks, which is quadratic on graphs of this size (23 s for 75 k edges)."""
    rnd = random.Random(seed)
    parent = {}
    dq = collections.deque()
    for i in g.inits:
        parent[i] = None
        dq.append(i)
    order = []
    while dq:
        u = dq.popleft()
        order.append(u)
        for ei in g.out.get(u, ()):
            v = g.edges[ei][2]
            if v not in parent:
                parent[v] = (u, ei)
                dq.append(v)
    unc = {k: list(v) for k, v in g.out.items()}
    for k in sorted(unc):
        rnd.shuffle(unc[k])
    covered = set()
    walks = []

    def live(u):
        l = unc.get(u)
        while l and l[-1] in covered:
            l.pop()
        return bool(l)

    def path_to(u):
        p = []
        while parent[u] is not None:
            pu, pe = parent[u]
            p.append(pe)
            u = pu
        p.reverse()
        return u, p

    def near(u, room):
        prev = {u: None}
        q = collections.deque([(u, 0)])
        n = 0
        while q and n < budget:
            x, d = q.popleft()
            n += 1
            if d >= room:
                continue
            for ei in g.out.get(x, ()):
                v = g.edges[ei][2]
                if v in prev:
                    continue
                prev[v] = (x, ei)
                if live(v):
                    p = []
                    while prev[v] is not None:
                        px, pe = prev[v]
                        p.append(pe)
                        v = px
                    p.reverse()
                    return p
                q.append((v, d + 1))
        return None

    for u in reversed(order):
        while live(u):
            start, walk = path_to(u)
            covered.update(walk)
            cur = u
            while len(walk) < max_len:
                if live(cur):
                    ei = unc[cur].pop()
                    covered.add(ei)
                    walk.append(ei)
                    cur = g.edges[ei][2]
                    continue
                p = near(cur, min(6, max_len - len(walk) - 1))
                if not p:
                    break
                covered.update(p)
                walk.extend(p)
                cur = g.edges[p[-1]][2]
            walks.append(g._mk(start, walk))
    if len(covered) != g.n_edges():
        raise MachineryError("covering walks miss %d of %d transitions" % (g.n_edges() - len(covered), g.n_edges()))
    return walks


def _lim_consts(inst):
    np_, rpm, ppr, ddr, conc, w, _replay = inst
    peers = ["p%d" % (i + 1) for i in range(np_)]
    consts = {"Peers": "{%s}" % ", ".join('"%s"' % p for p in peers), "RPM": rpm, "PerPeerRPM": ppr,
              "DialDataRPM": ddr, "MaxConc": conc, "W": w}
    return peers, consts, "P%dR%dp%dd%dc%dW%d" % inst[:6]


def _lim_mc(args):
    """Exhaustive check of one limiter instance: window bounds over the ghost log, cap, consistency, justified refusals."""
    ctx, inst, workers = args
    _peers, consts, tag = _lim_consts(inst)
    cfg = tlc.subst_cfg("C16_MC.cfg", consts)
    r1 = tlc.run(ctx, "C16_MC", "gen_lim_%s_mc.cfg" % tag, cfg_text=cfg, workers=workers, timeout=1500, name="mcl" + tag)
    if not r1.ok:
        raise MachineryError("design-level failure in C16 limiter %s: %s violated\n%s" % (tag, r1.violated, r1.out[-1500:]))
    return ("lim_mc", r1.distinct, r1.generated, r1.wall)


def _lim_edges(args):
    """The same instance without the ghost log in the state identity, printing every transition."""
    ctx, inst, beh_dir = args
    peers, consts, tag = _lim_consts(inst)
    np_, rpm, ppr, ddr, conc, w, _replay = inst
    cfg2 = tlc.subst_cfg("C16_MC.cfg", consts, replace=[
        ("INIT Init", "INIT MCInit"),
        ("VIEW View", "VIEW ViewNoGhost\nACTION_CONSTRAINT EmitEdge"),
        (INV_A, "INVARIANTS TypeOK"), (PROP_A, "")])
    r2 = tlc.run(ctx, "C16_MC", "gen_lim_%s_edges.cfg" % tag, cfg_text=cfg2, workers=1, timeout=1500, name="edl" + tag)
    if not r2.ok:
        raise MachineryError("edge run failed for limiter %s: %s" % (tag, r2.violated))
    g = graph.Graph(r2.inits, r2.edges)
    if g.n_edges() == 0:
        raise MachineryError("no edges printed for limiter " + tag)
    kinds = set((op["name"], op.get("why", "")) for _s, op, _t in g.edges)
    walks = _fast_walks(g, ctx.seed, 80)
    graph.write_behaviours(os.path.join(beh_dir, "lim_%s.jsonl" % tag), walks,
                           {"Peers": peers, "RPM": rpm, "PerPeerRPM": ppr, "DialDataRPM": ddr, "MaxConc": conc, "W": w,
                            "edges": g.n_edges(), "states": g.n_states()})
    return ("lim_edges", g.n_edges(), len(walks), kinds)


def _srv_consts(inst):
    ma_, ml, rpm, ddrpm, mp = inst
    return {"MaxAddrs": ma_, "MaxLen": ml, "RPM": rpm, "DDRPM": ddrpm, "MaxParts": mp}, "A%dL%dR%dD%dP%d" % inst


def _srv_mc(args):
    ctx, inst = args
    consts, tag = _srv_consts(inst)
    cfg = tlc.subst_cfg("C16_MCServer.cfg", consts)
    r1 = tlc.run(ctx, "C16_MCServer", "gen_srv_%s_mc.cfg" % tag, cfg_text=cfg, workers=1, timeout=1500, name="mcs" + tag)
    if not r1.ok:
        raise MachineryError("design-level failure in C16 server %s: %s violated\n%s" % (tag, r1.violated, r1.out[-1500:]))
    return ("srv_mc", r1.distinct, r1.generated, r1.wall)


def _srv_edges(args):
    ctx, inst, beh_dir = args
    consts, tag = _srv_consts(inst)
    cfg2 = tlc.subst_cfg("C16_MCServer.cfg", consts, replace=[
        ("INIT Init", "INIT MCInit"), ("VIEW View", "VIEW View\nACTION_CONSTRAINT EmitEdge"),
        (INV_B, "INVARIANTS TypeOK"), (PROP_B, "")])
    r2 = tlc.run(ctx, "C16_MCServer", "gen_srv_%s_edges.cfg" % tag, cfg_text=cfg2, workers=1, timeout=1500, name="eds" + tag)
    if not r2.ok:
        raise MachineryError("edge run failed for server %s: %s" % (tag, r2.violated))
    g = graph.Graph(r2.inits, r2.edges)
    if g.n_edges() == 0:
        raise MachineryError("no edges printed for server " + tag)
    kinds = set()
    for s, op, _t in g.edges:
        kinds.add((op["name"], op.get("seg") or op.get("kind") or "", op.get("resp", ""), bool(op.get("dial"))))
        if op["name"] == "data" and '"rem":"ONE"' in s:
            kinds.add(("data-from-ONE", op.get("seg"), op.get("resp", ""), bool(op.get("dial"))))
    walks = _fast_walks(g, ctx.seed, 40)
    hdr = dict(consts)
    hdr.update({"edges": g.n_edges(), "states": g.n_states()})
    graph.write_behaviours(os.path.join(beh_dir, "srv_%s.jsonl" % tag), walks, hdr)
    return ("srv_edges", g.n_edges(), len(walks), kinds)


def _boundary(ctx):
    """Boundary adjudication guard: over CLOSED one-minute windows the bound is exceeded in the model
    (2*RPM grants at instants exactly 60 s apart); the check requires TLC to find that behaviour, so the
    exact-boundary case is known to be explored."""
    cfg = tlc.subst_cfg("C16_MC.cfg", {"RPM": 2, "PerPeerRPM": 1}, replace=[
        (INV_A, "INVARIANTS ClosedWindowGlobal"), (PROP_A, "")])
    r = tlc.run(ctx, "C16_MC", "gen_lim_closed.cfg", cfg_text=cfg, workers=1, timeout=600, name="closed")
    if r.ok or r.violated != "ClosedWindowGlobal":
        raise MachineryError("boundary guard: the closed-window behaviour (grants exactly 60 s apart) was not found by TLC")
    return True


def _variants(ctx):
    # mutation variants of the models: a handler exit releasing the in-progress slot twice must break
    # ConcurrentCap; a dial-back cleanup that leaves the address in the dialer's address book must break
    # DialOnlyRequested.  (Guards that both hazards are really modelled.)
    cfg = tlc.subst_cfg("C16_MC.cfg", {"DoubleRelease": "TRUE"}, replace=[(INV_A, "INVARIANTS ConcurrentCap"), (PROP_A, "")])
    r = tlc.run(ctx, "C16_MC", "gen_lim_double.cfg", cfg_text=cfg, workers=1, timeout=600, name="double")
    if r.ok or r.violated != "ConcurrentCap":
        raise MachineryError("variant guard: a double CompleteRequest does not break ConcurrentCap in the model")
    cfg = tlc.subst_cfg("C16_MCServer.cfg", {"KeepAddrs": "TRUE"}, replace=[(PROP_B, "PROPERTIES DialOnlyRequested")])
    r = tlc.run(ctx, "C16_MCServer", "gen_srv_keep.cfg", cfg_text=cfg, workers=1, timeout=600, name="keep")
    if r.ok or r.violated != "DialOnlyRequested":
        raise MachineryError("variant guard: a dialer address book that is not cleared does not break DialOnlyRequested in the model")
    return True


def run(ctx):
    if ctx.replay:
        return replay(ctx)
    beh_dir = ctx.sub("beh")
    tlc.stage(ctx)
    li, si, ii = lim_instances(ctx), srv_instances(ctx), int_instances(ctx)
    # model-independent scenarios run on the Go side while TLC works (no other go test runs meanwhile)
    side = {}

    def _side():
        try:
            side["p"] = goenv.run_harness(ctx, PKG, "^TestVerifC16Patterns$", timeout=2400)
            side["c"] = goenv.run_harness(ctx, PKG, "^TestVerifC16Concurrent$", timeout=1500)
        except BaseException as e:  # re-raised in the main thread
            side["err"] = e
    th = threading.Thread(target=_side)
    th.start()
    # at most 4 TLC workers at any time: four single-worker jobs (big MC-only instances afterwards, 4 workers)
    small = [i for i in li if i[6]]
    big = [i for i in li if not i[6]]
    try:
        with cf.ProcessPoolExecutor(max_workers=4) as ex:
            futs = [ex.submit(_lim_edges, (ctx, i, beh_dir)) for i in reversed(small)]
            futs += [ex.submit(_srv_edges, (ctx, i, beh_dir)) for i in reversed(si)]
            futs += [ex.submit(_lim_mc, (ctx, i, 1)) for i in reversed(small)]
            futs += [ex.submit(_srv_mc, (ctx, i)) for i in si]
            futs += [ex.submit(_int, (ctx, i, beh_dir)) for i in ii]
            futs.append(ex.submit(_boundary, ctx))
            futs.append(ex.submit(_variants, ctx))
            results = [f.result() for f in futs]
        for i in big:
            results.append(_lim_mc((ctx, i, 4)))
    finally:
        th.join()
    if "err" in side:
        raise side["err"]
    mcs = [r for r in results if isinstance(r, tuple) and r[0] in ("lim_mc", "srv_mc")]
    states = sum(r[1] for r in mcs)
    trans = sum(r[2] for r in mcs)
    rl = [r for r in results if isinstance(r, tuple) and r[0] == "lim_edges"]
    rs = [r for r in results if isinstance(r, tuple) and r[0] == "srv_edges"]
    ri = [r for r in results if isinstance(r, tuple) and r[0] == "int"]
    states += sum(r[1] for r in ri)
    trans += sum(r[2] for r in ri)
    int_edges = sum(r[3] for r in ri)
    ik = set().union(*[r[4] for r in ri])
    for need in [("start", "", "PARKED"), ("start", "", "REJECTED"), ("send", "other", "DATAREQ"), ("send", "other", "REJECTED"),
                 ("send", "same", "OK"), ("send", "refused", "REFUSED"), ("send", "bad", "RESET"), ("pay", "", "OK"), ("close", "", "RESET"),
                 ("send-other-while-another-reads-dial-data", "", "REJECTED"), ("send-other-while-another-reads-dial-data", "", "DATAREQ")]:
        if need not in ik:
            raise MachineryError("vacuous interleaving graphs: no transition %s" % (need,))
    lim_edges = sum(r[1] for r in rl)
    srv_edges = sum(r[1] for r in rs)
    # vacuity guards over the printed graphs: every decision / outcome class occurs
    lk = set().union(*[r[3] for r in rl])
    for need in [("accept", "ok"), ("accept", "conc"), ("accept", "global"), ("accept", "peer"),
                 ("acceptdd", "ok"), ("acceptdd", "dd"), ("complete", ""), ("tick", "")]:
        if need not in lk:
            raise MachineryError("vacuous limiter graphs: no transition %s/%s" % need)
    sk = set().union(*[r[3] for r in rs])
    for need in [("request", "normal", "REFUSED", False), ("request", "normal", "REJECTED", False),
                 ("request", "normal", "DATAREQ", False), ("request", "normal", "OK", True),
                 ("request", "garbage", "RESET", False), ("data", "rest", "OK", True), ("data", "over", "OK", True),
                 ("data", "tiny", "RESET", False), ("data", "huge", "RESET", False), ("data", "part", "MORE", False),
                 ("data-from-ONE", "rest", "OK", True), ("data-from-ONE", "tiny", "RESET", False),
                 ("end", "close", "RESET", False), ("end", "stall", "RESET", False), ("minute", "", "", False)]:
        if need not in sk:
            raise MachineryError("vacuous server graph: no transition %s" % (need,))

    a = goenv.run_harness(ctx, PKG, "^TestVerifC16Limiter$", inputs=beh_dir, timeout=1500)
    div = classify_mismatches(ctx, a, "limiter")
    if not a["mismatches"] and a["distinct"] < lim_edges:
        raise MachineryError("limiter replay executed %d distinct transitions of %d" % (a["distinct"], lim_edges))
    b = goenv.run_harness(ctx, PKG, "^TestVerifC16Server$", inputs=beh_dir, timeout=2400)
    div += classify_mismatches(ctx, b, "server")
    if not b["mismatches"] and b["distinct"] < srv_edges:
        raise MachineryError("server replay executed %d distinct transitions of %d" % (b["distinct"], srv_edges))
    ir = goenv.run_harness(ctx, PKG, "^TestVerifC16Interleave$", inputs=beh_dir, timeout=1500)
    div += classify_mismatches(ctx, ir, "interleave")
    if not ir["mismatches"] and ir["distinct"] < int_edges:
        raise MachineryError("interleaving replay executed %d distinct transitions of %d" % (ir["distinct"], int_edges))
    p, c = side["p"], side["c"]
    div += classify_mismatches(ctx, p, "patterns")
    div += classify_mismatches(ctx, c, "concurrent")
    if p["replayed"] == 0 or c["replayed"] == 0:
        raise MachineryError("pattern / concurrency scenarios did not run")
    cx = c.get("extra") or {}
    if not c["mismatches"]:
        for need in ["n_park/", "n_park/REJECTED", "n_needdata/DATAREQ", "n_needdata/REJECTED", "n_refused/REFUSED", "n_garbage/", "n_resume"]:
            if not cx.get(need):
                raise MachineryError("vacuous concurrency schedules: no %s" % need)
    # the boundary case must also have been exercised on the real limiter (informational, not a verdict)
    closed_replay = (a.get("extra") or {}).get("closed_window_instances_over_rpm", 0)
    closed_pat = (p.get("extra") or {}).get("closed_window_patterns_over_rpm", 0)
    if not a["mismatches"] and closed_replay == 0:
        raise MachineryError("boundary case (grants exactly 60 s apart) was not exercised on the real limiter")
    log("C16: %d limiter + %d server instances, %d states, %d transitions generated; replay %d+%d transitions, %d+%d steps; "
        "%d patterns (%d steps), %d concurrent schedules; closed-window>RPM seen in %d replay instances / %d patterns"
        % (len(li), len(si), states, trans, lim_edges, srv_edges, a["steps"], b["steps"], p["replayed"], p["steps"],
           c["replayed"], closed_replay, closed_pat))
    cov = evidence.mc_coverage(
        states, trans, a["replayed"] + b["replayed"] + p["replayed"] + c["replayed"],
        (a.get("samples") or [])[:2] + (b.get("samples") or [])[:2],
        exhaustive=True,
        checker_cmd="tlc C16_MC.tla (C16_RateLimiter, template C16_MC.cfg) + tlc C16_MCServer.tla (C16_AutoNAT, template C16_MCServer.cfg)",
        limiter_instances=["P%d RPM%d PerPeer%d DialData%d Conc%d W%d%s" % (i[:6] + ("" if i[6] else " (MC only)",)) for i in li],
        tlc_wall_s={"mc_max": max(r[3] for r in mcs), "mc_sum": round(sum(r[3] for r in mcs), 1)},
        server_instances=["MaxAddrs%d MaxLen%d RPM%d DDRPM%d MaxParts%d" % i for i in si],
        limiter_replay_transitions_in_graphs=lim_edges, limiter_replay_distinct_executed=a["distinct"], limiter_replay_steps=a["steps"],
        server_replay_transitions_in_graphs=srv_edges, server_replay_distinct_executed=b["distinct"], server_replay_steps=b["steps"],
        interleave_instances=["slots %s RPM%d PerPeer%d DDRPM%d Cap%d" % ((",".join(i[0]),) + i[1:]) for i in ii],
        interleave_replay_transitions_in_graphs=int_edges, interleave_replay_distinct_executed=ir["distinct"], interleave_replay_steps=ir["steps"],
        pattern_sequences=p["replayed"], pattern_steps=p["steps"], concurrent_schedules=c["replayed"], concurrent_steps=c["steps"],
        server_observed=b.get("extra") or {}, concurrent_observed=cx, limiter_closed_window_max=(a.get("extra") or {}).get("closed_window_max"),
        boundary_closed_window_over_rpm_replay_instances=closed_replay, boundary_closed_window_over_rpm_patterns=closed_pat,
        divergences_L2=div, notes=ctx.notes[:10], rule="limiter: %s | server: %s" % (a.get("rule"), b.get("rule")))
    return {"level": "model_checking", "coverage": cov, "assumptions": [
        "one-minute window = half-open interval (t-60s, t]: grants at instants exactly 60 s apart are not in one window (the closed-window count reaches 2*RPM, measured and reported, not a verdict)",
        "rate-limit and concurrency clauses are upper bounds: refusing more than necessary is reported as L2 divergence only",
        "'bytes of dial data' = sum of the data fields of well-formed DialDataResponse messages the server has completely read",
        "an address whose IP is not known (dns name) counts as 'IP differs'",
        "bounded instances; production limiter parameters (60/12/12/2) by seeded arrival patterns only; the dialer host and the stream are fakes (no transport)",
    ]}


def replay(ctx):
    import json
    with open(ctx.replay) as f:
        m = json.load(f)
    raise MachineryError("replay of C16 artefacts: run `VERIF_SEED=<seed in file name> ./check C16`; the artefact holds the failing prefix (%d steps), cfg %s"
                         % (len(m.get("prefix") or []), m.get("cfg")))


MANIFEST = {
    "technique": "TLA+ specs (C16_RateLimiter.tla: sliding-window limiter over tick ages with a ghost accept log; C16_AutoNAT.tla: one dial request = address-class sequence x dial-data segment script) model-checked exhaustively with TLC; every transition of the printed graphs replayed on the real rateLimiter (injectable clock) and the real server handler (fake dialer host, scripted in-memory stream, testing/synctest), plus seeded arrival patterns at production parameters and concurrent-request schedules, all under observable-only monitors",
    "category": "model_checking",
    "text": "TLC checks the window bounds over the ghost log (global, per peer, dial data), the in-progress cap, that refusals are justified (no leakage), DialOnlyRequested, DataBeforeDial, RefuseUndialable on all bounded instances. The replay drives each model transition through the real code: Accept/AcceptDialDataRequest/CompleteRequest/clock tick on the limiter with decisions checked against the model and an independent sliding-window reference over the harness's own accept log; each request shape (private/undialable/malformed/same-IP/other-IP entries, positions up to and beyond maxPeerAddresses) and each dial-data script (legal, all-but-one-byte, exact, overshoot, floods of tiny messages, oversized, early close, stall) on handleDialRequest, where every use of the dialer host is checked against the dial-data bytes the server had consumed at that moment, the requester and the request's addresses.",
    "note": "Trusted: TLC, the fakes (dialer host, stream), the address-class table of the harness, testing/synctest. The one-minute window is half-open; the closed-window count (2*RPM at instants exactly 60 s apart) is measured and reported but is not a verdict. Over-rejection (stricter than the limits) is L2 divergence only. Bounded limiter instances (<=3 peers, limits <=4, 2-4 ticks per minute); production parameters only by seeded patterns.",
    "engines": [
        {"name": "C16_RateLimiter", "path": "spec/C16_RateLimiter.tla", "serves_properties": ["C16"], "kind_free_text": "TLA+ spec + TLC exhaustive + full-transition replay"},
        {"name": "C16_AutoNAT", "path": "spec/C16_AutoNAT.tla", "serves_properties": ["C16"], "kind_free_text": "TLA+ spec + TLC exhaustive + full-transition replay under synctest"},
    ],
}
