"""C09 - address book: TTL, expiry and GC semantics, identical in both stores.

spec/C09_AddrBook.tla is the ABSTRACT book the statement describes (one peer, relative lifetimes,
closed state space).  (1) TLC checks the statement's clauses on it exhaustively for the full bounded
instance; (2) TLC prints the complete transition graph of smaller instances; covering walks (every
transition at least once) plus seeded random walks are (3) replayed step by step on BOTH real books
(pstoremem and pstoreds over an in-memory sync MapDatastore) in a synctest bubble, comparing every
observable answer with the model (and thereby the two stores with each other)."""
import concurrent.futures as cf
import json
import os
import random
import threading

from lib import evidence, goenv, graph, tlc
from lib.common import MachineryError, classify_mismatches, log

PKG = "./p2p/host/peerstore/pstoreds"

A3 = '{"a1", "a2", "a3"}'
A2 = '{"a1", "a2"}'

# the full bounded instance for the exhaustive design-level check
FULL = {"Addrs": A3, "TTLs": "{0, 2, 4, 8, 9}", "Conn": 8, "Seqs": "{1, 2}", "Cap": 0, "MaxBatch": 3}


def replay_instances(ctx):
    """(tag, constants, max walk length, number of extra random walks, random depth)"""
    q = ctx.tier != "thorough"
    out = [
        # three addresses, every batch, finite / connected class
        ("a3", {"Addrs": A3, "TTLs": "{0, 2, 8}", "Conn": 8, "Seqs": "{1, 2}", "Cap": 0, "MaxBatch": 3}, 40, 150 if q else 2000, 60),
        # two addresses, two finite classes, connected and permanent
        ("a2", {"Addrs": A2, "TTLs": "{0, 2, 4, 8, 9}", "Conn": 8, "Seqs": "{1, 2}" if q else "{1, 2, 3}", "Cap": 0, "MaxBatch": 2}, 40, 150 if q else 2000, 60),
        # binding per-peer cap with the connected class: quick = ordered batches of up to two addresses and one
        # sequence number (a call that moves a stored entry across the connected class and then inserts);
        # thorough = one-address calls with two sequence numbers (capo below has the ordered batches there)
        ("cap", {"Addrs": A3, "TTLs": "{0, 2, 8}", "Conn": 8, "Seqs": "{1}" if q else "{1, 2}", "Cap": 2,
                 "MaxBatch": 2 if q else 1}, 40, 150 if q else 1000, 60),
        # binding cap, ORDERED batches of up to two addresses (refreshed-existing then new, new then
        # existing, two new) with two finite classes so that the nearest expiry is unique
        ("capo", {"Addrs": A3, "TTLs": "{0, 2, 3}" if q else "{0, 2, 3, 8}", "Conn": 8, "Seqs": "{1}", "Cap": 2, "MaxBatch": 2},
         40, 150 if q else 1000, 60),
    ]
    if not q:
        # the named classes identify uses, at one tick = 1 min (harness: unit fixed by "UnitSec"): TempAddrTTL = 2,
        # RecentlyConnectedAddrTTL = 15, ConnectedAddrTTL, PermanentAddrTTL; every ordered pair of them on one address
        out.append(("named", {"Addrs": '{"a1"}', "TTLs": "{0, 2, 15, 100, 101}", "Conn": 100, "Seqs": "{1}", "Cap": 0,
                              "MaxBatch": 1, "_unit": 60}, 60, 500, 80))
        # three addresses, two finite classes; singletons and the full set (221 688 transitions)
        out.append(("a3e", {"Addrs": A3, "TTLs": "{0, 2, 3, 8}", "Conn": 8, "Seqs": "{1, 2}", "Cap": 0, "MaxBatch": 3,
                            "_ends": True}, 50, 1000, 80))
    return out


GUARDS = ("ReachConnRecord", "ReachSeqHigh", "ReachFull")
ALL_PROPS = ("PROPERTIES AddNeverShortens AddScope SetOverrides UpdateExactlyClass SeqMonotone SeqOnlyByConsume "
             "EvictionRule RejectInert RecordStays Durable")


def class_probe_walks(g, seed, fraction=1.0):
    """TTL-class probes.  The TTL class of a stored address is latent: it only shows when a later
    UpdateAddrs names it.  For every transition that re-names a stored address (AddAddrs / SetAddrs /
    accepted record, positive ttl) one short walk: shortest path to the source state, the transition, then
    the model's UpdateAddrs(class the address must now have -> 0), after which the address must be gone.
    Returns (walks, set of transition indices they traverse)."""
    rnd = random.Random(seed * 7 + 3)
    init = g.inits[0]
    parent = {init: None}
    bfs = [init]
    for u in bfs:
        for ei in g.out.get(u, ()):
            v = g.edges[ei][2]
            if v not in parent and not g.edges[ei][1].get("tie"):
                parent[v] = (u, ei)
                bfs.append(v)
    walks, used = [], set()
    for s0 in bfs:
        book = g.states[s0]["book"]
        for ei in g.out.get(s0, ()):
            _sk, op, tk = g.edges[ei]
            if op.get("name") not in ("add", "set", "consume") or not op.get("ttl") or op.get("tie") \
                    or op.get("res") is False:
                continue
            named = [a for a in sorted(op.get("addrs") or []) if book[a]["ttl"] > 0]
            if not named:
                continue
            # always: the call gives a stored address ANOTHER class with the SAME lifetime (classes that sit
            # within one storage quantum of each other: connected / permanent); the rest: a seeded fraction
            close = [a for a in named if book[a]["ttl"] != op["ttl"] and book[a]["rem"] == g.states[tk]["book"][a]["rem"]
                     and g.states[tk]["book"][a]["ttl"] != book[a]["ttl"]]
            if close:
                named = close
            elif rnd.random() >= fraction:
                continue
            a = named[rnd.randrange(len(named))]
            cls = g.states[tk]["book"][a]["ttl"]
            if cls <= 0:
                continue
            pe = next((e for e in g.out.get(tk, ()) if g.edges[e][1].get("name") == "update"
                       and g.edges[e][1].get("old") == cls and g.edges[e][1].get("new") == 0), None)
            if pe is None:
                continue
            path = []
            w = s0
            while parent[w] is not None:
                w, pei = parent[w]
                path.append(pei)
            path.reverse()
            path += [ei, pe]
            used.update(path)
            walks.append(g._mk(init, path))
    return walks, used


def covering_walks(g, seed, max_len, max_blind=4, covered0=()):
    """Walks from the initial state that together traverse every transition at least once, in O(E):
    one BFS gives the shortest path to every state; a walk = that path to a state with untraversed
    out-transitions, then untraversed transitions followed greedily (one step of look-ahead through
    a traversed transition when stuck).  lib/graph.covering_walks is quadratic on these graphs."""
    rnd = random.Random(seed)
    init = g.inits[0]
    # a cap eviction among equal expiries ("tie") ends the behaviour in the harness (the victim is
    # unspecified): such a transition is only ever the LAST step of a walk
    tie = [bool(e[1].get("tie")) for e in g.edges]
    order = {k: list(v) for k, v in g.out.items()}
    for k in sorted(order):
        rnd.shuffle(order[k])
    parent = {init: None}
    bfs = [init]
    for u in bfs:
        for ei in order.get(u, ()):
            v = g.edges[ei][2]
            if v not in parent and not tie[ei]:
                parent[v] = (u, ei)
                bfs.append(v)
    todo = {k: list(reversed(v)) for k, v in order.items()}     # stacks of untraversed out-transitions
    covered = set(covered0)

    def pop(u):
        st = todo.get(u)
        while st:
            ei = st.pop()
            if ei not in covered:
                return ei
        return None

    def has(u):
        st = todo.get(u)
        while st and st[-1] in covered:
            st.pop()
        return bool(st)

    walks = []
    for s0 in bfs:
        while has(s0):
            path = []
            w = s0
            while parent[w] is not None:
                w, ei = parent[w]
                path.append(ei)
            path.reverse()
            covered.update(path)
            cur = s0
            blind = 0
            while len(path) < max_len:
                ei = pop(cur)
                if ei is None:
                    outs = [e for e in order.get(cur, ()) if not tie[e]]
                    nxt = next((e for e in outs if has(g.edges[e][2])), None)
                    if nxt is None:
                        # nothing untraversed one step away: up to max_blind seeded blind steps, so that walks are
                        # long and reach a state through varied histories, not only the shortest one
                        blind += 1
                        if blind > max_blind or not outs:
                            break
                        nxt = outs[rnd.randrange(len(outs))]
                    if len(path) + 2 > max_len:
                        break
                    ei = nxt
                else:
                    blind = 0
                covered.add(ei)
                path.append(ei)
                if tie[ei]:
                    break
                cur = g.edges[ei][2]
            walks.append(g._mk(init, path))
    unreached = [k for k in g.out if k not in parent]
    if unreached:
        raise MachineryError("%d states are reachable only through tie evictions" % len(unreached))
    if len(covered) != g.n_edges():
        raise MachineryError("covering walks traverse %d of %d transitions" % (len(covered), g.n_edges()))
    return walks


def _edges(args):
    ctx, tag, consts, max_len, n_rand, depth, beh_dir = args
    consts = dict(consts)
    ends = consts.pop("_ends", False)
    unit = consts.pop("_unit", 0)
    cfg = tlc.subst_cfg("C09_MC.cfg", consts, replace=[
        ("Batches <- MCBatches", "Batches <- MCBatchesEnds" if ends else
         ("Batches <- MCOBatches" if consts["Cap"] else "Batches <- MCBatches")),
        ("INIT Init", "INIT MCInit"),
        ("VIEW View", "VIEW View\nACTION_CONSTRAINT EmitEdge"),
        (ALL_PROPS, "")])
    r = tlc.run(ctx, "C09_MC", "gen_%s_edges.cfg" % tag, cfg_text=cfg, workers=1, timeout=1500,
                name="ed" + tag, deadlock=False, heap="6g")
    if not r.ok:
        raise MachineryError("edge run failed for %s: %s" % (tag, r.violated))
    g = graph.Graph(r.inits, r.edges)
    if g.n_edges() == 0:
        raise MachineryError("no edges printed for " + tag)
    probes, used = class_probe_walks(g, ctx.seed, fraction=0.12 if ctx.tier != "thorough" else 1.0)
    walks = probes + covering_walks(g, ctx.seed, max_len, covered0=used,
                                    max_blind=1 if ctx.tier != "thorough" else (2 if g.n_edges() > 200000 else 4))
    n_cov = len(walks)
    for w in g.random_walks(n_rand, depth, seed=ctx.seed * 31 + 7):
        k = next((i for i, st in enumerate(w["steps"]) if st["op"].get("tie")), None)
        if k is not None:
            w["steps"] = w["steps"][:k + 1]
        walks.append(w)
    hdr = {"tag": tag, "Conn": consts["Conn"], "Cap": consts["Cap"], "UnitSec": unit, "edges": g.n_edges(), "states": g.n_states(),
           "consts": {k: str(v) for k, v in consts.items()}}
    graph.write_behaviours(os.path.join(beh_dir, tag + ".jsonl"), walks, hdr)
    steps = sum(len(w["steps"]) for w in walks)
    return tag, r.distinct, g.n_edges(), n_cov, len(walks), steps, r.wall


def _mc(args):
    """one exhaustive / reachability TLC run (single worker; several run side by side)"""
    ctx, name, cfg_text = args
    r = tlc.run(ctx, "C09_MC", "gen_%s.cfg" % name, cfg_text=cfg_text, workers=2 if name == "full" else 1,
                timeout=1500, name=name, deadlock=False)
    return name, r.ok, r.violated, r.distinct, r.generated, r.wall, r.out[-1500:]


def _warm(ctx):
    # compile the harness test binary while TLC runs (build cache is shared with the replay run)
    try:
        goenv.go_test(ctx, PKG, "^$", timeout=1200)
    except Exception:      # the replay run reports build problems properly
        pass


def run(ctx):
    if ctx.replay:
        raise MachineryError("C09 artefacts hold the failing prefix and the walk configuration; re-run "
                             "`VERIF_SEED=<seed in the file name> ./check C09` (VERIF_C09_ONLY=<file>:<walk> "
                             "VERIF_C09_TRACE=1 in the harness prints every step)")
    beh_dir = ctx.sub("beh")
    tlc.stage(ctx)
    insts = replay_instances(ctx)
    warm = threading.Thread(target=_warm, args=(ctx,))
    warm.start()
    # (1) exhaustive design-level check of the statement's clauses on the abstract book (with and
    #     without the binding cap) + vacuity guards, (2) transition graphs for replay - side by side
    mc = [("full", tlc.subst_cfg("C09_MC.cfg", FULL)),
          ("fullcap", tlc.subst_cfg("C09_MC.cfg", dict(FULL, Cap=2, MaxBatch=2, TTLs="{0, 2, 3, 8}", Seqs="{1}"),
                                    replace=[("Batches <- MCBatches", "Batches <- MCOBatches")]))]
    for inv in GUARDS:
        mc.append((inv, tlc.subst_cfg("C09_MC.cfg", insts[0][1], replace=[
            ("INVARIANTS TypeOK RecordLifetime", "INVARIANTS " + inv), (ALL_PROPS, "")])))
    with cf.ProcessPoolExecutor(max_workers=3) as ex:      # "full" uses 2 TLC workers: at most 4 in total
        f_mc = [ex.submit(_mc, (ctx, n, c)) for (n, c) in mc[:1]]
        f_edges = [ex.submit(_edges, (ctx, t, c, ml, nr, d, beh_dir)) for (t, c, ml, nr, d) in insts]
        f_mc += [ex.submit(_mc, (ctx, n, c)) for (n, c) in mc[1:]]
        results = [f.result() for f in f_edges]
        mcs = [f.result() for f in f_mc]
    states = trans = 0
    for name, ok, violated, distinct, generated, wall, tail in mcs:
        if name in GUARDS:
            if ok or violated != name:
                raise MachineryError("vacuity guard %s: state not reachable in the bounded model" % name)
            continue
        if not ok:
            raise MachineryError("design-level failure in C09_AddrBook (%s): %s violated\n%s" % (name, violated, tail))
        log("C09 exhaustive %s: %d states, %d transitions (tlc %.1fs)" % (name, distinct, generated, wall))
        states += distinct
        trans += generated
    edges_total = sum(r[2] for r in results)
    n_walks = sum(r[4] for r in results)
    steps_planned = sum(r[5] for r in results)
    for r in results:
        log("C09 instance %s: %d states, %d transitions, %d covering + %d random walks, %d steps (tlc %.1fs)"
            % (r[0], r[1], r[2], r[3], r[4] - r[3], r[5], r[6]))
    warm.join()
    # (3) replay on both real books
    res = goenv.run_harness(ctx, PKG, "^TestVerifC09Replay$", inputs=beh_dir, timeout=2400,
                            env={"VERIF_C09_SHARDS": 6 if ctx.tier != "thorough" else 8})
    side = os.path.join(res["_out"], "c09_mismatches.json")
    if os.path.exists(side):      # complete list (vfh caps result.json at 50 entries)
        with open(side) as f:
            res["mismatches"] = json.load(f) or []
    div = classify_mismatches(ctx, res, "replay")
    extra = res.get("extra") or {}
    if res["replayed"] < n_walks:
        raise MachineryError("replay executed %d of %d behaviours\n%s" % (res["replayed"], n_walks, res["_log"][-2000:]))
    # steps after a cap eviction among equal expiries are legitimately not executed (the victim is
    # unspecified, so the walk ends there); everything else must have been executed
    accounted = res["steps"] + int(extra.get("steps_cut_at_tie", 0)) + int(extra.get("steps_skipped_after_desync", 0))
    if not res["mismatches"] and accounted < steps_planned:
        raise MachineryError("replay executed %d (+%d cut at ties) of %d planned steps" % (
            res["steps"], int(extra.get("steps_cut_at_tie", 0)), steps_planned))
    if res["distinct"] < edges_total // 2:
        raise MachineryError("replay compared only %d of %d distinct transitions" % (res["distinct"], edges_total))
    log("C09: full model %d states / %d transitions; replay graphs %d transitions, %d walks, %d steps executed, "
        "%d distinct transitions; mismatch classes %s"
        % (states, trans, edges_total, n_walks, res["steps"], res["distinct"], extra.get("mismatch_classes")))
    cov = evidence.mc_coverage(
        states, trans, res["replayed"], res.get("samples") or [], exhaustive=True,
        checker_cmd="tlc C09_MC.tla (template C09_MC.cfg: full instance %s; replay instances %s)"
                    % (FULL, [i[0] for i in insts]),
        replay_instances=len(insts), replay_transitions_in_graphs=edges_total,
        replay_steps_planned=steps_planned, replay_steps_executed=res["steps"],
        replay_distinct_transitions_executed=res["distinct"],
        mismatch_classes=extra.get("mismatch_classes"),
        steps_on_one_store_only=extra.get("steps_on_one_store_only", 0),
        steps_skipped_after_desync=extra.get("steps_skipped_after_desync", 0),
        inserted_gc=extra.get("inserted_gc", 0), inserted_reopen=extra.get("inserted_reopen", 0),
        inserted_clear=extra.get("inserted_clear", 0),
        walks_cut_at_tie=extra.get("walks_cut_at_tie", 0),
        divergences_L2=div, notes=ctx.notes[:10], rule=res.get("rule"))
    return {"level": "model_checking", "coverage": cov, "assumptions": [
        "one peer in the model (peers are independent in both stores); two bystander peers are checked for non-interference on every read",
        "bounded universe: 3 addresses, TTL classes {non-positive, 2, 4 ticks, connected, permanent}, 2 sequence numbers; the binding per-peer cap only for one-address calls, and a tie among equal expiries ends the behaviour (victim unspecified)",
        "both books read time through their injectable clock (WithClock / Options.Clock) so that GC runs (real tickers on synctest virtual time) are a free action; realclock itself is trusted",
        "datastore = in-memory MapDatastore behind sync.MutexWrap",
    ]}


MANIFEST = {
    "technique": "TLA+ spec of the abstract address book (C09_AddrBook.tla) model-checked exhaustively with TLC; the complete transition graphs of bounded instances are replayed (covering walks + seeded random walks) on both real address books inside a synctest bubble with all public answers compared after every step",
    "category": "model_checking",
    "text": "The statement describes one abstract book; the spec is that book (relative lifetimes make the state space closed, so there is no clock bound). TLC checks the clauses (adding never shortens, set overrides / non-positive removes exactly, update moves exactly the class, record accepted only if seq not lower, eviction of superseded record addresses except connected, record lifetime, GC/reopen are no-ops) as invariants and action properties on the full instance, then prints every transition of smaller instances; walks covering every transition are executed on pstoremem and pstoreds (cache on/off, cap off/default/binding, full-purge and lookahead GC, three time scales mapping the model TTLs to TempAddrTTL / RecentlyConnectedAddrTTL / ConnectedAddrTTL / PermanentAddrTTL, /p2p-suffixed and foreign-suffixed addresses, seeded extra GC runs and close/reopen of the datastore book) and Addrs, GetPeerRecord, ConsumePeerRecord and PeersWithAddrs are compared with the model after every step.",
    "note": "Trusted: TLC; the two injectable clocks; MapDatastore. Bounded to 3 addresses / 5 TTL values / 2 sequence numbers; the cap only for one-address calls. A store that has shown a (known) mismatch is not compared for the rest of that behaviour (counted in the evidence). Global caps (10^6 addresses, 10^5 records) are out of reach.",
    "engines": [{"name": "C09_AddrBook", "path": "spec/C09_AddrBook.tla", "serves_properties": ["C09"], "kind_free_text": "TLA+ spec + TLC exhaustive + transition-covering replay on both stores"}],
}
