"""C17 - observed addresses are advertised only with enough independent observers.
spec/C17_ObservedAddrs.tla; exhaustive TLC on every bounded instance (history -> recomputed advertised
set, implementation-shaped counters tied to it by invariants), every transition of every printed
instance replayed on the real observedaddrs.Manager (in-package harness) with Addrs/AddrsFor compared
after every step; a share of the walks replayed again at the production threshold through a scale map."""
import concurrent.futures as cf
import os
import time

from lib import evidence, extension, goenv, graph, tlc
from lib.common import MachineryError, classify_mismatches, log

PKG = "./p2p/host/observedaddrs"
INV = "INVARIANTS TypeOK CreditOnlyOpenListening ExtMatches CodeTopAllowed TiersAgree"
PROPS = "PROPERTIES NeverCount Withdrawn"
# TLC allocates fast here (every action builds the expected-result record); with the default 16 GC
# threads and an unbounded heap the JVM spends minutes in system time on a shared machine.
JAVA_OPTS = "-XX:ParallelGCThreads=2"
HEAP = "2g"


def replay_instances(ctx):
    """(instance, Thresh, MaxClosed) whose full transition graph is printed and replayed."""
    out = [("groups", 1, 9), ("groups", 2, 9), ("transports", 1, 9), ("transports", 2, 9)]
    if ctx.tier == "thorough":
        return out + [("groups", 3, 9), ("top3", 1, 1)]     # top3 with closes (contains the quick graph)
    return out + [("top3", 1, 0)]


def mc_only_instances(ctx):
    """Larger universes: exhaustive invariant/property check only (graph too big to print)."""
    if ctx.tier == "thorough":
        return [("groups6", 2, 9), ("groups6", 3, 9)]
    return []   # design-level only (cannot change with /repo); the quick tier keeps its time for the replay


# vacuity guards: (instance, Thresh, MaxClosed, reachability invariant expected to be VIOLATED)
# (the same facts and more are also counted on the printed graphs, see `facts`)
GUARDS = [("groups", 2, 9, "ReachSameGroupTwice"), ("top3", 1, 0, "ReachTruncation")]


def _consts(inst, th, mc, emit=False):
    return {"Inst": '"%s"' % inst, "Thresh": th, "MaxClosed": mc, "Emit": "TRUE" if emit else "FALSE"}


def _tag(inst, th, mc):
    return "%s_T%d_C%d" % (inst, th, mc)


def _covering_walks(g, seed, max_len):
    """Every edge of g at least once, in O(edges): a walk goes from the initial state along the BFS tree
    to the shallowest state that still has an uncovered out-edge, then follows uncovered edges greedily
    (stepping over one covered edge when a neighbour still has uncovered ones) until stuck or max_len.
    lib/graph.py's covering_walks searches the whole graph each time a walk is stuck, which takes ~30 s on
    the 78 k-edge instance."""
    import collections
    import random
    rnd = random.Random(seed)
    init = g.inits[0]
    parent = {init: None}
    order = [init]
    dq = collections.deque([init])
    while dq:
        u = dq.popleft()
        for ei in g.out.get(u, ()):
            v = g.edges[ei][2]
            if v not in parent:
                parent[v] = (u, ei)
                order.append(v)
                dq.append(v)
    unc = {}
    for k in order:
        l = list(g.out.get(k, ()))
        rnd.shuffle(l)
        unc[k] = l           # stack of uncovered out-edges
    covered = set()
    walks = []
    ptr = 0
    while True:
        while ptr < len(order) and not _top(unc[order[ptr]], covered):
            ptr += 1
        if ptr == len(order):
            break
        target = order[ptr]
        path = []
        w = target
        while parent[w] is not None:
            pu, pe = parent[w]
            path.append(pe)
            w = pu
        path.reverse()
        walk = list(path)
        covered.update(path)
        cur = target
        while len(walk) < max_len:
            if _top(unc[cur], covered):
                ei = unc[cur].pop()
            else:
                ei = next((e for e in g.out.get(cur, ()) if g.edges[e][2] != cur and _top(unc[g.edges[e][2]], covered)), None)
                if ei is None:
                    break
            covered.add(ei)
            walk.append(ei)
            cur = g.edges[ei][2]
        walks.append({"init": g.states[init],
                      "steps": [{"op": g.edges[e][1], "state": g.states[g.edges[e][2]]} for e in walk]})
    if len(covered) != g.n_edges():
        raise MachineryError("covering walks cover %d of %d edges" % (len(covered), g.n_edges()))
    return walks


def _top(stack, covered):
    while stack and stack[-1] in covered:
        stack.pop()
    return bool(stack)


def _print_one(args):
    ctx, (inst, th, mc), beh_dir = args
    os.environ["JAVA_TOOL_OPTIONS"] = JAVA_OPTS
    tag = _tag(inst, th, mc)
    cfg = tlc.subst_cfg("C17_MC.cfg", _consts(inst, th, mc, emit=True), replace=[
        ("INIT Init", "INIT MCInit"), ("VIEW View", "VIEW View\nACTION_CONSTRAINT EmitEdge")])
    r = tlc.run(ctx, "C17_MC", "gen_%s_edges.cfg" % tag, cfg_text=cfg, workers=1, timeout=900, heap=HEAP,
                name="ed" + tag)
    if not r.ok:
        raise MachineryError("design-level failure in C17 %s: %s violated\n%s" % (tag, r.violated, r.out[-2500:]))
    insts = [o for t, o in r.prints if t == "VFINST"]
    if len(insts) != 1:
        raise MachineryError("C17 %s: expected one VFINST line, got %d" % (tag, len(insts)))
    g = graph.Graph(r.inits, r.edges)
    if g.n_edges() == 0 or g.n_states() != r.distinct:
        raise MachineryError("C17 %s: printed graph has %d states / %d edges, TLC found %d states"
                             % (tag, g.n_states(), g.n_edges(), r.distinct))
    # graph-side vacuity facts (used by run() on top of the TLC guards)
    facts = {"advertised": 0, "truncation": 0, "unequal_counts": 0, "below_threshold": 0, "same_group_twice": 0,
             "filtered_after_credit": 0, "credited": 0, "replaced": 0, "observe_on_closed": 0, "close_with_credit": 0}
    for sk, op, _t in g.edges:
        for e in (op.get("exp") or {}).values():
            tiers = e["t"][:e["k"]]
            n = sum(len(t[1]) for t in tiers)
            facts["advertised"] += 1 if n else 0
            facts["truncation"] += 1 if n > insts[0]["maxtop"] else 0
            facts["unequal_counts"] += 1 if len(tiers) > 1 else 0
            facts["below_threshold"] += 1 if len(e["t"]) > e["k"] else 0
        s = g.states[sk]
        facts["same_group_twice"] += 1 if any(x[3] > 1 for x in op.get("ext") or []) else 0
        facts["filtered_after_credit"] += 1 if "alt" in op else 0
        facts["credited"] += 1 if op.get("credited") else 0
        facts["replaced"] += 1 if op.get("credited") and s["obs"][op["c"]] != "none" else 0
        facts["observe_on_closed"] += 1 if op["name"] == "observe" and not s["open"][op["c"]] else 0
        facts["close_with_credit"] += 1 if op["name"] == "close" and s["obs"][op["c"]] != "none" else 0
    t1 = time.time()
    walks = _covering_walks(g, ctx.seed, 40)
    covered = sum(len(w["steps"]) for w in walks)
    graph.write_behaviours(os.path.join(beh_dir, tag + ".jsonl"), walks,
                           {"inst": insts[0], "MaxClosed": mc, "edges": g.n_edges(), "states": g.n_states()})
    log("C17 %s: tlc %.1fs, %d edges, walks+write %.1fs" % (tag, r.wall, g.n_edges(), time.time() - t1))
    return {"tag": tag, "distinct": r.distinct, "generated": r.generated, "edges": g.n_edges(),
            "walks": len(walks), "steps": covered, "wall": r.wall, "facts": facts, "cmd": r.cmd}


LISTEN_INV = "INVARIANTS LTypeOK CreditOnlyOpenLocal ExtMatches CodeTopAllowed TiersAgree AdvertisedOnlyForListen"


def _listen_one(args):
    """spec/C17_Listen.tla: the listen set is a variable (Unlisten / Listen between reports); exhaustive check,
    every transition printed and replayed like the base instances (kind "print" for the accounting)."""
    ctx, th, beh_dir = args
    os.environ["JAVA_TOOL_OPTIONS"] = JAVA_OPTS
    tag = "listen_T%d" % th
    cfg = tlc.subst_cfg("C17_Listen.cfg", {"Thresh": th, "Emit": "TRUE"}, replace=[
        ("INIT LInit", "INIT LMCInit"), ("VIEW LView", "VIEW LView\nACTION_CONSTRAINT LEmitEdge")])
    r = tlc.run(ctx, "C17_Listen", "gen_%s_edges.cfg" % tag, cfg_text=cfg, workers=1, timeout=900, heap=HEAP, name="ed" + tag)
    if not r.ok:
        raise MachineryError("design-level failure in C17 %s: %s violated\n%s" % (tag, r.violated, r.out[-2500:]))
    insts = [o for t, o in r.prints if t == "VFINST"]
    g = graph.Graph(r.inits, r.edges)
    if len(insts) != 1 or g.n_edges() == 0 or g.n_states() != r.distinct:
        raise MachineryError("C17 %s: printed graph has %d states / %d edges, TLC found %d states"
                             % (tag, g.n_states(), g.n_edges(), r.distinct))
    facts = {"report_refused_not_listening_now": 0, "unlisten_with_credits": 0, "relisten_with_credits": 0,
             "credit_replaced_refused_while_unlistened": 0, "eligible_for_unlistened_address": 0}
    localOf = insts[0]["localOf"]
    for sk, op, tk in g.edges:
        st = g.states[sk]
        held = {localOf[c] for c, o in st["obs"].items() if o != "none"}
        if op["name"] == "observe" and localOf[op["c"]] in insts[0]["locals"] and localOf[op["c"]] not in st["lis"] \
                and op["o"] in insts[0]["addrs"] and st["open"][op["c"]]:
            facts["report_refused_not_listening_now"] += 1
            facts["credit_replaced_refused_while_unlistened"] += 1 if st["obs"][op["c"]] not in ("none", op["o"]) else 0
        if op["name"] == "unlisten" and op["l"] in held:
            facts["unlisten_with_credits"] += 1
        if op["name"] == "listen" and op["l"] in held:
            facts["relisten_with_credits"] += 1
        for l, e in (op.get("exp") or {}).items():
            if l not in op["lis"] and e["k"] > 0:
                facts["eligible_for_unlistened_address"] += 1
    walks = _covering_walks(g, ctx.seed, 40)
    graph.write_behaviours(os.path.join(beh_dir, tag + ".jsonl"), walks,
                           {"inst": insts[0], "MaxClosed": 9, "edges": g.n_edges(), "states": g.n_states()})
    return {"tag": tag, "distinct": r.distinct, "generated": r.generated, "edges": g.n_edges(), "walks": len(walks),
            "steps": sum(len(w["steps"]) for w in walks), "wall": r.wall, "facts": facts, "cmd": r.cmd}


def _listen_guard(args):
    """A credit held for an address the host stopped listening on must be reachable (the named deviation)."""
    (ctx,) = args
    os.environ["JAVA_TOOL_OPTIONS"] = JAVA_OPTS
    cfg = tlc.subst_cfg("C17_Listen.cfg", {"Thresh": 1}, replace=[(LISTEN_INV, "INVARIANTS ReachEligibleUnlistened"),
                                                                  ("PROPERTIES CreditOnlyWhileListening NeverCountL ListenChangeKeepsCredits Withdrawn", "")])
    r = tlc.run(ctx, "C17_Listen", "gen_listen_guard.cfg", cfg_text=cfg, workers=1, timeout=300, heap=HEAP, name="glisten")
    if r.ok or r.violated != "ReachEligibleUnlistened":
        raise MachineryError("vacuity guard: C17_Listen never holds an eligible address for an un-listened local address")
    return {"tag": "listen_guard"}


def _mc_one(args):
    ctx, (inst, th, mc) = args
    os.environ["JAVA_TOOL_OPTIONS"] = JAVA_OPTS
    tag = _tag(inst, th, mc)
    cfg = tlc.subst_cfg("C17_MC.cfg", _consts(inst, th, mc))
    r = tlc.run(ctx, "C17_MC", "gen_%s_mc.cfg" % tag, cfg_text=cfg, workers=1, timeout=1500, heap=HEAP,
                name="mc" + tag)
    if not r.ok:
        raise MachineryError("design-level failure in C17 %s: %s violated\n%s" % (tag, r.violated, r.out[-2500:]))
    return {"tag": tag, "distinct": r.distinct, "generated": r.generated, "wall": r.wall}


def _guard_one(args):
    ctx, (inst, th, mc, inv) = args
    os.environ["JAVA_TOOL_OPTIONS"] = JAVA_OPTS
    tag = _tag(inst, th, mc) + "_" + inv
    cfg = tlc.subst_cfg("C17_MC.cfg", _consts(inst, th, mc), replace=[(INV, "INVARIANTS " + inv), (PROPS, "")])
    r = tlc.run(ctx, "C17_MC", "gen_%s.cfg" % tag, cfg_text=cfg, workers=1, timeout=300, heap=HEAP, name="g" + tag)
    if r.ok or r.violated != inv:
        raise MachineryError("vacuity guard: %s is not violated in %s - the states it stands for are unreachable"
                             % (inv, _tag(inst, th, mc)))
    return {"tag": tag}


RACE_INV = "INVARIANTS RTypeOK CreditOnlyOpenQ"
RACE_PROPS = "PROPERTIES NoCreditAfterClose"


def _race_one(args):
    """spec/C17_Race.tla (Check / Record split with closes interleaving): exhaustive check of the code's design,
    every transition printed; the walks are the interference scripts of the gated replay."""
    ctx, th, beh_dir = args
    os.environ["JAVA_TOOL_OPTIONS"] = JAVA_OPTS
    tag = "race_T%d" % th
    cfg = tlc.subst_cfg("C17_Race.cfg", {"Thresh": th, "Emit": "TRUE"}, replace=[
        ("INIT RInit", "INIT RMCInit"), ("VIEW RView", "VIEW RView\nACTION_CONSTRAINT REmitEdge")])
    r = tlc.run(ctx, "C17_Race", "gen_%s_edges.cfg" % tag, cfg_text=cfg, workers=1, timeout=900, heap=HEAP, name="ed" + tag)
    if not r.ok:
        raise MachineryError("design-level failure in C17 %s: %s violated\n%s" % (tag, r.violated, r.out[-2500:]))
    insts = [o for t, o in r.prints if t == "VFINST"]
    g = graph.Graph(r.inits, r.edges)
    if len(insts) != 1 or g.n_edges() == 0 or g.n_states() != r.distinct:
        raise MachineryError("C17 %s: printed graph has %d states / %d edges, TLC found %d states"
                             % (tag, g.n_states(), g.n_edges(), r.distinct))
    # composites that matter: a record whose connection was closed AND removed while it was in flight
    late = sum(1 for sk, op, _t in g.edges if op["name"] == "record"
               and g.states[sk]["gone"][op["c"]] and op["o"] in insts[0]["addrs"])
    walks = _covering_walks(g, ctx.seed, 40)
    os.makedirs(os.path.join(beh_dir, "race"), exist_ok=True)
    graph.write_behaviours(os.path.join(beh_dir, "race", tag + ".jsonl"), walks,
                           {"inst": insts[0], "edges": g.n_edges(), "states": g.n_states()})
    return {"tag": tag, "distinct": r.distinct, "generated": r.generated, "edges": g.n_edges(), "walks": len(walks),
            "steps": sum(len(w["steps"]) for w in walks), "wall": r.wall, "late_records": late}


def _race_guard(args):
    """The variant that asks IsClosed before taking the lock must violate CreditOnlyOpenQ in the model."""
    (ctx,) = args
    os.environ["JAVA_TOOL_OPTIONS"] = JAVA_OPTS
    cfg = tlc.subst_cfg("C17_Race.cfg", {"EarlyCheck": "TRUE"}, replace=[(RACE_INV, "INVARIANTS CreditOnlyOpenQ"),
                                                                          (RACE_PROPS, "")])
    r = tlc.run(ctx, "C17_Race", "gen_race_early.cfg", cfg_text=cfg, workers=1, timeout=300, heap=HEAP, name="graceearly")
    if r.ok or r.violated != "CreditOnlyOpenQ":
        raise MachineryError("vacuity guard: C17_Race does not distinguish the early IsClosed check (CreditOnlyOpenQ holds)")
    return {"tag": "race_early"}


ASYNC_INV = "INVARIANTS ATypeOK CreditOnlyOpenQA LatestReportQ"
ASYNC_PROPS = "PROPERTIES NoCreditAfterCloseA"


def _async_print(args):
    """spec/C17_Async.tla, burst-shaped behaviours (emit* / mark / remove / drain) for the replay on a started Manager."""
    ctx, cap, beh_dir = args
    os.environ["JAVA_TOOL_OPTIONS"] = JAVA_OPTS
    tag = "async_Q%d" % cap
    cfg = tlc.subst_cfg("C17_Async.cfg", {"Cap": cap, "Emit": "TRUE"}, replace=[
        ("INIT AInit", "INIT AMCInit"), ("NEXT ANextAll", "NEXT ANextBurst"),
        ("VIEW AView", "VIEW AViewNoGhost\nACTION_CONSTRAINT AEmitEdge"),
        (ASYNC_INV, "INVARIANTS ATypeOK CreditOnlyOpenQA")])
    r = tlc.run(ctx, "C17_Async", "gen_%s_edges.cfg" % tag, cfg_text=cfg, workers=1, timeout=900, heap=HEAP, name="ed" + tag)
    if not r.ok:
        raise MachineryError("design-level failure in C17 %s: %s violated\n%s" % (tag, r.violated, r.out[-2500:]))
    insts = [o for t, o in r.prints if t == "VFINST"]
    g = graph.Graph(r.inits, r.edges)
    if len(insts) != 1 or g.n_edges() == 0 or g.n_states() != r.distinct:
        raise MachineryError("C17 %s: printed graph has %d states / %d edges, TLC found %d states"
                             % (tag, g.n_states(), g.n_edges(), r.distinct))
    facts = {"drain_with_two_reports_of_one_connection": 0, "emit_dropped_queue_full": 0,
             "drain_with_report_of_closed_connection": 0, "drain_changes_a_credit": 0}
    for sk, op, _t in g.edges:
        st = g.states[sk]
        if op["name"] == "emit" and not op["acc"]:
            facts["emit_dropped_queue_full"] += 1
        if op["name"] == "drain":
            cs = [e["c"] for e in st["wch"]]
            facts["drain_with_two_reports_of_one_connection"] += 1 if len(set(cs)) < len(cs) else 0
            facts["drain_with_report_of_closed_connection"] += 1 if any(not st["open"][c] for c in cs) else 0
            facts["drain_changes_a_credit"] += 1 if any(st["obs"][c] not in ("none", op["obs"][c]) for c in st["obs"]) else 0
    for k, v in facts.items():
        if not v:
            raise MachineryError("vacuous async behaviours: no transition with %s" % k)
    walks = _covering_walks(g, ctx.seed, 40)
    os.makedirs(os.path.join(beh_dir, "async"), exist_ok=True)
    graph.write_behaviours(os.path.join(beh_dir, "async", tag + ".jsonl"), walks,
                           {"inst": insts[0], "edges": g.n_edges(), "states": g.n_states()})
    return {"tag": tag, "distinct": r.distinct, "generated": r.generated, "edges": g.n_edges(), "walks": len(walks),
            "steps": sum(len(w["steps"]) for w in walks), "wall": r.wall, "facts": facts}


def _async_mc(args):
    """Exhaustive: every interleaving of the worker (Work and Drain) with emits and closes; with the ghost `last`."""
    ctx, cap = args
    os.environ["JAVA_TOOL_OPTIONS"] = JAVA_OPTS
    cfg = tlc.subst_cfg("C17_Async.cfg", {"Cap": cap})
    r = tlc.run(ctx, "C17_Async", "gen_async_Q%d_mc.cfg" % cap, cfg_text=cfg, workers=1, timeout=900, heap=HEAP,
                name="mcasyncQ%d" % cap)
    if not r.ok:
        raise MachineryError("design-level failure in C17_Async Cap=%d: %s violated\n%s" % (cap, r.violated, r.out[-2500:]))
    return {"tag": "async_Q%d_all_interleavings" % cap, "distinct": r.distinct, "generated": r.generated, "wall": r.wall}


def _async_guard(args):
    """The batch variant that keeps the first report per connection must violate LatestReportQ in the model."""
    (ctx,) = args
    os.environ["JAVA_TOOL_OPTIONS"] = JAVA_OPTS
    cfg = tlc.subst_cfg("C17_Async.cfg", {"OldestWins": "TRUE"}, replace=[(ASYNC_INV, "INVARIANTS LatestReportQ"),
                                                                           (ASYNC_PROPS, "")])
    r = tlc.run(ctx, "C17_Async", "gen_async_oldest.cfg", cfg_text=cfg, workers=1, timeout=300, heap=HEAP, name="gasyncold")
    if r.ok or r.violated != "LatestReportQ":
        raise MachineryError("vacuity guard: C17_Async does not distinguish 'oldest queued report wins' (LatestReportQ holds)")
    return {"tag": "async_oldest_wins"}


def _job(a):
    kind, rest = a[0], a[1:]
    return kind, {"print": _print_one, "mc": _mc_one, "guard": _guard_one, "race": _race_one,
                  "raceguard": _race_guard, "async": _async_print, "asyncmc": _async_mc,
                  "asyncguard": _async_guard,
                  "listen": _listen_one, "listenguard": _listen_guard}[kind](rest)


def run(ctx):
    if ctx.replay:
        return replay(ctx)
    beh_dir = ctx.sub("beh")
    ext = extension.start_all(ctx, ["C17am"])   # the consumer named in the anchors: the basic host's address manager
    tlc.stage(ctx)
    pr = replay_instances(ctx)
    mo = mc_only_instances(ctx)
    jobs = [("mc", ctx, i) for i in mo]                       # longest first
    jobs += [("print", ctx, i, beh_dir) for i in sorted(pr, key=lambda i: -len(i[0]))]
    jobs += [("race", ctx, th, beh_dir) for th in ((1, 2) if ctx.tier == "thorough" else (1,))]
    acap = 3 if ctx.tier == "thorough" else 2
    jobs += [("async", ctx, acap, beh_dir), ("asyncmc", ctx, acap)]
    # the two base-module guards duplicate graph-side facts (same_group_twice, truncation): thorough tier only
    jobs += [("guard", ctx, g) for g in (GUARDS if ctx.tier == "thorough" else [])]
    jobs += [("listen", ctx, th, beh_dir) for th in ((1, 2) if ctx.tier == "thorough" else (2,))]
    jobs += [("raceguard", ctx), ("asyncguard", ctx), ("listenguard", ctx)]
    # at most 4 TLC worker threads at a time: every run uses one worker
    with cf.ProcessPoolExecutor(max_workers=4) as ex:
        results = list(ex.map(_job, jobs))
    log("C17: TLC + walks done at %.1fs" % ctx.wall())
    prints = [r for k, r in results if k in ("print", "listen")]
    mcs = [r for k, r in results if k == "mc"]
    races = [r for k, r in results if k == "race"]
    if not all(r["late_records"] for r in races):
        raise MachineryError("vacuous race behaviours: no record step after close+remove of its connection")
    asyncs = [r for k, r in results if k in ("async", "asyncmc")]
    states = sum(r["distinct"] for r in prints + mcs + races + asyncs)
    trans = sum(r["generated"] for r in prints + mcs + races + asyncs)
    edges_total = sum(r["edges"] for r in prints)
    n_walks = sum(r["walks"] for r in prints)
    facts = {}
    for r in prints:
        for k, v in r["facts"].items():
            facts[k] = facts.get(k, 0) + v
    for k, v in facts.items():
        if not v:
            raise MachineryError("vacuous behaviours: no replayed transition with %s" % k)

    res = goenv.run_harness(ctx, PKG, "^TestVerifC17Replay$", inputs=beh_dir, timeout=1500)
    div = classify_mismatches(ctx, res, "replay")
    extra = res.get("extra") or {}
    if not res["mismatches"]:
        if res["steps"] < edges_total or res["distinct"] < edges_total:
            raise MachineryError("replay executed %d steps / %d distinct transitions for %d transitions"
                                 % (res["steps"], res["distinct"], edges_total))
        if not extra.get("default_threshold_steps"):
            raise MachineryError("no walk was replayed at the production threshold")
        if not extra.get("race_composites_fired_inside_the_call") or not extra.get("race_quiescent_comparisons"):
            raise MachineryError("the interference replay never fired inside a maybeRecordObservation call")
        if not extra.get("listen_set_changes") or not extra.get("reports_while_local_address_not_listened"):
            raise MachineryError("the replay never changed the listen set / never reported on an un-listened address")
        a_steps = sum(r["steps"] for k, r in results if k == "async")
        if (extra.get("async_steps") or 0) < a_steps or not extra.get("async_bursts_drained") \
                or not extra.get("async_events_dropped_queue_full"):
            raise MachineryError("the asynchronous replay executed %s of %d steps (bursts drained: %s)"
                                 % (extra.get("async_steps"), a_steps, extra.get("async_bursts_drained")))
    log("C17: %d printed + %d mc-only instances, %d states, %d transitions generated, %d replay transitions, %d walks, "
        "%d steps (+%s at the production threshold)" % (len(prints), len(mcs), states, trans, edges_total, n_walks,
                                                        res["steps"], extra.get("default_threshold_steps")))
    cov = evidence.mc_coverage(
        states, trans, res["replayed"] + int(extra.get("default_threshold_walks") or 0), res.get("samples") or [],
        exhaustive=True,
        checker_cmd="tlc C17_MC.tla (template C17_MC.cfg instantiated for %s; mc-only %s)" % (
            ", ".join(r["tag"] for r in prints), ", ".join(r["tag"] for r in mcs)),
        instances=len(prints) + len(mcs), per_instance={r["tag"]: {k: r[k] for k in ("distinct", "generated", "wall")}
                                                         for r in prints + mcs},
        replay_transitions_in_graphs=edges_total, replay_steps_executed=res["steps"],
        replay_distinct_transitions_executed=res["distinct"],
        default_threshold_walks=extra.get("default_threshold_walks"),
        default_threshold_steps=extra.get("default_threshold_steps"),
        default_ActivationThresh=extra.get("default_ActivationThresh"),
        listen_set_changes_replayed=extra.get("listen_set_changes"),
        reports_replayed_while_local_address_not_listened=extra.get("reports_while_local_address_not_listened"),
        steps_replayed_under_other_address_forms=extra.get("other_forms_steps", 0),
        race={"instances": {r["tag"]: {k: r[k] for k in ("distinct", "generated", "edges", "walks", "wall", "late_records")}
                            for r in races},
              "callbacks_of_a_credited_observe": extra.get("race_callbacks_of_a_credited_observe"),
              "walks_x_gate_positions": extra.get("race_walks"), "steps": extra.get("race_steps"),
              "composites": extra.get("race_composites"),
              "composites_fired_inside_the_call": extra.get("race_composites_fired_inside_the_call"),
              "quiescent_comparisons": extra.get("race_quiescent_comparisons"),
              "guard": "CreditOnlyOpenQ violated for EarlyCheck=TRUE"},
        async_path={"instances": {r["tag"]: {k: r[k] for k in r if k not in ("tag",)} for r in asyncs},
                    "real_queue_capacity": extra.get("async_real_queue_capacity"),
                    "walks": extra.get("async_walks"), "steps": extra.get("async_steps"),
                    "events_emitted": extra.get("async_events_emitted"),
                    "events_dropped_queue_full": extra.get("async_events_dropped_queue_full"),
                    "bursts_drained": extra.get("async_bursts_drained"),
                    "quiescent_comparisons": extra.get("async_quiescent_comparisons"),
                    "guard": "LatestReportQ violated for OldestWins=TRUE"},
        steps_where_keeping_credit_after_filtered_report_matters=extra.get(
            "steps_where_keeping_credit_after_filtered_report_matters", 0),
        vacuity_guards=[g[3] + "@" + _tag(*g[:3]) for g in (GUARDS if ctx.tier == "thorough" else [])], reached=facts,
        divergences_L2=div, notes=ctx.notes[:10], rule=res.get("rule"))
    extension.finish_all(ctx, ext, cov)
    return {"level": "model_checking", "coverage": cov, "assumptions": [
        "bounded universes (<=7 connections, <=5 observer groups, <=4 observed addresses, thresholds 1..3); the production "
        "threshold is exercised through the scale map (one model observer group = ActivationThresh/Thresh distinct real "
        "IPs or /56s), not exhaustively",
        "the listen-address set is fixed during a behaviour of the base/race/async models and a variable (Unlisten/Listen "
        "between reports, never during one) in C17_Listen.tla, whose instance is replayed with a listenAddrs() callback "
        "that follows the model; Observe/CloseConn are the synchronous bodies "
        "(maybeRecordObservation, removeConn) of the worker goroutine and of the Disconnected notification in the main "
        "model; the event-bus hand-off, the bounded worker queue (drop when full) and the worker loop are modelled in "
        "C17_Async.tla and replayed on a started Manager (real event bus, synctest) with observedAddrManagerWorkerChannelSize "
        "set to the model's capacity; only burst-shaped schedules (worker held, events queued, worker released) are forced",
        "a filtered report (loopback, NAT64, relayed, inconsistent transport) is taken as 'not received': the "
        "connection's earlier credited observation stays, as the code does; the other reading (the report changed, so "
        "it is withdrawn) is accepted too and would be reported as L2 divergence",
        "concurrency is covered only as interference at the manager's callbacks into its environment (listenAddrs, "
        "LocalMultiaddr, IsClosed, RemoteMultiaddr) during maybeRecordObservation, in the orders the gate can force "
        "(actions needing o.mu while the call holds it run when it returns, as they would block in production); answers are "
        "compared at quiescent states only",
        "manet.IsIPLoopback / IsNAT64IPv4ConvertedIPv6Addr decide the address classes for the concrete forms used",
    ]}


def replay(ctx):
    import json
    with open(ctx.replay) as f:
        m = json.load(f)
    raise MachineryError("replay of C17 artefacts: run `VERIF_SEED=%s ./check C17`; the artefact holds the failing prefix "
                         "(%d steps) with the concrete multiaddrs used (cfg.world)" % (
                             (m.get("cfg") or {}).get("seed", "<seed in file name>"), len(m.get("prefix") or [])))


MANIFEST = {
    "technique": "TLA+ spec (C17_ObservedAddrs.tla) model-checked exhaustively with TLC for every bounded universe; every "
                 "transition of the printed state graphs replayed on the real observedaddrs.Manager "
                 "(maybeRecordObservation / removeConn called synchronously on stub connections) with Addrs(0), "
                 "Addrs(thresh) and AddrsFor(every listen address) compared after each step against the set the model "
                 "recomputes from the observation/close history",
    "category": "model_checking",
    "text": "The model keeps, per connection, the one credited observation and recomputes from that history which "
            "observed addresses may be advertised per local thin-waist listen address (distinct observer groups over open "
            "connections >= threshold, most observed first with free ties, at most 3); TLC proves for every reachable "
            "history of the bounded universes that the implementation-shaped counters equal the derived multiset and "
            "that the code's top-3 is an admissible answer. The replay executes every (state, action) transition on the "
            "real Manager with concrete multiaddrs in several textual forms (same IPv4 other port, two IPv6 in one /56, "
            "adjacent /56s, IPv4 and IPv6 local universes, QUIC/WebTransport/ws listen addresses sharing a thin waist) at "
            "ActivationThresh = model threshold, and a share of the walks at the production threshold through a scale "
            "map, so for these universes the decision is complete up to the projection.",
    "note": "Trusted: TLC, the harness's concretisation map, in-package reads of externalAddrs/connObservedTWAddrs (L2 "
            "only). Bounded universes; listen addresses change only in the C17_Listen instance; the asynchronous hand-off (event bus, worker queue that may "
            "drop observations) is not modelled. Tie order and Addrs(1) are L2 only.",
    "engines": [{"name": "C17am_AddrsManager", "path": "spec/C17am_AddrsManager.tla", "serves_properties": ["C17"], "kind_free_text": "extension engine (checks/C17am.py, run as a part of C17): TLA+ spec of the basic host's address manager (inputs, the background loop's select, non-atomic updates, reachability tracker, Start/Close; 8 invariants, 5 action properties, liveness); TLC exhaustive; every printed transition replayed on the real addrsManager, event bus, peerstore and tracker under synctest with gates at the select and at every stub read"},
                {"name": "C17_Listen", "path": "spec/C17_Listen.tla", "serves_properties": ["C17"],
                 "kind_free_text": "TLA+ extension of C17_ObservedAddrs with the listen set as a variable (Unlisten/Listen); TLC exhaustive + full-transition replay with a listenAddrs() callback that follows the model"},
                {"name": "C17_ObservedAddrs", "path": "spec/C17_ObservedAddrs.tla", "serves_properties": ["C17"],
                 "kind_free_text": "TLA+ spec + TLC exhaustive + full-transition replay"}],
}
