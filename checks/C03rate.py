"""C03rate - extension engine of C03: the RATE side of admission (x/rate Limiter) and the connLimiter it is composed with.

C03's statement ends with "the number of simultaneously open connections from one IP subnet never exceeds the configured
per-subnet cap"; its check drives the resource manager with `WithConnRateLimiters(&rate.Limiter{})`, i.e. with rate limiting
switched off.  This engine covers what that leaves out:

  spec/C03rate_Limiter.tla  x/rate/limiter.go: Limiter.Allow / Limit(handler), network-prefix buckets, SubnetLimiter (per-subnet
                            buckets per configured prefix length, lazy clean-up by Expiry = FullAt + GracePeriod), global bucket,
                            consultation order and what a refusal burns; clauses R1..R7 as invariants / action properties over
                            integer ticks and half-token units (relative time: finite without a bound on absolute time)
  spec/C03rate_Conc.tla     Limiter.Allow has no lock of its own: one action per critical section, 3 concurrent callers,
                            K1 = every batch is linearisable (exhaustive); the harness releases real goroutines at one virtual
                            instant and requires SOME sequential order of its own ledger to explain the results
  spec/C03rate_Conn.tla     conn_limiter.go (addConn / rmConn: per network prefix and per subnet counts) composed with the rate
                            limiter as resourceManager.openConnection does (rate first, refused addConn burns the token, Done
                            releases), clauses L1..L5, J1, J2
  replay                    every transition of every printed instance on the real objects inside testing/synctest:
                            x/rate (direct Allow and through Limit(handler) with stub streams), rcmgr.VerifySourceAddress (the
                            limiter newVerifySourceAddressRateLimiter derives from the caps), connLimiter in-package and through
                            NewResourceManager/OpenConnection/Done; abstract addresses concretised over families (IPv4, IPv6,
                            IPv4-mapped IPv6, zoned, netip.Addr{}), prefix lengths with the distinguishing bit at the boundary,
                            host-bit spellings of prefixes, tick lengths 250 ms..10 s (all token arithmetic exact in float64)
  identify                  call-site sanity check: Start registers IDPush wrapped in rateLimiter.Limit, keyed by the REMOTE address
  monitors (L1)             from the harness's own integer ledger (internal/vfc03rate), not from the model: R1 window bound for
                            every bucket, R2 no spurious refusal under the documented accounting, R6 both halves (in-package
                            read of the heaps), Limit-wrapper contract, caps / spurious conn refusal / error kind for the manager
"""
import concurrent.futures as cf
import os
import time

from lib import evidence, goenv, graph, tlc
from lib.common import HarnessCrash, MachineryError, classify_mismatches, log

PARENT = "C03"
PKG_RATE = "./x/rate"
PKG_RCMGR = "./p2p/host/resource-manager"
PKG_IDENTIFY = "./p2p/protocol/identify"

# (the invariants / action properties checked are those of the cfg templates spec/C03rate_MC.cfg, C03rate_ConnMC.cfg, C03rate_ConcMC.cfg)

# vacuity is counted on the printed graphs (every VIEW-distinct transition is printed): kinds that must occur per instance
LIM_INSTANCES = {
    "sub4": ["Allow:sub1", "Allow:sub2", "Allow:glob", "forgot", "Tick"],
    "np": ["Allow:np2", "Allow:np3", "Allow:glob"],
    "v6": ["Allow:sub1", "Allow:sub2", "forgot"],
    "mapped": ["Allow:sub1", "Allow:glob"],
    "b0": ["Allow:np1", "Allow:sub1"],
    "vsa": ["Allow:np1", "Allow:sub1", "Allow:sub2", "forgot"],
    "vsanp": ["Allow:np1", "Allow:np2", "Allow:np3", "Allow:sub1"],
    "sub4L": ["Allow:sub1", "Allow:sub2", "Allow:glob", "forgot", "Tick"],       # thorough tier only
}
THOROUGH_ONLY = ("sub4L", "jointM", "jointL")
CONN_INSTANCES = {"c4": 3, "c6": 3, "joint": 2, "jointM": 2, "jointL": 2}  # MaxLive; jointM: thorough; jointL: thorough, exhaustive only
# quick tier: share of a big printed graph that is replayed (seeded covering sample); thorough replays every transition
QUICK_SAMPLE = {"joint": 25000, "c6": 15000}
CONN_KINDS = {"c4": ["Open:conn", "Open:conn@2", "zero-entry", "Done", "Bogus"], "c6": ["Open:conn", "Open:conn@2"],
              "joint": ["Open:conn", "Open:rate", "Done", "Tick"], "jointM": ["Open:conn", "Open:rate", "Done", "Tick"]}
CONC_INSTANCES = {"ksub": "{1, 2, 3}", "knp": "{1, 2, 3}"}


def _lim_one(args):
    ctx, inst, beh_dir = args
    consts = {"Inst": '"%s"' % inst}
    limit = QUICK_SAMPLE.get(inst) if ctx.quick else None
    t0 = time.time()
    # one run: every invariant / action property AND every transition printed once (VIEW-distinct) for the replay
    cfg = tlc.subst_cfg("C03rate_MC.cfg", consts, replace=[("INIT Init", "INIT MCInit"), ("VIEW View", "VIEW View\nACTION_CONSTRAINT EmitEdge")])
    r1 = r2 = tlc.run(ctx, "C03rate_MC", "gen_%s_mc.cfg" % inst, cfg_text=cfg, workers=1, timeout=900, name="mc" + inst)
    if not r1.ok:
        raise MachineryError("design-level failure in C03rate_Limiter %s: %s violated\n%s" % (inst, r1.violated, r1.out[-1500:]))
    conf = [o for t, o in r2.prints if t == "VFCONF"]
    g = graph.Graph(r2.inits, r2.edges)
    if g.n_edges() == 0 or not conf:
        raise MachineryError("no edges / configuration printed for " + inst)
    walks = g.covering_walks(seed=ctx.seed, max_len=150, limit_edges=limit)
    graph.write_behaviours(os.path.join(beh_dir, "lim_%s.jsonl" % inst), walks, {"conf": conf[0], "edges": g.n_edges(), "states": g.n_states()})
    kinds = {}
    for _s, op, _t in g.edges:
        k = op["name"] if op["name"] != "Allow" else "Allow:%s%s" % ("ok" if op["ok"] else op["by"], op["at"] if op.get("at") else "")
        kinds[k] = kinds.get(k, 0) + 1
        if op["name"] == "Allow" and op.get("forgot"):
            kinds["forgot"] = kinds.get("forgot", 0) + 1
    return {"inst": inst, "states": r1.distinct, "generated": r1.generated, "edges": g.n_edges(), "walks": len(walks),
            "steps": sum(len(w["steps"]) for w in walks), "kinds": kinds, "wall": round(time.time() - t0, 1), "cmd": r1.cmd}


def _conn_one(args):
    ctx, inst, beh_dir = args
    maxlive = CONN_INSTANCES[inst]
    consts = {"Inst": '"%s"' % inst, "MaxLive": maxlive}
    limit = QUICK_SAMPLE.get(inst) if ctx.quick else None
    t0 = time.time()
    if inst == "jointL":
        r1 = tlc.run(ctx, "C03rate_ConnMC", "gen_%s_mc.cfg" % inst, cfg_text=tlc.subst_cfg("C03rate_ConnMC.cfg", consts), workers=1,
                     timeout=1500, name="mc" + inst)
        if not r1.ok:
            raise MachineryError("design-level failure in C03rate_Conn %s: %s violated\n%s" % (inst, r1.violated, r1.out[-1500:]))
        return {"inst": inst, "states": r1.distinct, "generated": r1.generated, "edges": 0, "walks": 0, "steps": 0, "kinds": {},
                "wall": round(time.time() - t0, 1), "cmd": r1.cmd}
    cfg = tlc.subst_cfg("C03rate_ConnMC.cfg", consts, replace=[("INIT CInit", "INIT MCInit"), ("VIEW CView", "VIEW CView\nACTION_CONSTRAINT EmitEdge")])
    r1 = r2 = tlc.run(ctx, "C03rate_ConnMC", "gen_%s_mc.cfg" % inst, cfg_text=cfg, workers=1, timeout=900, name="mc" + inst)
    if not r1.ok:
        raise MachineryError("design-level failure in C03rate_Conn %s: %s violated\n%s" % (inst, r1.violated, r1.out[-1500:]))
    conf = [o for t, o in r2.prints if t == "VFCONF"]
    g = graph.Graph(r2.inits, r2.edges)
    if g.n_edges() == 0 or not conf:
        raise MachineryError("no edges / configuration printed for " + inst)
    walks = g.covering_walks(seed=ctx.seed, max_len=150, limit_edges=limit)
    graph.write_behaviours(os.path.join(beh_dir, "conn_%s.jsonl" % inst), walks, {"conf": conf[0], "edges": g.n_edges(), "states": g.n_states()})
    kinds = {}
    for _s, op, _t in g.edges:
        k = op["name"] + (":" + op["res"] if op["name"] == "Open" else "")
        kinds[k] = kinds.get(k, 0) + 1
        if op["name"] == "Open" and op["res"] == "conn" and op.get("at") == 2:
            kinds["Open:conn@2"] = kinds.get("Open:conn@2", 0) + 1
        tt = g.states[_t]
        if isinstance(tt["subc"], dict) and any(n == 0 for n in tt["subc"].values()):
            kinds["zero-entry"] = kinds.get("zero-entry", 0) + 1
    return {"inst": inst, "states": r1.distinct, "generated": r1.generated, "edges": g.n_edges(), "walks": len(walks),
            "steps": sum(len(w["steps"]) for w in walks), "kinds": kinds, "wall": round(time.time() - t0, 1), "cmd": r1.cmd}


def _conc_one(args):
    ctx, inst = args
    consts = {"Inst": '"%s"' % inst, "Callers": "{1, 2}" if (ctx.quick and inst == "ksub") else CONC_INSTANCES[inst]}
    t0 = time.time()
    r1 = tlc.run(ctx, "C03rate_ConcMC", "gen_%s_mc.cfg" % inst, cfg_text=tlc.subst_cfg("C03rate_ConcMC.cfg", consts), workers=1,
                 timeout=900, name="mc" + inst)
    if not r1.ok:
        raise MachineryError("design-level failure in C03rate_Conc %s: %s violated\n%s" % (inst, r1.violated, r1.out[-1500:]))
    cfg = tlc.subst_cfg("C03rate_ConcMC.cfg", consts, replace=[("INVARIANTS Linearisable KBound", "INVARIANTS ReachMixed")])
    r = tlc.run(ctx, "C03rate_ConcMC", "gen_%s_reach.cfg" % inst, cfg_text=cfg, workers=1, timeout=600, name="g" + inst)
    if r.ok or r.violated != "ReachMixed":
        raise MachineryError("vacuity guard ReachMixed is not reachable in " + inst)
    return {"inst": inst, "states": r1.distinct, "generated": r1.generated, "wall": round(time.time() - t0, 1), "cmd": r1.cmd}


def _job(a):
    return a[0](a[1])


_CODE = ("x/rate/limiter.go", "resource-manager/conn_limiter.go", "resource-manager/conn_rate_limiter.go", "resource-manager/rcmgr.go")


def _harness(ctx, pkg, test, **kw):
    """run_harness; a test process killed by a panic raised inside the code under test (the harness recovers panics on
    its own goroutines, so this is a panic it could not catch) is a violation if it happens again (cf. checks/C15.py)."""
    import re
    pat = re.compile(r"^(?:panic|fatal error): (.*)$|^(WARNING: DATA RACE)$", re.M)

    def verdict(e):
        m = pat.search(e.log)
        return (m.group(1) or m.group(2)) if (m and any(c in e.log for c in _CODE)) else None

    try:
        return goenv.run_harness(ctx, pkg, test, **kw)
    except HarnessCrash as e:
        why = verdict(e)
        if not why:
            raise
        try:
            return goenv.run_harness(ctx, pkg, test, **kw)
        except HarnessCrash as e2:
            why2 = verdict(e2)
            if why2:
                cls = "limiter-data-race" if ("DATA RACE" in why2 or "concurrent map" in why2) else "limiter-panic"
                return {"replayed": 1, "steps": 0, "distinct": 0, "samples": [], "extra": {},
                        "mismatches": [{"class": cls, "what": "%s: the code under test fails: %s" % (test.strip("^$"), why2),
                                        "got": e2.log[-3000:], "walk": -1, "step": -1}]}
            raise
        raise MachineryError("the harness process died once (%s) and not again with the same seed (inconclusive)" % why)


def run_part(ctx, thorough):
    """Everything; returns the coverage dictionary (the parent's driver may call this as a part)."""
    marks = []
    t_ = [time.time()]

    def mark(s):
        marks.append("%s %.0fs" % (s, time.time() - t_[0]))
        t_[0] = time.time()

    beh = ctx.sub("beh")
    reuse = os.environ.get("VERIF_C03RATE_BEH")     # developer shortcut (mutation self-tests): behaviours of an earlier run
    if reuse and os.path.exists(os.path.join(reuse, "stats.json")):
        import json
        beh = reuse
        with open(os.path.join(reuse, "stats.json")) as f:
            out = json.load(f)
    else:
        tlc.stage(ctx)
        prio = ["jointL", "jointM", "sub4L", "joint", "sub4", "c6", "v6", "c4", "vsa"]      # longest first
        jobs = [(_conn_one, (ctx, i, beh)) for i in CONN_INSTANCES] + [(_lim_one, (ctx, i, beh)) for i in LIM_INSTANCES] + \
               [(_conc_one, (ctx, i)) for i in CONC_INSTANCES]
        jobs = [j for j in jobs if thorough or j[1][1] not in THOROUGH_ONLY]
        jobs.sort(key=lambda j: prio.index(j[1][1]) if j[1][1] in prio else len(prio))
        with cf.ProcessPoolExecutor(max_workers=4) as ex:      # 4 x 1 TLC worker
            out = list(ex.map(_job, jobs))
        import json
        with open(os.path.join(beh, "stats.json"), "w") as f:
            json.dump(out, f)
    out = [o for o in out if thorough or o["inst"] not in THOROUGH_ONLY]
    lim = [o for o in out if o["inst"] in LIM_INSTANCES]
    for o in lim + [x for x in out if x["inst"] in CONN_INSTANCES]:
        o["replayed_share"] = "sample" if (ctx.quick and o["inst"] in QUICK_SAMPLE) else "all"
    conn = [o for o in out if o["inst"] in CONN_INSTANCES]
    conc = [o for o in out if o["inst"] in CONC_INSTANCES]
    mark("tlc")
    # vacuity on the printed graphs
    need = dict(LIM_INSTANCES)
    need.update(CONN_KINDS)
    for o in lim + conn:
        if o["inst"] == "jointL":
            continue
        for k in need.get(o["inst"], []):
            if not o["kinds"].get(k):
                raise MachineryError("printed graph of %s has no %s transition (%s)" % (o["inst"], k, o["kinds"]))

    viol0 = len(ctx.violations)
    div = 0
    # (1) x/rate: replay, concurrency, zero-RPS probe
    res = _harness(ctx, PKG_RATE, "^TestVerifC03rateReplay$", inputs=beh, timeout=1500)
    div += classify_mismatches(ctx, res, "replay")
    want = sum(o["steps"] for o in lim)
    if not res["mismatches"] and res["steps"] != want:
        raise MachineryError("x/rate replay executed %d steps for %d in the walks" % (res["steps"], want))
    mark("replay")
    seqs, rounds = (100, 50) if thorough else (30, 40)
    conc_h = _harness(ctx, PKG_RATE, "^TestVerifC03rateConc$", inputs=beh, timeout=1500, race=True,
                               env={"VERIF_C03RATE_CONC_SEQS": seqs, "VERIF_C03RATE_CONC_ROUNDS": rounds})
    div += classify_mismatches(ctx, conc_h, "conc")
    if not conc_h["mismatches"] and not (conc_h.get("extra") or {}).get("conc_batches_split_over_one_address"):
        raise MachineryError("vacuous concurrency run: no batch had one address both allowed and refused")
    mark("conc")
    zero = _harness(ctx, PKG_RATE, "^TestVerifC03rateZero$", timeout=900)
    div += classify_mismatches(ctx, zero, "zero")
    mark("zero")
    # (2) resource manager: connLimiter in-package and through OpenConnection/Done, VerifySourceAddress, default configuration
    connh = _harness(ctx, PKG_RCMGR, "^TestVerifC03rateConn$", inputs=beh, timeout=1500)
    div += classify_mismatches(ctx, connh, "conn")
    want = sum(o["steps"] for o in conn)
    if not connh["mismatches"] and connh["steps"] != want:
        raise MachineryError("rcmgr replay executed %d steps for %d in the walks" % (connh["steps"], want))
    cx = connh.get("extra") or {}
    if not connh["mismatches"] and not (cx.get("walks_direct") and cx.get("walks_manager")):
        raise MachineryError("vacuous conn replay: %s" % cx)
    mark("conn")
    vsa = _harness(ctx, PKG_RCMGR, "^TestVerifC03rateVSA$", inputs=beh, timeout=1500)
    div += classify_mismatches(ctx, vsa, "vsa")
    want = sum(o["steps"] for o in lim if o["inst"].startswith("vsa"))
    if not vsa["mismatches"] and vsa["steps"] != want:
        raise MachineryError("VerifySourceAddress replay executed %d steps for %d in the walks" % (vsa["steps"], want))
    dflt = _harness(ctx, PKG_RCMGR, "^TestVerifC03rateDefaults$", timeout=1500, env={"VERIF_C03RATE_DEFAULT_SEQS": 200 if thorough else 40})
    div += classify_mismatches(ctx, dflt, "defaults")
    if not dflt["mismatches"] and dflt["distinct"] < 20:
        raise MachineryError("vacuous default-configuration run: %d distinct (address, result) cases" % dflt["distinct"])
    idc = _harness(ctx, PKG_IDENTIFY, "^TestVerifC03rateIdentifyCallSite$", timeout=1500)
    div += classify_mismatches(ctx, idc, "identify")
    if not idc["mismatches"] and idc["distinct"] < 9:
        raise MachineryError("identify call-site check ran %d of its cases" % idc["distinct"])
    mark("vsa+defaults+identify")
    cov = {
        "conn_replay_steps_executed": connh["steps"], "conn_replay_walks": connh["replayed"], "conn_replay_distinct_cases": connh["distinct"],
        "conn_walks_direct_connLimiter": cx.get("walks_direct"), "conn_walks_through_manager": cx.get("walks_manager"),
        "conn_zero_entries_left_after_release": cx.get("zero_entries_left_after_release"),
        "vsa_replay_steps_executed": vsa["steps"], "vsa_replay_walks": vsa["replayed"], "vsa_distinct_cases": vsa["distinct"],
        "defaults_sequences": dflt["replayed"], "defaults_steps": dflt["steps"], "defaults_distinct_cases": dflt["distinct"],
        "defaults_extra": dflt.get("extra"),
        "identify_call_site_pushes": idc["steps"], "identify_call_site_cases": idc["distinct"],
        "limiter_instances": {o["inst"]: {k: o[k] for k in ("states", "generated", "edges", "walks", "steps", "wall", "replayed_share")} for o in lim},
        "conn_instances": {o["inst"]: {k: o[k] for k in ("states", "generated", "edges", "walks", "steps", "wall", "replayed_share")} for o in conn},
        "concurrent_instances": {o["inst"]: {k: o[k] for k in ("states", "generated", "wall")} for o in conc},
        "transition_kinds": {o["inst"]: o["kinds"] for o in lim + conn},
        "replay_steps_executed": res["steps"], "replay_walks": res["replayed"], "replay_distinct_cases": res["distinct"],
        "replay_via_limit_wrapper": (res.get("extra") or {}).get("via_limit_wrapper", 0),
        "replay_rest_probes": (res.get("extra") or {}).get("rest_probes", 0),
        "concurrent_sequences": conc_h["replayed"], "concurrent_calls": conc_h["steps"], "concurrent_distinct": conc_h["distinct"],
        "concurrent_batches_split_over_one_address": (conc_h.get("extra") or {}).get("conc_batches_split_over_one_address", 0),
        "zero_probe": zero.get("extra"),
        "divergences_L2": div, "marks": marks,
    }
    states = sum(o["states"] for o in out)
    trans = sum(o["generated"] for o in out)
    traces = res["replayed"] + conc_h["replayed"] + zero["replayed"] + connh["replayed"] + vsa["replayed"] + dflt["replayed"] + idc["replayed"]
    log("C03rate: %d states, %d transitions generated; %s; new violations %d; L2 %d" % (states, trans, marks, len(ctx.violations) - viol0, div))
    return {"states": states, "transitions": trans, "replayed": traces, "samples": (res.get("samples") or [])[:3], "coverage": cov,
            "cmd": "tlc C03rate_MC.tla / C03rate_ConnMC.tla / C03rate_ConcMC.tla (templates instantiated per instance)"}


def run(ctx):
    if ctx.replay:
        raise MachineryError("replay of C03rate artefacts: run `VERIF_SEED=<seed in the file name> ./check C03rate`; the artefact holds the failing prefix and the concretisation")
    p = run_part(ctx, ctx.tier == "thorough")
    cov = evidence.mc_coverage(p["states"], p["transitions"], p["replayed"], p["samples"], exhaustive=True, checker_cmd=p["cmd"],
                               parent_property=PARENT, **p["coverage"])
    cov["notes"] = ctx.notes[:10]
    return {"level": "model_checking", "coverage": cov, "assumptions": [
        "bounded instances (bursts <= 3, <= 7 abstract addresses, <= 3 concurrent callers); production parameters only by seeded sequences under the ledger monitors",
        "golang.org/x/time/rate token arithmetic is trusted; the scale map keeps every token amount exact in float64",
        "interleavings inside Limiter.Allow cannot be steered on the real code (no callback inside): linearisability is model-checked and its conclusion observed on batches of real goroutines",
    ]}


ENGINE = {"name": "C03rate_Limiter", "path": "spec/C03rate_Limiter.tla", "serves_properties": [PARENT],
          "kind_free_text": "TLA+ specs of x/rate Limiter (token buckets per prefix / subnet / global in relative integer time, lazy forgetting), of its "
                            "concurrent use (linearisability) and of the connLimiter composed with it as in openConnection + TLC exhaustive + "
                            "full-transition replay on the real objects in virtual time with ledger monitors"}
MANIFEST = {
    "technique": "TLA+ specs (C03rate_Limiter/_Conc/_Conn.tla) model-checked exhaustively with TLC; every transition of every printed instance replayed on the real rate.Limiter, connLimiter and resource manager inside testing/synctest; clauses monitored from an independent integer ledger",
    "category": "model_checking",
    "text": "Extension engine of C03 for the rate side of admission: token-bucket bound per bucket, no spurious refusal under the documented consultation order, prefix exemption, refusal inertness, independence of subnets/families, soundness and liveness of forgetting idle subnet buckets, zero = unlimited; per-subnet connection counts and caps, release symmetry, composition rate-then-count of openConnection, VerifySourceAddress derivation.",
    "note": "Trusted: TLC, golang.org/x/time/rate, the in-package projection of heaps/buckets/count maps, netip for the concretisation check. Bounded instances; interleavings inside Allow are model-checked, not steered on the real code.",
    "engines": [ENGINE],
}
