"""C17am - extension engine of C17: the consumer of the observed-address manager, i.e. what the host ADVERTISES.

Component: p2p/host/basic/addrs_manager.go (addrsManager: Addrs / DirectAddrs / ConfirmedAddrs / HolePunchAddrs, the
`background` loop with its ticker, notifications, relay / reachability subscriptions, EvtLocalAddressesUpdated and the
host's own peerstore entry + signed peer record, Start / Close) with the reachability tracker of
addrs_reachability_tracker.go as one of its inputs.

  spec/C17am_AddrsManager.tla  statement (clauses A1..A9) and model: environment actions change the inputs (listen
                               addresses, NAT mappings, AddrsFor answers, factory behaviour), publish relay / reachability
                               events, let time pass (ticker, tracker probe runs), call Start / Close / notify; one action
                               per case of the loop's select; in Split instances every stub read of an update is a step of
                               its own.  Exhaustive TLC (invariants, action properties, A9 as liveness under fairness,
                               vacuity probes).
  replay                       every transition of the printed instances (sequential skeleton `Prio` of the module) executed
                               on a real addrsManager + real event bus + real pstoremem peerstore (+ the real tracker with a
                               stub autonat client) under testing/synctest, gated at the select and - Split - at every stub
                               read; names of the model concretised over three families of multiaddrs; after every step the
                               public calls, the peerstore entry, the signed record, the events and who is still blocked are
                               compared with the model, and the clauses are monitored from the harness's ledger (L1).
  scenarios                    free-running manager (no gates): change reflected within one ticker period, production cap
                               with long AddrsFor answers, Close without Start / twice, notification before Start,
                               BasicHost wiring (Listen on a real swarm is reflected when Listen returns).
"""
import concurrent.futures as cf
import json
import os
import re
import time

from lib import evidence, goenv, graph, tlc
from lib.common import HarnessCrash, MachineryError, classify_mismatches, log

PKG = "./p2p/host/basic"
INV = "INVARIANTS TypeOK ObservedSound Cap NoJunk Complete RelayRule Fresh Lifecycle"
PROPS = "PROPERTIES EventDiff FactorySees NotifyServed AfterExit BeforeStart"


def S(*names):
    return "{" + ", ".join('"%s"' % n for n in names) + "}"


def R(*sets):
    return "{" + ", ".join(S(*s) for s in sets) + "}"


def C(pool=(), init=("Lpriv",), natk=(), natc=("-",), obsk=(), obsc=("e",), relay=(), reach=(), fm=("id",), tracker=False,
      nat=True, obs=True, pubonly=False, split=False, first=True, close=0, env=3, notify=1, t=1, hour=0):
    return {"ListenPool": S(*pool), "InitListen": S(*init), "NatKeys": S(*natk), "NatChoices": S(*natc), "ObsKeys": S(*obsk),
            "ObsChoices": S(*obsc), "RelayChoices": R(*relay), "ReachChoices": S(*reach), "FModes": S(*fm),
            "Tracker": "TRUE" if tracker else "FALSE", "HasNAT": "TRUE" if nat else "FALSE", "HasObs": "TRUE" if obs else "FALSE",
            "PubOnly": "TRUE" if pubonly else "FALSE", "Split": "TRUE" if split else "FALSE",
            "StartFirst": "TRUE" if first else "FALSE", "MaxClose": close,
            "MaxEnv": env, "MaxNotify": notify, "MaxTime": t, "MaxHour": hour,
            "_hdr": {"initListen": list(init), "natKeys": list(natk), "obsKeys": list(obsk), "tracker": tracker, "hasNAT": nat,
                     "hasObs": obs, "pubOnly": pubonly, "split": split}}


ALLF = ("id", "dup", "droppub", "add", "const", "none")
REL = ((), ("Rel1",), ("Rel1", "Rel2"))
RCH = ("unknown", "public", "private")


def replay_instances(thorough):
    """(name, constants, edge limit)"""
    out = [
        # observed addresses next to listen / NAT addresses: cap, duplicates against NAT and listen addresses
        ("obs", C(pool=("Lun",), natk=("Lpriv",), natc=("-", "Npub"), obsk=("Lpriv", "Ri2"), obsc=("e", "c", "n"), env=3), None),
        # every kind of listen address and NAT answer (unspecified, bare circuit, unresolvable, duplicates)
        ("junk", C(pool=("Lun", "Lcirc", "Lpub"), init=("Lun6",), natk=("Lun",), natc=("-", "Nun", "Npriv", "Lpub"), obsk=("Lun6",),
                   obsc=("e", "l"), env=3), None),
        # autonat v1: relay addresses iff private
        ("relay", C(init=("Lpriv", "Lpub"), relay=REL, reach=("public", "private"), env=3), None),
        # the factory, with DisableNonPublicAddrPublishing
        ("fact", C(init=("Lpriv", "Lpub"), relay=(("Rel1", "Rel2"),), reach=("private",), fm=ALLF, pubonly=True, env=3), None),
        # autonat v2: the tracker
        ("trk", C(pool=("Lpub",), obsk=("Lpriv",), obsc=("e", "b"), relay=(("Rel1",),), tracker=True, env=2, t=2, hour=1), None),
        # stub reads of one update as separate steps
        ("split", C(pool=("Lun",), natk=("Lpriv",), natc=("-", "Npub"), obsk=("Lpriv", "Ri1"), obsc=("e", "a"), split=True, close=1,
                    env=2, notify=1), None),
        # ... with relay / reachability events arriving meanwhile (Addrs() uses the new reachability on the old lists)
        ("splitr", C(init=("Lpub",), nat=False, relay=(("Rel1",),), reach=("private", "public"), split=True, env=3), None),
        # no NAT manager, no observed-address manager
        ("bare", C(pool=("Lpriv", "Lun"), init=(), nat=False, obs=False, relay=(("Rel2",),), reach=("private",), env=3), None),
        # Start / Close at any moment
        ("life", C(obsk=("Lpriv",), obsc=("e", "a"), relay=(("Rel1",),), reach=("private",), first=False, close=1, env=2, notify=2), None),
    ]
    if thorough:
        out += [
            ("obs2", C(pool=("Lpriv",), init=("Lun",), natk=("Lun",), natc=("-", "Npub", "Npriv"), obsk=("Lun", "Ri1", "Ri2"),
                       obsc=("e", "b", "d"), env=3), 100000),
            ("relay2", C(pool=("Lpub",), relay=REL, reach=RCH, fm=("id", "add"), obsk=("Lpriv",), obsc=("e", "a"), env=3, notify=2), 100000),
            ("trk2", C(init=("Lun",), natk=("Lun",), natc=("-", "Npub"), relay=(("Rel1",),), tracker=True, env=3, t=2, hour=1), 100000),
            ("split2", C(init=("Lpriv", "Lpub"), natk=("Lpub",), natc=("-", "Npub"), obsk=("Lpriv", "Lpub"), obsc=("e", "c"),
                         relay=(("Rel1",),), reach=("private",), split=True, close=1, env=2), 100000),
            ("life2", C(pool=("Lun",), obsk=("Lpriv",), obsc=("e", "a"), relay=(("Rel1",), ()), reach=("private", "public"), tracker=False,
                        first=False, close=1, env=3, notify=2), 100000),
        ]
    return out


def exhaustive_instances(thorough):
    """(name, constants, TLC workers): bigger than what is printed; no sequential skeleton"""
    out = [
        ("xall", C(pool=("Lun",), natk=("Lpriv",), natc=("-", "Npub"), obsk=("Lpriv", "Ri2"), obsc=("e", "c"), relay=(("Rel1",),),
                   reach=("private",), fm=("id", "droppub"), first=False, close=1, env=3, notify=1), 1),
        ("xsplit", C(pool=("Lun",), natk=("Lpriv",), natc=("-", "Npub"), obsk=("Lpriv", "Ri1"), obsc=("e", "c"), relay=(("Rel1",),),
                     reach=("private",), split=True, first=False, close=1, env=2, notify=1), 1),
        ("xtrk", C(pool=("Lpub",), obsk=("Lpriv",), obsc=("e", "a"), relay=(("Rel1",),), tracker=True, first=False, close=1,
                   env=2, t=1, hour=1, notify=1), 1),
    ]
    if thorough:
        out = [
            ("xall", C(pool=("Lun",), natk=("Lpriv",), natc=("-", "Npub", "Nun"), obsk=("Lpriv", "Ri2"), obsc=("e", "c", "n"),
                       relay=((), ("Rel1",)), reach=("private", "public"), fm=("id", "droppub"), first=False, close=1, env=3, notify=2), 1),
            ("xsplit", C(pool=("Lun",), natk=("Lpriv",), natc=("-", "Npub"), obsk=("Lpriv", "Ri1"), obsc=("e", "c"), relay=(("Rel1",),),
                         reach=("private",), fm=("id", "const"), split=True, first=False, close=1, env=3, notify=1), 1),
            ("xtrk", C(pool=("Lpub",), obsk=("Lpriv",), obsc=("e", "a"), relay=((), ("Rel1",)), tracker=True, first=False, close=1,
                       env=3, t=2, hour=1, notify=1), 1),
            ("xtrks", C(pool=("Lpriv",), init=("Lpub",), obsk=("Lpriv",), obsc=("e", "a"), relay=(("Rel1",),), tracker=True, split=True,
                        first=False, close=1, env=2, t=1, hour=1), 1),
        ]
    return out


def liveness_instances(thorough):
    out = [("l1", C(obsk=("Lpriv",), obsc=("e", "a"), relay=(("Rel1",),), reach=("private",), first=False, close=1,
                    env=2, notify=1, t=0))]
    if thorough:
        out.append(("l2", C(natk=("Lpriv",), natc=("-", "Npub"), obsk=("Lpriv",), obsc=("e", "a"), split=True, first=False, close=1,
                            env=2, notify=1, t=0)))
    return out


STALE = C(init=("Lpriv", "Lpub"), relay=(("Rel1",),), reach=("private",), split=True, env=2)
PROBES = [("ReachCapped", "obs"), ("ReachRelayShown", "relay"), ("ReachPublicHidden", "relay"), ("ReachUnreachableDropped", "trk"),
          ("ReachTorn", "split"), ("ReachCloseMidUpdate", "split"), ("ReachStaleQuery", STALE), ("ReachDedup", "obs")]


def _consts(c):
    return {k: v for k, v in c.items() if not k.startswith("_")}


def _exhaustive(args):
    ctx, (name, consts, workers) = args
    cfg = tlc.subst_cfg("C17am_MC.cfg", _consts(consts))
    r = tlc.run(ctx, "C17am_MC", "gen_am_%s.cfg" % name, cfg_text=cfg, workers=workers, timeout=1500, name="am" + name)
    if not r.ok:
        raise MachineryError("design-level failure in C17am_AddrsManager %s: %s violated\n%s" % (name, r.violated, r.out[-2500:]))
    return name, r.distinct, r.generated, r.wall


def _liveness(args):
    ctx, (name, consts) = args
    cfg = tlc.subst_cfg("C17am_MC.cfg", _consts(consts), replace=[
        ("INIT Init\nNEXT Next\nVIEW View", "SPECIFICATION FairSpec"), (INV, "INVARIANTS TypeOK"),
        (PROPS, "PROPERTIES Reflected CloseReturns")])
    r = tlc.run(ctx, "C17am_MC", "gen_am_%s.cfg" % name, cfg_text=cfg, workers=1, timeout=1500, name="am" + name)
    if not r.ok:
        raise MachineryError("design-level failure in C17am liveness %s: %s violated\n%s" % (name, r.violated, r.out[-2500:]))
    return name, r.distinct, r.generated, r.wall


def _reach(args):
    ctx, probe, consts = args
    cfg = tlc.subst_cfg("C17am_MC.cfg", _consts(consts), replace=[(INV, "INVARIANTS " + probe), (PROPS, "")])
    r = tlc.run(ctx, "C17am_MC", "gen_am_%s.cfg" % probe, cfg_text=cfg, workers=1, timeout=600, name="am" + probe)
    if r.ok or r.violated != probe:
        raise MachineryError("vacuity guard: %s is not reachable in C17am_AddrsManager" % probe)
    return probe


# kinds of transition that must occur in the printed graphs (vacuity)
NEED = ("listen", "unlisten", "setnat", "setobs", "setfmode", "emitrelay", "emitrelay-prestart", "emitreach", "start", "loopinit",
        "loopinit-takes", "notify-blocks", "notify-immediate", "close-immediate", "close-waits", "close-mid-update", "tick",
        "tick-probes", "hour-flips", "update-tick", "update-notify", "update-relay", "update-reach", "update-reachtrig", "take", "read-nat",
        "read-obs", "read-changed", "commit", "exit", "event-added", "event-removed", "event-none", "event-reach", "capped", "relay-shown",
        "public-hidden", "unreachable-dropped", "start-returns", "notify-returns", "junk-dropped", "stale-query")


def _kinds(g):
    k = {}

    def inc(n):
        k[n] = k.get(n, 0) + 1
    for sk, op, tk in g.edges:
        s, t = g.states[sk], g.states[tk]
        n = op["name"]
        if n == "emitrelay":
            inc("emitrelay-prestart" if s["pc"] == "off" else "emitrelay")
        elif n == "loopinit":
            inc("loopinit")
            if s["relayQ"] or s["reachQ"]:
                inc("loopinit-takes")
        elif n == "notify":
            inc("notify-immediate" if op["immediate"] else "notify-blocks")
        elif n == "close":
            inc("close-immediate" if op["immediate"] else "close-waits")
            if s["pc"] == "upd":
                inc("close-mid-update")
        elif n == "tick":
            inc("tick")
            if op["pub"] or op["priv"]:
                inc("tick-probes")
        elif n == "hour":
            if set(op["pub"]) != set(s["trkR"]):
                inc("hour-flips")
        elif n == "read":
            inc("read-" + op["kind"])
        elif n in ("update", "commit"):
            inc(n + "-" + op["trig"] if n == "update" else n)
            if op["evA"]:
                if op["added"]:
                    inc("event-added")
                if op["removed"]:
                    inc("event-removed")
            else:
                inc("event-none")
            if op["evR"]:
                inc("event-reach")
            if op["returned"] == "start":
                inc("start-returns")
            if op["returned"] == "notify":
                inc("notify-returns")
            if any(len(v) > 3 for v in (s["obs"] or {}).values()) if isinstance(s["obs"], dict) else False:
                inc("capped")
            if t["crelay"] and set(t["crelay"]) <= set(op["factoryIn"]):
                inc("relay-shown")
            if t["crelay"] and set(t["local"]) - set(op["factoryIn"]) and not t["u"]:
                inc("public-hidden")
            if t["u"] and t["r"]:
                inc("unreachable-dropped")
            if set(op["ls"]) & {"Lcirc", "Lun6"} or "Nun" in (s["nat"].values() if isinstance(s["nat"], dict) else ()):
                inc("junk-dropped")
        else:
            inc(n)
        if s["pc"] == "upd" and s["fmode"] == "id" and set(s["addrsOut"]) != set(s["caddrs"]):
            inc("stale-query")
        if n in ("setnat", "setobs", "listen", "unlisten") and s["pc"] == "upd":
            inc("read-changed")
    return k


def _print_instance(args):
    ctx, (name, consts, limit), beh_dir = args
    cfg = tlc.subst_cfg("C17am_MC.cfg", _consts(consts), replace=[
        ("INIT Init", "INIT MCInit"), ("VIEW View", "VIEW ViewPrint\nACTION_CONSTRAINT EmitPrio"), (INV, "INVARIANTS TypeOK"), (PROPS, "")])
    r = tlc.run(ctx, "C17am_MC", "gen_am_%s_edges.cfg" % name, cfg_text=cfg, workers=1, timeout=1500, name="ame" + name)
    if not r.ok:
        raise MachineryError("design-level failure in C17am (printing %s): %s violated\n%s" % (name, r.violated, r.out[-2500:]))
    g = graph.Graph(r.inits, r.edges)
    if g.n_edges() == 0:
        raise MachineryError("nothing printed for C17am instance " + name)
    walks = g.covering_walks(seed=ctx.seed, max_len=70, limit_edges=limit)
    if limit is None and getattr(g, "covered", g.n_edges()) < g.n_edges():
        raise MachineryError("covering walks of %s cover %d of %d edges" % (name, g.covered, g.n_edges()))
    # the model merges histories the code may tell apart: seeded random walks on top of the covering ones
    walks += g.random_walks(600 if ctx.tier == "thorough" else 150, 40, seed=ctx.seed)
    hdr = dict(consts["_hdr"], instance=name, edges=g.n_edges(), states=g.n_states())
    graph.write_behaviours(os.path.join(beh_dir, name + ".jsonl"), walks, hdr)
    target = g.n_edges() if limit is None else min(limit, g.n_edges())
    return name, r.distinct, r.generated, g.n_states(), g.n_edges(), len(walks), sum(len(w["steps"]) for w in walks), _kinds(g), r.wall, target


_PANIC = re.compile(r"^panic: (.*)$", re.M)
_OWN = ("p2p/host/basic/addrs_manager.go", "p2p/host/basic/addrs_reachability_tracker.go")


def _go(ctx, beh):
    try:
        return goenv.run_harness(ctx, PKG, "^TestVerifC17am(Replay|Scenarios)$", inputs=beh, timeout=1500, parallel=4)
    except HarnessCrash as e:
        return _crash_verdict(ctx, e, beh)


def _crash_verdict(ctx, e, beh):
    """The test process died. A Go panic raised in the manager's own goroutines (close of a closed channel, send on a
    closed channel, index out of range ...) cannot be recovered by the harness: a violation if it happens again."""
    m = _PANIC.search(e.log)
    if not (m and any(f in e.log for f in _OWN)):
        raise e
    try:
        goenv.run_harness(ctx, PKG, "^TestVerifC17am(Replay|Scenarios)$", inputs=beh, timeout=1500, parallel=4)
    except HarnessCrash as e2:
        m2 = _PANIC.search(e2.log)
        if m2 and any(f in e2.log for f in _OWN):
            frames = [ln.strip() for ln in e2.log.splitlines() if any(f in ln for f in _OWN)][:4]
            what = "the address manager panicked in one of its own goroutines: %s (%s)" % (m2.group(1), "; ".join(frames))
            return {"replayed": 1, "steps": 0, "distinct": 0, "samples": [], "crashed": True, "_out": "", "_log": e2.log[-3000:],
                    "mismatches": [{"class": "am-panic", "what": what, "got": e2.log[-3000:], "walk": -1, "step": -1}]}
        raise e2
    raise MachineryError("the harness process panicked once (%s) and not again with the same seed (inconclusive)" % m.group(1))


def run(ctx):
    thorough = ctx.tier == "thorough"
    t0 = time.time()
    marks = []

    def mark(n):
        marks.append("%s %.0fs" % (n, time.time() - t0))
    tlc.stage(ctx)
    beh = ctx.sub("beh")
    xin, rin, lin = exhaustive_instances(thorough), replay_instances(thorough), liveness_instances(thorough)
    by_name = {n: c for n, c, _ in rin}
    with cf.ProcessPoolExecutor(max_workers=4) as pool, cf.ThreadPoolExecutor(max_workers=1) as tp:
        fp = [pool.submit(_print_instance, (ctx, i, beh)) for i in rin]
        fx = [pool.submit(_exhaustive, (ctx, i)) for i in xin]
        fl = [pool.submit(_liveness, (ctx, i)) for i in lin]
        # quick: the probes whose states the printed transition kinds (NEED) do not witness; thorough: all
        probes = PROBES if thorough else [x for x in PROBES if x[0] in ("ReachTorn", "ReachDedup")]
        fg = [pool.submit(_reach, (ctx, p, by_name[c] if isinstance(c, str) else c)) for p, c in probes]
        pres = [f.result() for f in fp]
        mark("graphs")
        fgo = tp.submit(_go, ctx, beh)
        xres = [f.result() for f in fx]
        lres = [f.result() for f in fl]
        guards = [f.result() for f in fg]
        mark("tlc")
        res = fgo.result()
        mark("go")
    kinds = {}
    for r in pres:
        for k, v in r[7].items():
            kinds[k] = kinds.get(k, 0) + v
    for k in NEED:
        if not kinds.get(k):
            raise MachineryError("vacuity guard: no printed C17am transition of kind %s" % k)
    target = sum(r[9] for r in pres)
    div = classify_mismatches(ctx, res, "replay")
    l1 = [m for m in res["mismatches"] if not m["class"].startswith("L2:")]
    if not res["mismatches"] and res["distinct"] < target:
        raise MachineryError("replay executed %d distinct transitions of %d" % (res["distinct"], target))
    spath = os.path.join(res["_out"], "scenarios", "result.json")
    if res.get("crashed"):
        scen = {"replayed": 0, "mismatches": [], "extra": {}}
    elif not os.path.exists(spath):
        raise MachineryError("the scenario test wrote no result:\n%s" % res["_log"][-2000:])
    else:
        with open(spath) as f:
            scen = json.load(f)
    div += classify_mismatches(ctx, scen, "scenario")
    sx = scen.get("extra") or {}
    if not scen["mismatches"] and not res.get("crashed"):
        for k in ("ticker_reflects", "production_cap", "close_without_start", "host_wiring", "record_trimmed"):
            if not sx.get(k):
                raise MachineryError("vacuous C17am scenario run: %s missing in %s" % (k, sx))
    if any(c.get("Tracker") == "TRUE" for _, c, _ in rin) and not (res.get("extra") or {}).get("probes") and not res["mismatches"]:
        raise MachineryError("vacuous C17am replay: the stub autonat client was never asked")
    states = sum(r[1] for r in xres) + sum(r[1] for r in lres) + sum(r[1] for r in pres)
    trans = sum(r[2] for r in xres) + sum(r[2] for r in lres) + sum(r[2] for r in pres)
    summary = ("exhaustive %s; liveness %s; probes %s; printed+replayed %s = %d transitions, %d walks, %d steps, %d distinct executed; "
               "scenarios %d (%s); L2 divergences %d" % (
                   [(r[0], r[1]) for r in xres], [(r[0], r[1]) for r in lres], guards, [(r[0], r[3], r[4]) for r in pres], target,
                   sum(r[5] for r in pres), res["steps"], res["distinct"], scen["replayed"], sx, div))
    log("C17am: " + summary + " [" + ", ".join(marks) + "]")
    cov = evidence.mc_coverage(
        states, trans, res["replayed"] + scen["replayed"], (res.get("samples") or [])[:2], exhaustive=True,
        checker_cmd="tlc C17am_MC.tla (template C17am_MC.cfg instantiated per instance by checks/C17am.py)",
        exhaustive_instances={r[0]: {"states": r[1], "transitions": r[2], "wall_s": r[3]} for r in xres},
        liveness_instances={r[0]: {"states": r[1], "transitions": r[2]} for r in lres},
        replay_instances={r[0]: {"states": r[3], "transitions": r[4], "walks": r[5], "steps": r[6]} for r in pres},
        replay_transition_kinds=kinds, replay_transitions_in_graphs=target, replay_steps_executed=res["steps"],
        replay_distinct_transitions_executed=res["distinct"], replay_extra=res.get("extra"), scenarios=scen["replayed"],
        scenario_extra=sx, probes=guards, divergences_L2=div, l1_mismatches=len(l1), notes=ctx.notes[:10], rule=res.get("rule"),
        parent_property="C17")
    return {"level": "model_checking", "coverage": cov, "assumptions": [
        "bounded instances (<= 5 listen addresses, <= 4 input changes, <= 2 concurrent notifications); the address names of the "
        "model are concretised over three families of multiaddrs (ip4 / ip6 / mixed transports on one IP)",
        "the replayed graphs follow the sequential skeleton Prio of the module (ticker, notification token and cancellation cannot "
        "be held back on the real select: at most one of them is ready whenever the loop selects); the full interleaving is explored "
        "by TLC on the model only",
        "the reachability tracker is driven through a stub autonat client that answers at once and never errs or refuses; public "
        "addresses of the universe never share ip + port (no primary / secondary coupling)",
        "interface addresses are injected into the manager's cache (two interfaces, fixed); addCertHashes is a stub that appends a "
        "fixed certhash to /webtransport addresses (the model's names are certhash-agnostic, the harness checks its presence)",
        "Start is called at most once and not after Close",
    ]}


MANIFEST = {
    "technique": "TLA+ spec (C17am_AddrsManager.tla) of the host's address manager: inputs (listen addresses, interface resolution, NAT "
                 "mappings, AddrsFor answers, relay / reachability events, tracker, AddrsFactory), the background loop's select, "
                 "non-atomic updates, Start / Close, model-checked exhaustively with TLC (safety, liveness, vacuity probes); every "
                 "transition of the printed instances replayed on a real addrsManager + real event bus + real peerstore (+ real "
                 "reachability tracker) under testing/synctest with gates at the select and at every stub read",
    "category": "model_checking",
    "text": "Extension of C17 (observed addresses) to its consumer: what the host advertises. Clauses A1..A9 of the module: an "
            "address is advertised as direct only if the network / NAT manager / observed-address manager answered it in the "
            "producing update for a listen address the host has (first three per AddrsFor answer, no duplicates, never bare "
            "/p2p-circuit or unspecified); nothing answered is dropped; relay addresses iff private (v1) / no confirmed reachable "
            "address (v2), confirmed-unreachable ones left out; the AddrsFactory sees exactly that list and Addrs() is its answer; "
            "EvtLocalAddressesUpdated exactly on change with exact Current / Removed and a matching signed peer record; updates "
            "reflect the current inputs, notifications return after their update; Close stops everything; liveness via the ticker.",
    "note": "Trusted: TLC, synctest's virtual clock, the stubs and wrappers of the harness (delegating to the real bus / peerstore). "
            "The statement is the engine's own (derived from code, comments and tests of the component).",
    "engines": [{"name": "C17am_AddrsManager", "path": "spec/C17am_AddrsManager.tla", "serves_properties": ["C17"],
                 "kind_free_text": "TLA+ spec + TLC exhaustive + full-transition replay under synctest"}],
}
