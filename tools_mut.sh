#!/bin/bash
# usage: tools_mut.sh <Cxx> <python-edit-script-file>  : apply an edit to a scratch worktree, run the check there, clean up
set -u
pid=$1; edit=$2; wt=/tmp/wt-mut-$pid-$$
git -C /repo worktree add --detach $wt HEAD >/dev/null 2>&1 || exit 3
( cd $wt && python3 $edit ) || { git -C /repo worktree remove --force $wt; exit 3; }
( cd $wt && git diff --stat | tail -1 )
( cd $wt && GOFLAGS=-mod=mod GOPROXY=off /root/go/pkg/mod/golang.org/toolchain@v0.0.1-go1.25.7.linux-amd64/bin/go build ./... 2>&1 | tail -3 )
cd /verif && VERIF_REPO=$wt ./check $pid ${3:-} 2>&1 | grep -e VIOLATION -e "^OK" -e MACHINERY -e KNOWN | cut -c1-300
git -C /repo worktree remove --force $wt
