#!/usr/bin/env python3
"""Print the status rows of DESIGN.md 16.2 for the builder-made checks from MANIFEST.json, spec/, evidence/ and known_findings.d/."""
import glob, json, os, re
m = json.load(open('/verif/MANIFEST.json'))
own = {"C05", "C06", "C12", "C15", "C20"}
for c in m['checks']:
    pid = c['property_id']
    if pid in own:
        continue
    mods = sorted({os.path.basename(p)[:-4] for p in glob.glob('/verif/spec/%s*.tla' % pid)
                   if not re.search(r'(MC\w*|_MC)$', os.path.basename(p)[:-4])})
    ev = {}
    try:
        ev = json.load(open('/verif/evidence/%s.json' % pid))
    except Exception:
        pass
    cov = ev.get('coverage', {})
    fixed = opened = 0
    fp = '/verif/known_findings.d/%s.json' % pid
    if os.path.exists(fp):
        for f in json.load(open(fp)).get('findings', []):
            if f.get('property') != pid:
                continue
            if f.get('status') == 'fixed':
                fixed += 1
            else:
                opened += 1
    state = "claimed"
    if fixed or opened:
        state += "; findings: %d fixed, %d open" % (fixed, opened)
    ext = ", ".join(e.get("engine", "") for e in cov.get("extension_engines", []) or [])
    tech = c['technique'].replace("|", "/")
    if len(tech) > 520:
        tech = tech[:517] + "..."
    print("| %s | %s | %s%s (this run: %s states, %s transitions, %s traces/behaviours against the implementation) | ~%d s | %s |" % (
        pid, ", ".join("`%s`" % x for x in mods), tech, ("; parts: " + ext) if ext else "",
        cov.get("states"), cov.get("transitions"), cov.get("traces_validated_against_impl"), int(ev.get("wall_s", 0)), state))
