#!/usr/bin/env python3
"""Regenerate MANIFEST.json from checks/*.py (each exposes MANIFEST = {...}) and properties.jsonl."""
import importlib
import json
import os
import subprocess
import sys

here = os.path.dirname(os.path.abspath(__file__))
sys.path.insert(0, here)
sys.dont_write_bytecode = True
props = [json.loads(l) for l in open(os.path.join(here, "properties.jsonl"))]
baseline = json.load(open("/root/.vp/BASELINE.json"))["cmd"]
checks, na, engines = [], [], []
claimed = {l.strip() for l in open(os.path.join(here, "claimed.txt")) if l.strip() and not l.startswith("#")}
for p in props:
    pid = p["id"]
    path = os.path.join(here, "checks", pid + ".py")
    m = None
    if pid in claimed and os.path.exists(path):
        m = getattr(importlib.import_module("checks." + pid), "MANIFEST", None)
    if not m:
        na.append({"property_id": pid, "reason": "check not built yet in this round (planned design: DESIGN.md section 8, %s); not claimed until its harness runs green on the unchanged tree" % pid})
        continue
    c = {
        "property_id": pid,
        "quick_cmd": "./check %s --tier quick" % pid,
        "thorough_cmd": "./check %s --tier thorough" % pid,
        "evidence_file": "evidence/%s.json" % pid,
        "engine": m.get("engine", "tla+tlc+go-replay"),
        "level_claimed": {"category": m.get("category", "model_checking"), "text": m["text"], "design_ref": m.get("design_ref", "DESIGN.md section 8 " + pid)},
        "level_note": m["note"],
        "technique": m["technique"],
    }
    checks.append(c)
    for e in m.get("engines", []):
        engines.append(e)
# stand-alone extension engines (growth of the specification beyond the listed properties): components no listed
# property is anchored in; run with `./check <eid>`; never part of a listed property's verdict
sp = os.path.join(here, "standalone_engines.txt")
if os.path.exists(sp):
    for eid in [l.strip() for l in open(sp) if l.strip() and not l.startswith("#")]:
        mod = importlib.import_module("checks." + eid)
        m = getattr(mod, "MANIFEST", {}) or {}
        es = m.get("engines") or ([getattr(mod, "ENGINE")] if hasattr(mod, "ENGINE") else [])
        for e in es:
            e = dict(e)
            e["serves_properties"] = []
            e["kind_free_text"] = ("stand-alone extension engine (./check %s; evidence/engines/%s.json): " % (eid, eid)) + e.get("kind_free_text", "")
            engines.append(e)
hooks_commits = []
hp = os.path.join(here, "hooks_commits.txt")
if os.path.exists(hp):
    hooks_commits = [l.split()[0] for l in open(hp) if l.strip() and not l.startswith("#")]
man = {
    "version": 1,
    "setup_cmd": "./check --setup",
    "hooks": {
        "guard": "verif",
        "enable": "go test -tags verif -vet=off -overlay <generated: /verif/harness/** -> /repo/**> (harness sources are overlaid, never copied into /repo)",
        "baseline_off_cmd": baseline,
        "source_commits": hooks_commits,
        "add_only": True,
    },
    "engines": engines,
    "checks": checks,
    "not_applicable": na,
    "notes": "Every check: explicit TLA+ module under spec/, TLC exhaustive run on bounded instances, and a conformance binding to the real code (replay of TLC-generated behaviours and/or TLC validation of recorded traces). Exit 2 = machinery failure, never a verdict. See DESIGN.md.",
}
json.dump(man, open(os.path.join(here, "MANIFEST.json"), "w"), indent=1)
print("checks:", [c["property_id"] for c in checks], "n/a:", len(na))
