#!/bin/bash
# usage: tools_gotest.sh <pkg> <run-regex> [extra go test args]   (developer helper: run a harness test by hand)
set -e
OUT=${VERIF_OUT:-/tmp/vf-out}; mkdir -p $OUT
OV=$(python3 - <<'PY'
import sys
sys.path.insert(0,'/verif'); sys.dont_write_bytecode=True
from lib import goenv
import tempfile
class C: tmp=tempfile.mkdtemp(prefix='vf-ov-')
import os
print(goenv.make_overlay(C()))
PY
)
cd ${VERIF_REPO:-/repo}
export GOFLAGS=-mod=mod GOPROXY=off GOTOOLCHAIN=local VERIF_OUT=$OUT VERIF_SEED=${VERIF_SEED:-1}
GO=/root/go/pkg/mod/golang.org/toolchain@v0.0.1-go1.25.7.linux-amd64/bin/go
pkg=$1; run=$2; shift 2
$GO test -tags verif -vet=off -overlay $OV -count=1 -run "$run" "$@" $pkg
