------------------------------- MODULE C04_MC -------------------------------
EXTENDS C04_Lifecycle, Json

\* bounded instances (selected in the cfg by the X_ prefix)
A_Attempts == {"a1", "a2"}
A_DirOf == [a \in A_Attempts |-> IF a = "a1" THEN "in" ELSE "out"]
B_Attempts == {"a1", "a2", "a3"}
B_DirOf == [a \in B_Attempts |-> IF a = "a3" THEN "out" ELSE "in"]
C_Attempts == {"a1", "a2"}
C_DirOf == [a \in C_Attempts |-> "in"]
D_Attempts == {"a1", "a2", "a3"}
D_DirOf == [a \in D_Attempts |-> IF a = "a1" THEN "in" ELSE "out"]

\* the exits of the model, printed once: the driver compares them with the exits the fault enumeration hit
ASSUME PrintT(<<"VFEXITS", ToJson([exits |-> ExitTable])>>)
=============================================================================
