\* Template: checks/C02.py instantiates the constants (pskConn layer).
CONSTANTS
  NonceLen = 2
  MaxSent = 5
  MaxWrite = 3
  Bufs = {0, 1, 2, 3, 4}
  Shorts = {0, 1, 2}
  Glitches = {"dataerr", "temperr", "shortwrite", "eofdata", "refusewrite"}
INIT Init
NEXT Next
VIEW View
INVARIANTS TypeOK Prefix Complete NonceOnce InSync EofAfterAll
