---------------------------- MODULE C13_CrossMC ----------------------------
EXTENDS C13_Cross, Json
St == [k |-> key, w |-> warm, t |-> tried]
EmitEdge == PrintT(<<"VFEDGE", ToJson([s |-> St, op |-> op', t |-> St'])>>)
MCInit == Init /\ PrintT(<<"VFINIT", ToJson(St)>>) /\ PrintT(<<"VFCONF", ToJson([peers |-> Peers, menu |-> Menu])>>)
=============================================================================
