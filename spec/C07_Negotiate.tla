--------------------------- MODULE C07_Negotiate ---------------------------
(***************************************************************************)
(* Stream protocol negotiation between two hosts A and B on one connection.*)
(* Each host has a handler table and a protocols book about the other; a   *)
(* stream has a dialer d and a listener Other(d); the constants Dialers /  *)
(* Servers say which host may open / register (one-directional instances:  *)
(* A dials, B serves; bidirectional: both).  Below "A" stands for the      *)
(* dialer and "B" for the listener of the stream in question (p2p/host/basic/basic_host.go NewStream / newStreamHandler /     *)
(* SetStreamHandler[Match] / RemoveStreamHandler, p2p/host/blank/blank.go, *)
(* go-multistream's muxer, client and lazy client as a trusted contract).  *)
(*                                                                         *)
(* One action per public call of the code, at the granularity at which a   *)
(* sequential user can observe it; the internal steps of a call are the    *)
(* operators ChooseOptimistic, NegotiateFull, ListenerNegotiate (= the     *)
(* muxer's findHandler) and the handler dispatch, composed as the code     *)
(* composes them:                                                          *)
(*   Open   = Network.NewStream; IdentifyWait; preferredProtocol:          *)
(*            known id  -> SetProtocol(pref) + lazy NewMSSelect (nothing   *)
(*                         is sent yet: B's Negotiate waits for the header)*)
(*            otherwise -> SelectOneOf: the requested ids are proposed in  *)
(*                         order, B answers each with findHandler; on the  *)
(*                         first accepted id B SetProtocol(id) and runs the*)
(*                         handler, A SetProtocol(id) + AddProtocols(id).  *)
(*   Use    = first write+read round trip on a lazy stream: the header and *)
(*            the chosen id reach B NOW, so B's findHandler sees the table *)
(*            of this moment; "na" makes A's read fail - and B goes on     *)
(*            negotiating on the application bytes that follow (parameter  *)
(*            q of Use, known finding NoStray).  On an established stream: *)
(*            another round trip.                                          *)
(*   Close  = Close of the stream; on a never-used lazy stream it flushes  *)
(*            the handshake first, so B's handler may run (and see EOF).   *)
(*   Add / Remove = SetStreamHandler, SetStreamHandlerMatch /              *)
(*            RemoveStreamHandler: the muxer removes an entry with the same*)
(*            name and APPENDS the new one; identify pushes the new name   *)
(*            set to A when push reaches A.                                *)
(*   Learn  = a fresh identify exchange (reconnect) on one link; Forget =  *)
(*            A's peerstore loses what it knew about B's protocols.        *)
(*   Wait   = virtual time passes between operations; Finish has the       *)
(*            handler answer a half-close after a delay (both swept across *)
(*            DefaultNegotiationTimeout and beyond).                       *)
(* Hosts and Links are constants: two hosts on one connection, or a dialer *)
(* with TWO listeners whose books it keeps apart (K[x][y]).                *)
(***************************************************************************)
EXTENDS Naturals, Sequences, FiniteSets, TLC

CONSTANTS P,        \* protocol ids
          Ext,      \* set of <<n, p>>: id p is a proper extension of name n (/v/a -> /v/a/1)
          Entries,  \* handler entries that may be registered: [n : P, k : {"exact","prefix","sub"}]
          Reqs,     \* the request lists a dialer uses: sequences of distinct ids
          Slots,    \* stream slots 1..N (concurrently open streams, any direction)
          MaxTbl,   \* bound on the length of a handler table
          Tokens,   \* ids the application's first bytes may spell as a well-formed multistream token
          Lazy,     \* TRUE: BasicHost (peerstore knowledge -> lazy select); FALSE: BlankHost (always negotiates)
          Push,     \* TRUE: identify push reaches the linked hosts after every change of a host's name set
          Hosts,    \* host names
          Links,    \* connections: set of two-element sets of hosts
          Dialers,  \* hosts that open streams
          Servers,  \* hosts that register / remove handlers
          Delays,   \* after how long the handler answers a half-close: subset of {"0", "tm", "tp", "min"}
          Waits     \* pauses between operations: subset of {"tm", "tp", "min"}  (tm/tp: just below/above the
                    \* negotiation timeout of 10 s, min: one minute)

Linked(x, y) == {x, y} \in Links
Peers(x) == {y \in Hosts : Linked(x, y)}

VARIABLES tbl,      \* [Hosts -> Seq(Entries)]: handler table, names distinct, in the muxer's order
          K,        \* [Hosts -> [Hosts -> SUBSET P]]: K[x][y] = ids x's peerstore lists for y
          st,       \* [Slots -> [ph, d, l, p, h]]  ph in idle | lazy | est ; d: dialer; l: listener; p: the id d bound; h: entry serving it
          op        \* output only: last call, its arguments and the expected observable results

vars == <<tbl, K, st, op>>
View == <<tbl, K, st>>

NoH == [n |-> "", k |-> ""]
Idle == [ph |-> "idle", d |-> "", l |-> "", p |-> "", h |-> NoH]

Range(q) == {q[i] : i \in 1..Len(q)}
Names(t) == {t[i].n : i \in 1..Len(t)}

\* the matcher of an entry: exact id; the name and its extensions; only proper extensions
\* (a semver-like matcher that does not accept its own registration name)
Accepts(e, p) == CASE e.k = "exact"  -> p = e.n
                   [] e.k = "prefix" -> p = e.n \/ <<e.n, p>> \in Ext
                   [] e.k = "sub"    -> <<e.n, p>> \in Ext
                   [] OTHER          -> FALSE

\* go-multistream findHandler: FIRST entry in table order whose matcher accepts (0 = none -> "na")
ListenerNegotiate(t, p) ==
  IF \E i \in 1..Len(t) : Accepts(t[i], p)
  THEN CHOOSE i \in 1..Len(t) : Accepts(t[i], p) /\ \A j \in 1..(i - 1) : ~Accepts(t[j], p)
  ELSE 0

\* BasicHost.preferredProtocol: first REQUESTED id that the dialer's peerstore lists for THIS listener (0 = none)
ChooseOptimistic(k, req) ==
  IF Lazy /\ \E i \in 1..Len(req) : req[i] \in k
  THEN CHOOSE i \in 1..Len(req) : req[i] \in k /\ \A j \in 1..(i - 1) : req[j] \notin k
  ELSE 0

\* SelectOneOf against the muxer: first requested id some entry accepts (0 = ErrNotSupported)
NegotiateFull(t, req) ==
  IF \E i \in 1..Len(req) : ListenerNegotiate(t, req[i]) # 0
  THEN CHOOSE i \in 1..Len(req) : ListenerNegotiate(t, req[i]) # 0
                                  /\ \A j \in 1..(i - 1) : ListenerNegotiate(t, req[j]) = 0
  ELSE 0

\* what the statement calls "a protocol in common"
Common(t, req) == {p \in Range(req) : \E e \in Range(t) : Accepts(e, p)}

\* identify push: sent only when the SET of names changed; replaces the receiver's list about the sender
PushK(x, t, t1) ==
  IF Push /\ Names(t1) # Names(t)
  THEN [y \in Hosts |-> IF Linked(x, y) THEN [K[y] EXCEPT ![x] = Names(t1)] ELSE K[y]]
  ELSE K

AnyLazy == \E s \in Slots : st[s].ph = "lazy"
AnyEst == \E s \in Slots : st[s].ph = "est"
AllIdle == \A s \in Slots : st[s].ph = "idle"
\* table changes while a stream is only served are irrelevant to the statement: keep the graph small
ChurnOK == AnyLazy \/ ~AnyEst

Init == /\ tbl = [x \in Hosts |-> <<>>]
        /\ K = [x \in Hosts |-> [y \in Hosts |-> {}]]
        /\ st = [s \in Slots |-> Idle]
        /\ op = [name |-> "init"]

Add(x, e) ==
  LET t1 == Append(SelectSeq(tbl[x], LAMBDA y : y.n # e.n), e) IN
  /\ x \in Servers
  /\ ChurnOK
  /\ Len(t1) <= MaxTbl
  /\ ~(\E i \in 1..Len(tbl[x]) : tbl[x][i] = e /\ i = Len(tbl[x]))      \* re-adding the last entry changes nothing
  /\ tbl' = [tbl EXCEPT ![x] = t1]
  /\ K' = PushK(x, tbl[x], t1)
  /\ UNCHANGED st
  /\ op' = [name |-> "add", at |-> x, n |-> e.n, k |-> e.k]

Remove(x, n) ==
  LET t1 == SelectSeq(tbl[x], LAMBDA y : y.n # n) IN
  /\ x \in Servers
  /\ ChurnOK
  /\ n \in Names(tbl[x])
  /\ tbl' = [tbl EXCEPT ![x] = t1]
  /\ K' = PushK(x, tbl[x], t1)
  /\ UNCHANGED st
  /\ op' = [name |-> "remove", at |-> x, n |-> n]

Forget(x, y) ==
  /\ Lazy /\ AllIdle /\ x \in Dialers /\ Linked(x, y) /\ K[x][y] # {}
  /\ K' = [K EXCEPT ![x][y] = {}]
  /\ UNCHANGED <<tbl, st>>
  /\ op' = [name |-> "forget", at |-> x, of |-> y]

\* reconnect of one link: identify runs in both directions on it - and must not touch what either host
\* knows about anybody else
Learn(x, y) ==
  /\ Lazy /\ AllIdle /\ Linked(x, y) /\ x \in Dialers
  /\ K[x][y] # Names(tbl[y]) \/ K[y][x] # Names(tbl[x])
  /\ K' = [K EXCEPT ![x][y] = Names(tbl[y]), ![y][x] = Names(tbl[x])]
  /\ UNCHANGED <<tbl, st>>
  /\ op' = [name |-> "learn", x |-> x, y |-> y]

LowestIdle(s) == st[s].ph = "idle" /\ \A r \in Slots : r < s => st[r].ph # "idle"

Open(s, d, l, req) ==
  /\ d \in Dialers /\ Linked(d, l)
  /\ LowestIdle(s)
  /\ LET t == tbl[l]
         o == ChooseOptimistic(K[d][l], req)
         f == NegotiateFull(t, req) IN
     IF o # 0
     THEN /\ st' = [st EXCEPT ![s] = [ph |-> "lazy", d |-> d, l |-> l, p |-> req[o], h |-> NoH]]
          /\ K' = K
          /\ op' = [name |-> "open", s |-> s, d |-> d, l |-> l, req |-> req, res |-> "lazy", p |-> req[o], h |-> NoH]
     ELSE IF f # 0
     THEN LET e == t[ListenerNegotiate(t, req[f])] IN
          /\ st' = [st EXCEPT ![s] = [ph |-> "est", d |-> d, l |-> l, p |-> req[f], h |-> e]]
          /\ K' = [K EXCEPT ![d][l] = @ \cup {req[f]}]    \* the DIALER's Peerstore().AddProtocols(listener, selected)
          /\ op' = [name |-> "open", s |-> s, d |-> d, l |-> l, req |-> req, res |-> "est", p |-> req[f], h |-> e]
     ELSE /\ UNCHANGED <<st, K>>
          /\ op' = [name |-> "open", s |-> s, d |-> d, l |-> l, req |-> req, res |-> "fail", p |-> "", h |-> NoH]
  /\ UNCHANGED tbl

\* q = "": opaque application bytes.  q in Tokens: the first bytes the dialer's application writes are
\* <varint len>q<newline>, i.e. they read as a multistream proposal of q.  That matters only when the
\* listener refuses the optimistically chosen id: it answers "na" and KEEPS negotiating on the bytes that
\* follow (go-multistream Negotiate loop), so a registered acceptor of q is started on a stream the dialer
\* never asked q for and which the dialer sees fail ("stray").  Modelled as the code behaves; see NoStray.
\* m: HOW the dialer uses the stream.  "wr": writes a line, then reads the echo.  "rd": reads first (with a
\* deadline): the handshake must complete and the handler start although the dialer wrote nothing; the
\* handler of the replay is silent until it gets a line, so the read itself ends at its deadline.
Use(s, q, m) ==
  /\ st[s].ph \in {"lazy", "est"}
  /\ q # "" => m = "wr"
  /\ LET t == tbl[st[s].l] IN
     /\ q # "" => (st[s].ph = "lazy" /\ ListenerNegotiate(t, st[s].p) = 0)
     /\ IF st[s].ph = "est"
        THEN /\ UNCHANGED st
             /\ op' = [name |-> "use", s |-> s, m |-> m, first |-> FALSE, res |-> "ok", p |-> st[s].p, h |-> st[s].h,
                       q |-> "", stray |-> NoH]
        ELSE LET j == ListenerNegotiate(t, st[s].p) IN
             IF j # 0
             THEN /\ st' = [st EXCEPT ![s] = [ph |-> "est", d |-> st[s].d, l |-> st[s].l, p |-> st[s].p, h |-> t[j]]]
                  /\ op' = [name |-> "use", s |-> s, m |-> m, first |-> TRUE, res |-> "ok", p |-> st[s].p, h |-> t[j],
                            q |-> "", stray |-> NoH]
             ELSE LET k == IF q = "" THEN 0 ELSE ListenerNegotiate(t, q) IN
                  /\ st' = [st EXCEPT ![s] = Idle]
                  /\ op' = [name |-> "use", s |-> s, m |-> m, first |-> TRUE, res |-> "fail", p |-> st[s].p, h |-> NoH,
                            q |-> q, stray |-> IF k # 0 THEN t[k] ELSE NoH]
  /\ UNCHANGED <<tbl, K>>

\* Finish: the dialer half-closes ("cw": CloseWrite as its FIRST operation, having written nothing; "wcw":
\* one line, then CloseWrite) and then reads: streamWrapper.CloseWrite flushes the lazy handshake before the
\* FIN, so the listener negotiates, the handler runs, sees EOF after the lines written and its answer reaches
\* the dialer's read; then the stream is closed.  On a refused optimistic id the read fails instead.
\* dl: the handler answers after that delay (virtual time).  The application sets no deadline of its own
\* shorter than the delay, so the answer has to arrive whenever it is written.  While time passes no OTHER
\* stream may be waiting un-negotiated (the listener's own negotiation timeout would end it).
Finish(s, m, dl) ==
  /\ st[s].ph \in {"lazy", "est"}
  /\ dl # "0" => \A r \in Slots : r # s => st[r].ph # "lazy"
  /\ st' = [st EXCEPT ![s] = Idle]
  /\ IF st[s].ph = "est"
     THEN op' = [name |-> "finish", s |-> s, m |-> m, dl |-> dl, first |-> FALSE, res |-> "ok", p |-> st[s].p, h |-> st[s].h]
     ELSE LET t == tbl[st[s].l]
              j == ListenerNegotiate(t, st[s].p) IN
          op' = [name |-> "finish", s |-> s, m |-> m, dl |-> dl, first |-> TRUE, res |-> IF j # 0 THEN "ok" ELSE "fail",
                 p |-> st[s].p, h |-> IF j # 0 THEN t[j] ELSE NoH]
  /\ UNCHANGED <<tbl, K>>

\* Wait: time passes while streams are established (after a negotiated open, after a first write); nothing
\* may change: established streams have no library deadline
Wait(w) ==
  /\ AnyEst /\ ~AnyLazy
  /\ UNCHANGED <<tbl, K, st>>
  /\ op' = [name |-> "wait", w |-> w]

\* Reset as the first (or a later) operation: nothing of a lazy handshake is ever sent, no handler starts
Reset(s) ==
  /\ st[s].ph \in {"lazy", "est"}
  /\ st' = [st EXCEPT ![s] = Idle]
  /\ op' = [name |-> "reset", s |-> s, ph |-> st[s].ph, p |-> st[s].p]
  /\ UNCHANGED <<tbl, K>>

Close(s) ==
  /\ st[s].ph \in {"lazy", "est"}
  /\ st' = [st EXCEPT ![s] = Idle]
  /\ IF st[s].ph = "est"
     THEN op' = [name |-> "close", s |-> s, unused |-> FALSE, p |-> st[s].p, h |-> NoH]
     ELSE LET t == tbl[st[s].l]
              j == ListenerNegotiate(t, st[s].p) IN     \* Close flushes the lazy handshake
          op' = [name |-> "close", s |-> s, unused |-> TRUE, p |-> st[s].p,
                 h |-> IF j # 0 THEN t[j] ELSE NoH]
  /\ UNCHANGED <<tbl, K>>

Next == \/ \E x \in Hosts, e \in Entries : Add(x, e)
        \/ \E x \in Hosts, n \in P : Remove(x, n)
        \/ \E x, y \in Hosts : Forget(x, y)
        \/ \E x, y \in Hosts : Learn(x, y)
        \/ \E s \in Slots, d, l \in Hosts, req \in Reqs : Open(s, d, l, req)
        \/ \E s \in Slots, q \in Tokens \cup {""}, m \in {"wr", "rd"} : Use(s, q, m)
        \/ \E s \in Slots, m \in {"cw", "wcw"}, dl \in Delays : Finish(s, m, dl)
        \/ \E w \in Waits : Wait(w)
        \/ \E s \in Slots : Reset(s)
        \/ \E s \in Slots : Close(s)

Spec == Init /\ [][Next]_vars

----------------------------------------------------------------------------
(* Observable consequences the replay compares (resource scopes of the managers) *)
Out(x, p) == Cardinality({s \in Slots : st[s].ph \in {"lazy", "est"} /\ st[s].d = x /\ st[s].p = p})
In(x, p) == Cardinality({s \in Slots : st[s].ph = "est" /\ st[s].l = x /\ st[s].p = p})

----------------------------------------------------------------------------
(* Properties *)

TypeOK == /\ \A x \in Hosts : /\ \A i \in 1..Len(tbl[x]) : tbl[x][i] \in Entries
                              /\ \A i, j \in 1..Len(tbl[x]) : i # j => tbl[x][i].n # tbl[x][j].n
                              /\ Len(tbl[x]) <= MaxTbl
                              /\ \A y \in Hosts : K[x][y] \subseteq P /\ (~Linked(x, y) => K[x][y] = {})
          /\ \A s \in Slots : st[s].ph \in {"idle", "lazy", "est"}

\* the listener's table of the stream in slot s
LT(s) == tbl[st[s].l]

\* RightHandler, state part: an established stream is served by an entry whose matcher accepts the id
\* both ends report
RightHandler == \A s \in Slots : st[s].ph = "est" => Accepts(st[s].h, st[s].p)

\* Agreement + "one of the requested": the id a successful open binds is requested; the id the
\* handler's stream reports (op'.p at establishment) is the one the dialer bound at open
OpenBinds == [][op'.name = "open" /\ op'.res # "fail" => op'.p \in Range(op'.req)]_vars
Agreement == [][\A s \in Slots : (st[s].ph = "lazy" /\ st'[s].ph = "est") =>
                   st'[s].p = st[s].p /\ st'[s].d = st[s].d /\ st'[s].l = st[s].l]_vars

\* RightHandler, action part: the entry that starts serving is registered at that moment AT THE LISTENER
\* and is the first acceptor in table order (the muxer's rule, L2 in the replay); one handler per stream
Dispatch == [][\A s \in Slots : (st[s].ph # "est" /\ st'[s].ph = "est") =>
                   /\ st'[s].h \in Range(tbl[st'[s].l])
                   /\ st'[s].h = tbl[st'[s].l][ListenerNegotiate(tbl[st'[s].l], st'[s].p)]]_vars
OneHandler == [][\A s \in Slots : st[s].ph = "est" /\ st'[s].ph = "est" => st'[s].h = st[s].h]_vars

\* NoCommon: an open with no protocol in common fails at open, or - chosen optimistically - stays
\* unestablished; a first use / flushing close of an id nobody accepts runs no handler
NoCommon ==
  [][/\ (op'.name = "open" /\ Common(tbl[op'.l], op'.req) = {}) => op'.res \in {"fail", "lazy"} /\ op'.h = NoH
     /\ (op'.name \in {"use", "close", "finish"} /\ st[op'.s].ph = "lazy"
           /\ ~\E e \in Range(LT(op'.s)) : Accepts(e, st[op'.s].p)) => op'.h = NoH /\ st'[op'.s].ph = "idle"
     /\ (op'.name \in {"open", "use", "finish"} /\ op'.res = "fail") => op'.h = NoH
     /\ (op'.name = "reset" /\ st[op'.s].ph = "lazy") => st'[op'.s].ph = "idle"]_vars

\* FirstOpFree: whatever the dialer's first operation on an opened stream is (write+read, read, half-close
\* with or without bytes, close) and however late the handler answers, an id the listener accepts at that
\* moment reaches its handler, and the exchange succeeds; only Reset never starts one
FirstOpFree ==
  [][(op'.name \in {"use", "finish", "close"} /\ st[op'.s].ph = "lazy"
        /\ \E e \in Range(LT(op'.s)) : Accepts(e, st[op'.s].p)) =>
          /\ op'.h # NoH /\ Accepts(op'.h, st[op'.s].p)
          /\ op'.name # "close" => op'.res = "ok"]_vars
\* TimeFree: time alone changes nothing, and an established stream delivers whenever the handler answers
TimeFree == [][/\ op'.name = "wait" => UNCHANGED <<tbl, K, st>>
               /\ (op'.name = "finish" /\ st[op'.s].ph = "est") => op'.res = "ok"]_vars

\* CommonMeansSuccess: with a protocol in common a negotiated open succeeds bound to an id the listener
\* accepts; it can only be missed through an optimistic choice, and that choice comes from the dialer's
\* book ABOUT THAT LISTENER, whose entries have legitimate sources only (KnowledgeSources): the listener
\* advertised the id (identify, push) or accepted it as LISTENER of a stream this host dialled.  Streams the
\* other host opens towards this host, and anything concerning a THIRD host, never add to it.
CommonMeansSuccess ==
  [][(op'.name = "open" /\ Common(tbl[op'.l], op'.req) # {}) =>
        /\ op'.res # "fail"
        /\ op'.res = "est" => op'.p \in Common(tbl[op'.l], op'.req)
        /\ op'.res = "lazy" => op'.p \in K[op'.d][op'.l]]_vars
KnowledgeSources ==
  [][\A x, y \in Hosts : \A p \in K'[x][y] \ K[x][y] :
        \/ p \in Names(tbl'[y])
        \/ (op'.name = "open" /\ op'.d = x /\ op'.l = y /\ op'.res = "est" /\ op'.p = p)]_vars
\* a step that concerns the link x-y leaves every other book alone
BooksApart ==
  [][\A x, y \in Hosts : K'[x][y] # K[x][y] =>
        \/ (op'.name \in {"add", "remove"} /\ op'.at = y)
        \/ (op'.name = "forget" /\ op'.at = x /\ op'.of = y)
        \/ (op'.name = "learn" /\ {op'.x, op'.y} = {x, y})
        \/ (op'.name = "open" /\ op'.d = x /\ op'.l = y)]_vars

\* KNOWN FINDING (payload-parsed-as-proposal): "no application handler runs" fails for a refused
\* optimistic choice whose application bytes read as a proposal.  NoStray is therefore EXPECTED TO BE
\* VIOLATED (the driver asserts that TLC finds the counterexample; the replay reproduces it on the
\* real hosts); every other property holds with the behaviour modelled.
NoStray == [][op'.name = "use" => op'.stray = NoH]_vars

\* RemovedNeverRuns (model level): whatever serves or is invoked is in the listener's table of that moment
RemovedNeverRuns ==
  [][(op'.name \in {"open", "use", "close", "finish"} /\ op'.h # NoH /\ ~(op'.name \in {"use", "finish"} /\ ~op'.first))
        => op'.h \in Range(tbl[IF op'.name = "open" THEN op'.l ELSE st[op'.s].l])]_vars

\* vacuity guards (expected to be violated)
ReachStaleFail == ~(op.name = "use" /\ op.res = "fail")
ReachBothWays == ~(\E s, r \in Slots : st[s].ph = "est" /\ st[r].ph = "est" /\ st[s].d # st[r].d)
=============================================================================
