--------------------------- MODULE C07_Negotiate ---------------------------
(***************************************************************************)
(* Stream protocol negotiation between a dialing host A and a listening    *)
(* host B (p2p/host/basic/basic_host.go NewStream / newStreamHandler /     *)
(* SetStreamHandler[Match] / RemoveStreamHandler, p2p/host/blank/blank.go, *)
(* go-multistream's muxer, client and lazy client as a trusted contract).  *)
(*                                                                         *)
(* One action per public call of the code, at the granularity at which a   *)
(* sequential user can observe it; the internal steps of a call are the    *)
(* operators ChooseOptimistic, NegotiateFull, ListenerNegotiate (= the     *)
(* muxer's findHandler) and the handler dispatch, composed as the code     *)
(* composes them:                                                          *)
(*   Open   = Network.NewStream; IdentifyWait; preferredProtocol:          *)
(*            known id  -> SetProtocol(pref) + lazy NewMSSelect (nothing   *)
(*                         is sent yet: B's Negotiate waits for the header)*)
(*            otherwise -> SelectOneOf: the requested ids are proposed in  *)
(*                         order, B answers each with findHandler; on the  *)
(*                         first accepted id B SetProtocol(id) and runs the*)
(*                         handler, A SetProtocol(id) + AddProtocols(id).  *)
(*   Use    = first write+read round trip on a lazy stream: the header and *)
(*            the chosen id reach B NOW, so B's findHandler sees the table *)
(*            of this moment; "na" makes A's read fail - and B goes on     *)
(*            negotiating on the application bytes that follow (parameter  *)
(*            q of Use, known finding NoStray).  On an established stream: *)
(*            another round trip.                                          *)
(*   Close  = Close of the stream; on a never-used lazy stream it flushes  *)
(*            the handshake first, so B's handler may run (and see EOF).   *)
(*   Add / Remove = SetStreamHandler, SetStreamHandlerMatch /              *)
(*            RemoveStreamHandler: the muxer removes an entry with the same*)
(*            name and APPENDS the new one; identify pushes the new name   *)
(*            set to A when push reaches A.                                *)
(*   Learn  = a fresh identify exchange (reconnect); Forget = A's          *)
(*            peerstore loses what it knew about B's protocols.            *)
(***************************************************************************)
EXTENDS Naturals, Sequences, FiniteSets, TLC

CONSTANTS P,        \* protocol ids
          Ext,      \* set of <<n, p>>: id p is a proper extension of name n (/v/a -> /v/a/1)
          Entries,  \* handler entries that may be registered: [n : P, k : {"exact","prefix","sub"}]
          Reqs,     \* the request lists the dialer uses: sequences of distinct ids
          Slots,    \* stream slots 1..N (concurrently open streams)
          MaxTbl,   \* bound on the length of the handler table
          Tokens,   \* ids the application's first bytes may spell as a well-formed multistream token
          Lazy,     \* TRUE: BasicHost (peerstore knowledge -> lazy select); FALSE: BlankHost (always negotiates)
          Push      \* TRUE: identify push from B reaches A after every change of B's name set

VARIABLES tbl,      \* B's handler table: Seq(Entries), names distinct, in the muxer's order
          K,        \* A's knowledge: ids A's peerstore lists for B (restricted to P)
          st,       \* [Slots -> [ph, p, h]]  ph in idle | lazy | est ; p: the id A bound; h: entry serving it
          op        \* output only: last call, its arguments and the expected observable results

vars == <<tbl, K, st, op>>
View == <<tbl, K, st>>

NoH == [n |-> "", k |-> ""]
Idle == [ph |-> "idle", p |-> "", h |-> NoH]

Range(q) == {q[i] : i \in 1..Len(q)}
Names(t) == {t[i].n : i \in 1..Len(t)}

\* the matcher of an entry: exact id; the name and its extensions; only proper extensions
\* (a semver-like matcher that does not accept its own registration name)
Accepts(e, p) == CASE e.k = "exact"  -> p = e.n
                   [] e.k = "prefix" -> p = e.n \/ <<e.n, p>> \in Ext
                   [] e.k = "sub"    -> <<e.n, p>> \in Ext
                   [] OTHER          -> FALSE

\* go-multistream findHandler: FIRST entry in table order whose matcher accepts (0 = none -> "na")
ListenerNegotiate(t, p) ==
  IF \E i \in 1..Len(t) : Accepts(t[i], p)
  THEN CHOOSE i \in 1..Len(t) : Accepts(t[i], p) /\ \A j \in 1..(i - 1) : ~Accepts(t[j], p)
  ELSE 0

\* BasicHost.preferredProtocol: first REQUESTED id that A's peerstore lists for B (0 = none)
ChooseOptimistic(k, req) ==
  IF Lazy /\ \E i \in 1..Len(req) : req[i] \in k
  THEN CHOOSE i \in 1..Len(req) : req[i] \in k /\ \A j \in 1..(i - 1) : req[j] \notin k
  ELSE 0

\* SelectOneOf against the muxer: first requested id some entry accepts (0 = ErrNotSupported)
NegotiateFull(t, req) ==
  IF \E i \in 1..Len(req) : ListenerNegotiate(t, req[i]) # 0
  THEN CHOOSE i \in 1..Len(req) : ListenerNegotiate(t, req[i]) # 0
                                  /\ \A j \in 1..(i - 1) : ListenerNegotiate(t, req[j]) = 0
  ELSE 0

\* what the statement calls "a protocol in common"
Common(t, req) == {p \in Range(req) : \E e \in Range(t) : Accepts(e, p)}

\* identify push: sent only when the SET of names changed; replaces A's list
PushK(t, t1, k) == IF Push /\ Names(t1) # Names(t) THEN Names(t1) ELSE k

AnyLazy == \E s \in Slots : st[s].ph = "lazy"
AnyEst == \E s \in Slots : st[s].ph = "est"
AllIdle == \A s \in Slots : st[s].ph = "idle"
\* table changes while a stream is only served are irrelevant to the statement: keep the graph small
ChurnOK == AnyLazy \/ ~AnyEst

Init == /\ tbl = <<>>
        /\ K = {}
        /\ st = [s \in Slots |-> Idle]
        /\ op = [name |-> "init"]

Add(e) ==
  LET t1 == Append(SelectSeq(tbl, LAMBDA x : x.n # e.n), e) IN
  /\ ChurnOK
  /\ Len(t1) <= MaxTbl
  /\ ~(\E i \in 1..Len(tbl) : tbl[i] = e /\ i = Len(tbl))      \* re-adding the last entry changes nothing
  /\ tbl' = t1
  /\ K' = PushK(tbl, t1, K)
  /\ UNCHANGED st
  /\ op' = [name |-> "add", n |-> e.n, k |-> e.k]

Remove(n) ==
  LET t1 == SelectSeq(tbl, LAMBDA x : x.n # n) IN
  /\ ChurnOK
  /\ n \in Names(tbl)
  /\ tbl' = t1
  /\ K' = PushK(tbl, t1, K)
  /\ UNCHANGED st
  /\ op' = [name |-> "remove", n |-> n]

Forget ==
  /\ Lazy /\ AllIdle /\ K # {}
  /\ K' = {}
  /\ UNCHANGED <<tbl, st>>
  /\ op' = [name |-> "forget"]

Learn ==
  /\ Lazy /\ AllIdle /\ K # Names(tbl)
  /\ K' = Names(tbl)
  /\ UNCHANGED <<tbl, st>>
  /\ op' = [name |-> "learn"]

LowestIdle(s) == st[s].ph = "idle" /\ \A r \in Slots : r < s => st[r].ph # "idle"

Open(s, req) ==
  /\ LowestIdle(s)
  /\ LET o == ChooseOptimistic(K, req)
         f == NegotiateFull(tbl, req) IN
     IF o # 0
     THEN /\ st' = [st EXCEPT ![s] = [ph |-> "lazy", p |-> req[o], h |-> NoH]]
          /\ K' = K
          /\ op' = [name |-> "open", s |-> s, req |-> req, res |-> "lazy", p |-> req[o], h |-> NoH]
     ELSE IF f # 0
     THEN LET e == tbl[ListenerNegotiate(tbl, req[f])] IN
          /\ st' = [st EXCEPT ![s] = [ph |-> "est", p |-> req[f], h |-> e]]
          /\ K' = K \cup {req[f]}                    \* Peerstore().AddProtocols(p, selected)
          /\ op' = [name |-> "open", s |-> s, req |-> req, res |-> "est", p |-> req[f], h |-> e]
     ELSE /\ UNCHANGED <<st, K>>
          /\ op' = [name |-> "open", s |-> s, req |-> req, res |-> "fail", p |-> "", h |-> NoH]
  /\ UNCHANGED tbl

\* q = "": opaque application bytes.  q in Tokens: the first bytes A's application writes are
\* <varint len>q<newline>, i.e. they read as a multistream proposal of q.  That matters only when B
\* refuses the optimistically chosen id: B answers "na" and KEEPS negotiating on the bytes that follow
\* (go-multistream Negotiate loop), so a registered acceptor of q is started on a stream A never asked
\* q for and which A sees fail ("stray").  Modelled as the code behaves; see NoStray.
Use(s, q) ==
  /\ st[s].ph \in {"lazy", "est"}
  /\ q # "" => (st[s].ph = "lazy" /\ ListenerNegotiate(tbl, st[s].p) = 0)
  /\ IF st[s].ph = "est"
     THEN /\ UNCHANGED st
          /\ op' = [name |-> "use", s |-> s, first |-> FALSE, res |-> "ok", p |-> st[s].p, h |-> st[s].h,
                    q |-> "", stray |-> NoH]
     ELSE LET j == ListenerNegotiate(tbl, st[s].p) IN
          IF j # 0
          THEN /\ st' = [st EXCEPT ![s] = [ph |-> "est", p |-> st[s].p, h |-> tbl[j]]]
               /\ op' = [name |-> "use", s |-> s, first |-> TRUE, res |-> "ok", p |-> st[s].p, h |-> tbl[j],
                         q |-> "", stray |-> NoH]
          ELSE LET k == IF q = "" THEN 0 ELSE ListenerNegotiate(tbl, q) IN
               /\ st' = [st EXCEPT ![s] = Idle]
               /\ op' = [name |-> "use", s |-> s, first |-> TRUE, res |-> "fail", p |-> st[s].p, h |-> NoH,
                         q |-> q, stray |-> IF k # 0 THEN tbl[k] ELSE NoH]
  /\ UNCHANGED <<tbl, K>>

Close(s) ==
  /\ st[s].ph \in {"lazy", "est"}
  /\ st' = [st EXCEPT ![s] = Idle]
  /\ IF st[s].ph = "est"
     THEN op' = [name |-> "close", s |-> s, unused |-> FALSE, p |-> st[s].p, h |-> NoH]
     ELSE LET j == ListenerNegotiate(tbl, st[s].p) IN     \* Close flushes the lazy handshake
          op' = [name |-> "close", s |-> s, unused |-> TRUE, p |-> st[s].p,
                 h |-> IF j # 0 THEN tbl[j] ELSE NoH]
  /\ UNCHANGED <<tbl, K>>

Next == \/ \E e \in Entries : Add(e)
        \/ \E n \in P : Remove(n)
        \/ Forget
        \/ Learn
        \/ \E s \in Slots, req \in Reqs : Open(s, req)
        \/ \E s \in Slots, q \in Tokens \cup {""} : Use(s, q)
        \/ \E s \in Slots : Close(s)

Spec == Init /\ [][Next]_vars

----------------------------------------------------------------------------
(* Observable consequences the replay compares (resource scopes of the two managers) *)
AOut(p) == Cardinality({s \in Slots : st[s].ph \in {"lazy", "est"} /\ st[s].p = p})
BIn(p) == Cardinality({s \in Slots : st[s].ph = "est" /\ st[s].p = p})

----------------------------------------------------------------------------
(* Properties *)

TypeOK == /\ \A i \in 1..Len(tbl) : tbl[i] \in Entries
          /\ \A i, j \in 1..Len(tbl) : i # j => tbl[i].n # tbl[j].n
          /\ Len(tbl) <= MaxTbl
          /\ K \subseteq P
          /\ \A s \in Slots : st[s].ph \in {"idle", "lazy", "est"}

\* RightHandler, state part: an established stream is served by an entry whose matcher accepts the id
\* both ends report
RightHandler == \A s \in Slots : st[s].ph = "est" => Accepts(st[s].h, st[s].p)

\* Agreement + "one of the requested": the id a successful open binds is requested; the id the
\* handler's stream reports (op'.p at establishment) is the one the dialer bound at open
OpenBinds == [][op'.name = "open" /\ op'.res # "fail" => op'.p \in Range(op'.req)]_vars
Agreement == [][\A s \in Slots : (st[s].ph = "lazy" /\ st'[s].ph = "est") => st'[s].p = st[s].p]_vars

\* RightHandler, action part: the entry that starts serving is registered at that moment and is the
\* first acceptor in table order (the muxer's rule, L2 in the replay); at most one handler per stream
Dispatch == [][\A s \in Slots : (st[s].ph # "est" /\ st'[s].ph = "est") =>
                   /\ st'[s].h \in Range(tbl)
                   /\ st'[s].h = tbl[ListenerNegotiate(tbl, st'[s].p)]]_vars
OneHandler == [][\A s \in Slots : st[s].ph = "est" /\ st'[s].ph = "est" => st'[s].h = st[s].h]_vars

\* NoCommon: an open with no protocol in common fails at open, or - chosen optimistically - stays
\* unestablished; a first use / flushing close of an id nobody accepts runs no handler
NoCommon ==
  [][/\ (op'.name = "open" /\ Common(tbl, op'.req) = {}) => op'.res \in {"fail", "lazy"} /\ op'.h = NoH
     /\ (op'.name \in {"use", "close"} /\ st[op'.s].ph = "lazy"
           /\ ~\E e \in Range(tbl) : Accepts(e, st[op'.s].p)) => op'.h = NoH /\ st'[op'.s].ph = "idle"
     /\ (op'.name \in {"open", "use"} /\ op'.res = "fail") => op'.h = NoH]_vars

\* KNOWN FINDING (payload-parsed-as-proposal): "no application handler runs" fails for a refused
\* optimistic choice whose application bytes read as a proposal.  NoStray is therefore EXPECTED TO BE
\* VIOLATED (the driver asserts that TLC finds the counterexample; the replay reproduces it on the
\* real hosts); every other property holds with the behaviour modelled.
NoStray == [][op'.name = "use" => op'.stray = NoH]_vars

\* RemovedNeverRuns (model level): whatever serves or is invoked is in the table of that moment
RemovedNeverRuns ==
  [][(op'.name \in {"open", "use", "close"} /\ op'.h # NoH /\ ~(op'.name = "use" /\ ~op'.first))
        => op'.h \in Range(tbl)]_vars

\* vacuity guards (expected to be violated)
ReachStaleFail == ~(op.name = "use" /\ op.res = "fail")
ReachLaterWins == ~(op.name = "open" /\ op.res = "lazy" /\ Len(op.req) > 1 /\ op.p # op.req[1]
                     /\ \E e \in Range(tbl) : Accepts(e, op.req[1]))
ReachOverlap == ~(\E s \in Slots : st[s].ph = "est" /\
                     Cardinality({e \in Range(tbl) : Accepts(e, st[s].p)}) > 1)
=============================================================================
