---------------------------- MODULE C04qr_DemuxMC ----------------------------
EXTENDS C04qr_Demux, Json
EmitEdge == PrintT(<<"VFEDGE", ToJson([s |-> st, op |-> op', t |-> st'])>>)
MCInit == Init /\ PrintT(<<"VFINIT", ToJson(st)>>)
=============================================================================
