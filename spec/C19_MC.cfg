\* Template: checks/C19.py instantiates the constants for every bounded instance.
CONSTANTS
  MaxT = 3
  ChalTTL = 1
  TokTTL = 1
  MaxMint = 2
  MaxTok = 2
  MaxCli = 1
  S2SameKey = TRUE
  Rich = FALSE
  Verifiers <- MCVerifiersS
INIT Init
NEXT Next
VIEW View
CONSTRAINT Bound
INVARIANTS TypeOK ServerReports BearerReports TokensProven Integrity ClientReports ClientOpReports KindsSeparate
