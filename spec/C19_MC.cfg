\* Template: checks/C19.py instantiates the constants for every bounded instance.
CONSTANTS
  MaxT = 3
  ChalTTL = 1
  TokTTL = 1
  MaxMint = 2
  MaxTok = 2
  MaxCli = 0
  S2SameKey = TRUE
  Explicit = FALSE
  CHost = "h1"
  Rich = FALSE
  SeqSessions = FALSE
  StaleStart = TRUE
  Careless = FALSE
  Mixed = TRUE
  AliasHosts <- MCNoAlias
  CliHosts <- MCCliAll
  Verifiers <- MCVerifiersS
  MintPlaces <- MCPlaces3
INIT Init
NEXT Next
VIEW View
CONSTRAINT Bound
INVARIANTS TypeOK TokensProven ClientReports KindsSeparate CacheProven TokensDated
PROPERTIES ServerReports BearerReports Integrity ClientOpReports TokReports
