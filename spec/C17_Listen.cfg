\* Template: the driver (checks/C17.py) instantiates Thresh, MaxClosed, Emit.
CONSTANTS
  Inst = "listen"
  Thresh = 1
  MaxTop = 3
  MaxClosed = 9
  Emit = FALSE
  Locals <- MCLocals
  AddrSeq <- MCAddrSeq
  Specials <- MCSpecials
  LocalOf <- MCLocalOf
  RemoteOf <- MCRemoteOf
  GroupOf <- MCGroupOf
INIT LInit
NEXT LNext
VIEW LView
INVARIANTS LTypeOK CreditOnlyOpenLocal ExtMatches CodeTopAllowed TiersAgree AdvertisedOnlyForListen
PROPERTIES CreditOnlyWhileListening NeverCountL ListenChangeKeepsCredits Withdrawn
