\* Template: checks/C16.py instantiates the constants for the bounded instance(s) of the server model.
CONSTANTS
  MaxAddrs = 2
  MaxLen = 3
  RPM = 3
  DDRPM = 1
  MaxParts = 2
  MinAsk = 30000
  MaxAsk = 100000
  KeepAddrs = FALSE
INIT Init
NEXT Next
VIEW View
INVARIANTS TypeOK AskedRange
PROPERTIES DialOnlyRequested DataBeforeDial RefuseUndialable NoDialUnlessOK
