----------------------------- MODULE C02_Psk -----------------------------
(***************************************************************************)
(* Layer instance of the C02 channel family: one direction of a pskConn    *)
(* (p2p/net/pnet/psk_conn.go).  The writer sends a random nonce in front   *)
(* of its FIRST write (also an empty one) and XORs a key stream; the       *)
(* reader takes the nonce with io.ReadFull in front of its first read and  *)
(* then passes every read of the underlying connection through - short     *)
(* reads included, and ALSO what io.Reader allows besides: bytes that      *)
(* arrive together with an error (a timeout: the stream goes on; io.EOF:   *)
(* the last bytes), and a temporary error before any byte.  The bytes that *)
(* come with an error are decrypted and count like any others.             *)
(* No integrity: only the fidelity clause applies.                         *)
(* A data unit on the wire is [pos |-> position in the payload, ks |->     *)
(* key-stream position it was XORed with]; it decrypts to pos iff the      *)
(* reader is at the same key-stream position, otherwise to garbage (0).    *)
(*                                                                         *)
(* Glitches are armed only once the nonce is through (rn / wn): a          *)
(* transient error INSIDE the nonce exchange loses nonce bytes in          *)
(* io.ReadFull / re-rolls the nonce in Write, after which this layer can   *)
(* only garble (no integrity); that is outside the property's quantifier   *)
(* and is not claimed.  A short write ends the writer's part (the key      *)
(* stream was advanced over the whole input: the code's quirk).            *)
(***************************************************************************)
EXTENDS Naturals, Sequences, TLC

CONSTANTS NonceLen, MaxSent, MaxWrite, Bufs, Shorts,
          Glitches     \* subset of {"dataerr", "temperr", "shortwrite", "eofdata", "refusewrite"}

VARIABLES nsent, wn, wks, wire, closed, rn, rks, rbad, delivered, under,
          rg,          \* armed read glitch: "none", "dataerr", "temperr"
          wg,          \* armed short write
          wr,          \* armed refusal: the next write of the connection is refused WHOLE (0 bytes, an error,
                       \* nothing on the wire) - at any write index, the very first included; the caller goes on
          eofd,        \* the last bytes come together with io.EOF
          nglitch,     \* glitches armed so far (one per behaviour)
          wdead,       \* the writer got an error: it writes no more
          reof,        \* the reader has seen io.EOF
          op
vars == <<nsent, wn, wks, wire, closed, rn, rks, rbad, delivered, under, rg, wg, wr, eofd, nglitch, wdead, reof, op>>
View == <<nsent, wn, wks, wire, closed, rn, rks, rbad, delivered, under, rg, wg, wr, eofd, nglitch, wdead, reof>>

Min(a, b) == IF a < b THEN a ELSE b
Sent == [i \in 1..nsent |-> i]
IsPrefix(s, t) == Len(s) <= Len(t) /\ \A i \in 1..Len(s) : s[i] = t[i]
NonceUnit == [k |-> "nonce", pos |-> 0, ks |-> 0]

Init == /\ nsent = 0 /\ wn = FALSE /\ wks = 0 /\ wire = <<>> /\ closed = FALSE /\ rn = FALSE /\ rks = 0
        /\ rbad = FALSE /\ delivered = <<>> /\ under = 0 /\ rg = "none" /\ wg = FALSE /\ wr = FALSE /\ eofd = FALSE
        /\ nglitch = 0 /\ wdead = FALSE /\ reof = FALSE /\ op = [name |-> "init"]

\* A write that is refused whole puts nothing on the wire and reports (0, error).  The statement's first sentence
\* then asks: the bytes of the writes that report SUCCESS arrive unmodified, once, in order.
Write(k) ==
  /\ ~closed /\ ~wdead
  /\ nsent + k <= MaxSent
  /\ IF wr /\ (k > 0 \/ ~wn)                  \* (an empty write behind the nonce does not reach the connection)
       THEN /\ wr' = FALSE
            \* on the first write (the nonce has not gone out) nothing at all has happened and the caller may go
            \* on; behind the nonce the key-stream position is spent, so the connection FAILS CLOSED: every later
            \* Write fails (the stream could not be resynchronised, and there is no integrity to notice it)
            /\ wdead' = wn
            /\ op' = [name |-> "write", k |-> k, n |-> 0, nonce |-> ~wn, short |-> FALSE, refused |-> TRUE, dead |-> FALSE]
            /\ UNCHANGED <<wire, nsent, wg, wn, wks>>
       ELSE /\ LET short == wg /\ k >= 2                 \* the underlying Write takes only a part and reports an error
                   a == IF short THEN k \div 2 ELSE k
                   hdr == IF wn THEN <<>> ELSE [i \in 1..NonceLen |-> NonceUnit]
                   body == [i \in 1..a |-> [k |-> "data", pos |-> nsent + i, ks |-> wks + i]]
               IN /\ wire' = wire \o hdr \o body
                  /\ nsent' = nsent + a
                  /\ wg' = (wg /\ ~short) /\ wdead' = short
                  /\ op' = [name |-> "write", k |-> k, n |-> a, nonce |-> ~wn, short |-> short, refused |-> FALSE, dead |-> FALSE]
            /\ wn' = TRUE /\ wks' = wks + k              \* the key stream advances over the whole input
            /\ wr' = wr
  /\ UNCHANGED <<closed, rn, rks, rbad, delivered, under, rg, eofd, nglitch, reof>>

\* after a failed write every later Write fails, with nothing on the wire
WriteDead(k) ==
  /\ ~closed /\ wdead
  /\ op' = [name |-> "write", k |-> k, n |-> 0, nonce |-> FALSE, short |-> FALSE, refused |-> FALSE, dead |-> TRUE]
  /\ UNCHANGED View

Close == /\ ~closed /\ wn /\ closed' = TRUE /\ op' = [name |-> "close"]
         /\ UNCHANGED <<nsent, wn, wks, wire, rn, rks, rbad, delivered, under, rg, wg, wr, eofd, nglitch, wdead, reof>>

Rel(b, avail) == IF b = 0 THEN "zero" ELSE IF b < avail THEN "lt" ELSE IF b = avail THEN "eq" ELSE "gt"
Cap(avail, b) == IF under = 0 THEN Min(b, avail) ELSE Min(Min(b, avail), under)
Plain(u, at) == IF u.k = "data" /\ u.ks = at /\ ~rbad THEN u.pos ELSE 0

\* Read(out): nonce first (io.ReadFull), then ONE read of the underlying connection, passed through
Read(b) ==
  /\ ~reof
  /\ LET need == IF rn THEN 0 ELSE NonceLen
         avail == Len(wire) - need
     IN /\ Len(wire) >= need
        /\ (rn => (avail > 0 \/ closed))    \* otherwise the call blocks; with the nonce still to take it is
                                             \* replayed: the nonce is consumed, the data read finds nothing
        /\ LET temp == rg = "temperr" /\ b > 0 /\ avail > 0
               n == IF temp THEN 0 ELSE Cap(avail, b)
               derr == rg = "dataerr" /\ n > 0
               eof == closed /\ ~temp /\ ((avail = 0) \/ (b > 0 /\ eofd /\ n = avail))
               got == [i \in 1..n |-> Plain(wire[need + i], rks + i)]
               noncebad == ~rn /\ \E i \in 1..need : wire[i].k # "nonce"
           IN /\ delivered' = delivered \o got
              /\ wire' = SubSeq(wire, need + n + 1, Len(wire))
              /\ rks' = rks + n /\ rn' = TRUE /\ rbad' = (rbad \/ noncebad)
              /\ rg' = IF temp \/ derr THEN "none" ELSE rg
              /\ reof' = eof
              /\ op' = [name |-> "read", b |-> b, n |-> n, nonce |-> ~rn, dry |-> (avail = 0 /\ ~closed),
                        avail |-> avail, rel |-> Rel(b, avail), left |-> avail - n,
                        glitch |-> IF temp THEN "temperr" ELSE IF derr THEN "dataerr" ELSE "none",
                        eof |-> eof]
  /\ UNCHANGED <<nsent, wn, wks, closed, under, wg, wr, eofd, nglitch, wdead>>

Short(k) == /\ k # under /\ under' = k /\ op' = [name |-> "short", k |-> k]
            /\ UNCHANGED <<nsent, wn, wks, wire, closed, rn, rks, rbad, delivered, rg, wg, wr, eofd, nglitch, wdead, reof>>

\* a glitch of the underlying connection is armed (one per behaviour, once the nonce is through)
Glitch(kind) ==
  /\ kind \in Glitches /\ nglitch = 0 /\ ~reof
  /\ \/ kind \in {"dataerr", "temperr"} /\ rn /\ rg' = kind /\ UNCHANGED <<wg, wr, eofd>>
     \/ kind = "shortwrite" /\ wn /\ ~closed /\ wg' = TRUE /\ UNCHANGED <<rg, wr, eofd>>
     \/ kind = "refusewrite" /\ ~closed /\ wr' = TRUE /\ UNCHANGED <<rg, wg, eofd>>   \* (also in front of the first write)
     \/ kind = "eofdata" /\ ~closed /\ eofd' = TRUE /\ UNCHANGED <<rg, wg, wr>>
  /\ nglitch' = 1
  /\ op' = [name |-> "glitch", kind |-> kind]
  /\ UNCHANGED <<nsent, wn, wks, wire, closed, rn, rks, rbad, delivered, under, wdead, reof>>

Next == \/ \E k \in 0..MaxWrite : Write(k)
        \/ \E k \in 1..MaxWrite : WriteDead(k)
        \/ \E b \in Bufs : Read(b)
        \/ \E k \in Shorts : Short(k)
        \/ \E kind \in Glitches : Glitch(kind)
        \/ Close

TypeOK == nsent \in 0..MaxSent /\ wks >= nsent /\ rks <= wks /\ (wks # nsent => wdead)
\* also the bytes returned together with an error are the next bytes written, decrypted
Prefix == IsPrefix(delivered, Sent)
Complete == (wn /\ rn /\ wire = <<>>) => delivered = Sent
\* the nonce goes out exactly once and is never handed to the reader as data
NonceOnce == LET RECURSIVE Cnt(_)
                 Cnt(w) == IF w = <<>> THEN 0 ELSE (IF Head(w).k = "nonce" THEN 1 ELSE 0) + Cnt(Tail(w))
             IN Cnt(wire) = (IF wn /\ ~rn THEN NonceLen ELSE 0)
\* after a transient error the stream continues intact: the key-stream positions stay in step
InSync == ~rbad /\ rks = Len(delivered)
EofAfterAll == reof => delivered = Sent
=============================================================================
