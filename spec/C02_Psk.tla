----------------------------- MODULE C02_Psk -----------------------------
(***************************************************************************)
(* Layer instance of the C02 channel family: one direction of a pskConn    *)
(* (p2p/net/pnet/psk_conn.go).  The writer sends a random nonce in front   *)
(* of its FIRST write (also an empty one) and XORs a key stream; the       *)
(* reader takes the nonce with io.ReadFull in front of its first read and  *)
(* then passes every read of the underlying connection through (short      *)
(* reads included).  No integrity: only the fidelity clause applies.       *)
(* A data unit on the wire is [pos |-> position in the payload, ks |->     *)
(* key-stream position it was XORed with]; it decrypts to pos iff the      *)
(* reader is at the same key-stream position, otherwise to garbage (0).    *)
(***************************************************************************)
EXTENDS Naturals, Sequences, TLC

CONSTANTS NonceLen, MaxSent, MaxWrite, Bufs, Shorts

VARIABLES nsent, wn, wks, wire, rn, rks, rbad, delivered, under, op
vars == <<nsent, wn, wks, wire, rn, rks, rbad, delivered, under, op>>
View == <<nsent, wn, wks, wire, rn, rks, rbad, delivered, under>>

Min(a, b) == IF a < b THEN a ELSE b
Sent == [i \in 1..nsent |-> i]
IsPrefix(s, t) == Len(s) <= Len(t) /\ \A i \in 1..Len(s) : s[i] = t[i]
NonceUnit == [k |-> "nonce", pos |-> 0, ks |-> 0]

Init == /\ nsent = 0 /\ wn = FALSE /\ wks = 0 /\ wire = <<>> /\ rn = FALSE /\ rks = 0 /\ rbad = FALSE
        /\ delivered = <<>> /\ under = 0 /\ op = [name |-> "init"]

Write(k) ==
  /\ nsent + k <= MaxSent
  /\ LET hdr == IF wn THEN <<>> ELSE [i \in 1..NonceLen |-> NonceUnit]
         body == [i \in 1..k |-> [k |-> "data", pos |-> nsent + i, ks |-> wks + i]]
     IN wire' = wire \o hdr \o body
  /\ wn' = TRUE /\ wks' = wks + k /\ nsent' = nsent + k
  /\ op' = [name |-> "write", k |-> k, n |-> k, nonce |-> ~wn]
  /\ UNCHANGED <<rn, rks, rbad, delivered, under>>

Rel(b, avail) == IF b = 0 THEN "zero" ELSE IF b < avail THEN "lt" ELSE IF b = avail THEN "eq" ELSE "gt"
Cap(avail, b) == IF under = 0 THEN Min(b, avail) ELSE Min(Min(b, avail), under)
Plain(u, at) == IF u.k = "data" /\ u.ks = at /\ ~rbad THEN u.pos ELSE 0

\* Read(out): nonce first (io.ReadFull), then ONE read of the underlying connection
Read(b) ==
  /\ LET need == IF rn THEN 0 ELSE NonceLen
         avail == Len(wire) - need
     IN /\ Len(wire) >= need
        /\ (rn => avail > 0)          \* otherwise the call blocks; with the nonce still to take it is
                                       \* replayed: the nonce is consumed, the data read finds nothing
        /\ LET n == Cap(avail, b)
               got == [i \in 1..n |-> Plain(wire[need + i], rks + i)]
               noncebad == ~rn /\ \E i \in 1..need : wire[i].k # "nonce"
           IN /\ delivered' = delivered \o got
              /\ wire' = SubSeq(wire, need + n + 1, Len(wire))
              /\ rks' = rks + n /\ rn' = TRUE /\ rbad' = (rbad \/ noncebad)
              /\ op' = [name |-> "read", b |-> b, n |-> n, nonce |-> ~rn, dry |-> (avail = 0), avail |-> avail,
                        rel |-> Rel(b, avail), left |-> avail - n]
  /\ UNCHANGED <<nsent, wn, wks, under>>

Short(k) == /\ k # under /\ under' = k /\ op' = [name |-> "short", k |-> k]
            /\ UNCHANGED <<nsent, wn, wks, wire, rn, rks, rbad, delivered>>

Next == \/ \E k \in 0..MaxWrite : Write(k)
        \/ \E b \in Bufs : Read(b)
        \/ \E k \in Shorts : Short(k)

TypeOK == nsent \in 0..MaxSent /\ wks = nsent /\ rks <= wks
Prefix == IsPrefix(delivered, Sent)
Complete == (wn /\ rn /\ wire = <<>>) => delivered = Sent
\* the nonce goes out exactly once and is never handed to the reader as data
NonceOnce == LET RECURSIVE Cnt(_)
                 Cnt(w) == IF w = <<>> THEN 0 ELSE (IF Head(w).k = "nonce" THEN 1 ELSE 0) + Cnt(Tail(w))
             IN Cnt(wire) = (IF wn /\ ~rn THEN NonceLen ELSE 0)
InSync == ~rbad /\ rks = Len(delivered)
=============================================================================
