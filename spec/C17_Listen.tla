----------------------------- MODULE C17_Listen -----------------------------
(***************************************************************************)
(* C17 with a CHANGING listen set.  In C17_ObservedAddrs the local listen  *)
(* addresses are a constant; in the code they are whatever the callback    *)
(* `listenAddrs()` returns at the moment it is asked:                      *)
(*   - shouldRecordObservation asks it for EVERY report: a report is       *)
(*     credited only if the connection's local thin waist is a listen      *)
(*     address AT THE TIME OF THE REPORT ("reports on connections not      *)
(*     arriving at a listen address never count");                         *)
(*   - Addrs(n) (appendInferredAddrs) asks it for every answer: only       *)
(*     addresses of CURRENT listen addresses are advertised;               *)
(*   - AddrsFor(l) does not ask: it answers from the credits held for l.   *)
(* Named deviation, modelled as the code is: when a listen address goes    *)
(* away the credits of the connections that arrived at it STAY (they are   *)
(* withdrawn by report change / close only), so AddrsFor(l) keeps its      *)
(* answer and Addrs() shows it again once l is listened on again.          *)
(*                                                                         *)
(*   Unlisten(l) / Listen(l) = the environment changes what listenAddrs()  *)
(*                              returns (no call into the manager)         *)
(*   LObserve(c, o)          = maybeRecordObservation with the listen set  *)
(*                              of that moment                             *)
(*   LClose(c)               = removeConn                                  *)
(***************************************************************************)
EXTENDS C17_MC

VARIABLE lis     \* SUBSET Locals: what listenAddrs() returns now (as thin waists)

lvars == <<obs, open, ext, op, lis>>
LView == <<obs, open, ext, lis>>

LInit == Init /\ lis = Locals

ListeningNow(c) == LocalOf[c] \in lis

LOut(args) == IF ~Emit THEN args
              ELSE args @@ [exp |-> ExpH(obs', open', {}), ext |-> SparseExt(ext'), lis |-> lis']

\* the report is looked at while the connection's local address is a listen address: the base action
LObserve(c, o) ==
  /\ lis' = lis
  /\ IF ListeningNow(c)
     THEN /\ Observe(c, o)                  \* op' of the base action; the listen set is added by LEmitEdge
     ELSE /\ UNCHANGED <<obs, open, ext>>    \* filtered: not in our list
          /\ op' = LET base == LOut([name |-> "observe", c |-> c, o |-> o, credited |-> FALSE])
                   IN IF Emit /\ open[c] /\ obs[c] # None
                      THEN base @@ [alt |-> ExpH(obs', open', {c})]   \* other reading: a changed report is withdrawn
                      ELSE base

LClose(c) == CloseConn(c) /\ lis' = lis

Unlisten(l) ==
  /\ l \in lis
  /\ lis' = lis \ {l}
  /\ UNCHANGED <<obs, open, ext>>
  /\ op' = LOut([name |-> "unlisten", l |-> l])

Listen(l) ==
  /\ l \in Locals \ lis
  /\ lis' = lis \cup {l}
  /\ UNCHANGED <<obs, open, ext>>
  /\ op' = LOut([name |-> "listen", l |-> l])

LNext == \/ \E c \in Conns, o \in Addrs \cup Specials : LObserve(c, o)
         \/ \E c \in Conns : LClose(c)
         \/ \E l \in Locals : Unlisten(l) \/ Listen(l)

LSpec == LInit /\ [][LNext]_lvars

----------------------------------------------------------------------------
LTypeOK == TypeOK /\ lis \subseteq Locals

\* a credit is only ever GRANTED while the connection's local address is a listen address and the
\* connection is open; reports at any other time change nothing
CreditOnlyWhileListening ==
  [][\A c \in Conns : (obs'[c] # obs[c] /\ obs'[c] # None) => (ListeningNow(c) /\ open[c])]_lvars
NeverCountL ==
  [][(op'.name = "observe" /\ (op'.o \in Specials \/ ~open[op'.c] \/ ~ListeningNow(op'.c)))
       => UNCHANGED <<obs, ext>>]_lvars
\* the named deviation: a change of the listen set touches no credit
ListenChangeKeepsCredits == [][lis' # lis => UNCHANGED <<obs, open, ext>>]_lvars
\* credits are held by open connections whose local address is a POSSIBLE listen address
CreditOnlyOpenLocal == \A c \in Conns : obs[c] # None => open[c] /\ LocalOf[c] \in Locals

\* what Addrs(n) may advertise: the code's top list of the CURRENT listen addresses only
AdvertisedNow == [l \in Locals |-> IF l \in lis THEN CodeTop(l) ELSE <<>>]
AdvertisedOnlyForListen == \A l \in Locals \ lis : AdvertisedNow[l] = <<>>

\* vacuity guards (expected to be violated)
ReachCreditOfUnlistened == \A c \in Conns : obs[c] # None => ListeningNow(c)
ReachEligibleUnlistened == \A l \in Locals \ lis : Eligible(l) = {}

LSt == [obs |-> obs, open |-> open, lis |-> lis]
LEmitEdge == PrintT(<<"VFEDGE", ToJson([s |-> LSt, op |-> (op' @@ [lis |-> lis']), t |-> LSt'])>>)
LMCInit == /\ LInit
           /\ PrintT(<<"VFINIT", ToJson(LSt)>>)
           /\ PrintT(<<"VFINST", ToJson([inst |-> Inst, thresh |-> Thresh, maxtop |-> MaxTop, locals |-> Locals,
                                          addrs |-> AddrSeq, specials |-> Specials, localOf |-> LocalOf,
                                          remoteOf |-> RemoteOf, groupOf |-> GroupOf])>>)
=============================================================================
