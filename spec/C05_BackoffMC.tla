---------------------------- MODULE C05_BackoffMC ----------------------------
EXTENDS C05_Backoff, Json
\* projection replayed on the real DialBackoff: the entries, and the answer Backoff() must give for every
\* (peer, address) in this state (computed by TLC, compared with the real answers after every step)
St == [now |-> now, due |-> due, ent |-> ent,
       inb |-> [p \in Peers |-> [a \in Addrs |-> BoIn(ent[p][a], now)]]]
\* the replay graph has one node per implementation state: the ghost and the (constant) worker variables are left out
ViewObj == <<now, ent, due>>
EmitEdge == PrintT(<<"VFEDGE", ToJson([s |-> St, op |-> op', t |-> St'])>>)
MCInit == Init /\ PrintT(<<"VFINIT", ToJson(St)>>)
\* under testing/synctest the cleanup goroutine runs at the very instant its ticker fires, before the harness does
\* anything else: in the printed graph nothing happens between the ticker and cleanup()
Eager == due => ~due'
=============================================================================
