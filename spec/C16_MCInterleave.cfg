\* Template: checks/C16.py instantiates the constants for the bounded instances of the interleaving model.
CONSTANTS
  Slots = {"a1", "a2", "b1"}
  RPM = 3
  PerPeerRPM = 2
  DDRPM = 1
  Cap = 1
  Split = "none"
INIT Init
NEXT Next
VIEW View
INVARIANTS TypeOK LedgerConcurrent LedgerGlobal LedgerPeer LedgerDialData Books
