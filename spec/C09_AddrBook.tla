--------------------------- MODULE C09_AddrBook ---------------------------
(***************************************************************************)
(* The ABSTRACT address book of one peer: what property C09 describes.     *)
(* It is the oracle against which both implementations are replayed        *)
(*   p2p/host/peerstore/pstoremem/addr_book.go   (memoryAddrBook)          *)
(*   p2p/host/peerstore/pstoreds/addr_book.go    (dsAddrBook)              *)
(* so "identical in both stores" is transitivity through this module plus  *)
(* a direct store-against-store comparison in the harness.                 *)
(*                                                                         *)
(* One action per public call.  Peers are independent in both stores       *)
(* (no cross-peer state but a global cap of 10^6), so there is ONE peer.   *)
(*                                                                         *)
(* Time is kept RELATIVE: an entry stores its remaining lifetime `rem`     *)
(* (in ticks) instead of an absolute expiry, so the state space is closed  *)
(* without a clock bound.  An entry whose lifetime reaches 0 is dead AT    *)
(* that instant (expiry <= now is expired: the exact-expiry instant        *)
(* counts as expired in both stores) and the abstract book drops it then:  *)
(* whether an implementation still stores it is not observable through     *)
(* Addrs/GetPeerRecord, only through PeersWithAddrs before a GC run, which *)
(* the property leaves free.  GC and CloseReopen are therefore stuttering  *)
(* steps of the abstract book with an observable obligation attached.      *)
(***************************************************************************)
EXTENDS Integers, Sequences, FiniteSets, TLC

CONSTANTS Addrs,     \* address names (strings)
          TTLs,      \* TTL values calls may pass; 0 stands for the whole non-positive class
          Conn,      \* ttl >= Conn <=> "held by a live connection" (peerstore.ConnectedAddrTTL)
          Seqs,      \* sequence numbers of signed records
          Batches,   \* the address sets one call may name
          Cap        \* per-peer cap on unconnected addresses, 0 = off (MaxAddrsPerPeer)

ASSUME /\ 0 \in TTLs /\ \A t \in TTLs : t \in Nat
       /\ Cap \in Nat
\* Batches: with Cap = 0 the order of the addresses in a call is irrelevant and a batch is a SET; with the
\* binding cap (Cap > 0) a batch is a SEQUENCE without repetitions, processed in order (each address may
\* evict), so that batches which refresh a stored address and insert a new one are distinguished by order.

Inf == 99                       \* remaining lifetime of a connected/permanent entry (never decremented)
None == [ttl |-> 0, rem |-> 0]
NoRec == [has |-> FALSE, seq |-> 0, addrs |-> {}]

VARIABLES book,   \* [Addrs -> None or [ttl, rem]]   rem >= 1 for every present entry
          rec,    \* NoRec or [has |-> TRUE, seq, addrs]  the live signed record
          op      \* output only: last call, its arguments, the expected observable results

vars == <<book, rec, op>>
View == <<book, rec>>

IsConn(t) == t >= Conn
Life(t) == IF IsConn(t) THEN Inf ELSE t
Present(b, a) == b[a] # None
Live(b) == {a \in Addrs : Present(b, a)}
Unconn(b) == {a \in Addrs : Present(b, a) /\ ~IsConn(b[a].ttl)}
Max(x, y) == IF x >= y THEN x ELSE y

\* the record lives exactly as long as the peer continuously has a live address
RecAfter(b, r) == IF Live(b) = {} THEN NoRec ELSE r

Obs(b, r) == [live |-> Live(b), rseq |-> IF r.has THEN r.seq ELSE 0]

Init == /\ book = [a \in Addrs |-> None]
        /\ rec = NoRec
        /\ op = [name |-> "init"]

----------------------------------------------------------------------------
(* per-peer cap: inserting a NEW unconnected address when Cap unconnected ones are stored evicts *)
(* the unconnected entry with the nearest expiry; among equal expiries the victim is unspecified *)
(* (map order in one store, slice order in the other): `tie` flags it and replay stops there.    *)
(* A call naming several addresses is the sequence of the one-address calls, in the given order. *)
Elems(B) == IF Cap = 0 THEN B ELSE {B[i] : i \in 1..Len(B)}
Order(B) == IF Cap = 0 THEN <<>> ELSE B
\* A signed record may list NO usable address (an empty list, only addresses with another peer's /p2p
\* suffix, only undecodable ones): it is accepted or rejected on its sequence number like any other,
\* evicts what the previous record listed, becomes THE stored record (GetPeerRecord returns it while the
\* peer has other live addresses) and adds nothing.
NoAddrs == IF Cap = 0 THEN {} ELSE <<>>
NeedEvict(b, a, t) == Cap > 0 /\ ~Present(b, a) /\ ~IsConn(t) /\ Cardinality(Unconn(b)) >= Cap
Minima(b) == {x \in Unconn(b) : \A y \in Unconn(b) : b[x].rem <= b[y].rem}
Victim(b) == CHOOSE x \in Minima(b) : TRUE

\* one address of a call: ov = override (SetAddrs) or extend (AddAddrs / signed record)
One(b, a, t, ov) ==
  IF Present(b, a)
  THEN [b EXCEPT ![a] = IF ov THEN [ttl |-> t, rem |-> Life(t)]
                        ELSE [ttl |-> Max(b[a].ttl, t), rem |-> Max(b[a].rem, Life(t))]]
  ELSE LET b1 == IF NeedEvict(b, a, t) THEN [b EXCEPT ![Victim(b)] = None] ELSE b
       IN [b1 EXCEPT ![a] = [ttl |-> t, rem |-> Life(t)]]

RECURSIVE Fold(_, _, _, _), FoldTie(_, _, _, _), FoldOwn(_, _, _, _, _, _)
Fold(b, q, t, ov) == IF q = <<>> THEN b ELSE Fold(One(b, Head(q), t, ov), Tail(q), t, ov)
\* some eviction of the call chose among several entries with the same nearest expiry
FoldTie(b, q, t, ov) ==
  q # <<>> /\ \/ (NeedEvict(b, Head(q), t) /\ Cardinality(Minima(b)) > 1)
              \/ FoldTie(One(b, Head(q), t, ov), Tail(q), t, ov)
\* The outcome of the call depends on state the call itself produced: some eviction removed an address
\* the SAME call had inserted (`new`), or a new unconnected address is processed after the call moved a
\* stored entry between the connected and the unconnected class (`chg`: the count differs from the one
\* before the call).  Flagged in `op.own`: an implementation that evaluates the cap against the state
\* before the call answers differently there.
FoldOwn(b, q, t, ov, new, chg) ==
  q # <<>> /\ LET a == Head(q)
                  b1 == One(b, a, t, ov)
              IN \/ (NeedEvict(b, a, t) /\ Victim(b) \in new)
                 \/ (chg /\ ~Present(b, a) /\ ~IsConn(t))
                 \/ FoldOwn(b1, Tail(q), t, ov,
                            IF Present(b, a) THEN new ELSE new \cup {a},
                            chg \/ (Present(b, a) /\ IsConn(b[a].ttl) # IsConn(b1[a].ttl)))

\* the book after AddAddrs (ov = FALSE) / SetAddrs with a positive ttl (ov = TRUE) naming batch B
Put(b, B, t, ov) ==
  IF Cap > 0 THEN Fold(b, B, t, ov)
  ELSE [a \in Addrs |-> IF a \in B
                        THEN (IF Present(b, a) /\ ~ov
                              THEN [ttl |-> Max(b[a].ttl, t), rem |-> Max(b[a].rem, Life(t))]
                              ELSE [ttl |-> t, rem |-> Life(t)])
                        ELSE b[a]]
Tie(b, B, t, ov) == Cap > 0 /\ FoldTie(b, B, t, ov)
Own(b, B, t, ov) == Cap > 0 /\ FoldOwn(b, B, t, ov, {}, FALSE)

Add(S, t) ==
  /\ IF t = 0 THEN book' = book /\ rec' = rec
     ELSE LET b2 == Put(book, S, t, FALSE) IN book' = b2 /\ rec' = RecAfter(b2, rec)
  /\ op' = [name |-> "add", addrs |-> Elems(S), order |-> Order(S), ttl |-> t,
            tie |-> (t # 0 /\ Tie(book, S, t, FALSE)), own |-> (t # 0 /\ Own(book, S, t, FALSE))]
           @@ Obs(book', rec')

\* SetAddrs: override; a non-positive ttl removes exactly the named addresses
Set(S, t) ==
  /\ LET b2 == IF t = 0 THEN [a \in Addrs |-> IF a \in Elems(S) THEN None ELSE book[a]]
               ELSE Put(book, S, t, TRUE)
     IN book' = b2 /\ rec' = RecAfter(b2, rec)
  /\ op' = [name |-> "set", addrs |-> Elems(S), order |-> Order(S), ttl |-> t,
            tie |-> (t # 0 /\ Tie(book, S, t, TRUE)), own |-> (t # 0 /\ Own(book, S, t, TRUE))]
           @@ Obs(book', rec')

\* UpdateAddrs(old, new): moves exactly the addresses whose ttl is `old`
Update(old, new) ==
  /\ LET b2 == [a \in Addrs |-> IF Present(book, a) /\ book[a].ttl = old
                                THEN (IF new = 0 THEN None ELSE [ttl |-> new, rem |-> Life(new)])
                                ELSE book[a]]
     IN book' = b2 /\ rec' = RecAfter(b2, rec)
  /\ op' = [name |-> "update", old |-> old, new |-> new] @@ Obs(book', rec')

Clear ==
  /\ book' = [a \in Addrs |-> None]
  /\ rec' = NoRec
  /\ op' = [name |-> "clear"] @@ Obs(book', rec')

\* ConsumePeerRecord(seq q, addresses S, ttl t > 0)
Consume(q, S, t) ==
  /\ t # 0
  /\ IF rec.has /\ rec.seq > q
     THEN /\ UNCHANGED <<book, rec>>
          /\ op' = [name |-> "consume", seq |-> q, addrs |-> Elems(S), order |-> Order(S), ttl |-> t,
                    res |-> FALSE, tie |-> FALSE, own |-> FALSE] @@ Obs(book, rec)
     ELSE LET gone == {a \in rec.addrs \ Elems(S) : Present(book, a) /\ ~IsConn(book[a].ttl)}
              b1 == [a \in Addrs |-> IF a \in gone THEN None ELSE book[a]]
              b2 == Put(b1, S, t, FALSE)
              r2 == [has |-> TRUE, seq |-> q, addrs |-> Elems(S)]
          IN /\ book' = b2 /\ rec' = RecAfter(b2, r2)
             /\ op' = [name |-> "consume", seq |-> q, addrs |-> Elems(S), order |-> Order(S), ttl |-> t,
                       res |-> TRUE, tie |-> Tie(b1, S, t, FALSE), own |-> Own(b1, S, t, FALSE),
                       evicted |-> gone] @@ Obs(book', rec')

\* one tick of the clock; an entry whose lifetime ends is dead at that very instant
Tick ==
  /\ LET b2 == [a \in Addrs |-> IF ~Present(book, a) \/ IsConn(book[a].ttl) THEN book[a]
                                ELSE IF book[a].rem = 1 THEN None
                                ELSE [book[a] EXCEPT !.rem = @ - 1]]
     IN /\ book' = b2 /\ rec' = RecAfter(b2, rec)
        /\ op' = [name |-> "tick", died |-> Live(book) \ Live(b2)] @@ Obs(b2, RecAfter(b2, rec))

\* a GC run: afterwards no expired entry is stored, so the peer is listed iff it has a live address
GC ==
  /\ UNCHANGED <<book, rec>>
  /\ op' = [name |-> "gc", listed |-> (Live(book) # {})] @@ Obs(book, rec)

\* close the (datastore-backed) book and reopen it on the same datastore: every answer unchanged
Reopen ==
  /\ UNCHANGED <<book, rec>>
  /\ op' = [name |-> "reopen", listed |-> (Live(book) # {})] @@ Obs(book, rec)

Next == \/ \E S \in Batches, t \in TTLs : Add(S, t) \/ Set(S, t)
        \/ \E o \in TTLs \ {0}, n \in TTLs : Update(o, n)
        \/ Clear \/ Tick \/ GC \/ Reopen
        \/ \E q \in Seqs, S \in Batches \cup {NoAddrs}, t \in TTLs : Consume(q, S, t)

Spec == Init /\ [][Next]_vars

----------------------------------------------------------------------------
(* The statement's clauses, checked on the abstract book itself (design-level). *)

TypeOK == /\ \A a \in Addrs : book[a] = None \/
                 (book[a].ttl \in TTLs \ {0} /\ book[a].rem >= 1 /\ book[a].rem <= Life(book[a].ttl)
                  /\ (IsConn(book[a].ttl) <=> book[a].rem = Inf))
          /\ rec.has => (rec.seq \in Seqs /\ rec.addrs \in {Elems(B) : B \in Batches} \cup {{}})

\* a record is only ever returned while the peer has a live address
RecordLifetime == rec.has => Live(book) # {}

\* adding never shortens a lifetime (no cap: the cap is allowed to evict)
AddNeverShortens ==
  [][(op'.name = "add" /\ Cap = 0) =>
       \A a \in Addrs : Present(book, a) =>
           (Present(book', a) /\ book'[a].ttl >= book[a].ttl /\ book'[a].rem >= book[a].rem)]_vars
\* ... and touches nothing it does not name
AddScope ==
  [][(op'.name = "add" /\ Cap = 0) => \A a \in Addrs \ op'.addrs : book'[a] = book[a]]_vars
\* setting overrides; a non-positive ttl removes exactly the named addresses
SetOverrides ==
  [][op'.name = "set" =>
       /\ (Cap = 0 \/ op'.ttl = 0) =>
            \A a \in op'.addrs : book'[a] = (IF op'.ttl = 0 THEN None ELSE [ttl |-> op'.ttl, rem |-> Life(op'.ttl)])
       /\ (Cap = 0 \/ op'.ttl = 0) => \A a \in Addrs \ op'.addrs : book'[a] = book[a]]_vars
\* a TTL-class update moves exactly the addresses in that class
UpdateExactlyClass ==
  [][op'.name = "update" =>
       \A a \in Addrs : IF Present(book, a) /\ book[a].ttl = op'.old
                        THEN book'[a] = (IF op'.new = 0 THEN None ELSE [ttl |-> op'.new, rem |-> Life(op'.new)])
                        ELSE book'[a] = book[a]]_vars
\* a record is accepted only if its sequence number is not lower than the stored one
SeqMonotone ==
  [][(op'.name = "consume" /\ op'.res /\ rec.has) => op'.seq >= rec.seq]_vars
SeqOnlyByConsume ==
  [][(rec'.has /\ rec' # rec) => (op'.name = "consume" /\ op'.res)]_vars
\* an accepted record evicts what the previous one listed and it no longer lists, except connected ones
EvictionRule ==
  [][(op'.name = "consume" /\ op'.res /\ rec.has) =>
       \A a \in rec.addrs \ op'.addrs :
           IF Present(book, a) /\ IsConn(book[a].ttl) THEN book'[a] = book[a]
           ELSE (Cap = 0 => ~Present(book', a))]_vars
\* a rejected record changes nothing
RejectInert ==
  [][(op'.name = "consume" /\ ~op'.res) => UNCHANGED <<book, rec>>]_vars
\* the record stays retrievable as long as the peer continuously has live addresses
RecordStays ==
  [][(rec.has /\ Live(book') # {} /\ op'.name # "clear") => rec'.has]_vars
\* GC and reopen change no answer
Durable == [][op'.name \in {"gc", "reopen"} => UNCHANGED <<book, rec>>]_vars

\* vacuity guards (each is EXPECTED to be violated: the interesting states are reachable)
ReachConnRecord == ~(rec.has /\ \E a \in Addrs : Present(book, a) /\ IsConn(book[a].ttl))
ReachSeqHigh == ~(rec.has /\ \A q \in Seqs : rec.seq >= q)
ReachFull == ~(\A a \in Addrs : Present(book, a) /\ ~IsConn(book[a].ttl))
=============================================================================
