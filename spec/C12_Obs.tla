------------------------------- MODULE C12_Obs -------------------------------
(***************************************************************************)
(* Observable-level specification of property C12 at the swarm level:      *)
(* limited (relayed) connections are never mistaken for direct ones.       *)
(* Executions of a real Swarm recorded by                                  *)
(* harness/p2p/net/swarm/zz_verif_c12_test.go satisfy the swarm clauses of *)
(* the property iff they are behaviours of this specification (each clause *)
(* is a guard).  The hole-punching clauses are covered by C12_HolePunch.   *)
(***************************************************************************)
EXTENDS Integers, Sequences, FiniteSets, TLC, Json

TraceLog == ndJsonDeserialize("trace.ndjson")

VARIABLES l,
  ainfo,    \* address name -> [relay]
  cinfo,    \* conn id -> [limited]   every connection a transport established or that arrived inbound
  ns,       \* caller -> [allow, nodial, t]   NewStream calls in progress or finished
  inCall,   \* callers (NewStream or force-direct dial) currently inside their call
  normalGen \* a caller that may use relay addresses has been inside its call since inCall was last empty

vars == <<l, ainfo, cinfo, ns, inCall, normalGen>>
Cur == TraceLog[l]
IsEvent(name) == l <= Len(TraceLog) /\ Cur.ev = name /\ l' = l + 1
Put(f, k, v) == [x \in DOMAIN f \cup {k} |-> IF x = k THEN v ELSE f[x]]
Range(q) == {q[i] : i \in 1..Len(q)}

TraceInit == /\ ainfo = <<>> /\ cinfo = <<>> /\ ns = <<>> /\ inCall = {} /\ normalGen = FALSE
             /\ l = 1 /\ TLCSet(1, 1)
TrReset == /\ IsEvent("reset") /\ ainfo' = <<>> /\ cinfo' = <<>> /\ ns' = <<>> /\ inCall' = {} /\ normalGen' = FALSE

TrAddr == IsEvent("addr") /\ ainfo' = Put(ainfo, Cur.a, [relay |-> Cur.relay]) /\ UNCHANGED <<cinfo, ns, inCall, normalGen>>
TrConnAdd == IsEvent("conn_add") /\ cinfo' = Put(cinfo, Cur.conn, [limited |-> Cur.limited]) /\ UNCHANGED <<ainfo, ns, inCall, normalGen>>
TrNoop == (IsEvent("conn_close") \/ IsEvent("conn_add_refused") \/ IsEvent("hook")) /\ UNCHANGED <<ainfo, cinfo, ns, inCall, normalGen>>

\* a relay address is handed to a transport only if some caller that may use one is waiting
TrTStart == /\ IsEvent("tdial_start") /\ Cur.a \in DOMAIN ainfo
            /\ (ainfo[Cur.a].relay => normalGen)
            /\ UNCHANGED <<ainfo, cinfo, ns, inCall, normalGen>>
TrTEnd == /\ IsEvent("tdial_end")
          /\ cinfo' = IF Cur.res = "ok" THEN Put(cinfo, Cur.conn, [limited |-> ainfo[Cur.a].relay]) ELSE cinfo
          /\ UNCHANGED <<ainfo, ns, inCall, normalGen>>

Enter(c, normal) == inCall' = inCall \cup {c} /\ normalGen' = (normalGen \/ normal)
Leave(c) == inCall' = inCall \ {c} /\ normalGen' = (IF inCall \ {c} = {} THEN FALSE ELSE normalGen)

\* a dial that demands a direct connection
TrDialCall == IsEvent("dial_call") /\ Enter(Cur.c, FALSE) /\ UNCHANGED <<ainfo, cinfo, ns>>
TrDialRet == /\ IsEvent("dial_ret") /\ Cur.c \in inCall
             /\ (Cur.res = "conn" => (Cur.conn \in DOMAIN cinfo /\ ~cinfo[Cur.conn].limited /\ ~Cur.limited))
             /\ Leave(Cur.c) /\ UNCHANGED <<ainfo, cinfo, ns>>

TrNsCall == /\ IsEvent("ns_call")
            /\ ns' = Put(ns, Cur.c, [allow |-> Cur.allow, nodial |-> Cur.nodial, t |-> Cur.t, onconn |-> Cur.onconn])
            /\ Enter(Cur.c, ~Cur.nodial) /\ UNCHANGED <<ainfo, cinfo>>

\* NewStream returns a stream: over a limited connection only if the caller allowed it
TrNsStream == /\ IsEvent("ns_ret") /\ Cur.res = "stream" /\ Cur.c \in inCall
              /\ Cur.conn \in DOMAIN cinfo
              /\ ((cinfo[Cur.conn].limited \/ Cur.limited) => ns[Cur.c].allow)
              /\ Leave(Cur.c) /\ UNCHANGED <<ainfo, cinfo, ns>>
\* ... or fails because only a limited connection (or none) is there: never while a direct one is open
TrNsNoDirect == /\ IsEvent("ns_ret") /\ Cur.res \in {"limitedconn", "noconn", "waittimeout"} /\ Cur.c \in inCall
                \* (a caller that picked one particular connection itself is refused on that connection alone)
                \* (a direct connection that appeared at the very instant of the return may have come after the
                \* decision: the harness makes connections appear synchronously inside the call)
                /\ (~(Cur.direct_open /\ Cur.direct_since < Cur.t) \/ ns[Cur.c].onconn)
                /\ (Cur.res = "limitedconn" => ~ns[Cur.c].allow)
                /\ (Cur.res = "waittimeout" => Cur.t - ns[Cur.c].t >= 15000)
                /\ Leave(Cur.c) /\ UNCHANGED <<ainfo, cinfo, ns>>
\* ... or with the caller's own context error, promptly
\* (a caller that may not dial can only have been waiting for a direct connection: it is never sent away
\* with a context error while a direct connection that appeared strictly earlier is still open - "waits for
\* a direct connection and fails if none appears in time")
TrNsCtx == /\ IsEvent("ns_ret") /\ Cur.res = "ctx" /\ Cur.c \in inCall
           /\ Cur.dl > 0 /\ Cur.t = Cur.dl
           /\ ((ns[Cur.c].nodial /\ ~ns[Cur.c].onconn) => ~(Cur.direct_open /\ Cur.direct_since < Cur.t))
           /\ Leave(Cur.c) /\ UNCHANGED <<ainfo, cinfo, ns>>
\* ... or because dialling failed (only if it was allowed to dial)
TrNsDialErr == /\ IsEvent("ns_ret") /\ Cur.res = "dialerr" /\ Cur.c \in inCall
               /\ ~ns[Cur.c].nodial
               /\ Leave(Cur.c) /\ UNCHANGED <<ainfo, cinfo, ns>>

\* ... or for a reason that has nothing to do with limited versus direct (dial attempts exhausted after the
\* dialled connection closed, muxer error, resource limit): not constrained by this property
TrNsOther == /\ IsEvent("ns_ret") /\ Cur.res = "othererr" /\ Cur.c \in inCall
             /\ Leave(Cur.c) /\ UNCHANGED <<ainfo, cinfo, ns>>

\* at a settled instant: connectedness is Connected iff a direct connection is open, Limited iff only
\* limited ones are, and the listed connections are exactly the open ones
Truth(open) == IF \E c \in open : ~cinfo[c].limited THEN "C" ELSE IF open # {} THEN "L" ELSE "N"
TrProbe == /\ IsEvent("probe")
           /\ Range(Cur.open) \subseteq DOMAIN cinfo
           /\ Cur.st = Truth(Range(Cur.open))
           /\ Range(Cur.listed) = Range(Cur.open)
           /\ UNCHANGED <<ainfo, cinfo, ns, inCall, normalGen>>

\* the same, sampled in the window in which a transport connection is dead and the swarm does not know yet:
\* connectedness counts live connections only (the listed ones may still include the dead one)
TrProbeSt == /\ IsEvent("probe_st")
             /\ Range(Cur.open) \subseteq DOMAIN cinfo
             /\ Cur.st = Truth(Range(Cur.open))
             /\ UNCHANGED <<ainfo, cinfo, ns, inCall, normalGen>>

\* at the end no waiter for a direct connection is left behind
TrWaiters == IsEvent("waiters") /\ Cur.n = 0 /\ inCall = {} /\ UNCHANGED <<ainfo, cinfo, ns, inCall, normalGen>>

TraceNext == \/ TrProbeSt \/ TrReset \/ TrAddr \/ TrConnAdd \/ TrNoop \/ TrTStart \/ TrTEnd \/ TrDialCall \/ TrDialRet
             \/ TrNsCall \/ TrNsStream \/ TrNsNoDirect \/ TrNsCtx \/ TrNsDialErr \/ TrNsOther \/ TrProbe \/ TrWaiters
TraceSpec == TraceInit /\ [][TraceNext]_vars
HighWater == TLCSet(1, IF l > TLCGet(1) THEN l ELSE TLCGet(1))
TraceAccepted == /\ PrintT(<<"VFHW", ToJson([hw |-> TLCGet(1), len |-> Len(TraceLog)])>>)
                 /\ TLCGet(1) = Len(TraceLog) + 1
=============================================================================
