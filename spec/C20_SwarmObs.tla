----------------------------- MODULE C20_SwarmObs -----------------------------
(***************************************************************************)
(* Observable-level specification of property C20 at the swarm's call      *)
(* sites.  A trace is a sequence of DialPeer requests (one at a time) with *)
(* the transport dials each caused.  The UDP counter of C20_BlackHole is   *)
(* re-used (Rec, StateOf) to derive, from the OUTCOMES OBSERVED so far,    *)
(* what the statement allows: a public UDP address may be withheld from    *)
(* the transports only while a full window of the last N public-UDP dial   *)
(* outcomes holds fewer than MinSucc successes, and even then at most N-1  *)
(* requests in a row; private and non-UDP addresses are never withheld; a  *)
(* success while blocked clears the window.                                *)
(***************************************************************************)
EXTENDS C20_BlackHole, Json, Integers

TraceLog == ndJsonDeserialize("trace.ndjson")

VARIABLES l,
  cfg,     \* [n, min]
  k,       \* the observed counter: [win, succ, req, st]   (req unused here)
  cur,     \* the request in progress: [i, upub, tpub, upriv, seen (kinds handed to a transport), outs]
  skipped  \* consecutive requests whose public UDP address was withheld
ovars == <<l, cfg, k, cur, skipped>>

Ln == TraceLog[l]
IsEvent(name) == l <= Len(TraceLog) /\ Ln.ev = name /\ l' = l + 1
NoReq == [i |-> 0, upub |-> FALSE, tpub |-> FALSE, upriv |-> FALSE, seen |-> {}, outs |-> <<>>]

\* the counter operators of C20_BlackHole with this trace's parameters
OStateOf(w, s) == IF Len(w) < cfg.n THEN "Probing" ELSE IF s >= cfg.min THEN "Allowed" ELSE "Blocked"
ORec(c, ok) ==
  IF c.st = "Blocked" /\ ok THEN [win |-> <<>>, succ |-> 0, req |-> 0, st |-> OStateOf(<<>>, 0)]
  ELSE LET w1 == Append(c.win, ok)
           s1 == c.succ + (IF ok THEN 1 ELSE 0)
           drop == Len(w1) > cfg.n
           w2 == IF drop THEN Tail(w1) ELSE w1
           s2 == IF drop /\ Head(w1) THEN s1 - 1 ELSE s1
       IN [win |-> w2, succ |-> s2, req |-> c.req, st |-> OStateOf(w2, s2)]
RECURSIVE Fold(_, _)
Fold(c, outs) == IF outs = <<>> THEN c ELSE Fold(ORec(c, Head(outs)), Tail(outs))

TraceInit == /\ l = 1 /\ cfg = [n |-> 1, min |-> 0] /\ cur = NoReq /\ skipped = 0
             /\ k = [win |-> <<>>, succ |-> 0, req |-> 0, st |-> "Probing"]
             /\ win = [c \in Counters |-> <<>>] /\ succ = [c \in Counters |-> 0] /\ req = [c \in Counters |-> 0]
             /\ st = [c \in Counters |-> "Probing"] /\ run = [c \in Counters |-> 0] /\ op = [name |-> "obs"]
             /\ TLCSet(1, 1)
Base == UNCHANGED vars     \* the variables of the extended module are not used by the trace

TrReset == /\ IsEvent("reset") /\ cfg' = [n |-> 1, min |-> 0] /\ cur' = NoReq /\ skipped' = 0
           /\ k' = [win |-> <<>>, succ |-> 0, req |-> 0, st |-> "Probing"] /\ Base
TrConfig == /\ IsEvent("config") /\ cfg' = [n |-> Ln.N, min |-> Ln.min]
            /\ k' = [win |-> <<>>, succ |-> 0, req |-> 0, st |-> IF Ln.N = 0 THEN "Allowed" ELSE "Probing"]
            /\ UNCHANGED <<cur, skipped>> /\ Base
TrReq == /\ IsEvent("req") /\ cur.i = 0
         /\ cur' = [i |-> Ln.i, upub |-> Ln.upub, tpub |-> Ln.tpub, upriv |-> Ln.upriv, seen |-> {}, outs |-> <<>>]
         /\ UNCHANGED <<cfg, k, skipped>> /\ Base
\* an address reaches a transport: one the request has
TrTStart == /\ IsEvent("tdial_start") /\ Ln.i = cur.i
            /\ Ln.k \in {x \in {"upub", "tpub", "upriv"} : cur[x]}
            /\ cur' = [cur EXCEPT !.seen = @ \cup {Ln.k}]
            /\ UNCHANGED <<cfg, k, skipped>> /\ Base
\* (a dial cancelled because the request already has its connection may end after the request returned)
TrTEnd == /\ IsEvent("tdial_end")
          /\ (Ln.i # cur.i => Ln.k # "upub")
          /\ cur' = IF Ln.i = cur.i /\ Ln.k = "upub" THEN [cur EXCEPT !.outs = Append(@, Ln.ok)] ELSE cur
          /\ UNCHANGED <<cfg, k, skipped>> /\ Base
\* the request is over: what was (not) handed to a transport must be allowed by the statement
TrRet ==
  /\ IsEvent("ret") /\ Ln.i = cur.i
  \* (once a connection is obtained the remaining addresses need not be tried)
  /\ (cur.upriv /\ ~Ln.conn => "upriv" \in cur.seen)         \* private addresses are never withheld
  /\ (cur.tpub /\ ~Ln.conn => "tpub" \in cur.seen)           \* nor addresses of the other kind
  /\ (cur.upub /\ "upub" \notin cur.seen /\ ~Ln.conn) => (k.st = "Blocked" /\ skipped + 1 <= cfg.n - 1)
  /\ skipped' = IF cur.upub THEN (IF "upub" \in cur.seen THEN 0 ELSE skipped + 1) ELSE skipped
  /\ k' = Fold(k, cur.outs)
  /\ cur' = NoReq
  /\ UNCHANGED cfg /\ Base

\* a call of the swarm's dial function that returned before any transport was asked: no dial, nothing learnt
TrNoDial == IsEvent("nodial") /\ Ln.err /\ UNCHANGED <<cfg, k, cur, skipped>> /\ Base
TraceNext == TrNoDial \/ TrReset \/ TrConfig \/ TrReq \/ TrTStart \/ TrTEnd \/ TrRet
TraceSpec == TraceInit /\ [][TraceNext]_<<vars, ovars>>
HighWater == TLCSet(1, IF l > TLCGet(1) THEN l ELSE TLCGet(1))
TraceAccepted == /\ PrintT(<<"VFHW", ToJson([hw |-> TLCGet(1), len |-> Len(TraceLog)])>>)
                 /\ TLCGet(1) = Len(TraceLog) + 1
=============================================================================
