\* Template: checks/C09pm.py instantiates the constants for every bounded instance.
CONSTANTS
  Peers = {"p1", "p2"}
  Kinds = {"C", "L", "N"}
  G = 2
  I = 1
  Buf = 2
  MaxTime = 5
  MaxEmit = 3
  MaxClose = 1
  StartBy = 1
  InitData = TRUE
  Atomic = FALSE
INIT Init
NEXT Next
VIEW View
CHECK_DEADLOCK FALSE
INVARIANTS TypeOK QueueBound DiscSound Timely Inert ScanShape
PROPERTIES RemovedOnlyIfReportedDisconnected GraceLower ReconnectKeeps Isolation AfterExit ExitRemovesRemembered AddrKept
