----------------------------- MODULE C13_PushObs -----------------------------
(***************************************************************************)
(* Observable-level specification of the identify PUSH side (extension of  *)
(* C13): a state machine over what the peers of an idService and the       *)
(* harness that scripts its host can see.  A gate-free concurrent run      *)
(* recorded by harness/p2p/protocol/identify/zz_verif_c13push_test.go      *)
(* (TestVerifC13pFree) satisfies the clauses iff it is a behaviour of this *)
(* specification: every clause is a guard of the action that consumes the  *)
(* corresponding line.  Host states are numbered 0,1,2,... in the order    *)
(* the harness makes them; `ver`/`cls` = first index with that content,    *)
(* `last` = last index with that content (a host may go back).             *)
(***************************************************************************)
EXTENDS Integers, Sequences, FiniteSets, TLC, Json

TraceLog == ndJsonDeserialize("trace.ndjson")

VARIABLES l,
  limit,    \* maxPushConcurrency
  hv,       \* index of the host's current state
  u1, u2,   \* host index at the last / last but one read by updateSnapshot
  ucls,     \* content class seen by the last read
  effAt,    \* line of the last read that saw new content (0: none)
  conn,     \* c -> [st, conAt, sup]
  opn,      \* <<c, n>> -> line of the open event of push attempt n on c
  win,      \* <<c, n>> -> u2 when that attempt (n = 0: identify response) began to read the snapshot
  failed,   \* c -> lines of the open events of failed attempts
  gotAt,    \* c -> (content class -> line of its latest delivery)
  held,     \* c -> content class of the latest delivery (-1: none)
  pushedU,  \* c -> classes delivered by a push while that content had occurred once
  flight,   \* push attempts in flight
  fin       \* content class of the host at rest (-1: not yet known)

vars == <<l, limit, hv, u1, u2, ucls, effAt, conn, opn, win, failed, gotAt, held, pushedU, flight, fin>>

Cur == TraceLog[l]
IsEvent(name) == l <= Len(TraceLog) /\ Cur.ev = name /\ l' = l + 1
Put(f, k, v) == [x \in DOMAIN f \cup {k} |-> IF x = k THEN v ELSE f[x]]
Get(f, k, d) == IF k \in DOMAIN f THEN f[k] ELSE d

Init0 == /\ limit = 0 /\ hv = 0 /\ u1 = 0 /\ u2 = 0 /\ ucls = 0 /\ effAt = 0 /\ conn = <<>> /\ opn = <<>> /\ win = <<>>
         /\ failed = <<>> /\ gotAt = <<>> /\ held = <<>> /\ pushedU = <<>> /\ flight = 0 /\ fin = -1
TraceInit == Init0 /\ l = 1 /\ TLCSet(1, 1)
TrReset == /\ IsEvent("reset")
           /\ limit' = Cur.limit /\ hv' = 0 /\ u1' = 0 /\ u2' = 0 /\ ucls' = 0 /\ effAt' = 0 /\ conn' = <<>> /\ opn' = <<>>
           /\ win' = <<>> /\ failed' = <<>> /\ gotAt' = <<>> /\ held' = <<>> /\ pushedU' = <<>> /\ flight' = 0 /\ fin' = -1

\* the host changes (one state per change)
TrChange == /\ IsEvent("change") /\ Cur.host = hv + 1 /\ hv' = Cur.host
            /\ UNCHANGED <<limit, u1, u2, ucls, effAt, conn, opn, win, failed, gotAt, held, pushedU, flight, fin>>

\* updateSnapshot reads the host
TrUpd == /\ IsEvent("upd") /\ Cur.host = hv
         /\ u2' = u1 /\ u1' = Cur.host /\ ucls' = Cur.cls
         /\ effAt' = IF Cur.cls # ucls THEN l ELSE effAt
         /\ UNCHANGED <<limit, hv, conn, opn, win, failed, gotAt, held, pushedU, flight, fin>>

\* the swarm is about to deliver Connected(c) ... and has done so (from then on a new round cannot miss c)
TrConnecting == /\ IsEvent("connecting") /\ Cur.c \notin DOMAIN conn
                /\ conn' = Put(conn, Cur.c, [st |-> "up", conAt |-> 1000000000, sup |-> "unknown"])
                /\ failed' = Put(failed, Cur.c, {}) /\ gotAt' = Put(gotAt, Cur.c, <<>>) /\ held' = Put(held, Cur.c, -1)
                /\ pushedU' = Put(pushedU, Cur.c, {})
                /\ UNCHANGED <<limit, hv, u1, u2, ucls, effAt, opn, win, flight, fin>>
TrConnected == /\ IsEvent("connected") /\ Cur.c \in DOMAIN conn
               /\ conn' = [conn EXCEPT ![Cur.c].conAt = l]
               /\ UNCHANGED <<limit, hv, u1, u2, ucls, effAt, opn, win, failed, gotAt, held, pushedU, flight, fin>>

TrIdentified == /\ IsEvent("identified") /\ Cur.c \in DOMAIN conn
                /\ conn' = [conn EXCEPT ![Cur.c].sup = IF Cur.sup THEN "yes" ELSE "no"]
                /\ UNCHANGED <<limit, hv, u1, u2, ucls, effAt, opn, win, failed, gotAt, held, pushedU, flight, fin>>

TrDisconnected == /\ IsEvent("disconnected") /\ Cur.c \in DOMAIN conn
                  /\ conn' = [conn EXCEPT ![Cur.c].st = "gone"]
                  /\ UNCHANGED <<limit, hv, u1, u2, ucls, effAt, opn, win, failed, gotAt, held, pushedU, flight, fin>>

\* a push stream is opened: on a connection whose Disconnected has not been delivered, within the concurrency limit
TrOpen == /\ IsEvent("open")
          /\ Cur.c \in DOMAIN conn /\ conn[Cur.c].st = "up"
          /\ flight + 1 <= limit /\ Cur.flight <= limit
          /\ flight' = flight + 1
          /\ opn' = Put(opn, <<Cur.c, Cur.n>>, l)
          /\ UNCHANGED <<limit, hv, u1, u2, ucls, effAt, conn, win, failed, gotAt, held, pushedU, fin>>

\* the sender is about to read the snapshot it will write (n = 0: an identify response)
TrWstart == /\ IsEvent("wstart")
            /\ win' = Put(win, <<Cur.c, Cur.n>>, u2)
            /\ UNCHANGED <<limit, hv, u1, u2, ucls, effAt, conn, opn, failed, gotAt, held, pushedU, flight, fin>>

TrFail == /\ IsEvent("fail") /\ <<Cur.c, Cur.n>> \in DOMAIN opn
          /\ failed' = [failed EXCEPT ![Cur.c] = @ \cup {opn[<<Cur.c, Cur.n>>]}]
          /\ UNCHANGED <<limit, hv, u1, u2, ucls, effAt, conn, opn, win, gotAt, held, pushedU, flight, fin>>

\* the sender lets go of the stream (Close / Reset): the attempt is over
TrEnd == /\ IsEvent("end") /\ <<Cur.c, Cur.n>> \in DOMAIN opn
         /\ flight' = flight - 1
         /\ UNCHANGED <<limit, hv, u1, u2, ucls, effAt, conn, opn, win, failed, gotAt, held, pushedU, fin>>

\* a complete identify message arrives at the far end: its content is a state the host had at some moment since the
\* last but one snapshot read before the sender began; a push carries nothing older than what the connection already
\* got, is not a repetition, and arrives on a connection that is still there
TrDeliver ==
  /\ IsEvent("deliver") /\ Cur.c \in DOMAIN conn /\ <<Cur.c, Cur.n>> \in DOMAIN win
  /\ Cur.ver >= 0 /\ Cur.ver <= hv /\ Cur.last >= win[<<Cur.c, Cur.n>>]
  /\ (Cur.kind = "push" =>
        /\ conn[Cur.c].st = "up"
        /\ ~(held[Cur.c] > Cur.ver /\ Cur.last < held[Cur.c])
        /\ (Cur.ver = Cur.last => Cur.ver \notin pushedU[Cur.c]))
  /\ held' = [held EXCEPT ![Cur.c] = Cur.ver]
  /\ gotAt' = [gotAt EXCEPT ![Cur.c] = Put(@, Cur.ver, l)]
  /\ pushedU' = IF Cur.kind = "push" /\ Cur.ver = Cur.last THEN [pushedU EXCEPT ![Cur.c] = @ \cup {Cur.ver}] ELSE pushedU
  /\ UNCHANGED <<limit, hv, u1, u2, ucls, effAt, conn, opn, win, failed, flight, fin>>

\* at rest: every change has been read by updateSnapshot
TrFinal == /\ IsEvent("final") /\ Cur.host = hv /\ u1 = hv /\ Cur.cls = ucls /\ flight = 0
           /\ fin' = Cur.cls
           /\ UNCHANGED <<limit, hv, u1, u2, ucls, effAt, conn, opn, win, failed, gotAt, held, pushedU, flight>>

\* at rest: a connection that supports push, is still there and existed before the snapshot last changed has been
\* sent that snapshot since - unless a push attempt opened after the change failed (there is no retry)
TrRest ==
  /\ IsEvent("rest") /\ Cur.c \in DOMAIN conn /\ fin >= 0
  /\ LET c == Cur.c IN
     (conn[c].st = "up" /\ conn[c].sup = "yes" /\ effAt > 0 /\ conn[c].conAt < effAt)
        => \/ Get(gotAt[c], fin, 0) > effAt
           \/ \E f \in failed[c] : f > effAt
  /\ UNCHANGED <<limit, hv, u1, u2, ucls, effAt, conn, opn, win, failed, gotAt, held, pushedU, flight, fin>>

TraceNext == \/ TrReset \/ TrChange \/ TrUpd \/ TrConnecting \/ TrConnected \/ TrIdentified \/ TrDisconnected \/ TrOpen \/ TrWstart
             \/ TrFail \/ TrEnd \/ TrDeliver \/ TrFinal \/ TrRest
TraceSpec == TraceInit /\ [][TraceNext]_vars

HighWater == TLCSet(1, IF l > TLCGet(1) THEN l ELSE TLCGet(1))
TraceAccepted == /\ PrintT(<<"VFHW", ToJson([hw |-> TLCGet(1), len |-> Len(TraceLog)])>>)
                 /\ TLCGet(1) = Len(TraceLog) + 1
=============================================================================
