\* Template: checks/C11cl.py instantiates the constants.
CONSTANTS
  TO = 2
  Faults = {"nsfail", "wfail"}
INIT Init
NEXT Next
VIEW View
CHECK_DEADLOCK FALSE
INVARIANTS TypeOK Timely NoForgery
PROPERTIES AcceptOnlyIfOK VoucherValid Authentic Complete StatusOf
