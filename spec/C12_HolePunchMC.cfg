\* Template: checks/C12hp.py swaps the F_ (full) families for the S_ ones and INIT/ACTION_CONSTRAINT for the
\* run that prints the graph.
CONSTANTS
  PSFamily <- F_PS
  MsgFamily <- F_Msg
  OwnFamily <- F_Own
  ConnFamily <- F_Conn
  EnvBudget = 2
  MaxRetries = 3
INIT Init
NEXT Next
VIEW View
INVARIANTS TypeOK RespOnlyOverRelayed IdleClean
PROPERTIES RespPunchOnlyAfterRelayed InitStreamFlags ConnectDirectOnly SuccessOnlyWithDirect TracerSuccessOnlyWithDirect
CHECK_DEADLOCK FALSE
