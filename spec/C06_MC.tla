------------------------------ MODULE C06_MC ------------------------------
EXTENDS C06_ConnEvents, Json
\* A: two connections to one peer, one of them limited, emitter Close in the model
A_Conns == {"c1", "c2"}
A_PeerOf == [c \in A_Conns |-> "p1"]
A_Limited == {"c2"}
\* B: three connections over two peers
B_Conns == {"c1", "c2", "c3"}
B_PeerOf == ("c1" :> "p1") @@ ("c2" :> "p1") @@ ("c3" :> "p2")
B_Limited == {"c2"}
St == [seen |-> seen, inmap |-> inmap, apc |-> apc, rpc |-> rpc, queue |-> queue, connected |-> connected,
       pending |-> pending, last |-> last, nConn |-> nConn, nDisc |-> nDisc, pub |-> pub, closed |-> closed, rd |-> rd]
EmitEdge == PrintT(<<"VFEDGE", ToJson([s |-> St, op |-> op', t |-> St'])>>)
MCInit == Init /\ PrintT(<<"VFINIT", ToJson(St)>>)
=============================================================================
