--------------------------- MODULE C03rate_Limiter ---------------------------
(***************************************************************************)
(* Extension engine C03rate (parent property C03): the RATE side of        *)
(* admission, which C03's scope accounting does not cover.                 *)
(*                                                                         *)
(* Component: x/rate/limiter.go - Limiter{NetworkPrefixLimits, GlobalLimit,*)
(* SubnetRateLimiter{IPv4SubnetLimits, IPv6SubnetLimits, GracePeriod}},    *)
(* Allow(ipAddr), Limit(handler), SubnetLimiter.Allow(ip, now), cleanUp,   *)
(* bucketHeap (buckets ordered by Expiry = FullAt + GracePeriod).  Users:  *)
(* rcmgr.openConnection (connRateLimiter), rcmgr.VerifySourceAddress       *)
(* (limiter derived from the connLimiter's caps), identify (IDPush).       *)
(*                                                                         *)
(* STATEMENT (derived from the doc comments of Limit / Limiter / Subnet-   *)
(* Limiter, the comment block inside Limiter.Allow and limiter_test.go).   *)
(* A "bucket" is (RPS, Burst); it starts full.  The buckets APPLICABLE to  *)
(* an address a are: every NetworkPrefixLimit whose prefix contains a;     *)
(* and, only if there is none, the bucket of a's subnet at every           *)
(* configured prefix length of a's family, and the global bucket.          *)
(*                                                                         *)
(*  R1 bound       In every time interval of length T the number of        *)
(*                 allowed requests charged to one bucket is at most       *)
(*                 Burst + RPS*T ("maximum events allowed will be          *)
(*                 T*RPS + Burst").                                        *)
(*  R2 no spurious A request is refused only if some applicable bucket     *)
(*     refusal     holds less than one token, where a bucket loses a token *)
(*                 exactly for the requests that reached it: buckets are   *)
(*                 consulted from the most specific to the least specific  *)
(*                 and consultation stops at the first refusal (R4).       *)
(*  R3 prefix      An address inside a NetworkPrefixLimit is limited by    *)
(*     exemption   the matching prefix buckets ONLY: neither the global    *)
(*                 nor any subnet bucket is consulted or charged ("Global- *)
(*                 Limit is the limit for all streams where the peer IP    *)
(*                 doesn't fall within any of the NetworkPrefixLimits").   *)
(*                 As coded, EVERY matching prefix is consulted (not only  *)
(*                 the most specific one).                                 *)
(*  R4 order       A request refused by a bucket takes no token from any   *)
(*                 LESS specific bucket (the "*MUST* follow this order"    *)
(*                 comment).  Deviation modelled as coded: tokens already  *)
(*                 taken from MORE specific buckets are not returned       *)
(*                 (narrow subnet token burnt when the wide subnet or the  *)
(*                 global bucket refuses; narrow prefix token burnt when   *)
(*                 the wide prefix refuses).  This only ever makes the     *)
(*                 limiter stricter than R1.                               *)
(*  R5 independ.   A request touches only its applicable buckets; buckets  *)
(*                 of different subnets / families never interact (the     *)
(*                 lazy clean-up, which runs for all families inside every *)
(*                 SubnetLimiter.Allow, is not observable by R6).          *)
(*  R6 forgetting  A subnet bucket is dropped from the heap (a) only when it   *)
(*                 is full again (a dropped bucket is indistinguishable    *)
(*                 from a new one), (b) not before FullAt + GracePeriod    *)
(*                 ("GracePeriod is the time to wait to remove a full      *)
(*                 capacity bucket"), and (c) it IS dropped by the first   *)
(*                 call of SubnetLimiter.Allow - for any address of any    *)
(*                 family - after that instant (at the instant itself the  *)
(*                 code drops, Expire's comment would keep: either is      *)
(*                 accepted by the harness).                               *)
(*  R7 zero        RPS == 0 in GlobalLimit / a NetworkPrefixLimit means    *)
(*                 unlimited ("Use 0 for no rate limiting"), whatever      *)
(*                 Burst is; no configured subnet limits = unlimited.      *)
(*                 A SubnetLimit with RPS == 0 is NOT unlimited in the     *)
(*                 code (observation rate-subnet-zero-rps-not-unlimited): it*)
(*                 is excluded from the model (ASSUME rate > 0) and probed *)
(*                 separately by the harness.                              *)
(*  R8 replenish   Time alone only ever refills: a tick raises no deficit, *)
(*                 postpones no Expiry, and lowers at least one of them    *)
(*                 while anything is not full; once nothing changes every  *)
(*                 bucket holds its burst (so a refused address is served  *)
(*                 again after at most Burst/RPS).                         *)
(*                                                                         *)
(* Where: R1 BoundOK (+TypeOK) and the ledger's window check; R2 DecisionOK*)
(* and the ledger's rate-spurious-refusal; R3 PrefixExempt; R4 RefusalInert*)
(* ; R5 Independence, ChargeOnce; R6 ForgetSound, ExpiryCovers, Retention  *)
(* and the harness's in-package read of the heaps; R8 Replenish, Rested and*)
(* the rest-and-probe at the end of every replayed walk.  Concurrent use:  *)
(* C03rate_Conc.tla.  Composition with the connLimiter: C03rate_Conn.tla.  *)
(*                                                                         *)
(* TIME AND TOKENS.  Time is an integer number of ticks; token amounts are *)
(* integers in units of 1/U token.  The model stores, per bucket, the      *)
(* DEFICIT d = U*Burst - U*tokens(now) (0 = full) and, per heap entry, the *)
(* remaining ticks `ttl` until its Expiry, so it is invariant under time   *)
(* translation and finite without a bound on absolute time.  `rate` is in  *)
(* units per tick and divides U, hence every FullAt is a whole tick.       *)
(* Scale map used by the harness: 1 tick = tau seconds (tau a power of 2), *)
(* RPS = rate/(U*tau), Burst = burst: every float64 the code computes      *)
(* (tokens, FullAt) is then exact.                                         *)
(*                                                                         *)
(* The ghost `ideal` is the deficit of the bucket that is NEVER forgotten  *)
(* and is charged for the same requests; ideal[b] <= U*burst(b) is R1 for  *)
(* all windows ending now (deficit = max over window starts of             *)
(* U*charged - rate*length, floored at 0).                                 *)
(***************************************************************************)
EXTENDS Integers, Sequences, FiniteSets, TLC

CONSTANTS
  Addrs,    \* abstract addresses (strings)
  FamOf,    \* [Addrs -> {"v4", "v6"}]  family AS THE CODE SEES IT: ipAddr.Is4() ? v4 : v6, so that
            \* IPv4-mapped IPv6 addresses and the zero netip.Addr{} are "v6"
  NP,       \* Seq([mem : SUBSET Addrs, rate, burst]) in the order Limiter.init sorts them (longest prefix first);
            \* rate = 0 <=> RPS == 0 <=> rate.Inf
  Levels,   \* [{"v4","v6"} -> Seq([key : [Addrs -> STRING], rate, burst])] in the order SubnetLimiter.init sorts them
            \* (longest prefix first); key[a] = identity of a's bucket at that level (unique over levels and families)
  Glob,     \* [rate, burst]; rate = 0 <=> unlimited
  Grace,    \* GracePeriod in ticks
  U         \* units per token

ASSUME /\ U \in Nat \ {0} /\ Grace \in Nat
       /\ \A i \in 1..Len(NP) : NP[i].rate = 0 \/ U % NP[i].rate = 0
       /\ Glob.rate = 0 \/ U % Glob.rate = 0
       /\ \A f \in {"v4", "v6"} : \A i \in 1..Len(Levels[f]) : Levels[f][i].rate > 0 /\ U % Levels[f][i].rate = 0

VARIABLES s,   \* [g : global deficit, np : Seq of prefix-bucket deficits, bk : [BIds -> [pres, def, ttl]], ideal : [BIds -> Nat]]
          op   \* output only
vars == <<s, op>>
View == <<s>>

FamAddrs(f) == {a \in Addrs : FamOf[a] = f}
BIdsOf(f, i) == {Levels[f][i].key[a] : a \in FamAddrs(f)}
AllBIds == UNION {UNION {BIdsOf(f, i) : i \in 1..Len(Levels[f])} : f \in {"v4", "v6"}}
\* the level record of a bucket id
LevelOf(b) == CHOOSE l \in UNION {{Levels[f][i] : i \in 1..Len(Levels[f])} : f \in {"v4", "v6"}} :
                 \E a \in Addrs : l.key[a] = b
Absent == [pres |-> FALSE, def |-> 0, ttl |-> 0]
Max(x, y) == IF x > y THEN x ELSE y

InNP(a) == {i \in 1..Len(NP) : a \in NP[i].mem}

(* ---- the three stages of Limiter.Allow as functions of the state record ---- *)

\* for i, limit := range r.NetworkPrefixLimits { if limit.Prefix.Contains(ip) { if !bucket[i].Allow() { return false } ... } }
\* every matching bucket is its own critical section (rate.Limiter.mu)
RECURSIVE NPRun(_, _, _)
NPRun(a, i, d) ==
  IF i > Len(NP) THEN [np |-> d, ok |-> TRUE, at |-> 0]
  ELSE IF a \notin NP[i].mem \/ NP[i].rate = 0 THEN NPRun(a, i + 1, d)
  ELSE IF U * NP[i].burst - d[i] >= U THEN NPRun(a, i + 1, [d EXCEPT ![i] = @ + U])
  ELSE [np |-> d, ok |-> FALSE, at |-> i]

\* SubnetLimiter.cleanUp(now): every heap of both families pops while root.Expiry <= now
Cleaned(bk) == [b \in AllBIds |-> IF bk[b].pres /\ bk[b].ttl = 0 THEN Absent ELSE bk[b]]
Forgotten(bk) == {b \in AllBIds : bk[b].pres /\ bk[b].ttl = 0}

\* the loop over the family's levels, one critical section (SubnetLimiter.mx) together with cleanUp
RECURSIVE SubRun(_, _, _, _)
SubRun(a, i, B, I) ==
  LET L == Levels[FamOf[a]] IN
  IF i > Len(L) THEN [bk |-> B, ideal |-> I, ok |-> TRUE, at |-> 0]
  ELSE LET b   == L[i].key[a]
           cur == IF B[b].pres THEN B[b].def ELSE 0          \* Get(prefix) == zero value => a new, full bucket
       IN IF U * L[i].burst - cur >= U
          THEN SubRun(a, i + 1,
                      \* bucket.Expiry = bucket.FullAt(now).Add(GracePeriod); Upsert
                      [B EXCEPT ![b] = [pres |-> TRUE, def |-> cur + U, ttl |-> ((cur + U) \div L[i].rate) + Grace]],
                      [I EXCEPT ![b] = @ + U])
          ELSE [bk |-> B, ideal |-> I, ok |-> FALSE, at |-> i]  \* "its expiry would have been set correctly the last time"

SubStage(S, a) == LET r == SubRun(a, 1, Cleaned(S.bk), S.ideal)
                  IN [S |-> [S EXCEPT !.bk = r.bk, !.ideal = r.ideal], ok |-> r.ok, at |-> r.at]

GlobStage(S) == IF Glob.rate = 0 THEN [S |-> S, ok |-> TRUE]
                ELSE IF U * Glob.burst - S.g >= U THEN [S |-> [S EXCEPT !.g = @ + U], ok |-> TRUE]
                ELSE [S |-> S, ok |-> FALSE]

\* Limiter.Allow(a) run without interference
AllowEff(S, a) ==
  IF InNP(a) # {}
  THEN LET r == NPRun(a, 1, S.np)
       IN [S |-> [S EXCEPT !.np = r.np], ok |-> r.ok, by |-> IF r.ok THEN "" ELSE "np", at |-> r.at, forgot |-> {}]
  ELSE LET r == SubStage(S, a) IN
       IF ~r.ok THEN [S |-> r.S, ok |-> FALSE, by |-> "sub", at |-> r.at, forgot |-> Forgotten(S.bk)]
       ELSE LET q == GlobStage(r.S)
            IN [S |-> q.S, ok |-> q.ok, by |-> IF q.ok THEN "" ELSE "glob", at |-> 0, forgot |-> Forgotten(S.bk)]

TickS(S) ==
  [g     |-> Max(0, S.g - Glob.rate),
   np    |-> [i \in 1..Len(NP) |-> Max(0, S.np[i] - NP[i].rate)],
   bk    |-> [b \in AllBIds |-> IF S.bk[b].pres
                                THEN [pres |-> TRUE, def |-> Max(0, S.bk[b].def - LevelOf(b).rate), ttl |-> Max(0, S.bk[b].ttl - 1)]
                                ELSE Absent],
   ideal |-> [b \in AllBIds |-> Max(0, S.ideal[b] - LevelOf(b).rate)]]

S0 == [g |-> 0, np |-> [i \in 1..Len(NP) |-> 0], bk |-> [b \in AllBIds |-> Absent], ideal |-> [b \in AllBIds |-> 0]]

Init == s = S0 /\ op = [name |-> "init"]

Allow(a) == LET e == AllowEff(s, a)
            IN /\ s' = e.S
               /\ op' = [name |-> "Allow", a |-> a, ok |-> e.ok, by |-> e.by, at |-> e.at, forgot |-> e.forgot]

\* virtual time advances by one tick (only listed when it changes something: an idle limiter does not change)
Tick == /\ TickS(s) # s
        /\ s' = TickS(s)
        /\ op' = [name |-> "Tick"]

Next == Tick \/ \E a \in Addrs : Allow(a)
Spec == Init /\ [][Next]_vars

(* ------------------------------- clauses ------------------------------- *)
BurstU(b) == U * LevelOf(b).burst

TypeOK == /\ s.g \in 0..(U * Glob.burst)
          /\ \A i \in 1..Len(NP) : s.np[i] \in 0..(U * NP[i].burst)
          /\ \A b \in AllBIds : /\ s.bk[b].pres \in BOOLEAN
                                /\ s.bk[b].def \in 0..BurstU(b)
                                /\ s.bk[b].ttl \in 0..(BurstU(b) \div LevelOf(b).rate + Grace)

\* R1 for subnet buckets, in spite of forgetting (global and prefix buckets are never forgotten: TypeOK is R1 for them)
BoundOK == \A b \in AllBIds : s.ideal[b] <= BurstU(b)

\* R6 (safety half): what the heap holds is the ideal bucket; what it forgot was full
ForgetSound == \A b \in AllBIds : IF s.bk[b].pres THEN s.bk[b].def = s.ideal[b] ELSE s.ideal[b] = 0
\* an entry never expires before it is full, and never stays scheduled longer than full + grace
ExpiryCovers == \A b \in AllBIds : s.bk[b].pres =>
                   /\ s.bk[b].ttl * LevelOf(b).rate >= s.bk[b].def
                   /\ s.bk[b].ttl <= (s.bk[b].def \div LevelOf(b).rate) + Grace
\* R6 (liveness half, as an action property): after a call that reached the subnet stage no expired entry remains
NoExpiredLeft(o, T) == (o.name = "Allow" /\ InNP(o.a) = {}) => \A b \in AllBIds : T.bk[b].pres => T.bk[b].ttl > 0
Retention == [][NoExpiredLeft(op', s')]_vars

ApplicableSub(a) == {Levels[FamOf[a]][i].key[a] : i \in 1..Len(Levels[FamOf[a]])}
HasTok(d, burst) == U * burst - d >= U
SubTok(S, b) == HasTok(IF S.bk[b].pres /\ S.bk[b].ttl > 0 THEN S.bk[b].def ELSE 0, LevelOf(b).burst)

\* R2 + definition of the decision
Decision(S, o) ==
  o.name = "Allow" =>
    LET a == o.a IN
    IF InNP(a) # {}
    THEN \* (consumption along the way may matter only when the same bucket is consulted twice, which cannot happen)
         o.ok <=> \A i \in InNP(a) : NP[i].rate = 0 \/ HasTok(S.np[i], NP[i].burst)
    ELSE o.ok <=> /\ \A b \in ApplicableSub(a) : SubTok(S, b)
                  /\ Glob.rate = 0 \/ HasTok(S.g, Glob.burst)
DecisionOK == [][Decision(s, op')]_vars

\* R3: prefix-matched addresses never touch the global or a subnet bucket (not even the clean-up)
Exempt(S, o, T) == (o.name = "Allow" /\ InNP(o.a) # {}) => T.g = S.g /\ T.bk = S.bk /\ T.ideal = S.ideal
PrefixExempt == [][Exempt(s, op', s')]_vars

\* R4: a refusal charges nothing that is less specific than the refusing bucket
Inert(S, o, T) ==
  (o.name = "Allow" /\ ~o.ok) =>
     /\ T.g = S.g
     /\ o.by = "np" => \A j \in 1..Len(NP) : j >= o.at => T.np[j] = S.np[j]
     /\ o.by = "sub" => \A j \in 1..Len(Levels[FamOf[o.a]]) : j >= o.at =>
                            LET b == Levels[FamOf[o.a]][j].key[o.a] IN T.ideal[b] = S.ideal[b]
RefusalInert == [][Inert(s, op', s')]_vars

\* R5: only applicable buckets are charged
Indep(S, o, T) ==
  o.name = "Allow" =>
     /\ \A j \in 1..Len(NP) : j \notin InNP(o.a) => T.np[j] = S.np[j]
     /\ \A b \in AllBIds : b \notin ApplicableSub(o.a) => T.ideal[b] = S.ideal[b]
Independence == [][Indep(s, op', s')]_vars

\* an allowed request charges every applicable limited bucket exactly one token
Charged(S, o, T) ==
  (o.name = "Allow" /\ o.ok) =>
     IF InNP(o.a) # {}
     THEN \A i \in InNP(o.a) : T.np[i] = S.np[i] + (IF NP[i].rate = 0 THEN 0 ELSE U)
     ELSE /\ \A b \in ApplicableSub(o.a) : T.ideal[b] = S.ideal[b] + U
          /\ T.g = S.g + (IF Glob.rate = 0 THEN 0 ELSE U)
ChargeOnce == [][Charged(s, op', s')]_vars

\* R8
TickRefills(S, o, T) ==
  o.name = "Tick" =>
     /\ T.g <= S.g /\ \A i \in 1..Len(NP) : T.np[i] <= S.np[i]
     /\ \A b \in AllBIds : T.bk[b].pres = S.bk[b].pres /\ T.bk[b].def <= S.bk[b].def /\ T.bk[b].ttl <= S.bk[b].ttl /\ T.ideal[b] <= S.ideal[b]
     /\ T # S
Replenish == [][TickRefills(s, op', s')]_vars
\* ... and time alone makes everything full: when no tick is enabled any more, every bucket holds its burst
Rested == (TickS(s) = s) => /\ (Glob.rate # 0 => s.g = 0) /\ \A i \in 1..Len(NP) : NP[i].rate # 0 => s.np[i] = 0
                           /\ \A b \in AllBIds : s.ideal[b] = 0 /\ (s.bk[b].pres => s.bk[b].ttl = 0)

(* vacuity guards: action properties, each expected to be VIOLATED *)
IsRef(o, by, at) == o.name = "Allow" /\ ~o.ok /\ o.by = by /\ (at = 0 \/ o.at = at)
ReachRefNP   == [][~IsRef(op', "np", 0)]_vars
ReachRefNP2  == [][~IsRef(op', "np", 2)]_vars
ReachRefSub  == [][~IsRef(op', "sub", 1)]_vars
ReachRefSub2 == [][~IsRef(op', "sub", 2)]_vars
ReachRefGlob == [][~IsRef(op', "glob", 0)]_vars
ReachForget  == [][~(op'.name = "Allow" /\ op'.forgot # {})]_vars
=============================================================================
