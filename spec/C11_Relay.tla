------------------------------- MODULE C11_Relay -------------------------------
(***************************************************************************)
(* Property C11: circuit relay v2 honours reservations, ACL, caps and      *)
(* per-circuit limits.                                                     *)
(*                                                                         *)
(* Models p2p/protocol/circuitv2/relay/{relay.go, constraints.go,          *)
(* resources.go, acl.go} AS THE CODE IS: one action per request handled /  *)
(* notification / timer.  As of /repo 6cf8d1a and 6390169:                 *)
(*   - constraints.Reserve checks the caps against the OTHER peers'        *)
(*     entries and replaces the peer's own entry only once the new         *)
(*     reservation is accepted: a refused refresh leaves everything as it  *)
(*     was (expiry, IP/ASN attribution); only expired entries are cleaned  *)
(*     (before the fix the entry was removed first and a refused refresh   *)
(*     un-counted a live reservation: invariant Caps failed);              *)
(*   - Relay.disconnected untags "relay-reservation" when it drops a       *)
(*     reservation (before the fix the tag stayed while the peer kept a    *)
(*     limited connection: invariant TagsRollback failed).                 *)
(* Quirks kept on purpose:                                                 *)
(*   - handleConnect looks a reservation up without looking at its expiry  *)
(*     (an expired reservation serves until the next collection);          *)
(*   - a reservation whose response cannot be written stays.               *)
(*                                                                         *)
(* Time is kept RELATIVE (remaining units), so the state space is finite   *)
(* without a horizon: one unit is half the relay's one-minute collection   *)
(* period when GCP = 2; every request happens in the middle of a unit, the *)
(* collection on a unit boundary (harness: requests at 15 s + 30 s*k,      *)
(* collection at 60 s*j of virtual time).                                  *)
(*                                                                         *)
(* A peer reaches the relay over LINKS (connections): each has a remote    *)
(* address that is an IP, "noip", or a /p2p-circuit address ("relay",       *)
(* "relayu": the peer came through another relay).  TWO attributes of a    *)
(* connection are kept apart because code can confuse them:                *)
(*   via_relay = the remote address is a /p2p-circuit address  (ViaRelay)  *)
(*   limited   = Conn.Stat().Limited                           (LinkLimited)*)
(* relayed+limited is a connection through an ordinary relay, relayed+     *)
(* unlimited one through a relay that imposes no limits (the circuit       *)
(* client flags a connection Limited only when the front relay announced   *)
(* a limit), direct+unlimited the normal case; direct+limited is           *)
(* unreachable (only the circuit transport sets Limited) and not modelled. *)
(* The STATEMENT ("neither party reached the relay through another relay") *)
(* is keyed on via_relay only.  The relay's own checks of the requester    *)
(* use the address (via_relay); the swarm's Connectedness (reservation     *)
(* dropped on disconnect) and its choice of the connection for the stop    *)
(* stream use limited - so a destination whose direct connection closed    *)
(* but which keeps a relayed+unlimited one keeps its reservation and is    *)
(* connected to over that relayed connection (DestinationDirect fails).    *)
(***************************************************************************)
EXTENDS Integers, Sequences, FiniteSets, TLC

CONSTANTS
  Peers, Links,
  LinkPeer,      \* [Links -> Peers]
  LinkAddr,      \* [Links -> IPs \cup {"relay", "relayu", "noip"}]
  LinkLimited,   \* [Links -> BOOLEAN]: Conn.Stat().Limited
  ASNOf,         \* [IPs -> Nat], 0 = no ASN known (every IPv4 address)
  MaxRes, MaxPerIP, MaxPerASN,   \* Resources.MaxReservations / PerIP / PerASN
  MaxCirc,       \* Resources.MaxCircuits
  TTL,           \* Resources.ReservationTTL in units
  GCP,           \* collection period in units
  Limited,       \* Resources.Limit # nil
  DataLimit,     \* Limit.Data in bytes
  Duration,      \* Limit.Duration in units
  HSTimeout,     \* HandshakeTimeout in units
  DenyReserve,   \* links the ACL refuses a reservation from
  DenyConnect,   \* <<link, destination>> pairs the ACL refuses
  MaxAtt,        \* bound: connect attempts + circuits in flight
  Chunks,        \* payload sizes written in one Forward
  Faults,        \* injected faults enabled in this instance
  Features,      \* optional actions enabled: "time","close","rabort","cabort","abort","sclose","updown";
                 \* "quietreserve": reservations only while no attempt is in flight;
                 \* "probe": a connect that passes every check is failed at the stop handshake write
                 \* (the instances about reservations use connects only to observe reservations)
  Static,        \* links that are up from the start and never go down
  Off            \* links that never come up (bound for the bigger instances)

None == -9
NoEntry == [rem |-> None, ip |-> "-"]
Slots == 1..MaxAtt
Free == [st |-> "free", src |-> "-", dst |-> "-", via |-> "-", ab |-> "no", t |-> 0,
         f |-> 0, r |-> 0, fd |-> FALSE, rd |-> FALSE]

VARIABLES
  up,      \* links that are connected
  closed,  \* Relay.closed
  ph,      \* units since the last collection (0..GCP-1)
  rsvp,    \* Relay.rsvp: peer -> remaining units to expiry, None = absent
  cons,    \* constraints, per peer (the code keeps at most one entry per peer in each list):
           \*   [rem, ip]; rem = None: no entry; rem = -1: expired entry not yet cleaned
  circ,    \* Relay.conns: open circuits (and attempts past the cap checks) per peer
  tagR,    \* conn-manager tag "relay-reservation" present
  tagH,    \* conn-manager tag "relay-v2-hop" present
  svc,     \* relay service scope: [spans, msgs, sin, sout] = circuit spans (2*BufferSize each),
           \*   handshake message reservations (4096 each), inbound / outbound streams attached
  att,     \* Slots -> attempt / circuit record
  gl,      \* ghost: link over which the peer's present reservation was last granted ("-": none)
  op       \* output only: the last action with arguments and expected observable results

vars == <<up, closed, ph, rsvp, cons, circ, tagR, tagH, svc, att, gl, op>>
View == <<up, closed, ph, rsvp, cons, circ, tagR, tagH, svc, att, gl>>

RelayAddrs == {"relay", "relayu"}
IsIP(a) == a \notin RelayAddrs \cup {"noip", "-"}
ViaRelay(l) == LinkAddr[l] \in RelayAddrs
Direct(l) == ~ViaRelay(l)
ASSUME \A l \in Links : LinkLimited[l] => ViaRelay(l)      \* direct+limited does not exist
LinksOf(p, u) == {l \in u : LinkPeer[l] = p}
\* what the swarm counts for Connectedness = Connected and accepts for a new stream: not limited
UnlimUp(p, u) == {l \in u : LinkPeer[l] = p /\ ~LinkLimited[l]}
\* the swarm's preference among them (isBetterConn): direct before relayed
BestUp(p, u) == LET d == {l \in UnlimUp(p, u) : Direct(l)} IN IF d # {} THEN d ELSE UnlimUp(p, u)
Max(a, b) == IF a > b THEN a ELSE b
Min(a, b) == IF a < b THEN a ELSE b

-----------------------------------------------------------------------------
(* constraints.go                                                          *)
ConsClean(c) == [q \in Peers |-> IF c[q].rem # None /\ c[q].rem < 0 THEN NoEntry ELSE c[q]]
ConsDrop(c, p) == [c EXCEPT ![p] = NoEntry]
ConsTotal(c) == Cardinality({q \in Peers : c[q].rem # None})
ConsIP(c, a) == Cardinality({q \in Peers : c[q].rem # None /\ c[q].ip = a})
ConsASN(c, n) == Cardinality({q \in Peers : c[q].rem # None /\ IsIP(c[q].ip) /\ ASNOf[c[q].ip] = n})

-----------------------------------------------------------------------------
(* attempts                                                                *)
Busy == {c \in Slots : att[c].st # "free"}
Inv(p, E) == Cardinality({c \in E : LinkPeer[att[c].src] = p}) + Cardinality({c \in E : att[c].dst = p})
\* the effect of cleanup() (rmConn twice, span.Done) plus the release of the streams and of the
\* handshake buffers for every attempt in E
CircAfter(E) == [p \in Peers |-> circ[p] - Inv(p, E)]
TagHAfter(E) == [p \in Peers |-> IF Inv(p, E) > 0 /\ circ[p] - Inv(p, E) = 0 THEN FALSE ELSE tagH[p]]
\* what one attempt holds in the service scope.  ab = "conn": the source's connection closed during the
\* handshake, the swarm reset the hop stream locally and with it released its scope (stream + 4096)
Contrib(a) ==
  CASE a.st = "free" -> [spans |-> 0, msgs |-> 0, sin |-> 0, sout |-> 0]
    [] a.st = "hs" /\ a.ab = "conn" -> [spans |-> 1, msgs |-> 1, sin |-> 0, sout |-> 1]
    [] a.st = "hs" -> [spans |-> 1, msgs |-> 2, sin |-> 1, sout |-> 1]
    [] OTHER -> [spans |-> 1, msgs |-> 0, sin |-> 1, sout |-> 1]
SumC(E, fld) ==
  LET f[S \in SUBSET Slots] == IF S = {} THEN 0
                               ELSE LET x == CHOOSE x \in S : TRUE IN Contrib(att[x])[fld] + f[S \ {x}]
  IN f[E]
SvcAfter(E) == [spans |-> svc.spans - SumC(E, "spans"), msgs |-> svc.msgs - SumC(E, "msgs"),
                sin |-> svc.sin - SumC(E, "sin"), sout |-> svc.sout - SumC(E, "sout")]
AttAfter(E) == [c \in Slots |-> IF c \in E THEN Free ELSE att[c]]

Init ==
  /\ up = Static /\ closed = FALSE /\ ph = 0
  /\ rsvp = [p \in Peers |-> None]
  /\ cons = [p \in Peers |-> NoEntry]
  /\ circ = [p \in Peers |-> 0]
  /\ tagR = [p \in Peers |-> FALSE]
  /\ tagH = [p \in Peers |-> FALSE]
  /\ svc = [spans |-> 0, msgs |-> 0, sin |-> 0, sout |-> 0]
  /\ att = [c \in Slots |-> Free]
  /\ gl = [p \in Peers |-> "-"]
  /\ op = [name |-> "init"]

-----------------------------------------------------------------------------
(* connections come and go                                                 *)
LinkUp(l) ==
  /\ "updown" \in Features
  /\ l \notin up /\ l \notin Off
  /\ up' = up \cup {l}
  /\ op' = [name |-> "up", l |-> l]
  /\ UNCHANGED <<closed, ph, rsvp, cons, circ, tagR, tagH, svc, att, gl>>

\* The connection closes: the swarm resets its streams locally (a circuit using it ends with cleanup as
\* soon as the relay touches the stream: at once when it is blocked reading it; an attempt still in the
\* handshake whose SOURCE connection closed goes on until the destination answers), Relay.disconnected
\* runs (reservation dropped unless the peer is still Connected, i.e. has another non-limited
\* connection; the reservation tag goes with it), the conn manager forgets the peer - and with it every tag - when its last
\* connection is gone.
LinkDown(l) ==
  /\ "updown" \in Features
  /\ l \in up /\ l \notin Static
  \* bound: not while a circuit only writes to (no longer reads from) a stream of this connection
  /\ \A c \in Busy : att[c].st = "open" => ~(att[c].src = l /\ att[c].fd) /\ ~(att[c].via = l /\ att[c].rd)
  /\ LET p == LinkPeer[l]
         u2 == up \ {l}
         E == {c \in Busy : att[c].via = l \/ (att[c].st = "open" /\ att[c].src = l)}
         A == {c \in Busy \ E : att[c].st = "hs" /\ att[c].src = l /\ att[c].ab # "conn"}
         drop == ~closed /\ UnlimUp(p, u2) = {}
         gone == LinksOf(p, u2) = {}
         th == TagHAfter(E)
         s1 == SvcAfter(E)
     IN /\ up' = u2
        /\ rsvp' = IF drop THEN [rsvp EXCEPT ![p] = None] ELSE rsvp
        /\ cons' = IF drop THEN ConsDrop(cons, p) ELSE cons
        /\ gl' = IF drop THEN [gl EXCEPT ![p] = "-"] ELSE gl
        /\ circ' = CircAfter(E)
        /\ tagH' = IF gone THEN [th EXCEPT ![p] = FALSE] ELSE th
        /\ tagR' = IF gone \/ (drop /\ rsvp[p] # None) THEN [tagR EXCEPT ![p] = FALSE] ELSE tagR
        /\ svc' = [s1 EXCEPT !.msgs = @ - Cardinality(A), !.sin = @ - Cardinality(A)]
        /\ att' = [c \in Slots |-> IF c \in E THEN Free ELSE IF c \in A THEN [att[c] EXCEPT !.ab = "conn"] ELSE att[c]]
        /\ op' = [name |-> "down", l |-> l, ended |-> E, cut |-> A, dropped |-> (drop /\ rsvp[p] # None),
                  failed |-> {c \in E : att[c].st = "hs" /\ att[c].ab = "no"}]
  /\ UNCHANGED <<closed, ph>>

-----------------------------------------------------------------------------
(* handleReserve                                                           *)
ReserveWhy(l) ==
  LET p == LinkPeer[l]
      a == LinkAddr[l]
      c1 == ConsDrop(ConsClean(cons), p)      \* the other peers' unexpired entries
  IN IF ViaRelay(l) THEN "relayed"
     ELSE IF l \in DenyReserve THEN "acl"
     ELSE IF closed THEN "closed"
     ELSE IF ConsTotal(c1) >= MaxRes THEN "total"
     ELSE IF a = "noip" THEN "noip"
     ELSE IF ConsIP(c1, a) >= MaxPerIP THEN "ip"
     ELSE IF ASNOf[a] # 0 /\ ConsASN(c1, ASNOf[a]) >= MaxPerASN THEN "asn"
     ELSE "ok"

\* ab: the client resets its stream after the request has been read (between the ACL check and the
\* response), so the response cannot be written: the reservation stays all the same.
Reserve(l, ab) ==
  /\ l \in up
  /\ ab => "rabort" \in Features
  /\ "quietreserve" \in Features => Busy = {}     \* bound for the instances about one circuit
  /\ LET p == LinkPeer[l]
         a == LinkAddr[l]
         why == ReserveWhy(l)
         c0 == ConsClean(cons)
         c1 == ConsDrop(c0, p)
     IN /\ ab => why \notin {"relayed"}
        /\ CASE why \in {"relayed", "acl", "closed"} ->
                  /\ op' = [name |-> "reserve", l |-> l, ab |-> ab, why |-> why,
                            status |-> IF ab THEN "none" ELSE "PERMISSION_DENIED", live |-> rsvp[p] # None]
                  /\ UNCHANGED <<rsvp, cons, tagR, gl>>
             [] why \in {"total", "noip", "ip", "asn"} ->
                  \* refused: only the expired entries are gone; the peer's own entry and rsvp[p] stay
                  /\ cons' = c0
                  /\ op' = [name |-> "reserve", l |-> l, ab |-> ab, why |-> why,
                            status |-> IF ab THEN "none" ELSE "RESERVATION_REFUSED", live |-> rsvp[p] # None]
                  /\ UNCHANGED <<rsvp, tagR, gl>>
             [] OTHER ->
                  /\ cons' = [c1 EXCEPT ![p] = [rem |-> TTL, ip |-> a]]
                  /\ rsvp' = [rsvp EXCEPT ![p] = TTL]
                  /\ tagR' = [tagR EXCEPT ![p] = TRUE]
                  /\ gl' = [gl EXCEPT ![p] = l]
                  /\ op' = [name |-> "reserve", l |-> l, ab |-> ab, why |-> why,
                            status |-> IF ab THEN "none" ELSE "OK", live |-> rsvp[p] # None,
                            voucher |-> [signer |-> "relay", relay |-> "relay", peer |-> p, exp |-> TTL]]
  /\ UNCHANGED <<up, closed, ph, circ, tagH, svc, att>>

-----------------------------------------------------------------------------
(* handleStream + handleConnect up to the stop handshake request           *)
ConnectExit(l, d, fault) ==
  LET s == LinkPeer[l]
  IN IF fault \in {"h_svc", "h_mem", "h_bad"} THEN fault
     ELSE IF closed THEN "span"
     ELSE IF fault = "mem" THEN "mem"
     ELSE IF ViaRelay(l) THEN "relayed"
     ELSE IF fault = "badpeer" THEN "badpeer"
     ELSE IF <<l, d>> \in DenyConnect THEN "acl"
     ELSE IF rsvp[d] = None THEN "norsvp"
     ELSE IF circ[s] >= MaxCirc THEN "srccap"
     ELSE IF circ[d] >= MaxCirc THEN "dstcap"
     ELSE IF fault = "open" \/ UnlimUp(d, up) = {} THEN "open"
     ELSE IF fault \in {"svc", "smem", "swrite"} THEN fault
     ELSE IF "probe" \in Features THEN "swrite"
     ELSE "hs"

ExitStatus(e) ==
  CASE e \in {"h_svc", "h_mem"} -> "none"
    [] e \in {"h_bad", "badpeer"} -> "MALFORMED_MESSAGE"
    [] e \in {"span", "mem", "srccap", "dstcap", "svc", "smem"} -> "RESOURCE_LIMIT_EXCEEDED"
    [] e \in {"relayed", "acl"} -> "PERMISSION_DENIED"
    [] e = "norsvp" -> "NO_RESERVATION"
    [] e \in {"open", "swrite"} -> "CONNECTION_FAILED"
    [] OTHER -> "pending"

ConnectBegin(l, d, fault, via) ==
  /\ l \in up /\ d # LinkPeer[l]
  /\ fault \in Faults \cup {"none"}
  /\ Busy # Slots
  /\ LET s == LinkPeer[l]
         e == ConnectExit(l, d, fault)
         c == CHOOSE x \in Slots : att[x].st = "free" /\ \A y \in Slots : att[y].st = "free" => x <= y
     IN /\ fault # "none" => e = fault          \* a fault is scheduled only where it is the exit taken
        \* exits taken before the destination is looked at: one destination is enough
        /\ fault \in {"h_svc", "h_mem", "h_bad", "mem", "badpeer"} => d = (CHOOSE x \in Peers \ {s} : TRUE)
        /\ IF e \in {"svc", "smem", "swrite", "hs"} THEN via \in BestUp(d, up) ELSE via = "-"
        /\ IF e = "hs"
           THEN /\ circ' = [circ EXCEPT ![s] = @ + 1, ![d] = @ + 1]
                \* addConn tags only on the transition 0 -> 1 (a peer the conn manager forgot while an
                \* attempt of it was still pending stays untagged)
                /\ tagH' = [p \in Peers |-> IF p \in {s, d} /\ circ[p] = 0 THEN TRUE ELSE tagH[p]]
                /\ svc' = [spans |-> svc.spans + 1, msgs |-> svc.msgs + 2, sin |-> svc.sin + 1, sout |-> svc.sout + 1]
                /\ att' = [att EXCEPT ![c] = [Free EXCEPT !.st = "hs", !.src = l, !.dst = d, !.via = via, !.t = HSTimeout]]
           ELSE \* every other exit rolls back whatever it had taken (span, memory, counters, tags)
                UNCHANGED <<circ, tagH, svc, att>>
        /\ op' = [name |-> "connect", l |-> l, d |-> d, fault |-> fault, via |-> via, c |-> c, exit |-> e,
                  status |-> ExitStatus(e),
                  \* what the statement lets decide (L1): may the relay go on to connect at all?
                  may |-> (Direct(l) /\ <<l, d>> \notin DenyConnect /\ rsvp[d] # None
                           /\ circ[s] < MaxCirc /\ circ[d] < MaxCirc)]
  /\ UNCHANGED <<up, closed, ph, rsvp, cons, tagR, gl>>

\* the destination's answer on the stop stream (or the stream failing)
StopReply(c, kind) ==
  /\ att[c].st = "hs"
  /\ kind \in {"ok", "reset", "wrongtype", "nonok"}
  /\ kind # "ok" => kind \in Faults
  /\ IF kind = "ok" /\ att[c].ab = "no"
     THEN /\ att' = [att EXCEPT ![c].st = "open", ![c].t = IF Limited THEN Duration ELSE 0]
          /\ svc' = [svc EXCEPT !.msgs = @ - 2]
          /\ UNCHANGED <<circ, tagH>>
          /\ op' = [name |-> "stop", c |-> c, kind |-> kind, status |-> "OK", ended |-> FALSE]
     ELSE /\ att' = AttAfter({c}) /\ svc' = SvcAfter({c}) /\ circ' = CircAfter({c}) /\ tagH' = TagHAfter({c})
          /\ op' = [name |-> "stop", c |-> c, kind |-> kind,
                    status |-> IF att[c].ab # "no" THEN "none" ELSE "CONNECTION_FAILED", ended |-> TRUE]
  /\ UNCHANGED <<up, closed, ph, rsvp, cons, tagR, gl>>

\* the source resets its hop stream while the relay is waiting for the destination: the relay notices
\* only when it writes its response
ClientAbort(c) ==
  /\ "cabort" \in Features
  /\ att[c].st = "hs" /\ att[c].ab = "no"
  /\ att' = [att EXCEPT ![c].ab = "client"]
  /\ op' = [name |-> "cabort", c |-> c]
  /\ UNCHANGED <<up, closed, ph, rsvp, cons, circ, tagR, tagH, svc, gl>>

-----------------------------------------------------------------------------
(* relayLimited / relayUnlimited                                           *)
EndIfDone(c, a2) ==
  IF a2[c].fd /\ a2[c].rd
  THEN /\ att' = [a2 EXCEPT ![c] = Free] /\ svc' = SvcAfter({c}) /\ circ' = CircAfter({c}) /\ tagH' = TagHAfter({c})
  ELSE /\ att' = a2 /\ UNCHANGED <<svc, circ, tagH>>

\* the sender of direction dir ("f": source -> destination, "r": back) writes n bytes
Forward(c, dir, n) ==
  /\ att[c].st = "open"
  /\ n \in Chunks
  /\ IF dir = "f" THEN ~att[c].fd ELSE ~att[c].rd
  /\ LET cur == IF dir = "f" THEN att[c].f ELSE att[c].r
         dlv == IF Limited THEN Min(n, DataLimit - cur) ELSE n
         tot == IF Limited THEN cur + dlv ELSE 0       \* unlimited: not tracked
         fin == Limited /\ tot = DataLimit             \* limit reached: EOF forwarded, rest discarded
         a2 == IF dir = "f" THEN [att EXCEPT ![c].f = tot, ![c].fd = fin]
                            ELSE [att EXCEPT ![c].r = tot, ![c].rd = fin]
     IN /\ EndIfDone(c, a2)
        /\ op' = [name |-> "fwd", c |-> c, dir |-> dir, n |-> n, delivered |-> dlv, eof |-> fin,
                  ended |-> (a2[c].fd /\ a2[c].rd)]
  /\ UNCHANGED <<up, closed, ph, rsvp, cons, tagR, gl>>

\* the sender half-closes: EOF is forwarded, the direction is finished
SenderClose(c, dir) ==
  /\ "sclose" \in Features
  /\ att[c].st = "open"
  /\ IF dir = "f" THEN ~att[c].fd ELSE ~att[c].rd
  /\ LET a2 == IF dir = "f" THEN [att EXCEPT ![c].fd = TRUE] ELSE [att EXCEPT ![c].rd = TRUE]
     IN /\ EndIfDone(c, a2)
        /\ op' = [name |-> "sclose", c |-> c, dir |-> dir, ended |-> (a2[c].fd /\ a2[c].rd)]
  /\ UNCHANGED <<up, closed, ph, rsvp, cons, tagR, gl>>

\* an endpoint resets its stream while the relay still reads from it: both streams are reset
Abort(c, side) ==
  /\ "abort" \in Features
  /\ att[c].st = "open"
  /\ IF side = "src" THEN ~att[c].fd ELSE ~att[c].rd
  /\ att' = AttAfter({c}) /\ svc' = SvcAfter({c}) /\ circ' = CircAfter({c}) /\ tagH' = TagHAfter({c})
  /\ op' = [name |-> "abort", c |-> c, side |-> side, ended |-> TRUE]
  /\ UNCHANGED <<up, closed, ph, rsvp, cons, tagR, gl>>

-----------------------------------------------------------------------------
(* time: handshake time-outs, circuit deadlines, the collection            *)
Tick ==
  /\ "time" \in Features
  /\ LET gcnow == ~closed /\ ph = GCP - 1
         E == {c \in Busy : (att[c].st = "hs" \/ Limited) /\ att[c].t = 1}
         r1 == [p \in Peers |-> IF rsvp[p] = None THEN None ELSE rsvp[p] - 1]
         coll == {p \in Peers : gcnow /\ r1[p] # None /\ r1[p] < 0}
     IN /\ ph' = (ph + 1) % GCP
        /\ rsvp' = [p \in Peers |-> IF p \in coll THEN None ELSE r1[p]]
        /\ gl' = [p \in Peers |-> IF p \in coll THEN "-" ELSE gl[p]]
        /\ tagR' = [p \in Peers |-> IF p \in coll THEN FALSE ELSE tagR[p]]
        /\ cons' = [p \in Peers |-> IF cons[p].rem = None THEN NoEntry
                                    ELSE [cons[p] EXCEPT !.rem = Max(@ - 1, -1)]]
        /\ circ' = CircAfter(E) /\ tagH' = TagHAfter(E) /\ svc' = SvcAfter(E)
        /\ att' = [c \in Slots |-> IF c \in E THEN Free
                                   ELSE IF att[c].st = "hs" \/ (att[c].st = "open" /\ Limited)
                                        THEN [att[c] EXCEPT !.t = @ - 1] ELSE att[c]]
        /\ op' = [name |-> "tick", gc |-> gcnow, collected |-> coll, ended |-> E,
                  hs |-> {c \in E : att[c].st = "hs" /\ att[c].ab = "no"}]
  /\ UNCHANGED <<up, closed>>

\* Relay.Close: no further reservations, every reservation collected (and untagged)
Close ==
  /\ "close" \in Features
  /\ ~closed
  /\ Busy = {}          \* kept simple: closing under open circuits is left to the rcmgr checks (C03)
  /\ closed' = TRUE
  /\ rsvp' = [p \in Peers |-> None]
  /\ gl' = [p \in Peers |-> "-"]
  /\ tagR' = [p \in Peers |-> IF rsvp[p] # None THEN FALSE ELSE tagR[p]]
  /\ op' = [name |-> "close"]
  /\ UNCHANGED <<up, ph, cons, circ, tagH, svc, att>>

Next ==
  \/ \E l \in Links : LinkUp(l) \/ LinkDown(l)
  \/ \E l \in Links, ab \in BOOLEAN : Reserve(l, ab)
  \/ \E l \in Links, d \in Peers, fault \in Faults \cup {"none"}, via \in Links \cup {"-"} : ConnectBegin(l, d, fault, via)
  \/ \E c \in Slots, kind \in {"ok", "reset", "wrongtype", "nonok"} : StopReply(c, kind)
  \/ \E c \in Slots : ClientAbort(c)
  \/ \E c \in Slots, dir \in {"f", "r"}, n \in Chunks : Forward(c, dir, n)
  \/ \E c \in Slots, dir \in {"f", "r"} : SenderClose(c, dir)
  \/ \E c \in Slots, side \in {"src", "dst"} : Abort(c, side)
  \/ Tick
  \/ Close

Spec == Init /\ [][Next]_vars

-----------------------------------------------------------------------------
(* the statement                                                           *)
Rems == {None} \cup (-GCP..TTL)
TypeOK ==
  /\ up \subseteq Links /\ closed \in BOOLEAN /\ ph \in 0..(GCP - 1)
  /\ \A p \in Peers : /\ rsvp[p] \in Rems /\ cons[p].rem \in {None} \cup (-1..TTL)
                      /\ circ[p] \in 0..(2 * MaxAtt) /\ tagR[p] \in BOOLEAN /\ tagH[p] \in BOOLEAN
  /\ \A c \in Slots : /\ att[c].st \in {"free", "hs", "open"}
                      /\ att[c].f \in 0..DataLimit /\ att[c].r \in 0..DataLimit

Live(p) == rsvp[p] # None /\ rsvp[p] >= 0
LiveSet == {p \in Peers : Live(p)}
AddrOf(p) == IF gl[p] = "-" THEN "-" ELSE LinkAddr[gl[p]]

\* reservations are granted only within the total, per-IP and per-ASN caps.
\* (Failed before /repo 6cf8d1a - DESIGN section 9 item 7: a refused refresh un-counted a live reservation.)
Caps ==
  /\ Cardinality(LiveSet) <= MaxRes
  /\ \A l \in Links : IsIP(LinkAddr[l]) =>
       /\ Cardinality({p \in LiveSet : AddrOf(p) = LinkAddr[l]}) <= MaxPerIP
       /\ ASNOf[LinkAddr[l]] # 0 =>
            Cardinality({p \in LiveSet : IsIP(AddrOf(p)) /\ ASNOf[AddrOf(p)] = ASNOf[LinkAddr[l]]}) <= MaxPerASN

\* what the constraints object itself counts does respect the caps
CapsCounted ==
  LET c == ConsClean(cons)
  IN /\ ConsTotal(c) <= MaxRes
     /\ \A l \in Links : IsIP(LinkAddr[l]) =>
          /\ ConsIP(c, LinkAddr[l]) <= MaxPerIP
          /\ ASNOf[LinkAddr[l]] # 0 => ConsASN(c, ASNOf[LinkAddr[l]]) <= MaxPerASN
\* every counted entry is a live reservation with the same expiry, and conversely (item 7)
CountedAreLive == ~closed => \A p \in Peers : cons[p].rem # None /\ cons[p].rem >= 0 => rsvp[p] = cons[p].rem
LiveAreCounted == \A p \in Peers : Live(p) => cons[p].rem = rsvp[p] /\ cons[p].ip = AddrOf(p)

\* a reservation exists only for a peer that is directly connected, was granted over a direct link
\* the ACL accepts, and is gone at the first collection past its expiry
ReservationSound ==
  \A p \in Peers : rsvp[p] # None =>
     /\ UnlimUp(p, up) # {}
     /\ gl[p] # "-" /\ Direct(gl[p]) /\ gl[p] \notin DenyReserve /\ IsIP(LinkAddr[gl[p]])
     /\ rsvp[p] >= -ph
     /\ ~closed

\* circuits and attempts past the checks: neither party relayed, ACL, both links up
CircuitSound ==
  \A c \in Busy :
     /\ Direct(att[c].src) /\ ~LinkLimited[att[c].via]
     /\ <<att[c].src, att[c].dst>> \notin DenyConnect
     /\ (att[c].ab # "conn" => att[c].src \in up) /\ att[c].via \in up /\ LinkPeer[att[c].via] = att[c].dst
     /\ LinkPeer[att[c].src] # att[c].dst

MaxCircuits == \A p \in Peers : circ[p] <= MaxCirc

\* Rollback: counters, hop tags and service-scope usage are exactly what the attempts in flight account for
Rollback ==
  /\ \A p \in Peers : circ[p] = Inv(p, Busy) /\ (tagH[p] => circ[p] > 0)
  /\ svc = [spans |-> SumC(Busy, "spans"), msgs |-> SumC(Busy, "msgs"), sin |-> SumC(Busy, "sin"), sout |-> SumC(Busy, "sout")]

\* the reservation tag goes with the reservation.
\* (Failed before /repo 6390169 - DESIGN section 9 item 8: disconnected() did not untag.)
TagsRollback == \A p \in Peers : tagR[p] => rsvp[p] # None
TagsWhileReserved == \A p \in Peers : rsvp[p] # None => tagR[p]

Limits ==
  \A c \in Slots : att[c].st = "open" /\ Limited =>
     /\ att[c].f <= DataLimit /\ att[c].r <= DataLimit
     /\ att[c].t >= 1 /\ att[c].t <= Duration
     /\ (att[c].f = DataLimit => att[c].fd) /\ (att[c].r = DataLimit => att[c].rd)
HandshakeBounded == \A c \in Slots : att[c].st = "hs" => att[c].t >= 1 /\ att[c].t <= HSTimeout

\* action properties on the observable results
ConnectOnlyIfAllowed ==
  [][op'.name = "connect" /\ op'.exit = "hs" =>
       /\ op'.may
       /\ rsvp[op'.d] # None /\ Direct(op'.l)
       /\ circ[LinkPeer[op'.l]] < MaxCirc /\ circ[op'.d] < MaxCirc]_vars
\* the destination is not reached through another relay either.
\* EXPECTED TO FAIL where a peer that can hold a reservation has a relayed+unlimited connection: the
\* reservation survives the loss of the direct connection (Connectedness stays Connected) and the stop
\* stream is opened over the relayed connection.
DestinationDirect == [][op'.name = "connect" /\ op'.via # "-" => Direct(op'.via)]_vars
GrantOnlyIfAllowed ==
  [][op'.name = "reserve" /\ op'.why = "ok" =>
       /\ Direct(op'.l) /\ op'.l \notin DenyReserve /\ ~closed
       /\ op'.voucher.peer = LinkPeer[op'.l] /\ op'.voucher.signer = "relay" /\ op'.voucher.relay = "relay"
       /\ op'.voucher.exp = rsvp'[LinkPeer[op'.l]]]_vars
DeliveredWithinLimit ==
  [][op'.name = "fwd" /\ Limited =>
       /\ op'.delivered <= op'.n
       /\ (IF op'.dir = "f" THEN att[op'.c].f ELSE att[op'.c].r) + op'.delivered <= DataLimit]_vars
EndedMeansRolledBack ==
  [][op'.name \in {"stop", "fwd", "sclose", "abort"} /\ op'.ended =>
       /\ att'[op'.c].st = "free"
       /\ circ'[att[op'.c].dst] = circ[att[op'.c].dst] - 1
       /\ svc'.spans = svc.spans - 1]_vars

=============================================================================
