\* Template: checks/C17am.py instantiates the constants for every bounded instance.
CONSTANTS
  ListenPool = {"Lpriv", "Lun"}
  InitListen = {"Lpriv"}
  NatKeys = {"Lpriv"}
  NatChoices = {"-", "Npub"}
  ObsKeys = {"Lpriv"}
  ObsChoices = {"e", "a"}
  RelayChoices = {{}}
  ReachChoices = {}
  FModes = {"id"}
  Tracker = FALSE
  HasNAT = TRUE
  HasObs = TRUE
  PubOnly = FALSE
  Split = FALSE
  StartFirst = TRUE
  MaxClose = 0
  MaxEnv = 3
  MaxNotify = 1
  MaxTime = 1
  MaxHour = 0
INIT Init
NEXT Next
VIEW View
CHECK_DEADLOCK FALSE
INVARIANTS TypeOK ObservedSound Cap NoJunk Complete RelayRule Fresh Lifecycle
PROPERTIES EventDiff FactorySees NotifyServed AfterExit BeforeStart
