\* Template: the driver (checks/C17.py) instantiates Thresh, Cap, Emit, OldestWins, NEXT and VIEW.
CONSTANTS
  Inst = "async"
  Thresh = 1
  MaxTop = 3
  MaxClosed = 9
  Emit = FALSE
  Cap = 2
  OldestWins = FALSE
  Locals <- MCLocals
  AddrSeq <- MCAddrSeq
  Specials <- MCSpecials
  LocalOf <- MCLocalOf
  RemoteOf <- MCRemoteOf
  GroupOf <- MCGroupOf
INIT AInit
NEXT ANextAll
VIEW AView
INVARIANTS ATypeOK CreditOnlyOpenQA LatestReportQ
PROPERTIES NoCreditAfterCloseA
