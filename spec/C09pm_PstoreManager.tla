------------------------ MODULE C09pm_PstoreManager ------------------------
(***************************************************************************)
(* Extension engine of C09: WHO removes a peer's data from the peerstore   *)
(* and WHEN.  Component: p2p/host/pstoremanager/pstoremanager.go           *)
(* (PeerstoreManager) together with RemovePeer of the in-memory peerstore  *)
(* (p2p/host/peerstore/pstoremem/peerstore.go).                            *)
(*                                                                         *)
(* The manager subscribes to event.EvtPeerConnectednessChanged on the      *)
(* event bus (default subscription buffer: 16 events; a publisher BLOCKS   *)
(* when the buffer is full, nothing is dropped), keeps a private map       *)
(* `disconnected` peer -> time the disconnect event was PROCESSED, and a   *)
(* ticker of period cleanupInterval (default gracePeriod/2).               *)
(*                                                                         *)
(* STATEMENT (what a user of the component relies on; derived from the     *)
(* code, its comments and its tests TestGracePeriod/TestReconnect/TestClose)*)
(*                                                                         *)
(*  K1  never-while-connected: a cleanup run removes the data of p only    *)
(*      after asking network.Connectedness(p) in that run and getting an   *)
(*      answer other than Connected / Limited.  (What the network says     *)
(*      AFTER the answer cannot be seen: the window between the answer and *)
(*      RemovePeer is inherent to the design and is modelled.)             *)
(*  K2  grace, lower bound: a cleanup run removes p only if a disconnect   *)
(*      event (Connectedness other than Connected / Limited) of p was      *)
(*      emitted strictly more than gracePeriod earlier.                    *)
(*  K3  reconnect keeps: p is removed (by a cleanup run or by Close) only  *)
(*      if the last event of p the manager has processed is a disconnect   *)
(*      event; a Connected/Limited event processed in between forgets the  *)
(*      earlier disconnect, and the next disconnect starts a new period.   *)
(*  K4  grace, upper bound: once a disconnect event of p has been          *)
(*      processed at time e and no Connected/Limited event of p is         *)
(*      processed afterwards, then by the time gracePeriod+cleanupInterval *)
(*      after e the manager - unless it is kept from running (held inside  *)
(*      a callback, a tick waiting) - has asked the network about p and    *)
(*      removed the data or (answer Connected/Limited) forgotten the       *)
(*      disconnect.                                                        *)
(*  K5  isolation: events, answers and removals for p never change what is *)
(*      stored or remembered for another peer q.                           *)
(*  K6  Close: cancels the loop; when the loop sees it, it removes every   *)
(*      peer whose disconnect it still remembers (DEVIATION, modelled as   *)
(*      coded: WITHOUT asking the network - BasicHost closes the network   *)
(*      first -, and events still queued are discarded unprocessed),       *)
(*      unsubscribes (a publisher blocked on the full buffer is released)  *)
(*      and only then lets Close return.  After that nothing is removed    *)
(*      and the network is not asked again.  Close without Start and a     *)
(*      second Close return at once and do nothing.                        *)
(*  K7  RemovePeer clears the key book, protocol book, metadata and        *)
(*      metrics of the peer and NOT its addresses (those expire by TTL:    *)
(*      property C09 proper).                                              *)
(*  K8  events are processed in emission order, none is lost while the     *)
(*      manager runs; Emit blocks iff Buf events are waiting (Buf = 16 in  *)
(*      the real manager) and is released by the next receive.             *)
(*  K9  Close terminates (liveness) and a blocked publisher is eventually  *)
(*      released (liveness), under fair scheduling of the loop.            *)
(*                                                                         *)
(* Not promised and not modelled: Start called twice (the first loop can   *)
(* no longer be cancelled, Close then never returns: characterised by a    *)
(* scenario of the harness, reported as a note), Start after Close.        *)
(*                                                                         *)
(* STRUCTURE: one action per step of the `background` loop and per public  *)
(* call; the environment (network state, publishers, other writers of the  *)
(* peerstore, the clock, the caller of Close) moves independently, also    *)
(* while the loop is inside network.Connectedness (actions Query/Apply):   *)
(* this is where the reconnect race and the answer->RemovePeer window live.*)
(* Go's select picks any ready case: Recv, Tick and Exit are all enabled   *)
(* when ready.  Time is an integer; the grace test is the code's strict    *)
(* `disconnectTime.Add(grace).Before(now)`.                                *)
(***************************************************************************)
EXTENDS Integers, Sequences, FiniteSets, TLC

CONSTANTS Peers,      \* peer universe
          Kinds,      \* subset of {"C", "L", "N"}: Connected, Limited, "N" = every other Connectedness value
          G,          \* gracePeriod   (time units)
          I,          \* cleanupInterval
          Buf,        \* capacity of the subscription channel
          MaxTime, MaxEmit, MaxClose,   \* bounds of the environment
          StartBy,    \* Start happens at time <= StartBy (the phase of the ticker)
          InitData,   \* the peerstore knows every peer at the beginning
          Atomic      \* TRUE: a cleanup run is one step (no interference inside it)

ASSUME Kinds \subseteq {"C", "L", "N"} /\ "N" \in Kinds
Conn(k) == k \in {"C", "L"}
Absent == -1
None == [p |-> "-", k |-> "-", te |-> Absent]

VARIABLES
  time,         \* the clock
  net,          \* [Peers -> Kinds]       what network.Connectedness answers now
  data,         \* [Peers -> BOOLEAN]     keys/protocols/metadata/metrics of p are in the peerstore
  addr,         \* [Peers -> BOOLEAN]     an address of p with permanent TTL is in the address book
  pc,           \* "off" | "idle" (at the select) | "scan" (in a cleanup run, between peers)
                \* | "asked" (network answered for cur, RemovePeer not yet called) | "exited"
  sub,          \* the manager's subscription is registered on the bus
  queue,        \* events waiting in the subscription channel (records [p, k, te]; te = emission time, ghost)
  stalled,      \* the event of a publisher blocked on the full channel, or None
  disc,         \* the `disconnected` map: [Peers -> time | Absent]
  tickAt,       \* next instant of the ticker
  tickPending,  \* a tick waits in ticker.C (at most one: further ones are dropped)
  now,          \* `now` of the cleanup run in progress
  todo,         \* peers of the run in progress still to be handled
  cur, reply,   \* peer being handled and the network's answer
  cancelled,    \* Close has cancelled the loop's context
  ncall,        \* Close calls so far
  nwait,        \* Close calls that have not returned (they wait for the loop to finish)
  nemit,        \* events emitted so far
  discEmit,     \* ghost: emission time of the event that created disc[p]
  lastEv,       \* ghost: kind of the last event of p the loop has processed ("-" none)
  flipped,      \* ghost: net[cur] changed since the answer
  op            \* output only

mgr  == <<pc, sub, queue, stalled, disc, tickAt, tickPending, now, todo, cur, reply, cancelled, nwait>>
env  == <<time, net, data, addr, ncall, nemit>>
gh   == <<discEmit, lastEv, flipped>>
vars == <<mgr, env, gh, op>>
View == <<mgr, env, gh>>
ViewNoGhost == <<pc, sub, [i \in 1..Len(queue) |-> <<queue[i].p, queue[i].k>>], <<stalled.p, stalled.k>>, disc, tickAt,
                 tickPending, now, todo, cur, reply, cancelled, nwait, env>>

Running == pc \in {"idle", "scan", "asked"}
Overdue(t) == {p \in Peers : disc[p] # Absent /\ disc[p] + G < t}
Remembered == {p \in Peers : disc[p] # Absent}

Init ==
  /\ time = 0 /\ net = [p \in Peers |-> "N"] /\ data = [p \in Peers |-> InitData] /\ addr = [p \in Peers |-> InitData]
  /\ pc = "off" /\ sub = FALSE /\ queue = <<>> /\ stalled = None /\ disc = [p \in Peers |-> Absent]
  /\ tickAt = 0 /\ tickPending = FALSE /\ now = 0 /\ todo = {} /\ cur = "-" /\ reply = "-"
  /\ cancelled = FALSE /\ ncall = 0 /\ nwait = 0 /\ nemit = 0
  /\ discEmit = [p \in Peers |-> Absent] /\ lastEv = [p \in Peers |-> "-"] /\ flipped = FALSE
  /\ op = [name |-> "init"]

--------------------------------------------------------------------------
(* environment *)

\* Start(): subscribe, start the loop, which creates the ticker and arrives at the select.
Start ==
  /\ pc = "off" /\ time <= StartBy
  /\ pc' = "idle" /\ sub' = TRUE /\ tickAt' = time + I
  /\ op' = [name |-> "start"]
  /\ UNCHANGED <<queue, stalled, disc, tickPending, now, todo, cur, reply, cancelled, nwait, env, gh>>

\* A publisher emits EvtPeerConnectednessChanged{p, k}.  Without a subscriber the event goes nowhere;
\* with a full channel the publisher blocks holding the bus node's lock (so nobody else can emit).
Emit(p, k) ==
  /\ nemit < MaxEmit /\ stalled = None
  /\ nemit' = nemit + 1
  /\ LET e == [p |-> p, k |-> k, te |-> time] IN
     IF ~sub THEN /\ UNCHANGED <<queue, stalled>>
                  /\ op' = [name |-> "emit", p |-> p, k |-> k, blocked |-> FALSE, lost |-> TRUE]
     ELSE IF Len(queue) < Buf
     THEN /\ queue' = Append(queue, e) /\ UNCHANGED stalled
          /\ op' = [name |-> "emit", p |-> p, k |-> k, blocked |-> FALSE, lost |-> FALSE]
     ELSE /\ stalled' = e /\ UNCHANGED queue
          /\ op' = [name |-> "emit", p |-> p, k |-> k, blocked |-> TRUE, lost |-> FALSE]
  /\ UNCHANGED <<pc, sub, disc, tickAt, tickPending, now, todo, cur, reply, cancelled, nwait,
                 time, net, data, addr, ncall, gh>>

\* The network's view of p changes (events about it may come later, or never: the swarm coalesces).
SetNet(p, k) ==
  /\ k # net[p]
  /\ net' = [net EXCEPT ![p] = k]
  /\ flipped' = (flipped \/ (pc = "asked" /\ cur = p))
  /\ op' = [name |-> "setnet", p |-> p, k |-> k]
  /\ UNCHANGED <<mgr, time, data, addr, ncall, nemit, discEmit, lastEv>>

\* Somebody (identify, the DHT, ...) stores data about p in every book.
Learn(p) ==
  /\ ~data[p]
  /\ data' = [data EXCEPT ![p] = TRUE] /\ addr' = [addr EXCEPT ![p] = TRUE]
  /\ op' = [name |-> "learn", p |-> p]
  /\ UNCHANGED <<mgr, time, net, ncall, nemit, gh>>

\* One unit of time passes; the ticker fires on schedule whatever the loop is doing.
Advance ==
  /\ time < MaxTime
  /\ time' = time + 1
  /\ IF Running /\ time + 1 = tickAt
     THEN tickPending' = TRUE /\ tickAt' = tickAt + I
     ELSE UNCHANGED <<tickPending, tickAt>>
  /\ op' = [name |-> "advance", fires |-> (Running /\ time + 1 = tickAt)]
  /\ UNCHANGED <<pc, sub, queue, stalled, disc, now, todo, cur, reply, cancelled, nwait,
                 net, data, addr, ncall, nemit, gh>>

\* Close() is called: cancels the context of a started loop (nothing to cancel before Start).
\* The call has returned iff the loop is not running: see CloseReturned.
CloseCall ==
  /\ ncall < MaxClose
  /\ ncall' = ncall + 1
  /\ cancelled' = (cancelled \/ pc # "off")
  /\ nwait' = IF Running THEN nwait + 1 ELSE nwait
  /\ op' = [name |-> "close", returns |-> ~Running]
  /\ UNCHANGED <<pc, sub, queue, stalled, disc, tickAt, tickPending, now, todo, cur, reply,
                 time, net, data, addr, nemit, gh>>

--------------------------------------------------------------------------
(* the background loop *)

\* case e := <-sub.Out()
Recv ==
  /\ pc = "idle" /\ queue # <<>>
  /\ LET e == Head(queue) IN
     /\ queue' = IF stalled # None THEN Append(Tail(queue), stalled) ELSE Tail(queue)
     /\ stalled' = None
     /\ IF Conn(e.k)
        THEN /\ disc' = [disc EXCEPT ![e.p] = Absent]
             /\ discEmit' = [discEmit EXCEPT ![e.p] = Absent]
        ELSE IF disc[e.p] = Absent
        THEN /\ disc' = [disc EXCEPT ![e.p] = time]
             /\ discEmit' = [discEmit EXCEPT ![e.p] = e.te]
        ELSE UNCHANGED <<disc, discEmit>>
     /\ lastEv' = [lastEv EXCEPT ![e.p] = e.k]
     /\ op' = [name |-> "recv", p |-> e.p, k |-> e.k, unblocked |-> (stalled # None)]
  /\ UNCHANGED <<pc, sub, tickAt, tickPending, now, todo, cur, reply, cancelled, nwait, env, flipped>>

\* case <-ticker.C, up to the first network.Connectedness call (or to the end when nobody is overdue)
TickBegin ==
  /\ ~Atomic /\ pc = "idle" /\ tickPending
  /\ tickPending' = FALSE /\ todo' = Overdue(time)
  /\ now' = IF Overdue(time) = {} THEN 0 ELSE time
  /\ pc' = IF Overdue(time) = {} THEN "idle" ELSE "scan"
  /\ op' = [name |-> "tick", overdue |-> Overdue(time)]
  /\ UNCHANGED <<sub, queue, stalled, disc, tickAt, cur, reply, cancelled, nwait, env, gh>>

\* m.network.Connectedness(p): the range over the map picks the overdue peers in any order
Query(p) ==
  /\ pc = "scan" /\ p \in todo
  /\ cur' = p /\ reply' = net[p] /\ flipped' = FALSE /\ pc' = "asked"
  /\ op' = [name |-> "query", p |-> p, reply |-> net[p]]
  /\ UNCHANGED <<sub, queue, stalled, disc, tickAt, tickPending, now, todo, cancelled, nwait, env, discEmit, lastEv>>

\* the switch on the answer: RemovePeer unless Connected/Limited; delete(disconnected, p) in both cases
Apply ==
  /\ pc = "asked"
  /\ LET rm == ~Conn(reply) IN
     /\ data' = IF rm THEN [data EXCEPT ![cur] = FALSE] ELSE data
     /\ op' = [name |-> "apply", p |-> cur, removed |-> rm, had |-> data[cur]]
  /\ disc' = [disc EXCEPT ![cur] = Absent] /\ discEmit' = [discEmit EXCEPT ![cur] = Absent]
  /\ todo' = todo \ {cur}
  /\ pc' = IF todo \ {cur} = {} THEN "idle" ELSE "scan"
  /\ now' = IF todo \ {cur} = {} THEN 0 ELSE now
  /\ cur' = "-" /\ reply' = "-" /\ flipped' = FALSE
  /\ UNCHANGED <<sub, queue, stalled, tickAt, tickPending, cancelled, nwait,
                 time, net, addr, ncall, nemit, lastEv>>

\* the same cleanup run as one step (instances in which nothing interferes inside a run)
TickAtomic ==
  /\ Atomic /\ pc = "idle" /\ tickPending
  /\ LET od == Overdue(time)
         rm == {p \in od : ~Conn(net[p])} IN
     /\ data' = [p \in Peers |-> IF p \in rm THEN FALSE ELSE data[p]]
     /\ disc' = [p \in Peers |-> IF p \in od THEN Absent ELSE disc[p]]
     /\ discEmit' = [p \in Peers |-> IF p \in od THEN Absent ELSE discEmit[p]]
     /\ op' = [name |-> "tick", overdue |-> od, removed |-> rm]
  /\ tickPending' = FALSE
  /\ UNCHANGED <<pc, sub, queue, stalled, tickAt, now, todo, cur, reply, cancelled, nwait,
                 time, net, addr, ncall, nemit, lastEv, flipped>>

\* case <-ctx.Done(): the deferred functions - RemovePeer for everything remembered (network not asked),
\* ticker.Stop, sub.Close (drains the channel: a blocked publisher returns), refCount.Done
Exit ==
  /\ pc = "idle" /\ cancelled
  /\ data' = [p \in Peers |-> IF p \in Remembered THEN FALSE ELSE data[p]]
  /\ disc' = [p \in Peers |-> Absent] /\ discEmit' = [p \in Peers |-> Absent]
  /\ sub' = FALSE /\ queue' = <<>> /\ stalled' = None /\ tickPending' = FALSE /\ pc' = "exited" /\ nwait' = 0
  /\ op' = [name |-> "exit", removed |-> Remembered, unblocked |-> (stalled # None), dropped |-> Len(queue), returned |-> nwait]
  /\ UNCHANGED <<tickAt, now, todo, cur, reply, cancelled, time, net, addr, ncall, nemit, lastEv, flipped>>

Env == \/ Start \/ Advance \/ CloseCall
       \/ \E p \in Peers : Learn(p) \/ \E k \in Kinds : (Emit(p, k) \/ SetNet(p, k))
Loop == Recv \/ TickBegin \/ TickAtomic \/ Apply \/ Exit \/ \E p \in Peers : Query(p)
Next == Env \/ Loop
Spec == Init /\ [][Next]_vars
FairSpec == Spec /\ WF_vars(Recv) /\ WF_vars(TickBegin) /\ WF_vars(TickAtomic) /\ WF_vars(Apply) /\ WF_vars(Exit)
                 /\ WF_vars(\E p \in Peers : Query(p))

--------------------------------------------------------------------------
(* sequential skeleton used for the replayed graphs (ACTION_CONSTRAINT).  Where Go's select could choose
   between several ready cases the skeleton fixes the order; nothing observable is lost, because the
   excluded orders commute with an included one:
     - after cancel the loop exits before anything else happens: `cancel; x; exit` = `x; cancel; exit` for every
       step x of the loop that does not involve the passing of time (cancel changes nothing else);
     - a waiting tick is taken before a waiting event: a Connected/Limited event records no time, so
       `advance; recv; tick` = `recv; advance; tick`; a disconnect event for a remembered peer is a no-op, and for
       a forgotten peer it records the present instant, which no tick at the same instant finds overdue, so
       `recv; tick` = `tick; recv`.  Events emitted while the tick waits stay queued behind it: this is the
       reconnect race.                                                                                          *)
Prio ==
  /\ (pc = "idle" /\ cancelled) => op'.name = "exit"
  /\ (tickPending /\ Running) => op'.name \notin {"recv", "close"}
  /\ (cancelled /\ Running) => op'.name # "advance"

--------------------------------------------------------------------------
(* properties *)

Times == -1..(MaxTime + I + 1)
TypeOK ==
  /\ time \in 0..MaxTime /\ net \in [Peers -> Kinds] /\ data \in [Peers -> BOOLEAN] /\ addr \in [Peers -> BOOLEAN]
  /\ pc \in {"off", "idle", "scan", "asked", "exited"} /\ sub \in BOOLEAN
  /\ Len(queue) <= Buf /\ \A i \in 1..Len(queue) : queue[i].p \in Peers /\ queue[i].k \in Kinds
  /\ disc \in [Peers -> Times] /\ tickPending \in BOOLEAN /\ todo \subseteq Peers
  /\ cancelled \in BOOLEAN /\ ncall \in 0..MaxClose /\ nwait \in 0..ncall /\ (nwait > 0 => cancelled)

\* K8: the publisher is blocked only on a full channel of a live subscription
QueueBound == stalled # None => (Len(queue) = Buf /\ sub)

\* K3 (state form) and bookkeeping of K2: a remembered disconnect is the last thing processed for the peer
DiscSound == \A p \in Peers : disc[p] # Absent =>
                /\ Running /\ lastEv[p] = "N"
                /\ discEmit[p] # Absent /\ discEmit[p] <= disc[p] /\ disc[p] <= time

\* K4: unless the loop is kept from running, a remembered disconnect is younger than grace + interval
Timely == \A p \in Peers : (disc[p] # Absent /\ pc = "idle" /\ ~tickPending) => time < disc[p] + G + I

\* K6/K10: nothing is pending or remembered outside the life of the loop
Inert == ~Running => /\ nwait = 0 /\ Remembered = {} /\ queue = <<>> /\ stalled = None /\ ~sub /\ ~tickPending /\ todo = {}
ScanShape == /\ (pc = "scan" => todo # {}) /\ (pc = "asked" => cur \in todo)
             /\ (pc \in {"off", "idle", "exited"} => todo = {})
             /\ \A p \in todo : disc[p] # Absent /\ disc[p] + G < now

\* K1
RemovedOnlyIfReportedDisconnected ==
  [][(op'.name = "apply" /\ op'.removed) => (~Conn(reply) /\ (Conn(net[cur]) => flipped))]_vars
\* K2
GraceLower ==
  [][/\ (op'.name = "apply" /\ op'.removed) => (discEmit[cur] # Absent /\ discEmit[cur] + G < now /\ now <= time)
     /\ (op'.name = "tick" /\ Atomic) => \A p \in op'.removed : discEmit[p] # Absent /\ discEmit[p] + G < time]_vars
\* K3 (action form): whoever loses data had a disconnect as its last processed event
ReconnectKeeps == [][\A q \in Peers : (data[q] /\ ~data'[q]) => (lastEv[q] = "N" /\ disc[q] # Absent)]_vars
\* K5
Touches(o, q) ==
  \/ (o.name \in {"recv", "apply", "learn", "query"} /\ o.p = q)
  \/ (o.name = "tick" /\ q \in o.overdue)
  \/ (o.name = "exit" /\ q \in o.removed)
Isolation == [][\A q \in Peers : (data'[q] # data[q] \/ disc'[q] # disc[q] \/ lastEv'[q] # lastEv[q]) => Touches(op', q)]_vars
\* K6: after the loop has gone only Learn changes data, and the loop's variables stay put; Exit forgets everything
AfterExit == [][pc = "exited" => (UNCHANGED mgr /\ (data' # data => op'.name = "learn"))]_vars
ExitRemovesRemembered == [][op'.name = "exit" => \A q \in Peers : data'[q] = (data[q] /\ disc[q] = Absent)]_vars
\* K7
AddrKept == [][\A p \in Peers : addr[p] => addr'[p]]_vars
\* K9
CloseTerminates == cancelled ~> (pc = "exited")
PublisherReleased == (stalled # None) ~> (stalled = None)

(* reachability probes (each must be VIOLATED: vacuity guards) *)
\* the reconnect race: the network says connected while the Connected event still waits behind the tick
ReachRace == ~(pc = "asked" /\ Conn(reply) /\ \E i \in 1..Len(queue) : queue[i].p = cur /\ Conn(queue[i].k))
\* the answer -> RemovePeer window: removal of a peer that connected after the answer
ReachWindow == ~(pc = "asked" /\ ~Conn(reply) /\ flipped /\ Conn(net[cur]) /\ data[cur])
ReachStalled == stalled = None
\* Close removes a peer the network reports connected (its Connected event not yet processed)
ReachExitConnected == ~(pc = "idle" /\ cancelled /\ \E p \in Remembered : Conn(net[p]) /\ data[p])
\* a dropped tick: the loop is inside a run when the next tick is already waiting
ReachLateTick == ~(pc = "asked" /\ tickPending)
=============================================================================
