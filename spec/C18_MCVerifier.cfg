INIT MCInit
NEXT Next
VIEW View
ACTION_CONSTRAINT EmitEdge
INVARIANTS TypeOK
PROPERTIES AcceptNeedsAll DialNeedsConfirmation VerdictFunctionOfArguments
