\* Template: checks/C04qr.py instantiates the constants for every bounded instance.
CONSTANTS
  Reuse = TRUE
  MaxSock = 3
  MaxLn = 2
  MaxDial = 2
  MaxShare = 1
  MaxLend = 1
  MaxFaults = 1
  Protos = {"a", "b"}
  Assocs = {"x"}
  LAddrs <- AddrsMixed
  UIPs = {"u1"}
  DialKinds = {"tfd", "dq"}
  Faults = {"oserr", "bad", "noalpn", "selerr"}
  GcEvery = 2
  MaxUnused = 1
INIT Init
NEXT Next
VIEW View
INVARIANTS TypeOK NeverClosedInUse CountIsUsers ClosedWhenDue SingleOwner Lender Registry OneAddrOneListener CloseClosesAll
PROPERTIES ClosedOnlyAfterPeriod SiblingsSurvive DialPreference ClosedIsFinal
CHECK_DEADLOCK FALSE
