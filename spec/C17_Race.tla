----------------------------- MODULE C17_Race -----------------------------
(***************************************************************************)
(* C17, the concurrency corner: maybeRecordObservation is NOT one critical *)
(* section.  It validates the report lock-free (Check: shouldRecord-       *)
(* Observation, which calls conn.LocalMultiaddr() and listenAddrs()) and   *)
(* only then records it under o.mu (Record: recordObservationUnlocked,     *)
(* which asks conn.IsClosed() under the lock).  The connection may close   *)
(* (Mark: IsClosed becomes true) and its Disconnected notification may run *)
(* removeConn (Remove, under o.mu) between the two.  The worker goroutine  *)
(* is single, so at most one observation is in flight (pend).              *)
(*                                                                         *)
(* EarlyCheck = FALSE is the code's design: Record reads the closed flag   *)
(* under the lock that also serialises removeConn.  EarlyCheck = TRUE is   *)
(* the tempting variant "ask IsClosed before taking the lock": TLC must    *)
(* find CreditOnlyOpenQ violated for it (guard that the model can tell).   *)
(***************************************************************************)
EXTENDS C17_MC

CONSTANT EarlyCheck

VARIABLES gone,   \* [Conns -> BOOLEAN]  removeConn has run for the (closed) connection
          pend    \* the observation in flight between Check and Record, or NoPend

rvars == <<obs, open, ext, op, gone, pend>>
RView == <<obs, open, gone, pend>>
NoPend == [c |-> None, o |-> None, saw |-> FALSE]

RInit == Init /\ gone = [c \in Conns |-> FALSE] /\ pend = NoPend

\* nothing in flight and every closed connection has had its Disconnected notification
QuiescentH(p, opn, gn) == p = NoPend /\ \A c \in Conns : ~opn[c] => gn[c]
Quiescent == QuiescentH(pend, open, gone)

ROut(args) == args @@ [q |-> QuiescentH(pend', open', gone'),
                       exp |-> IF Emit THEN ExpH(obs', open', {}) ELSE <<>>,
                       obs |-> obs']

CreditIf(c, o, ok) == IF ok /\ Listening(c) /\ o \in Addrs THEN [obs EXCEPT ![c] = o] ELSE obs

Begin(c, o) ==
  /\ pend = NoPend
  /\ pend' = [c |-> c, o |-> o, saw |-> IF EarlyCheck THEN open[c] ELSE TRUE]
  /\ UNCHANGED <<obs, open, ext, gone>>
  /\ op' = ROut([name |-> "begin", c |-> c, o |-> o])

Record ==
  /\ pend # NoPend
  /\ obs' = CreditIf(pend.c, pend.o, IF EarlyCheck THEN pend.saw ELSE open[pend.c])
  /\ pend' = NoPend
  /\ UNCHANGED <<open, ext, gone>>
  /\ op' = ROut([name |-> "record", c |-> pend.c, o |-> pend.o])

Mark(c) ==
  /\ open[c]
  /\ open' = [open EXCEPT ![c] = FALSE]
  /\ UNCHANGED <<obs, ext, gone, pend>>
  /\ op' = ROut([name |-> "mark", c |-> c])

Remove(c) ==
  /\ ~open[c] /\ ~gone[c]
  /\ gone' = [gone EXCEPT ![c] = TRUE]
  /\ obs' = [obs EXCEPT ![c] = None]
  /\ UNCHANGED <<open, ext, pend>>
  /\ op' = ROut([name |-> "remove", c |-> c])

\* a complete observation on ANOTHER connection while one is in flight (cannot happen with the single
\* worker, but the manager's entry point allows it and the replay exercises it)
Other(d, o) ==
  /\ pend # NoPend /\ d # pend.c
  /\ obs' = CreditIf(d, o, open[d])
  /\ UNCHANGED <<open, ext, gone, pend>>
  /\ op' = ROut([name |-> "other", c |-> d, o |-> o])

RNext == \/ \E c \in Conns, o \in Addrs \cup Specials : Begin(c, o)
         \/ Record
         \/ \E c \in Conns : Mark(c) \/ Remove(c)
         \/ \E d \in Conns, o \in Addrs : Other(d, o)

RSpec == RInit /\ [][RNext]_rvars

RTypeOK == /\ obs \in [Conns -> Addrs \cup {None}] /\ open \in [Conns -> BOOLEAN] /\ gone \in [Conns -> BOOLEAN]
           /\ \A c \in Conns : gone[c] => ~open[c]

\* THE property of this module: at quiescence every credited observation belongs to an open connection
\* (that arrived at a listen address), so the recomputation over open connections is what is advertised.
CreditOnlyOpenQ == Quiescent => \A c \in Conns : obs[c] # None => open[c] /\ Listening(c)
\* a closed connection never gains a credit (it may keep one until its notification runs)
NoCreditAfterClose == [][\A c \in Conns : ~open[c] /\ obs'[c] # None => obs'[c] = obs[c]]_rvars

RSt == [obs |-> obs, open |-> open, gone |-> gone, pend |-> pend]
REmitEdge == PrintT(<<"VFEDGE", ToJson([s |-> RSt, op |-> op', t |-> RSt'])>>)
RMCInit == /\ RInit
           /\ PrintT(<<"VFINIT", ToJson(RSt)>>)
           /\ PrintT(<<"VFINST", ToJson([inst |-> Inst, thresh |-> Thresh, maxtop |-> MaxTop, locals |-> Locals,
                                          addrs |-> AddrSeq, specials |-> Specials, localOf |-> LocalOf,
                                          remoteOf |-> RemoteOf, groupOf |-> GroupOf])>>)
=============================================================================
