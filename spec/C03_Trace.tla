----------------------------- MODULE C03_Trace -----------------------------
(***************************************************************************)
(* Trace validation for the resource manager.  N goroutines run histories  *)
(* concurrently on one real manager; the manager's own synchronous         *)
(* TraceReporter (rcmgr.WithTraceReporter: one event per per-scope step,   *)
(* emitted under that scope's lock, totally ordered by the trace mutex)    *)
(* and the harness's return events are recorded in one sequence.           *)
(*                                                                         *)
(* Every reporter event is one atomic per-scope step of C03_Rcmgr (R / L   *)
(* of the interpreter): it is checked against the step's semantics         *)
(* (reported value = usage + delta; granted iff C03_Rcmgr!MemOK / StrOK /  *)
(* ConnOK) and applied.  `ret` closes a call: the harness states, from its *)
(* own ledger, the effect the statement wants the call to have had (on     *)
(* which scopes, how much); Sum compares.                                  *)
(*   Sum     use[s] = what the returned calls should have left there       *)
(*           + the net effect so far of the calls in flight  (every event) *)
(*   Bounds  0 <= use[s] <= limit[s]                          (every event)*)
(*   Step    accounting / grant rule of each step             (every event)*)
(*   Stat    Stat() read at a quiescent point = use[s]                     *)
(*   Zero    after the last holder was released everything reads zero      *)
(***************************************************************************)
EXTENDS Integers, Sequences, FiniteSets, TLC, Json

INF == 1000000
VARIABLES l,      \* next line
          use,    \* [scope -> vec]  scopes alive
          lim,    \* [scope -> limit record]
          exp,    \* [scope -> vec]  sum of the effects of the returned calls
          pd,     \* [goroutine -> [scope -> vec]]  net effect of the call in flight
          viol    \* first step-level clause that failed ("" = none)
tvars == <<l, use, lim, exp, pd, viol>>

R == INSTANCE C03_Rcmgr WITH Conns <- <<>>, Streams <- <<>>, Spans <- <<>>, Peers <- {}, Protos <- {}, Svcs <- {},
       Eps <- {}, EpIP <- <<>>, EpBuckets <- <<>>, Cap <- <<>>, AllowNet <- {}, AllowPeer <- {}, Lim <- <<>>, Inf <- INF,
       Sizes <- {}, Prios <- {}, Dirs <- {}, Fds <- {}, ViewScopes <- {}, Kinds <- {}, Threads <- <<"t1">>,
       Sequential <- TRUE, RetryGhost <- FALSE, Preload <- <<>>, w <- use, op <- use

TraceLog == ndJsonDeserialize("trace.ndjson")
Cur == TraceLog[l]
IsEvent(e) == l <= Len(TraceLog) /\ Cur.ev = e /\ l' = l + 1
Z == R!Z
Vec(t) == [mem |-> t[1], si |-> t[2], so |-> t[3], ci |-> t[4], co |-> t[5], fd |-> t[6]]
LimRec(t) == [mem |-> t[1], si |-> t[2], so |-> t[3], s |-> t[4], ci |-> t[5], co |-> t[6], c |-> t[7], fd |-> t[8]]
Get(f, s) == IF s \in DOMAIN f THEN f[s] ELSE Z
Put(f, s, v) == [x \in DOMAIN f \cup {s} |-> IF x = s THEN v ELSE f[x]]
Flag(c, name) == IF viol = "" /\ ~c THEN name ELSE viol
NoNeg(u) == u.mem >= 0 /\ u.si >= 0 /\ u.so >= 0 /\ u.ci >= 0 /\ u.co >= 0 /\ u.fd >= 0

Fresh == /\ use = <<>> /\ lim = <<>> /\ exp = <<>> /\ pd = <<>> /\ viol = ""
TraceInit == Fresh /\ l = 1 /\ TLCSet(1, 1)
TrReset == IsEvent("reset") /\ use' = <<>> /\ lim' = <<>> /\ exp' = <<>> /\ pd' = <<>> /\ viol' = ""

Get2(f, g) == IF g \in DOMAIN f THEN f[g] ELSE <<>>
\* a step of goroutine g on scope s changing the usage from u to u1
Apply(g, s, u1) ==
  LET d == R!VSub(u1, Get(use, s)) IN
  /\ use' = Put(use, s, u1)
  /\ pd' = Put(pd, g, Put(Get2(pd, g), s, R!VAdd(Get(Get2(pd, g), s), d)))

TrCreate == /\ IsEvent("create")
            /\ use' = Put(use, Cur.s, Z)
            /\ lim' = Put(lim, Cur.s, LimRec(Cur.lim))
            \* a scope is created empty; a re-created (collected) scope must have been empty
            /\ viol' = Flag(Get(use, Cur.s) = Z, "recreate-nonempty")
            /\ UNCHANGED <<exp, pd>>
\* Done(): the scope's whole stat goes away with it
TrDestroy == /\ IsEvent("destroy") /\ Cur.s \in DOMAIN use
             /\ Apply(Cur.g, Cur.s, Z)
             /\ UNCHANGED <<lim, exp, viol>>

TrMem ==
  /\ IsEvent("mem") /\ Cur.s \in DOMAIN use
  /\ LET u == use[Cur.s]
         u1 == [u EXCEPT !.mem = Cur.v] IN
     CASE Cur.k = "res" ->
            /\ Apply(Cur.g, Cur.s, u1)
            \* granted: within limit*(1+prio)/256
            /\ viol' = Flag(u.mem + Cur.d = Cur.v /\ R!MemOK(u, Cur.d, lim[Cur.s], Cur.p),
                            IF u.mem + Cur.d = Cur.v THEN "granted-beyond-scaled-limit" ELSE "accounting")
       [] Cur.k = "blk" ->
            /\ UNCHANGED <<use, pd>>
            /\ viol' = Flag(u.mem = Cur.v /\ ~R!MemOK(u, Cur.d, lim[Cur.s], Cur.p),
                            IF u.mem = Cur.v THEN "refused-though-it-fits" ELSE "accounting")
       [] Cur.k = "rel" ->
            /\ Apply(Cur.g, Cur.s, u1)
            /\ viol' = Flag(u.mem + Cur.d = Cur.v, IF u.mem + Cur.d < 0 THEN "over-release" ELSE "accounting")
  /\ UNCHANGED <<lim, exp>>

TrStr ==
  /\ IsEvent("str") /\ Cur.s \in DOMAIN use
  /\ LET u == use[Cur.s]
         d == [Z EXCEPT !.si = Cur.d[1], !.so = Cur.d[2]]
         u1 == [u EXCEPT !.si = Cur.v[1], !.so = Cur.v[2]]
         acc == u.si + Cur.d[1] = Cur.v[1] /\ u.so + Cur.d[2] = Cur.v[2] IN
     CASE Cur.k = "res" ->
            /\ Apply(Cur.g, Cur.s, u1)
            /\ viol' = Flag(acc /\ R!StrOK(u, d, lim[Cur.s]), IF acc THEN "granted-beyond-limit" ELSE "accounting")
       [] Cur.k = "blk" ->
            /\ UNCHANGED <<use, pd>>
            /\ viol' = Flag(u.si = Cur.v[1] /\ u.so = Cur.v[2] /\ ~R!StrOK(u, d, lim[Cur.s]),
                            IF u.si = Cur.v[1] /\ u.so = Cur.v[2] THEN "refused-though-it-fits" ELSE "accounting")
       [] Cur.k = "rel" ->
            /\ Apply(Cur.g, Cur.s, u1)
            /\ viol' = Flag(acc, IF u.si + Cur.d[1] < 0 \/ u.so + Cur.d[2] < 0 THEN "over-release" ELSE "accounting")
  /\ UNCHANGED <<lim, exp>>

TrConn ==
  /\ IsEvent("conn") /\ Cur.s \in DOMAIN use
  /\ LET u == use[Cur.s]
         d == [Z EXCEPT !.ci = Cur.d[1], !.co = Cur.d[2], !.fd = Cur.d[3]]
         u1 == [u EXCEPT !.ci = Cur.v[1], !.co = Cur.v[2], !.fd = Cur.v[3]]
         acc == u.ci + Cur.d[1] = Cur.v[1] /\ u.co + Cur.d[2] = Cur.v[2] /\ u.fd + Cur.d[3] = Cur.v[3]
         same == u.ci = Cur.v[1] /\ u.co = Cur.v[2] /\ u.fd = Cur.v[3] IN
     CASE Cur.k = "res" ->
            /\ Apply(Cur.g, Cur.s, u1)
            /\ viol' = Flag(acc /\ R!ConnOK(u, d, lim[Cur.s]), IF acc THEN "granted-beyond-limit" ELSE "accounting")
       [] Cur.k = "blk" ->
            /\ UNCHANGED <<use, pd>>
            /\ viol' = Flag(same /\ ~R!ConnOK(u, d, lim[Cur.s]), IF same THEN "refused-though-it-fits" ELSE "accounting")
       [] Cur.k = "rel" ->
            /\ Apply(Cur.g, Cur.s, u1)
            /\ viol' = Flag(acc, IF u.ci + Cur.d[1] < 0 \/ u.co + Cur.d[2] < 0 \/ u.fd + Cur.d[3] < 0
                                 THEN "over-release" ELSE "accounting")
  /\ UNCHANGED <<lim, exp>>

\* a call of goroutine g returned; eff = the effect the statement wants it to have had
TrRet ==
  /\ IsEvent("ret")
  /\ pd' = Put(pd, Cur.g, <<>>)
  /\ exp' = IF Cur.err = "nil"
            THEN [s \in DOMAIN exp \cup (DOMAIN Cur.eff \ {"_"}) |->
                    IF s \in DOMAIN Cur.eff \ {"_"} THEN R!VAdd(Get(exp, s), Vec(Cur.eff[s])) ELSE exp[s]]
            ELSE exp
  /\ UNCHANGED <<use, lim, viol>>

\* Stat() read while no call is in flight
TrStat == /\ IsEvent("stat")
          /\ viol' = Flag(Get(use, Cur.s) = Vec(Cur.v) /\ \A g \in DOMAIN pd : pd[g] = <<>>, "stat-differs-from-accounting")
          /\ UNCHANGED <<use, lim, exp, pd>>
TrFinal == /\ IsEvent("final")
           /\ viol' = Flag(\A s \in DOMAIN use : use[s] = Z, "not-zero-at-the-end")
           /\ UNCHANGED <<use, lim, exp, pd>>

TraceNext == TrReset \/ TrCreate \/ TrDestroy \/ TrMem \/ TrStr \/ TrConn \/ TrRet \/ TrStat \/ TrFinal
TraceSpec == TraceInit /\ [][TraceNext]_tvars

RECURSIVE PdSum(_, _)
PdSum(G, s) == IF G = {} THEN Z ELSE LET g == CHOOSE y \in G : TRUE IN R!VAdd(Get(pd[g], s), PdSum(G \ {g}, s))
Sum == \A s \in DOMAIN use \cup DOMAIN exp : Get(use, s) = R!VAdd(Get(exp, s), PdSum(DOMAIN pd, s))
Bounds == \A s \in DOMAIN use : R!Within(use[s], lim[s])
StepAccounting == viol # "accounting" /\ viol # "over-release" /\ viol # "recreate-nonempty"
StepGrantRule == viol # "granted-beyond-scaled-limit" /\ viol # "granted-beyond-limit" /\ viol # "refused-though-it-fits"
StatEqual == viol # "stat-differs-from-accounting"
ZeroAtEnd == viol # "not-zero-at-the-end"

HighWater == TLCSet(1, IF l > TLCGet(1) THEN l ELSE TLCGet(1))
TraceAccepted == /\ PrintT(<<"VFHW", ToJson([hw |-> TLCGet(1), len |-> Len(TraceLog)])>>)
                 /\ TLCGet(1) = Len(TraceLog) + 1
=============================================================================
