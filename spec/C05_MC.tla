------------------------------ MODULE C05_MC ------------------------------
EXTENDS C05_Dial
\* Q: 2 callers, 3 addresses (ranks 0,0,1), per-peer cap 1, every outcome possible
Q_Callers == {"c1", "c2"}
Q_Addrs == {"a1", "a2", "a3"}
Q_Rank == ("a1" :> 0) @@ ("a2" :> 0) @@ ("a3" :> 1)
Q_Outs == [a \in Q_Addrs |-> {"ok", "fail"}]
Q_CAddrs == ("c1" :> {"a1", "a2", "a3"}) @@ ("c2" :> {"a2", "a3"})
Q_PerPeer == 1
Q_AllowClose == FALSE
\* T: 3 callers, 4 addresses, per-peer cap 2
T_Callers == {"c1", "c2", "c3"}
T_Addrs == {"a1", "a2", "a3", "a4"}
T_Rank == ("a1" :> 0) @@ ("a2" :> 0) @@ ("a3" :> 1) @@ ("a4" :> 2)
T_Outs == ("a1" :> {"fail"}) @@ ("a2" :> {"ok", "fail"}) @@ ("a3" :> {"ok", "fail"}) @@ ("a4" :> {"fail"})
T_CAddrs == ("c1" :> {"a1", "a2", "a3"}) @@ ("c2" :> {"a2", "a3", "a4"}) @@ ("c3" :> {"a1", "a4"})
T_PerPeer == 2
T_AllowClose == FALSE
\* U: like Q plus "the connection closes while the worker is alive": Usable is expected to fail
U_Callers == {"c1", "c2", "c3"}
U_Addrs == {"a1", "a2"}
U_Rank == ("a1" :> 0) @@ ("a2" :> 1)
U_Outs == ("a1" :> {"ok"}) @@ ("a2" :> {"fail"})
U_CAddrs == [c \in U_Callers |-> {"a1", "a2"}]
U_PerPeer == 2
U_AllowClose == TRUE
=============================================================================
