------------------------------- MODULE C11_MC -------------------------------
(* Bounded instances of C11_Relay for TLC.  The driver (checks/C11.py) instantiates the cfg    *)
(* template C11_MC.cfg: Topo picks the population of peers / connections / addresses, the     *)
(* numeric constants and the Faults / Features sets are rewritten per instance.                *)
EXTENDS C11_Relay, Json

CONSTANTS Topo,   \* "rsvp" | "asn" | "conn" | "data"
          ACLOn   \* the ACL refuses something (FALSE: everything is allowed)

\* link -> <<peer, address, Stat().Limited>>.  "relay": through an ordinary (limiting) relay; "relayu": through a
\* relay without limits (the connection is NOT flagged Limited although its address is a /p2p-circuit address)
MCTopo ==
  CASE Topo = "rsvp" -> [a1 |-> <<"p1", "ip1", FALSE>>, b1 |-> <<"p1", "ip2", FALSE>>, a2 |-> <<"p2", "ip2", FALSE>>,
                         a3 |-> <<"p3", "ip1", FALSE>>, r3 |-> <<"p3", "relay", TRUE>>, u3 |-> <<"p3", "relayu", FALSE>>]
    [] Topo = "asn"  -> [a1 |-> <<"p1", "v6a", FALSE>>, n1 |-> <<"p1", "noip", FALSE>>, a2 |-> <<"p2", "v6b", FALSE>>,
                         b2 |-> <<"p2", "v6c", FALSE>>, a3 |-> <<"p3", "v6a", FALSE>>, b3 |-> <<"p3", "v6n", FALSE>>]
    [] Topo = "conn" -> [a1 |-> <<"p1", "ip1", FALSE>>, r1 |-> <<"p1", "relay", TRUE>>, u1 |-> <<"p1", "relayu", FALSE>>,
                         a2 |-> <<"p2", "ip2", FALSE>>, b2 |-> <<"p2", "ip1", FALSE>>, a3 |-> <<"p3", "ip3", FALSE>>]
    [] Topo = "data" -> [a1 |-> <<"p1", "ip1", FALSE>>, a2 |-> <<"p2", "ip2", FALSE>>]

MCLinks == DOMAIN MCTopo
MCPeers == {MCTopo[l][1] : l \in MCLinks}
MCLinkPeer == [l \in MCLinks |-> MCTopo[l][1]]
MCLinkAddr == [l \in MCLinks |-> MCTopo[l][2]]
MCLinkLimited == [l \in MCLinks |-> MCTopo[l][3]]
MCIPs == {"ip1", "ip2", "ip3", "v6a", "v6b", "v6c", "v6n"}
\* v6a and v6b are addresses of one autonomous system, v6c of another, v6n (and every IPv4) of none
MCASNOf == [a \in MCIPs |-> CASE a \in {"v6a", "v6b"} -> 1 [] a = "v6c" -> 2 [] OTHER -> 0]

MCDenyReserve ==
  IF ~ACLOn THEN {}
  ELSE CASE Topo = "rsvp" -> {"b1"} \cap {}     \* the reservation instances keep the ACL open on b1 (refresh path)
         [] Topo = "asn"  -> {"b3"}
         [] Topo = "conn" -> {"b2"}
         [] Topo = "data" -> {"a1"}               \* only p2 reserves: the instance is about one circuit p1 -> p2
         [] OTHER -> {}
MCDenyConnect ==
  IF ~ACLOn THEN {}
  ELSE CASE Topo = "conn" -> {<<"a3", "p1">>}
         [] Topo = "rsvp" -> {<<"a2", "p3">>}
         [] OTHER -> {}

\* compact positional projection (printing is the bottleneck of the replay runs):
\* [up, closed, ph, rsvp, cons as peer -> <<rem, ip>>, circ, tagR, tagH, <<spans, msgs, sin, sout>>,
\*  att as slot -> <<st, src, dst, via, ab, t, f, r, fd, rd>>, gl]
StOf(u, cl, h, rs, co, ci, tr, th, sv, at, g) ==
  <<u, cl, h, rs, [p \in Peers |-> <<co[p].rem, co[p].ip>>], ci, tr, th, <<sv.spans, sv.msgs, sv.sin, sv.sout>>,
    [c \in Slots |-> <<at[c].st, at[c].src, at[c].dst, at[c].via, at[c].ab, at[c].t, at[c].f, at[c].r, at[c].fd, at[c].rd>>], g>>
St == StOf(up, closed, ph, rsvp, cons, circ, tagR, tagH, svc, att, gl)
StN == StOf(up', closed', ph', rsvp', cons', circ', tagR', tagH', svc', att', gl')
EmitEdge == PrintT(<<"VFEDGE", ToJson([s |-> St, op |-> op', t |-> StN])>>)
MCInit == Init /\ PrintT(<<"VFINIT", ToJson(St)>>)
       /\ PrintT(<<"VFCONF", ToJson([links |-> MCTopo, asn |-> MCASNOf, denyReserve |-> MCDenyReserve,
                                      denyConnect |-> MCDenyConnect])>>)
=============================================================================
