---------------------------- MODULE C02_MCPsk ----------------------------
EXTENDS C02_Psk, Json
St == << nsent, wn, Len(wire), rn, Len(delivered), under >>
EmitEdge == PrintT(<<"VFEDGE", ToJson([s |-> St, op |-> op', t |-> St'])>>)
Conf == [noncelen |-> NonceLen, maxsent |-> MaxSent, bufs |-> Bufs, shorts |-> Shorts]
MCInit == Init /\ PrintT(<<"VFINIT", ToJson(St)>>) /\ PrintT(<<"VFCONF", ToJson(Conf)>>)
=============================================================================
