---------------------------- MODULE C02_MCPsk ----------------------------
EXTENDS C02_Psk, Json
St == << nsent, wn, Len(wire), rn, Len(delivered), under, closed, rg, wg, eofd, wdead, reof, wr, nglitch >>
EmitEdge == PrintT(<<"VFEDGE", ToJson([s |-> St, op |-> op', t |-> St'])>>)
Conf == [noncelen |-> NonceLen, maxsent |-> MaxSent, bufs |-> Bufs, shorts |-> Shorts, glitches |-> Glitches]
MCInit == Init /\ PrintT(<<"VFINIT", ToJson(St)>>) /\ PrintT(<<"VFCONF", ToJson(Conf)>>)
=============================================================================
