SPECIFICATION TraceSpec
CONSTRAINT HighWater
POSTCONDITION TraceAccepted
CHECK_DEADLOCK FALSE
