----------------------------- MODULE C17_Async -----------------------------
(***************************************************************************)
(* C17, the asynchronous path of the observed-address manager:             *)
(*   identify event -> eventHandler -> o.wch (bounded FIFO, the event is   *)
(*   DROPPED when it is full) -> worker -> maybeRecordObservation.         *)
(* Connection closes do not travel through the queue: IsClosed becomes     *)
(* true (Mark) and the Disconnected notification runs removeConn (Remove)  *)
(* synchronously, so a close can overtake reports that are still queued    *)
(* and a report can be queued behind a close.                              *)
(*                                                                         *)
(* Enq(c, o)  an identify event for connection c with observed address o   *)
(* Work       the worker handles the head of the queue                     *)
(* Drain      the worker handles everything queued (= Work until empty);   *)
(*            this is what a replay can force: the worker is held, a burst *)
(*            is queued, the worker is released.                           *)
(* OldestWins = TRUE is the tempting batch variant "one report per         *)
(* connection and batch, the first one seen": TLC must find LatestReportQ  *)
(* violated for it.                                                        *)
(***************************************************************************)
EXTENDS C17_MC

CONSTANTS Cap,         \* capacity of o.wch (code: observedAddrManagerWorkerChannelSize)
          OldestWins

VARIABLES gone,   \* [Conns -> BOOLEAN]  removeConn has run
          wch,    \* Seq([c, o])         the worker channel
          last    \* ghost: [Conns -> Addrs \cup {None}] the last valid report of the connection that was accepted into the queue

avars == <<obs, open, ext, op, gone, wch, last>>
AView == <<obs, open, gone, wch, last>>
AViewNoGhost == <<obs, open, gone, wch>>

AInit == Init /\ gone = [c \in Conns |-> FALSE] /\ wch = <<>> /\ last = [c \in Conns |-> None]

AQuiescentH(q, opn, gn) == q = <<>> /\ \A c \in Conns : ~opn[c] => gn[c]
AQuiescent == AQuiescentH(wch, open, gone)

Valid(c, o) == Listening(c) /\ o \in Addrs
CreditH(ob, opn, c, o) == IF opn[c] /\ Valid(c, o) THEN [ob EXCEPT ![c] = o] ELSE ob
RECURSIVE Fold(_, _, _)
Fold(ob, opn, q) == IF q = <<>> THEN ob ELSE Fold(CreditH(ob, opn, Head(q).c, Head(q).o), opn, Tail(q))
RECURSIVE Dedupe(_, _)
Dedupe(q, seen) == IF q = <<>> THEN <<>>
                   ELSE IF Head(q).c \in seen THEN Dedupe(Tail(q), seen)
                   ELSE <<Head(q)>> \o Dedupe(Tail(q), seen \cup {Head(q).c})

AOut(args) == args @@ [q |-> AQuiescentH(wch', open', gone'), qlen |-> Len(wch'),
                       exp |-> IF Emit THEN ExpH(obs', open', {}) ELSE <<>>, obs |-> obs']

Enq(c, o) ==
  LET acc == Len(wch) < Cap IN
  /\ wch' = IF acc THEN Append(wch, [c |-> c, o |-> o]) ELSE wch
  /\ last' = IF acc /\ Valid(c, o) THEN [last EXCEPT ![c] = o] ELSE last
  /\ UNCHANGED <<obs, open, ext, gone>>
  /\ op' = AOut([name |-> "emit", c |-> c, o |-> o, acc |-> acc])

Work ==
  /\ wch # <<>>
  /\ obs' = CreditH(obs, open, Head(wch).c, Head(wch).o)
  /\ wch' = Tail(wch)
  /\ UNCHANGED <<open, ext, gone, last>>
  /\ op' = AOut([name |-> "work", c |-> Head(wch).c, o |-> Head(wch).o])

Drain ==
  /\ wch # <<>>
  /\ obs' = Fold(obs, open, IF OldestWins THEN Dedupe(wch, {}) ELSE wch)
  /\ wch' = <<>>
  /\ UNCHANGED <<open, ext, gone, last>>
  /\ op' = AOut([name |-> "drain", n |-> Len(wch)])

AMark(c) ==
  /\ open[c]
  /\ open' = [open EXCEPT ![c] = FALSE]
  /\ UNCHANGED <<obs, ext, gone, wch, last>>
  /\ op' = AOut([name |-> "mark", c |-> c])

ARemove(c) ==
  /\ ~open[c] /\ ~gone[c]
  /\ gone' = [gone EXCEPT ![c] = TRUE]
  /\ obs' = [obs EXCEPT ![c] = None]
  /\ UNCHANGED <<open, ext, wch, last>>
  /\ op' = AOut([name |-> "remove", c |-> c])

Env == \/ \E c \in Conns, o \in Addrs \cup Specials : Enq(c, o)
       \/ \E c \in Conns : AMark(c) \/ ARemove(c)
ANextAll == Env \/ Work \/ Drain        \* exhaustive check: every interleaving of the worker with its environment
\* replay graph: what the harness can force deterministically; emits into a FULL queue (self-loops) only
\* with one representative report per connection, to keep the printed graph small
EnvBurst == \/ \E c \in Conns, o \in Addrs \cup Specials :
                  (Len(wch) < Cap \/ o = AddrSeq[Len(AddrSeq)]) /\ Enq(c, o)
            \/ \E c \in Conns : AMark(c) \/ ARemove(c)
ANextBurst == EnvBurst \/ Drain

ATypeOK == /\ obs \in [Conns -> Addrs \cup {None}] /\ open \in [Conns -> BOOLEAN] /\ gone \in [Conns -> BOOLEAN]
           /\ Len(wch) <= Cap /\ \A c \in Conns : gone[c] => ~open[c]

\* at quiescence every credited observation belongs to an open connection that arrived at a listen address ...
CreditOnlyOpenQA == AQuiescent => \A c \in Conns : obs[c] # None => open[c] /\ Listening(c)
\* ... and it is the connection's LATEST accepted report ("a connection's report is withdrawn when it changes")
LatestReportQ == AQuiescent => \A c \in Conns : open[c] /\ Listening(c) => obs[c] = last[c]
NoCreditAfterCloseA == [][\A c \in Conns : ~open[c] /\ obs'[c] # None => obs'[c] = obs[c]]_avars

\* vacuity guards (expected to be violated)
ReachFull == Len(wch) < Cap
ReachTwoOfOneConn == \A i, j \in 1..Len(wch) : i # j => wch[i].c # wch[j].c

ASt == [obs |-> obs, open |-> open, gone |-> gone, wch |-> wch]
AEmitEdge == PrintT(<<"VFEDGE", ToJson([s |-> ASt, op |-> op', t |-> ASt'])>>)
AMCInit == /\ AInit
           /\ PrintT(<<"VFINIT", ToJson(ASt)>>)
           /\ PrintT(<<"VFINST", ToJson([inst |-> Inst, thresh |-> Thresh, maxtop |-> MaxTop, locals |-> Locals,
                                          addrs |-> AddrSeq, specials |-> Specials, localOf |-> LocalOf,
                                          remoteOf |-> RemoteOf, groupOf |-> GroupOf, cap |-> Cap])>>)
=============================================================================
