\* Template: X_ is replaced by A_, B_ or C_ by checks/C15.py
CONSTANTS
  Types <- X_Types
  Stateful <- X_Stateful
  Emitters <- X_Emitters
  ETyp <- X_ETyp
  NEv <- X_NEv
  Subs <- X_Subs
  STyps <- X_STyps
  WSubs <- X_WSubs
  Cap <- X_Cap
  CheckCap = TRUE
  LateEm <- X_LateEm
  DropTrustsCaller = FALSE
SPECIFICATION Spec
INVARIANTS NoPanic Order ExactlyOnce OnlyAsked StatefulFirst ClosedDetached LocksSane
