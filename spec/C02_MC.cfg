\* Template: checks/C02.py instantiates the constants for every bounded instance of the Noise channel.
CONSTANTS
  Tag = 2
  MaxPT = 3
  MaxSent = 10
  MaxWrite = 10
  Bufs = {1, 2, 3, 4, 5, 6}
  Shorts = {0, 1, 2}
  Faults = {"flip", "fliplen", "drop", "dup", "swap", "cut", "cuteof", "trunc"}
  MaxFaults = 1
  Others = {"rev", "peer"}
  Glitches = {"dataerr", "temperr", "shortwrite", "refusewrite"}
INIT Init
NEXT Next
VIEW View
INVARIANTS TypeOK Prefix Complete Conservation Nonces ErrNoLater NeverPast
PROPERTIES ErrDeliversNothing ReadCount PathGuard
