--------------------------- MODULE C02_Sampled ---------------------------
(***************************************************************************)
(* Layer instance of the C02 channel family: wrappedSampledConn            *)
(* (p2p/transport/tcpreuse/internal/sampledconn).  The constructor takes   *)
(* PeekSize bytes off the connection with io.ReadFull (short reads         *)
(* absorbed; fewer bytes then EOF: error) and Read replays them first -    *)
(* also when the caller's buffer is shorter than what is left of them -    *)
(* before it passes reads of the underlying connection through.            *)
(***************************************************************************)
EXTENDS Naturals, Sequences, TLC

CONSTANTS PeekSize, MaxSent, MaxWrite, Bufs, Shorts,
          Glitches     \* subset of {"dataerr", "temperr", "eofdata"}: what io.Reader allows besides short reads

VARIABLES nsent, wire, closed, made, peeked, np, delivered, eof, under,
          rg,       \* armed one-shot read glitch: "none", "dataerr" (bytes + timeout), "temperr" (error first)
          eofd,     \* the last bytes come together with io.EOF
          nglitch, op
vars == <<nsent, wire, closed, made, peeked, np, delivered, eof, under, rg, eofd, nglitch, op>>
View == <<nsent, wire, closed, made, peeked, np, delivered, eof, under, rg, eofd, nglitch>>

Min(a, b) == IF a < b THEN a ELSE b
Sent == [i \in 1..nsent |-> i]
IsPrefix(s, t) == Len(s) <= Len(t) /\ \A i \in 1..Len(s) : s[i] = t[i]

Init == /\ nsent = 0 /\ wire = <<>> /\ closed = FALSE /\ made = "no" /\ peeked = <<>> /\ np = 0
        /\ delivered = <<>> /\ eof = FALSE /\ under = 0 /\ rg = "none" /\ eofd = FALSE /\ nglitch = 0
        /\ op = [name |-> "init"]

\* the remote end writes / closes
Send(k) == /\ ~closed /\ nsent + k <= MaxSent
           /\ wire' = wire \o [i \in 1..k |-> nsent + i] /\ nsent' = nsent + k
           /\ op' = [name |-> "send", k |-> k]
           /\ UNCHANGED <<closed, made, peeked, np, delivered, eof, under, rg, eofd, nglitch>>
Close == /\ ~closed /\ closed' = TRUE /\ op' = [name |-> "close"]
         /\ UNCHANGED <<nsent, wire, made, peeked, np, delivered, eof, under, rg, eofd, nglitch>>

\* newWrappedSampledConn: io.ReadFull of PeekSize bytes
Peek ==
  /\ made = "no"
  /\ \/ /\ Len(wire) >= PeekSize
        /\ made' = "ok" /\ peeked' = SubSeq(wire, 1, PeekSize) /\ wire' = SubSeq(wire, PeekSize + 1, Len(wire))
        /\ op' = [name |-> "peek", ok |-> TRUE, got |-> PeekSize]
     \/ /\ Len(wire) < PeekSize /\ closed
        /\ made' = "err" /\ peeked' = wire /\ wire' = <<>>
        /\ op' = [name |-> "peek", ok |-> FALSE, got |-> Len(wire)]
  /\ UNCHANGED <<nsent, closed, np, delivered, eof, under, rg, eofd, nglitch>>

Rel(b, avail) == IF b = 0 THEN "zero" ELSE IF b < avail THEN "lt" ELSE IF b = avail THEN "eq" ELSE "gt"
Cap(avail, b) == IF under = 0 THEN Min(b, avail) ELSE Min(Min(b, avail), under)

Read(b) ==
  /\ made = "ok" /\ ~eof
  /\ \/ /\ np # PeekSize                          \* replay, never mixed with an underlying read
        /\ LET red == Min(b, PeekSize - np) IN
             /\ delivered' = delivered \o SubSeq(peeked, np + 1, np + red)
             /\ np' = np + red
             /\ op' = [name |-> "read", b |-> b, n |-> red, from |-> "peeked", eof |-> FALSE, glitch |-> "none",
                       avail |-> PeekSize - np, rel |-> Rel(b, PeekSize - np), left |-> PeekSize - np - red]
        /\ UNCHANGED <<wire, eof, rg>>
     \/ /\ np = PeekSize /\ wire # <<>>            \* passed through, with whatever error comes along
        /\ LET temp == rg = "temperr" /\ b > 0
               n == IF temp THEN 0 ELSE Cap(Len(wire), b)
               derr == rg = "dataerr" /\ n > 0
               last == closed /\ eofd /\ n > 0 /\ n = Len(wire)
           IN /\ delivered' = delivered \o SubSeq(wire, 1, n)
              /\ wire' = SubSeq(wire, n + 1, Len(wire))
              /\ rg' = IF temp \/ derr THEN "none" ELSE rg
              /\ eof' = last
              /\ op' = [name |-> "read", b |-> b, n |-> n, from |-> "conn", eof |-> last,
                        glitch |-> IF temp THEN "temperr" ELSE IF derr THEN "dataerr" ELSE "none",
                        avail |-> Len(wire), rel |-> Rel(b, Len(wire)), left |-> Len(wire) - n]
        /\ UNCHANGED <<np>>
     \/ /\ np = PeekSize /\ wire = <<>> /\ closed
        /\ eof' = TRUE
        /\ op' = [name |-> "read", b |-> b, n |-> 0, from |-> "conn", eof |-> TRUE, glitch |-> "none", avail |-> 0,
                  rel |-> "any", left |-> 0]
        /\ UNCHANGED <<np, wire, delivered, rg>>
  /\ UNCHANGED <<nsent, closed, made, peeked, under, eofd, nglitch>>

\* a glitch of the underlying connection is armed (one per behaviour; the one-shot kinds once the sample is taken)
Glitch(kind) ==
  /\ kind \in Glitches /\ nglitch = 0 /\ ~eof
  /\ \/ kind \in {"dataerr", "temperr"} /\ made = "ok" /\ rg' = kind /\ eofd' = eofd
     \/ kind = "eofdata" /\ ~closed /\ eofd' = TRUE /\ rg' = rg
  /\ nglitch' = 1
  /\ op' = [name |-> "glitch", kind |-> kind]
  /\ UNCHANGED <<nsent, wire, closed, made, peeked, np, delivered, eof, under>>

Short(k) == /\ k # under /\ under' = k /\ op' = [name |-> "short", k |-> k]
            /\ UNCHANGED <<nsent, wire, closed, made, peeked, np, delivered, eof, rg, eofd, nglitch>>

Next == \/ \E k \in 1..MaxWrite : Send(k)
        \/ Close \/ Peek
        \/ \E b \in Bufs : Read(b)
        \/ \E k \in Shorts : Short(k)
        \/ \E kind \in Glitches : Glitch(kind)

TypeOK == np \in 0..PeekSize /\ Len(peeked) <= PeekSize /\ made \in {"no", "ok", "err"}
Prefix == IsPrefix(delivered, Sent)
PeekedAreFirst == made = "ok" => peeked = SubSeq(Sent, 1, PeekSize)
\* nothing is lost between the peeked bytes and the stream: what was replayed, what is still to replay and
\* what is in flight make up the payload
Conservation == made = "ok" => delivered \o SubSeq(peeked, Min(np, Len(delivered)) + 1, PeekSize) \o wire = Sent
EofOnlyAtEnd == eof => delivered = Sent
=============================================================================
