------------------------------ MODULE C10_MC ------------------------------
EXTENDS C10_Gater, Json

CONSTANTS EPs      \* names of the endpoints used by this instance (keys of EndpointTable)

\* The fixed naming shared with the harness (its scale map gives the concrete values):
\*   i0 = 126.255.255.255  i1 = 127.0.0.1  i2 = 127.0.0.2  i3 = 127.0.0.3  i4 = 127.0.0.4
\*   i8 = 127.255.255.255  i9 = 128.0.0.0  j0 = 127.0.0.0   i6 = ::1   i7 = ::2   i5 = ::
\*   a2 = 127.0.0.2   a6 = ::1   n31 = 127.0.0.2/31   n32 = 127.0.0.3/32   n8 = 127.0.0.0/8   n128 = ::1/128   n0 = ::/0
\*   n31h = 127.0.0.3/31 and n8h = 127.0.0.2/8: the subnets n31 / n8 given with host bits set (same rule: Canon)
MatchAll == [a2 |-> {"i2"}, a6 |-> {"i6"}, n31 |-> {"i2", "i3"}, n32 |-> {"i3"},
             n8 |-> {"j0", "i1", "i2", "i3", "i4", "i8"}, n128 |-> {"i6"},
             n31h |-> {"i2", "i3"}, n8h |-> {"j0", "i1", "i2", "i3", "i4", "i8"}, n0 |-> {"i5", "i6", "i7"}]
MCMatch == [r \in IPRules |-> MatchAll[r]]
CanonAll == [n31h |-> "n31", n8h |-> "n8"]
MCCanon == [r \in Rules |-> IF r \in DOMAIN CanonAll THEN CanonAll[r] ELSE r]

EndpointTable == [e22 |-> <<"p2", "i2">>, e33 |-> <<"p3", "i3">>, e66 |-> <<"p6", "i6">>,
                  e23 |-> <<"p2", "i3">>, e24 |-> <<"p2", "i4">>, e32 |-> <<"p3", "i2">>]
MCEndpoints == {EndpointTable[n] : n \in EPs}

\* replay graphs leave the ghosts (must, att.cont) out of the state identity: the harness keeps its own
\* ledger of returned calls and of the rules obliged throughout an attempt
CallSt == <<call.kind, call.r, call.pc>>
AttSt == <<att.dir, att.peer, att.ip, att.tpt, att.k, att.pre, att.opt>>
St == <<mem, disk, up, CallSt, AttSt, Shown>>
ViewNoGhost == <<mem, disk, up, CallSt, AttSt>>
EmitEdge == PrintT(<<"VFEDGE", ToJson([s |-> St, op |-> op', t |-> St'])>>)
Conf == [match |-> MCMatch, canon |-> MCCanon, peers |-> PeerRules, addrs |-> AddrRules, subnets |-> SubnetRules,
         endpoints |-> MCEndpoints, exclusive |-> Exclusive, faults |-> Faults, pres |-> Pres, opts |-> Opts,
         tpts |-> Tpts]
MCInit == Init /\ PrintT(<<"VFINIT", ToJson(St)>>) /\ PrintT(<<"VFCONF", ToJson(Conf)>>)
=============================================================================
