\* Template: checks/C13.py instantiates the constants for every bounded instance.
CONSTANTS
  Conns = {"c1", "c2"}
  RC1 = "pub"
  RC2 = "priv"
  MsgSet = "addr"
  MaxProtos = 1024
  MaxAddrs = 500
  RecentMax = 20
  PsMaxProtos = 4096
  PsMaxAddrs = 64
  FailKinds = {"reset", "na", "oversize", "toomany", "garbage"}
  PushFailKinds = {"oversize", "toomany", "garbage", "reset"}
  StallPoints = {"neg0", "neg1", "neg2", "mid"}
  PushStallPoints = {"start", "mid"}
  RClass <- MCRClass
  Msgs <- MCMsgs
INIT Init
NEXT Next
VIEW View
INVARIANTS TypeOK OnlyRemote KeyMatches Caps TTL EntriesGone
PROPERTIES RecentCap KeepsConn RecordOnlyValid RejectedLate FailInert
