\* Template: checks/C05lim.py instantiates Inst, FdLimit, PerPeer, LoopGuard, SPECIFICATION/NEXT.
CONSTANTS
  Inst = "two"
  FdLimit = 1
  PerPeer = 1
  LoopGuard = TRUE
  Jobs <- MCJobs
  PeerOf <- MCPeerOf
  Fd <- MCFd
  CtxOf <- MCCtxOf
SPECIFICATION Spec
VIEW View
INVARIANTS TypeOK FdCap PeerCap FdExact PeerExact WorkConservingFd WorkConservingPeer Rest InFlightCaps
PROPERTIES Served
CHECK_DEADLOCK FALSE
