CONSTANTS
  Callers <- X_Callers
  Allow <- X_Allow
  ConnIds <- X_ConnIds
  Lim <- X_Lim
SPECIFICATION FairSpec
INVARIANTS NoStreamOnLimitedUnlessAllowed WaitersExact NoResidue
PROPERTIES EveryCallEnds
CHECK_DEADLOCK FALSE
