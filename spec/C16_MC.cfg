\* Template: checks/C16.py instantiates the constants for every bounded instance of the rate limiter.
CONSTANTS
  Peers = {"p1", "p2"}
  RPM = 2
  PerPeerRPM = 1
  DialDataRPM = 1
  MaxConc = 1
  W = 3
  DoubleRelease = FALSE
INIT Init
NEXT Next
VIEW View
INVARIANTS TypeOK WindowGlobal WindowPeer WindowDialData ConcurrentCap Consistency
PROPERTIES RefusalJustified
