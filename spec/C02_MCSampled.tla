-------------------------- MODULE C02_MCSampled --------------------------
EXTENDS C02_Sampled, Json
St == << nsent, Len(wire), closed, made, np, Len(delivered), eof, under, rg, eofd, nglitch >>
EmitEdge == PrintT(<<"VFEDGE", ToJson([s |-> St, op |-> op', t |-> St'])>>)
Conf == [peek |-> PeekSize, maxsent |-> MaxSent, bufs |-> Bufs, shorts |-> Shorts, glitches |-> Glitches]
MCInit == Init /\ PrintT(<<"VFINIT", ToJson(St)>>) /\ PrintT(<<"VFCONF", ToJson(Conf)>>)
=============================================================================
