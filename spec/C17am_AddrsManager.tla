------------------------ MODULE C17am_AddrsManager ------------------------
(***************************************************************************)
(* Extension engine of C17: the CONSUMER of the observed-address manager.  *)
(* Component: p2p/host/basic/addrs_manager.go (addrsManager) with the      *)
(* reachability tracker of addrs_reachability_tracker.go as one of its     *)
(* inputs.  C17 proper says which addresses the observed-address manager   *)
(* reports; this module says what the host then ADVERTISES: how Addrs(),   *)
(* DirectAddrs(), ConfirmedAddrs(), HolePunchAddrs(), the event            *)
(* EvtLocalAddressesUpdated and the host's own peerstore entry / signed    *)
(* peer record are computed from                                           *)
(*   - the listen addresses of the network (stub `listenAddrs`),           *)
(*   - the interface addresses (for unspecified listen addresses),         *)
(*   - the NAT manager's mappings (GetMapping per listen address),         *)
(*   - the observed-address manager (AddrsFor per listen / resolved        *)
(*     address, Addrs(1) for hole punching),                               *)
(*   - autorelay's relay addresses (EvtAutoRelayAddrsUpdated),             *)
(*   - autonat v1 reachability (EvtLocalReachabilityChanged) or, with      *)
(*     autonat v2, the reachability tracker's confirmed sets,              *)
(*   - the user's AddrsFactory,                                            *)
(* and WHEN: the `background` loop recomputes on a 5 s ticker, on a        *)
(* synchronous notification (Listen / ListenClose / Start), on a relay or  *)
(* reachability event and when the tracker signals a change.               *)
(*                                                                         *)
(* STATEMENT (derived from the code, its comments and addrs_manager_test)  *)
(*                                                                         *)
(*  A1 observed-sound: an address is in DirectAddrs() only if, in the      *)
(*     update that produced the list, it is (a) a listen address the       *)
(*     network reported (an unspecified one replaced by its interface      *)
(*     addresses), (b) the NAT manager's answer for such a listen address, *)
(*     or (c) among the FIRST THREE addresses AddrsFor answered for such a *)
(*     listen address or one of its interface resolutions.  Never an       *)
(*     address the observed-address manager did not report, never for a    *)
(*     listen address the network no longer reports.                       *)
(*  A2 cap / junk: at most maxObservedAddrsPerListenAddr = 3 addresses per *)
(*     AddrsFor answer; no duplicates; never the bare /p2p-circuit, never  *)
(*     an unspecified address (also when the NAT manager answers one).     *)
(*  A3 complete: every specific or resolved listen address, every NAT      *)
(*     answer and the first three observed addresses of every answer ARE   *)
(*     in DirectAddrs() (observed addresses complement, they never replace *)
(*     a listen / NAT address in this version of the code).                *)
(*  A4 relay / reachability.  Without the tracker (autonat v1): the        *)
(*     dialable list is DirectAddrs, except when the last processed        *)
(*     reachability is Private AND the last processed relay set is not     *)
(*     empty: then the public direct addresses are left out and the relay  *)
(*     addresses are added.  With the tracker (autonat v2): confirmed      *)
(*     UNREACHABLE addresses are left out, and the relay addresses are     *)
(*     added iff NO address is confirmed reachable.  ConfirmedAddrs() only *)
(*     ever holds current direct addresses.                                *)
(*  A5 factory: the AddrsFactory is given exactly that dialable list, and  *)
(*     Addrs() is its answer (as a set, duplicates removed).               *)
(*     HolePunchAddrs() = the public ones among factory(DirectAddrs) and   *)
(*     observedAddrsManager.Addrs(1).                                      *)
(*  A6 events: EvtLocalAddressesUpdated is emitted exactly when the        *)
(*     advertised list (factory output) of an update differs from that of  *)
(*     the previous update; Current = the new list (Added = new \ old,     *)
(*     Maintained = the rest), Removed = old \ new; the host's peerstore   *)
(*     entry and signed peer record are rewritten exactly then and hold    *)
(*     the new list (only its public / non-IP part with                    *)
(*     DisableNonPublicAddrPublishing).  EvtHostReachableAddrsChanged is   *)
(*     emitted exactly when a confirmed set changed; the tracker is told   *)
(*     the new direct addresses exactly when they changed (it probes only  *)
(*     public direct addresses the host has at that time).  The peerstore  *)
(*     keeps no record for an empty list (the event then carries none).    *)
(*     The record is meant to stay below maxPeerRecordSize = identify's    *)
(*     8 KiB read limit; it does NOT with many addresses (finding          *)
(*     am-signed-record-over-identify-limit, scenario test).               *)
(*  A7 fresh: an update that runs without its inputs changing meanwhile    *)
(*     leaves DirectAddrs() / the advertised list equal to the function of *)
(*     the CURRENT inputs; a notification (Listen, Start) returns only     *)
(*     after such an update has been stored.  Before Start nothing is      *)
(*     computed and notifications return at once.                          *)
(*  A8 Close: cancels the loop, closes the NAT manager and the tracker;    *)
(*     returns only after the loop has gone (an update in progress is      *)
(*     finished and published first); afterwards no input is read, no      *)
(*     event emitted, the cached lists stay, notifications return at once. *)
(*  A9 eventually (liveness): while the manager runs, every change of an   *)
(*     input is reflected by an update (the ticker guarantees a trigger).  *)
(*  A10 (checked by the harness only) a list a public call has handed out  *)
(*     is never written to afterwards; every /webtransport address handed  *)
(*     out (listen, observed, from the factory) carries the certhash       *)
(*     addCertHashes adds (the names of this module are certhash-agnostic).*)
(*                                                                         *)
(* As coded, modelled as such: Addrs() re-evaluates reachability and the   *)
(* factory at call time on the lists CACHED by the last update, so between *)
(* the processing of a reachability event and the end of its update Addrs()*)
(* already uses the new reachability with the old relay set; the reads of  *)
(* one update are not atomic (an answer may be newer than an earlier one). *)
(* A notification racing with Close may leave a token the loop may still   *)
(* serve before it sees the cancellation (Go's select is random).          *)
(*                                                                         *)
(* STRUCTURE: environment actions change inputs / publish events / call    *)
(* Start, Close, notify; one action per case of the loop's select (Take*,  *)
(* Exit); with Split = TRUE every stub read of an update (GetMapping,      *)
(* AddrsFor, then the factory call = Commit) is a step of its own, so TLC  *)
(* owns the interleavings of the environment with an update in progress.   *)
(* The tracker is modelled by its confirmed sets: new public direct        *)
(* addresses are `unknown` until the probe run one second later, confirmed *)
(* ones are re-probed after an hour (action Hour).                         *)
(***************************************************************************)
EXTENDS Naturals, Sequences, FiniteSets, TLC

CONSTANTS
  ListenPool,    \* listen addresses the environment opens / closes
  InitListen,    \* listen addresses open at the beginning (those outside ListenPool stay open)
  NatKeys,       \* listen addresses whose NAT mapping changes
  NatChoices,    \* answers of GetMapping ("-" = no mapping)
  ObsKeys,       \* local addresses whose AddrsFor answer changes
  ObsChoices,    \* answers of AddrsFor: names of sequences of the catalogue ObsCat
  RelayChoices,  \* relay-address sets autorelay publishes
  ReachChoices,  \* reachability values autonat v1 publishes
  FModes,        \* behaviours of the AddrsFactory; the first state uses "id"
  Tracker,       \* an autonat v2 client is configured (reachability tracker in use)
  HasNAT, HasObs,\* a NAT manager / an observed-address manager is configured
  PubOnly,       \* DisableNonPublicAddrPublishing
  Split,         \* every stub read of an update is a step of its own
  StartFirst,    \* bound: the environment moves only after Start has returned (FALSE: Start at any moment)
  MaxClose,      \* bound: 0 = Close is never called
  MaxEnv,        \* bound: changes of inputs + published events
  MaxNotify,     \* bound: notification calls
  MaxTime,       \* bound: 5 s steps of the clock (0: unbounded, for liveness)
  MaxHour        \* bound: 70 min steps of the clock (tracker only)

(* ---- the address universe: fixed names; the harness maps every name to families of multiaddrs ---- *)
UnspecA  == {"Lun", "Lun6", "Nun"}                 \* unspecified IP (0.0.0.0 / ::)
CircuitA == {"Lcirc"}                              \* the bare /p2p-circuit listen address
PubA     == {"Lpub", "Ri2", "Npub", "O1", "O2", "O3", "O4", "O5", "F1", "Rel1"}   \* manet.IsPublicAddr
NoIPA    == {"Rel2", "Lcirc"}                      \* no IP / DNS component in front
LOrder   == <<"Lpriv", "Lpub", "Lun", "Lun6", "Lcirc">>     \* order in which the network reports listen addresses
\* interface resolution of a listen address: two interfaces (private Ri1, public Ri2), none for ip6
ResSeq(l) == IF l = "Lun" THEN <<"Ri1", "Ri2">> ELSE IF l = "Lun6" THEN <<>> ELSE <<l>>
AllListen == ListenPool \cup InitListen
LocalU == AllListen \cup {"Ri1", "Ri2"}            \* what AddrsFor may be asked about

ASSUME AllListen \subseteq {LOrder[i] : i \in 1..Len(LOrder)}
\* catalogue of AddrsFor answers (most-observed first); "e" = nothing observed
ObsCat == [e |-> <<>>, a |-> <<"O1">>, b |-> <<"O2", "O1">>, c |-> <<"O1", "O2", "O3", "O4">>,
           d |-> <<"O4", "O3", "O2", "O1", "O5">>, n |-> <<"Npub", "O1">>, l |-> <<"Lpub", "O2">>, p |-> <<"Npriv", "O3">>]
ASSUME NatKeys \subseteq AllListen /\ ObsKeys \subseteq LocalU /\ "-" \in NatChoices
ASSUME "e" \in ObsChoices /\ ObsChoices \subseteq DOMAIN ObsCat
ASSUME "id" \in FModes

VARIABLES
  listen, nat, obs, fmode,          \* inputs read through the stubs
  relayQ, reachQ,                   \* events waiting in the manager's two subscriptions (before Start: the stateful last one)
  notify,                           \* tokens of notification calls not yet served
  tickReady,                        \* a tick waits in ticker.C
  reachTrig,                        \* the tracker's signal waits in triggerReachabilityUpdate
  pc,                               \* "off" | "init" (goroutine started, before its first reads) | "idle" (at the select)
                                    \* | "upd" (Split only: inside updateAddrs) | "exited"
  startWait, closeCalled, closeWait,\* Start / Close called and not returned
  hostReach, relayLoop,             \* what the loop has taken from the two subscriptions
  cur,                              \* the lists stored by the last update
  ls, k, acc, trig,                 \* update in progress: listen snapshot, next read, answers so far, what triggered it
  trkR, trkU, trkK, probeDue,       \* tracker: confirmed reachable / unreachable / unknown; probe run scheduled
  nenv, ntime, nhour, nnotify,      \* bounds
  dirty,                            \* ghost: an input changed since the beginning of the last update
  op                                \* output only

inputs == <<listen, nat, obs, fmode>>
chans  == <<relayQ, reachQ, notify, tickReady, reachTrig>>
life   == <<pc, startWait, closeCalled, closeWait>>
mgr    == <<hostReach, relayLoop, cur, ls, k, acc, trig>>
trk    == <<trkR, trkU, trkK, probeDue>>
cnt    == <<nenv, ntime, nhour, nnotify>>
vars   == <<inputs, chans, life, mgr, trk, cnt, dirty, op>>
View   == <<inputs, chans, life, mgr, trk, cnt, dirty>>

Min(a, b) == IF a < b THEN a ELSE b
Range(s) == {s[i] : i \in 1..Len(s)}
First3(s) == {s[i] : i \in 1..Min(3, Len(s))}
RECURSIVE Flat(_)
Flat(ss) == IF ss = <<>> THEN <<>> ELSE Head(ss) \o Flat(Tail(ss))

LSeq(l) == SelectSeq(LOrder, LAMBDA x : x \in l)
RSeq(l) == Flat([i \in 1..Len(LSeq(l)) |-> ResSeq(LSeq(l)[i])])
ResolveSet(l) == Range(RSeq(l))
Clean(S) == {a \in S : a \notin UnspecA /\ a \notin CircuitA}

\* the stub reads of one update, in the order the code makes them (none at all without listen addresses)
Plan(l) ==
  IF l = {} THEN <<>> ELSE
    (IF HasNAT THEN [i \in 1..Len(LSeq(l)) |-> [kind |-> "nat", key |-> LSeq(l)[i]]] ELSE <<>>)
    \o (IF HasObs THEN [i \in 1..Len(LSeq(l)) |-> [kind |-> "obs", key |-> LSeq(l)[i]]]
                       \o [i \in 1..Len(RSeq(l)) |-> [kind |-> "obs", key |-> RSeq(l)[i]]]
                  ELSE <<>>)
\* the answer of read r NOW (set of addresses that enter the list)
ObsSeq(x) == ObsCat[obs[x]]
ReadRes(r) == IF r.kind = "nat" THEN (IF nat[r.key] = "-" THEN {} ELSE {nat[r.key]}) ELSE First3(ObsSeq(r.key))
\* acc holds records [a, i]: address a entered through read number i of the plan
AccOf(l, i) == {[a |-> x, i |-> i] : x \in ReadRes(Plan(l)[i])}
AccAll(l) == UNION {AccOf(l, i) : i \in 1..Len(Plan(l))}
AccAddrs(ac) == {j.a : j \in ac}

LocalOf(l, ac) == IF l = {} THEN {} ELSE Clean(ResolveSet(l) \cup AccAddrs(ac))
Dialable(local, r, u, relay, rch) ==
  IF Tracker THEN (local \ u) \cup (IF r = {} THEN relay ELSE {})
  ELSE IF relay # {} /\ rch = "private" THEN {a \in local : a \notin PubA} \cup relay ELSE local
Fact(m, S) == CASE m = "id" -> S
                [] m = "dup" -> S                          \* answers every address twice
                [] m = "droppub" -> {a \in S : a \notin PubA}
                [] m = "add" -> S \cup {"F1"}              \* announces one more address
                [] m = "const" -> {"F1"}                   \* ignores what it is given (its own slice, always the same)
                [] m = "none" -> {}
Published(S) == IF PubOnly THEN {a \in S : a \in PubA \/ a \in NoIPA} ELSE S
ObsAll == UNION {Range(ObsSeq(x)) : x \in LocalU}

\* what the public calls answer NOW (they use the cached lists, the current reachability and the current factory)
AddrsNow == Fact(fmode, Dialable(cur.local, cur.r, cur.u, cur.relay, hostReach))
HPNow == {a \in Fact(fmode, cur.local) \cup (IF HasObs THEN ObsAll ELSE {}) : a \in PubA}
LocalNow == LocalOf(listen, AccAll(listen))

Running == pc \in {"init", "idle", "upd"}
\* callers of updateAddrsSync (other than Start) that have not returned: one per token and one for the update being made
\* for a token; the cancelled context releases them all
NotifyWaiting == IF closeCalled THEN 0
                 ELSE (notify + (IF pc = "upd" /\ trig = "notify" THEN 1 ELSE 0)) - (IF startWait THEN 1 ELSE 0)
Empty == [local |-> {}, r |-> {}, u |-> {}, k |-> {}, relay |-> {}, addrs |-> {}, dial |-> {}, hr |-> "unknown", ls |-> {}, src |-> {}]

Init ==
  /\ listen = InitListen /\ nat = [l \in AllListen |-> "-"] /\ obs = [x \in LocalU |-> "e"] /\ fmode = "id"
  /\ relayQ = <<>> /\ reachQ = <<>> /\ notify = 0 /\ tickReady = FALSE /\ reachTrig = FALSE
  /\ pc = "off" /\ startWait = FALSE /\ closeCalled = FALSE /\ closeWait = FALSE
  /\ hostReach = "unknown" /\ relayLoop = {} /\ cur = Empty
  /\ ls = {} /\ k = 0 /\ acc = {} /\ trig = "-"
  /\ trkR = {} /\ trkU = {} /\ trkK = {} /\ probeDue = FALSE
  /\ nenv = 0 /\ ntime = 0 /\ nhour = 0 /\ nnotify = 0
  /\ dirty = TRUE      \* nothing has been computed yet
  /\ op = [name |-> "init"]

(* ------------------------------ environment: inputs ------------------------------ *)
\* StartFirst: nothing moves before Start has returned
Ready == ~StartFirst \/ (pc \in {"idle", "upd", "exited"} /\ ~startWait)
EnvOK == nenv < MaxEnv /\ Ready
EnvStep(o) == /\ nenv' = nenv + 1 /\ dirty' = TRUE /\ op' = o
              /\ UNCHANGED <<chans, life, mgr, trk, ntime, nhour, nnotify>>

Listen(l) == /\ EnvOK /\ l \in ListenPool \ listen /\ listen' = listen \cup {l}
             /\ UNCHANGED <<nat, obs, fmode>> /\ EnvStep([name |-> "listen", a |-> l])
Unlisten(l) == /\ EnvOK /\ l \in listen /\ listen' = listen \ {l}
               /\ UNCHANGED <<nat, obs, fmode>> /\ EnvStep([name |-> "unlisten", a |-> l])
SetNat(l, v) == /\ EnvOK /\ HasNAT /\ l \in NatKeys /\ v \in NatChoices /\ v # nat[l]
                /\ nat' = [nat EXCEPT ![l] = v]
                /\ UNCHANGED <<listen, obs, fmode>> /\ EnvStep([name |-> "setnat", a |-> l, v |-> v])
SetObs(x, s) == /\ EnvOK /\ HasObs /\ x \in ObsKeys /\ s \in ObsChoices /\ s # obs[x]
                /\ obs' = [obs EXCEPT ![x] = s]
                /\ UNCHANGED <<listen, nat, fmode>> /\ EnvStep([name |-> "setobs", a |-> x, v |-> s, seq |-> ObsCat[s]])
SetFMode(m) == /\ EnvOK /\ m \in FModes /\ m # fmode /\ fmode' = m
               /\ UNCHANGED <<listen, nat, obs>> /\ EnvStep([name |-> "setfmode", v |-> m])

(* ------------------------------ environment: events on the bus ------------------------------ *)
\* Both emitters are stateful: a subscription made later (Start) receives the last event.  After the loop has gone
\* nobody listens.
Deliver(q, v) == IF pc = "off" THEN <<v>> ELSE IF pc = "exited" THEN q ELSE Append(q, v)
EmitRelay(r) == /\ EnvOK /\ r \in RelayChoices /\ Len(relayQ) < 2
                /\ relayQ' = Deliver(relayQ, r)
                /\ nenv' = nenv + 1 /\ op' = [name |-> "emitrelay", v |-> r]
                /\ UNCHANGED <<inputs, reachQ, notify, tickReady, reachTrig, life, mgr, trk, ntime, nhour, nnotify, dirty>>
EmitReach(v) == /\ EnvOK /\ v \in ReachChoices /\ Len(reachQ) < 2
                /\ reachQ' = Deliver(reachQ, v)
                /\ nenv' = nenv + 1 /\ op' = [name |-> "emitreach", v |-> v]
                /\ UNCHANGED <<inputs, relayQ, notify, tickReady, reachTrig, life, mgr, trk, ntime, nhour, nnotify, dirty>>

(* ------------------------------ the tracker (autonat v2) ------------------------------ *)
Tracked == trkR \cup trkU \cup trkK
TrkLive == Tracker /\ ~closeCalled /\ pc # "off"
\* the probe run scheduled one second after the tracked set changed classifies every unknown address (P: found reachable)
ProbeNew(P) == /\ trkR' = trkR \cup P /\ trkU' = trkU \cup (trkK \ P) /\ trkK' = {}
\* an hour later every tracked address has been probed again (P: found reachable)
ProbeAll(P) == /\ trkR' = P /\ trkU' = Tracked \ P /\ trkK' = {}

\* 5 seconds pass (the loop's ticker fires; a scheduled probe run of the tracker completes)
Tick ==
  /\ Ready
  /\ MaxTime = 0 \/ ntime < MaxTime
  /\ ntime' = IF MaxTime = 0 THEN ntime ELSE ntime + 1
  /\ tickReady' = (tickReady \/ pc \in {"idle", "upd"})
  /\ IF TrkLive /\ probeDue
       THEN \E P \in SUBSET trkK :
              /\ ProbeNew(P) /\ probeDue' = FALSE
              /\ reachTrig' = (reachTrig \/ trkK # {})
              /\ op' = [name |-> "tick", pub |-> P, priv |-> trkK \ P]
       ELSE /\ UNCHANGED <<trk, reachTrig>> /\ op' = [name |-> "tick", pub |-> {}, priv |-> {}]
  /\ UNCHANGED <<inputs, relayQ, reachQ, notify, life, mgr, nenv, nhour, nnotify, dirty>>

\* 70 minutes pass: every tracked address is probed again
Hour ==
  /\ Ready /\ TrkLive /\ nhour < MaxHour /\ nhour' = nhour + 1
  /\ tickReady' = (tickReady \/ pc \in {"idle", "upd"})
  /\ \E P \in SUBSET Tracked :
       /\ ProbeAll(P) /\ probeDue' = FALSE
       /\ reachTrig' = (reachTrig \/ P # trkR \/ trkK # {})
       /\ op' = [name |-> "hour", pub |-> P, priv |-> Tracked \ P]
  /\ UNCHANGED <<inputs, relayQ, reachQ, notify, life, mgr, nenv, ntime, nnotify, dirty>>

(* ------------------------------ public calls ------------------------------ *)
\* Start: subscribes, starts the goroutine, then waits for the first update it has requested itself
StartCall ==
  /\ pc = "off" /\ ~closeCalled
  /\ pc' = "init" /\ startWait' = TRUE /\ notify' = notify + 1
  /\ op' = [name |-> "start"]
  /\ UNCHANGED <<inputs, relayQ, reachQ, tickReady, reachTrig, closeCalled, closeWait, mgr, trk, cnt, dirty>>

\* NetNotifee().ListenF / ListenCloseF = updateAddrsSync: ignored before Start, after Close it returns at once
NotifyCall ==
  /\ Ready
  /\ nnotify < MaxNotify /\ nnotify' = nnotify + 1
  /\ IF pc \in {"off", "exited"} \/ closeCalled
       THEN \* as coded: in the window between Close and the loop's exit the token may or may not be left behind
            /\ \E left \in (IF closeCalled /\ Running /\ notify = 0 THEN {FALSE, TRUE} ELSE {FALSE}) :
                 /\ notify' = IF left THEN 1 ELSE notify
                 /\ op' = [name |-> "notify", immediate |-> TRUE, left |-> left]
       ELSE /\ notify < 2 /\ notify' = notify + 1 /\ op' = [name |-> "notify", immediate |-> FALSE, left |-> FALSE]
  /\ UNCHANGED <<inputs, relayQ, reachQ, tickReady, reachTrig, life, mgr, trk, nenv, ntime, nhour, dirty>>

\* Close: cancels the context (callers of Start / notify give up), closes NAT manager and tracker, waits for the loop
CloseCall ==
  /\ Ready /\ MaxClose > 0
  /\ ~closeCalled /\ closeCalled' = TRUE
  /\ closeWait' = Running /\ startWait' = FALSE
  /\ op' = [name |-> "close", immediate |-> ~Running, released |-> notify]
  /\ UNCHANGED <<inputs, chans, pc, mgr, trk, cnt, dirty>>

(* ------------------------------ the background loop ------------------------------ *)
\* before the loop: one non-blocking read of each subscription (the stateful last events)
LoopInit ==
  /\ pc = "init" /\ pc' = "idle"
  /\ relayLoop' = IF relayQ # <<>> THEN Head(relayQ) ELSE relayLoop
  /\ relayQ' = IF relayQ # <<>> THEN Tail(relayQ) ELSE relayQ
  /\ hostReach' = IF reachQ # <<>> THEN Head(reachQ) ELSE hostReach
  /\ reachQ' = IF reachQ # <<>> THEN Tail(reachQ) ELSE reachQ
  /\ op' = [name |-> "loopinit"]
  /\ UNCHANGED <<inputs, notify, tickReady, reachTrig, startWait, closeCalled, closeWait, cur, ls, k, acc, trig, trk, cnt, dirty>>

\* the end of updateAddrs + notifyAddrsUpdated for the answers ac read for the listen snapshot l, triggered by tg
\* (rl, hr: relay set and reachability the loop holds at that moment)
Commit(l, ac, tg, rl, hr, rt, nm) ==
  LET local == LocalOf(l, ac)
      r == IF Tracker THEN trkR \cap local ELSE {}
      u == IF Tracker THEN trkU \cap local ELSE {}
      kk == IF Tracker THEN trkK \cap local ELSE {}
      dial == Dialable(local, r, u, rl, hr)
      addrs == Fact(fmode, dial)
      evA == addrs # cur.addrs
      evR == r # cur.r \/ u # cur.u \/ kk # cur.k
      told == Tracker /\ local # cur.local                  \* tracker.UpdateAddrs(local)
      digest == told /\ ~closeCalled                         \* ... which the tracker digests at once unless closed
      tracked == {a \in local : a \in PubA}
      nR == trkR \cap tracked
      nU == trkU \cap tracked
      nK == (trkK \cap tracked) \cup (tracked \ Tracked)
      served == tg = "notify" /\ ~closeCalled              \* a caller of updateAddrsSync is released
  IN
  /\ cur' = [local |-> local, r |-> r, u |-> u, k |-> kk, relay |-> rl, addrs |-> addrs,
             dial |-> dial, hr |-> hr, ls |-> l, src |-> ac]
  /\ IF digest THEN /\ trkR' = nR /\ trkU' = nU /\ trkK' = nK /\ probeDue' = TRUE
                    /\ reachTrig' = (rt \/ nR # trkR \/ nU # trkU \/ nK # trkK)
               ELSE /\ UNCHANGED trk /\ reachTrig' = rt
  /\ startWait' = (startWait /\ ~served)
  /\ op' = [name |-> nm, trig |-> tg, ls |-> l, factoryIn |-> dial,
            evA |-> evA, current |-> addrs, added |-> addrs \ cur.addrs, removed |-> cur.addrs \ addrs,
            evR |-> evR, r |-> r, u |-> u, k |-> kk, told |-> told,
            returned |-> IF served THEN (IF startWait THEN "start" ELSE "notify") ELSE "-"]

\* a case of the select is taken: consume the trigger, then the update begins with the read of the listen addresses
Take(tg) ==
  /\ pc = "idle"
  /\ CASE tg = "tick" -> tickReady /\ tickReady' = FALSE /\ UNCHANGED <<notify, relayQ, reachQ>>
       [] tg = "notify" -> notify > 0 /\ notify' = notify - 1 /\ UNCHANGED <<tickReady, relayQ, reachQ>>
       [] tg = "reachtrig" -> reachTrig /\ UNCHANGED <<tickReady, notify, relayQ, reachQ>>
       [] tg = "relay" -> relayQ # <<>> /\ relayQ' = Tail(relayQ) /\ UNCHANGED <<tickReady, notify, reachQ>>
       [] tg = "reach" -> reachQ # <<>> /\ reachQ' = Tail(reachQ) /\ UNCHANGED <<tickReady, notify, relayQ>>
  /\ LET rl == IF tg = "relay" THEN Head(relayQ) ELSE relayLoop
         hr == IF tg = "reach" THEN Head(reachQ) ELSE hostReach
         rt == IF tg = "reachtrig" THEN FALSE ELSE reachTrig
     IN /\ relayLoop' = rl /\ hostReach' = hr
        /\ dirty' = FALSE
        /\ IF Split
             THEN /\ pc' = "upd" /\ ls' = listen /\ k' = 1 /\ acc' = {} /\ trig' = tg
                  /\ reachTrig' = rt
                  /\ op' = [name |-> "take", trig |-> tg, ls |-> listen]
                  /\ UNCHANGED <<cur, trk, startWait>>
             ELSE /\ UNCHANGED <<pc, ls, k, acc, trig>>
                  /\ Commit(listen, AccAll(listen), tg, rl, hr, rt, "update")
  /\ UNCHANGED <<inputs, closeCalled, closeWait, cnt>>

Read ==
  /\ pc = "upd" /\ k <= Len(Plan(ls))
  /\ acc' = acc \cup AccOf(ls, k) /\ k' = k + 1
  /\ op' = [name |-> "read", kind |-> Plan(ls)[k].kind, key |-> Plan(ls)[k].key, res |-> ReadRes(Plan(ls)[k])]
  /\ UNCHANGED <<inputs, chans, life, hostReach, relayLoop, cur, ls, trig, trk, cnt, dirty>>

CommitStep ==
  /\ pc = "upd" /\ k > Len(Plan(ls))
  /\ pc' = "idle" /\ k' = 0 /\ acc' = {} /\ ls' = {} /\ trig' = "-"
  /\ Commit(ls, acc, trig, relayLoop, hostReach, reachTrig, "commit")
  /\ UNCHANGED <<inputs, relayQ, reachQ, notify, tickReady, closeCalled, closeWait, hostReach, relayLoop, cnt, dirty>>

\* the loop sees the cancelled context: subscriptions and emitters are closed, Close returns
Exit ==
  /\ pc = "idle" /\ closeCalled
  /\ pc' = "exited" /\ closeWait' = FALSE /\ relayQ' = <<>> /\ reachQ' = <<>>
  /\ op' = [name |-> "exit"]
  /\ UNCHANGED <<inputs, notify, tickReady, reachTrig, startWait, closeCalled, mgr, trk, cnt, dirty>>

Next ==
  \/ \E l \in ListenPool : Listen(l) \/ Unlisten(l)
  \/ \E l \in NatKeys, v \in NatChoices : SetNat(l, v)
  \/ \E x \in ObsKeys, s \in ObsChoices : SetObs(x, s)
  \/ \E m \in FModes : SetFMode(m)
  \/ \E r \in RelayChoices : EmitRelay(r)
  \/ \E v \in ReachChoices : EmitReach(v)
  \/ Tick \/ Hour \/ StartCall \/ NotifyCall \/ CloseCall
  \/ LoopInit \/ (\E tg \in {"tick", "notify", "reachtrig", "relay", "reach"} : Take(tg)) \/ Read \/ CommitStep \/ Exit
LoopStep == LoopInit \/ (\E tg \in {"tick", "notify", "reachtrig", "relay", "reach"} : Take(tg)) \/ Read \/ CommitStep \/ Exit
\* Go's select picks uniformly among the ready cases: a case that is ready again and again is eventually taken (SF)
FairSpec == Init /\ [][Next]_vars /\ WF_vars(Tick) /\ WF_vars(LoopStep) /\ SF_vars(Exit)

(* ------------------------------ the statement ------------------------------ *)
Reaches == {"unknown", "public", "private"}
TypeOK ==
  /\ listen \subseteq AllListen /\ fmode \in FModes
  /\ pc \in {"off", "init", "idle", "upd", "exited"} /\ notify \in 0..2
  /\ hostReach \in Reaches \cup ReachChoices /\ relayLoop \in RelayChoices \cup {{}}
  /\ (pc = "upd") = (trig # "-") /\ (pc = "upd" => Split)
  /\ trkR \cap trkU = {} /\ trkR \cap trkK = {} /\ trkU \cap trkK = {} /\ Tracked \subseteq PubA
  /\ (~Tracker => Tracked = {} /\ ~reachTrig /\ ~probeDue)

\* A1: every direct address is justified by what the network / NAT manager / observed-address manager answered in
\* the update that produced the list, for a listen address of that update
SrcKeyOK(j) == /\ j.i \in 1..Len(Plan(cur.ls))
               /\ Plan(cur.ls)[j.i].key \in cur.ls \cup ResolveSet(cur.ls)
ObservedSound == \A a \in cur.local : a \in ResolveSet(cur.ls) \/ \E j \in cur.src : j.a = a /\ SrcKeyOK(j)
\* A2
Cap == \A i \in 1..Len(Plan(cur.ls)) : Cardinality({j \in cur.src : j.i = i}) <= 3
NoJunk == cur.local \cap (UnspecA \cup CircuitA) = {} /\ (cur.ls = {} => cur.local = {})
\* A3: nothing the update has read is dropped (observed addresses complement, never replace)
Complete == cur.ls # {} => Clean(ResolveSet(cur.ls)) \cup Clean(AccAddrs(cur.src)) \subseteq cur.local
\* A4
RelayRule ==
  IF Tracker
    THEN /\ cur.r \cup cur.u \cup cur.k \subseteq cur.local
         /\ cur.dial \cap cur.u = {}
         /\ cur.local \ cur.u \subseteq cur.dial
         /\ (cur.r = {} => cur.relay \subseteq cur.dial)
         /\ (cur.r # {} => cur.dial \subseteq cur.local)
    ELSE IF cur.relay # {} /\ cur.hr = "private"
           THEN cur.dial = {a \in cur.local : a \notin PubA} \cup cur.relay
           ELSE cur.dial = cur.local
\* A7: an update that ran without interference reflects the current inputs
Fresh ==
  (pc = "idle" /\ ~dirty) =>
     /\ cur.local = LocalNow
     /\ cur.relay = relayLoop /\ cur.hr = hostReach
     /\ cur.addrs = AddrsNow
     /\ (Tracker /\ ~reachTrig => cur.r = trkR \cap cur.local /\ cur.u = trkU \cap cur.local /\ cur.k = trkK \cap cur.local)
\* A8 / lifecycle
Lifecycle ==
  /\ (closeWait => closeCalled /\ Running)
  /\ (closeCalled /\ Running => closeWait)
  /\ (startWait => Running /\ ~closeCalled /\ (notify > 0 \/ (pc = "upd" /\ trig = "notify")))
  /\ (pc = "off" => cur = Empty /\ ~tickReady)
  /\ (pc = "exited" => closeCalled /\ relayQ = <<>> /\ reachQ = <<>>)

Updating(o) == o.name \in {"update", "commit"}
\* A6: an event exactly when the advertised list changed, with the exact difference
EventDiff ==
  [][ /\ (cur'.addrs # cur.addrs) => (Updating(op') /\ op'.evA)
      /\ (Updating(op') /\ op'.evA) =>
            /\ cur'.addrs # cur.addrs /\ op'.current = cur'.addrs
            /\ op'.removed = cur.addrs \ cur'.addrs /\ op'.added = cur'.addrs \ cur.addrs
            /\ op'.added \cup op'.removed # {}
      /\ (<<cur'.r, cur'.u, cur'.k>> # <<cur.r, cur.u, cur.k>>) = (Updating(op') /\ op'.evR)
      /\ (cur' # cur => Updating(op')) ]_vars
\* A5: the factory sees the dialable list of the update
FactorySees ==
  [][ Updating(op') => /\ op'.factoryIn = cur'.dial
                       /\ cur'.addrs = Fact(fmode, cur'.dial) ]_vars
\* A7: a notification is answered only by an update that began after it was made (its token was taken)
NotifyServed ==
  [][ (Updating(op') /\ op'.returned # "-") => (op'.trig = "notify" /\ ~closeCalled) ]_vars
\* A8: once the loop has gone nothing is read, stored or emitted; the caches stay
AfterExit ==
  [][ pc = "exited" => /\ op'.name \notin {"take", "update", "read", "commit", "loopinit", "exit"}
                       /\ cur' = cur /\ pc' = pc ]_vars
\* before Start nothing is computed
BeforeStart == [][ pc = "off" /\ pc' = "off" => cur' = cur /\ notify' = notify ]_vars

\* A9 (checked under FairSpec with MaxTime = 0)
Reflected == (dirty /\ Running /\ ~closeCalled) ~> (~dirty \/ closeCalled)
CloseReturns == closeWait ~> ~closeWait

(* ---- vacuity probes: each must be VIOLATED (the interesting states are reachable) ---- *)
ReachCapped == ~(\E x \in LocalU : Len(ObsSeq(x)) > 3 /\ pc = "idle" /\ ~dirty /\ x \in cur.ls \cup ResolveSet(cur.ls)
                                   /\ ObsSeq(x)[4] \notin cur.local)
ReachRelayShown == ~(cur.relay # {} /\ cur.relay \subseteq cur.dial)
ReachPublicHidden == ~(~Tracker /\ cur.relay # {} /\ cur.hr = "private" /\ cur.local \cap PubA # {})
ReachUnreachableDropped == ~(cur.u # {} /\ cur.r # {})
ReachTorn == ~(pc = "idle" /\ cur.ls = listen /\ cur.local # LocalNow /\ cur.local # {})
ReachCloseMidUpdate == ~(pc = "upd" /\ closeCalled)
ReachStaleQuery == ~(pc = "upd" /\ AddrsNow # cur.addrs /\ fmode = "id")
ReachDedup == ~(\E j1, j2 \in cur.src : j1.a = j2.a /\ j1.i # j2.i /\ Plan(cur.ls)[j1.i].kind # Plan(cur.ls)[j2.i].kind)

(* ---- sequential skeleton for the replay: what the harness can force on the real select ---- *)
\* ticker, notification token and cancellation cannot be held back once ready, the two subscriptions and the tracker's
\* signal can: at most one uncontrollable case is ready whenever the loop selects, and it is taken first.
Prio ==
  LET n == op'.name IN
  /\ (n \in {"tick", "hour"}) => (pc = "idle" /\ notify = 0 /\ ~closeCalled /\ ~tickReady)
  /\ (n = "notify") => (~tickReady /\ ~(closeCalled /\ Running))
  /\ (n \in {"take", "update"}) =>
        /\ ~closeCalled
        /\ (op'.trig = "tick" => notify = 0)
        /\ (op'.trig = "notify" => ~tickReady)
        /\ (op'.trig \in {"reachtrig", "relay", "reach"} => ~tickReady /\ notify = 0)
  /\ (n = "close") => (~tickReady /\ notify = 0)
=============================================================================
