------------------------------- MODULE C13_Push -------------------------------
(***************************************************************************)
(* Identify PUSH / snapshot side of p2p/protocol/identify/id.go (extension *)
(* engine of C13).  The service keeps a current snapshot (sequence number, *)
(* content = protocols/addresses/signed record of the host), refreshed by  *)
(* the loop on EvtLocalProtocolsUpdated / EvtLocalAddressesUpdated, and    *)
(* pushes it to the connections that (may) support identify push.          *)
(*                                                                         *)
(* One action per step of the code that something else can interleave      *)
(* with:                                                                   *)
(*   Change        the host's protocols / addresses / record change, event *)
(*   Update        loop: take one event, updateSnapshot, triggerPush<-     *)
(*   RStart        pusher goroutine: <-triggerPush, sendPushes lists conns *)
(*   Pick(c)       sendPushes loop body for c (entry?, seq?, sem, go)      *)
(*   Open(c,ok)    goroutine: newStreamAndNegotiate                        *)
(*   Write(c,ok)   goroutine: sendIdentifyResp reads the CURRENT snapshot  *)
(*                 and writes it                                           *)
(*   Rec(c)        goroutine: conns[c].Sequence = that seq, <-sem          *)
(*   REnd          wg.Wait returns                                         *)
(*   Connected, Identified(c,sup), IdResp(c) (identify request answered),  *)
(*   ConnClose, Disconnected, SvcClose                                     *)
(***************************************************************************)
EXTENDS Naturals, FiniteSets, TLC

CONSTANTS Conns,        \* connection names
          MaxChanges,   \* budget of host changes
          MaxConc,      \* maxPushConcurrency (32 in the code)
          Kinds,        \* kinds of change: subset of {"fresh", "revert"}
          FailLate,     \* may pushes fail after the last change? (FALSE for liveness)
          Off           \* environment actions switched off in this instance (subset of
                        \* {"idresp", "svcclose", "connclose", "identno", "openfail", "writefail"})

VARIABLES hc,     \* host content, as a version id: 0 initially, a "fresh" change makes content nobody has seen
                  \* (which of protocols / addresses / signed record differs is the harness's choice), a
                  \* "revert" change puts back what the snapshot holds (the next updateSnapshot is a no-op)
          nch,    \* changes made
          evq,    \* events emitted and not yet handled by the loop
          snap,   \* [seq, c]  ids.currentSnapshot
          trig,   \* triggerPush holds a token
          run,    \* pusher goroutine is inside sendPushes
          todo,   \* connections sendPushes listed and has not looked at yet
          cs,     \* conn -> "new" | "up" | "closed" (swarm closed it) | "gone" (Disconnected delivered)
          ps,     \* conn -> "unknown" | "yes" | "no"   entry.PushSupport
          last,   \* conn -> entry.Sequence
          g,      \* conn -> push goroutine: "none" | "open" | "write" | "rec"
          gs,     \* conn -> seq the goroutine wrote
          hi,     \* ghost: conn -> highest seq delivered on it (push or response)
          pushed, \* ghost: conn -> set of seqs delivered by a push
          dc,     \* ghost: conn -> content of the last delivery (NoC before any)
          resp,   \* conn -> identify requests answered (budget 1)
          closed, \* service closed
          op      \* output only

vars == <<hc, nch, evq, snap, trig, run, todo, cs, ps, last, g, gs, hi, pushed, dc, resp, closed, op>>
View == <<hc, nch, evq, snap, trig, run, todo, cs, ps, last, g, gs, hi, pushed, dc, resp, closed>>

Ent(c) == cs[c] \in {"up", "closed"}          \* c has an entry in ids.conns
Busy == {c \in Conns : g[c] # "none"}
C0 == 0
NoC == 99                                 \* "nothing delivered yet"

Init ==
  /\ hc = C0 /\ nch = 0 /\ evq = 0
  /\ snap = [seq |-> 1, c |-> C0]            \* Start() takes the first snapshot
  /\ trig = FALSE /\ run = FALSE /\ todo = {}
  /\ cs = [c \in Conns |-> "new"] /\ ps = [c \in Conns |-> "unknown"]
  /\ last = [c \in Conns |-> 0] /\ g = [c \in Conns |-> "none"] /\ gs = [c \in Conns |-> 0]
  /\ hi = [c \in Conns |-> 0] /\ pushed = [c \in Conns |-> {}] /\ dc = [c \in Conns |-> NoC]
  /\ resp = [c \in Conns |-> 0] /\ closed = FALSE
  /\ op = [name |-> "init"]

Changed(k) == IF k = "fresh" THEN nch + 1 ELSE snap.c

\* the host changes and the event is emitted (the bus buffers 256 events: never full here)
Change(k) ==
  /\ nch < MaxChanges
  /\ (k = "revert" => hc # snap.c)
  /\ hc' = Changed(k) /\ nch' = nch + 1
  /\ evq' = IF closed THEN evq ELSE evq + 1     \* after Close nobody is subscribed
  /\ op' = [name |-> "change", kind |-> k, hc |-> Changed(k)]
  /\ UNCHANGED <<snap, trig, run, todo, cs, ps, last, g, gs, hi, pushed, dc, resp, closed>>

\* loop: one event -> updateSnapshot (reads the host NOW) -> non-blocking send on triggerPush
Update ==
  /\ evq > 0 /\ ~closed
  /\ evq' = evq - 1
  /\ LET upd == snap.c # hc IN
     /\ snap' = IF upd THEN [seq |-> snap.seq + 1, c |-> hc] ELSE snap
     /\ trig' = (trig \/ upd)
     /\ op' = [name |-> "update", updated |-> upd, seq |-> IF upd THEN snap.seq + 1 ELSE snap.seq, hc |-> hc]
  /\ UNCHANGED <<hc, nch, run, todo, cs, ps, last, g, gs, hi, pushed, dc, resp, closed>>

\* pusher goroutine: takes the token, sendPushes lists the entries with PushSupport yes/unknown
RStart ==
  /\ trig /\ ~run /\ ~closed
  /\ trig' = FALSE /\ run' = TRUE
  /\ todo' = {c \in Conns : Ent(c) /\ ps[c] \in {"yes", "unknown"}}
  /\ op' = [name |-> "rstart", todo |-> {c \in Conns : Ent(c) /\ ps[c] \in {"yes", "unknown"}}]
  /\ UNCHANGED <<hc, nch, evq, snap, cs, ps, last, g, gs, hi, pushed, dc, resp, closed>>

\* loop body of sendPushes for c: skip if the entry is gone or it already has this seq; else take a
\* semaphore slot (blocks while MaxConc goroutines run) and start the goroutine.  On a connection the swarm has
\* already closed NewStream fails at once: that goroutine is over before anything else can happen (dead)
Pick(c) ==
  /\ run /\ c \in todo
  /\ LET go == Ent(c) /\ last[c] < snap.seq IN
     /\ (go => Cardinality(Busy) < MaxConc)
     /\ g' = IF go /\ cs[c] = "up" THEN [g EXCEPT ![c] = "open"] ELSE g
     /\ op' = [name |-> "pick", c |-> c, go |-> go, ps |-> ps[c], ent |-> Ent(c), dead |-> go /\ cs[c] # "up"]
  /\ todo' = todo \ {c}
  /\ UNCHANGED <<hc, nch, evq, snap, trig, run, cs, ps, last, gs, hi, pushed, dc, resp, closed>>

\* FailLate = FALSE (liveness runs): a push may fail only while a fresh change is still to come; the code
\* never retries a failed push before the next snapshot, so a failure after the last effective change
\* leaves the connection behind for good (by design: "eligible for the next snapshot")
CanFail == FailLate \/ (nch < MaxChanges /\ Kinds = {"fresh"})

\* newStreamAndNegotiate: succeeds only on an open connection whose remote speaks push
Open(c, ok) ==
  /\ g[c] = "open"
  /\ (ok => cs[c] = "up" /\ ps[c] # "no")
  /\ (~ok => CanFail \/ cs[c] # "up" \/ ps[c] = "no")
  /\ g' = [g EXCEPT ![c] = IF ok THEN "write" ELSE "none"]
  /\ op' = [name |-> "open", c |-> c, ok |-> ok]
  /\ UNCHANGED <<hc, nch, evq, snap, trig, run, todo, cs, ps, last, gs, hi, pushed, dc, resp, closed>>

\* sendIdentifyResp: reads the current snapshot and writes it
Write(c, ok) ==
  /\ g[c] = "write"
  /\ (ok => cs[c] = "up")
  /\ (~ok => CanFail \/ cs[c] # "up")
  /\ g' = [g EXCEPT ![c] = IF ok THEN "rec" ELSE "none"]
  /\ gs' = [gs EXCEPT ![c] = IF ok THEN snap.seq ELSE @]
  /\ hi' = IF ok /\ snap.seq > hi[c] THEN [hi EXCEPT ![c] = snap.seq] ELSE hi
  /\ pushed' = IF ok THEN [pushed EXCEPT ![c] = @ \cup {snap.seq}] ELSE pushed
  /\ dc' = IF ok THEN [dc EXCEPT ![c] = snap.c] ELSE dc
  /\ op' = [name |-> "write", c |-> c, ok |-> ok, seq |-> snap.seq, content |-> snap.c,
            dup |-> snap.seq \in pushed[c], older |-> snap.seq < hi[c]]
  /\ UNCHANGED <<hc, nch, evq, snap, trig, run, todo, cs, ps, last, resp, closed>>

\* ... then records the sequence number in the entry, if there still is one
Rec(c) ==
  /\ g[c] = "rec"
  /\ g' = [g EXCEPT ![c] = "none"]
  /\ last' = IF Ent(c) THEN [last EXCEPT ![c] = gs[c]] ELSE last
  /\ gs' = [gs EXCEPT ![c] = 0]
  /\ op' = [name |-> "rec", c |-> c, seq |-> gs[c]]
  /\ UNCHANGED <<hc, nch, evq, snap, trig, run, todo, cs, ps, hi, pushed, dc, resp, closed>>

REnd ==
  /\ run /\ todo = {} /\ Busy = {}
  /\ run' = FALSE
  /\ op' = [name |-> "rend"]
  /\ UNCHANGED <<hc, nch, evq, snap, trig, todo, cs, ps, last, g, gs, hi, pushed, dc, resp, closed>>

\* swarm: Connected notification -> entry{} ; IdentifyWait starts the identify request
Connected(c) ==
  /\ cs[c] = "new"
  /\ cs' = [cs EXCEPT ![c] = "up"]
  /\ op' = [name |-> "connected", c |-> c]
  /\ UNCHANGED <<hc, nch, evq, snap, trig, run, todo, ps, last, g, gs, hi, pushed, dc, resp, closed>>

\* the identify response of the remote arrives: PushSupport is now known
Identified(c, sup) ==
  /\ cs[c] = "up" /\ ps[c] = "unknown"
  /\ ps' = [ps EXCEPT ![c] = IF sup THEN "yes" ELSE "no"]
  /\ op' = [name |-> "identified", c |-> c, sup |-> sup]
  /\ UNCHANGED <<hc, nch, evq, snap, trig, run, todo, cs, last, g, gs, hi, pushed, dc, resp, closed>>

\* the remote's identify request is answered with the current snapshot (sendIdentifyResp, isPush=false)
IdResp(c) ==
  /\ cs[c] = "up" /\ resp[c] = 0
  /\ resp' = [resp EXCEPT ![c] = 1]
  /\ last' = [last EXCEPT ![c] = snap.seq]
  /\ hi' = IF snap.seq > hi[c] THEN [hi EXCEPT ![c] = snap.seq] ELSE hi
  /\ dc' = [dc EXCEPT ![c] = snap.c]
  /\ op' = [name |-> "idresp", c |-> c, seq |-> snap.seq, content |-> snap.c]
  /\ UNCHANGED <<hc, nch, evq, snap, trig, run, todo, cs, ps, g, gs, pushed, closed>>

ConnClose(c) ==
  /\ cs[c] = "up"
  /\ cs' = [cs EXCEPT ![c] = "closed"]
  /\ op' = [name |-> "connclose", c |-> c]
  /\ UNCHANGED <<hc, nch, evq, snap, trig, run, todo, ps, last, g, gs, hi, pushed, dc, resp, closed>>

Disconnected(c) ==
  /\ cs[c] = "closed"
  /\ cs' = [cs EXCEPT ![c] = "gone"]
  \* the entry is deleted; the ghosts of a connection that is gone no longer matter (kept canonical)
  /\ ps' = [ps EXCEPT ![c] = "unknown"] /\ last' = [last EXCEPT ![c] = 0] /\ hi' = [hi EXCEPT ![c] = 0]
  /\ pushed' = [pushed EXCEPT ![c] = {}] /\ dc' = [dc EXCEPT ![c] = NoC] /\ resp' = [resp EXCEPT ![c] = 0]
  /\ op' = [name |-> "disconnected", c |-> c]
  /\ UNCHANGED <<hc, nch, evq, snap, trig, run, todo, g, gs, closed>>

\* Close(): ctx cancelled; loop and pusher leave at their next select (modelled when the loop is idle);
\* goroutines in flight finish on their own
SvcClose ==
  /\ ~closed /\ evq = 0 /\ ~trig
  /\ closed' = TRUE
  /\ op' = [name |-> "svcclose"]
  /\ UNCHANGED <<hc, nch, evq, snap, trig, run, todo, cs, ps, last, g, gs, hi, pushed, dc, resp>>

Env == \/ \E k \in Kinds : Change(k)
       \/ Update
       \/ \E c \in Conns : \/ Open(c, TRUE) \/ Write(c, TRUE)
                           \/ (("openfail" \notin Off \/ cs[c] # "up" \/ ps[c] = "no") /\ Open(c, FALSE))
                           \/ (("writefail" \notin Off \/ cs[c] # "up") /\ Write(c, FALSE))
                           \/ Connected(c) \/ Disconnected(c)
                           \/ ("connclose" \notin Off /\ ConnClose(c))
                           \/ ("idresp" \notin Off /\ IdResp(c))
                           \/ Identified(c, TRUE) \/ ("identno" \notin Off /\ Identified(c, FALSE))
       \/ ("svcclose" \notin Off /\ SvcClose)
\* steps of the code that nothing the environment controls separates from their predecessor
Internal == RStart \/ REnd \/ \E c \in Conns : Pick(c) \/ Rec(c)
Next == Env \/ Internal
Spec == Init /\ [][Next]_vars

\* an internal step is possible (the replay lets the real goroutines run until none is)
Unstable == \/ (trig /\ ~run /\ ~closed)
            \/ (run /\ todo = {} /\ Busy = {})
            \/ \E c \in Conns : g[c] = "rec" \/ (run /\ c \in todo /\ (Ent(c) /\ last[c] < snap.seq => Cardinality(Busy) < MaxConc))
\* priority of internal steps: the sequential skeleton (ACTION_CONSTRAINT for the printed graph)
Prio == Unstable => op'.name \in {"rstart", "rend", "pick", "rec"}

-----------------------------------------------------------------------------
Content == 0..MaxChanges \cup {NoC}
TypeOK ==
  /\ hc \in Content /\ nch \in 0..MaxChanges /\ evq \in 0..MaxChanges
  /\ snap.seq \in 1..(MaxChanges + 1) /\ snap.c \in Content
  /\ todo \subseteq Conns
  /\ \A c \in Conns : /\ cs[c] \in {"new", "up", "closed", "gone"} /\ ps[c] \in {"unknown", "yes", "no"}
                      /\ g[c] \in {"none", "open", "write", "rec"} /\ dc[c] \in Content
                      /\ last[c] <= snap.seq /\ hi[c] <= snap.seq /\ gs[c] <= snap.seq

\* concurrency of push goroutines never exceeds the limit
Conc == Cardinality(Busy) <= MaxConc
\* no change is lost by coalescing: once the loop has handled every event the snapshot is the host's state
SnapCurrent == (evq = 0 /\ ~closed) => snap.c = hc
\* a push goroutine exists only for a connection that has (had) an entry, and only inside a round
GoroutineScope == \A c \in Conns : g[c] # "none" => run /\ cs[c] # "new"
\* what a connection holds is a snapshot that was current at some time: never ahead of the snapshot
Delivered == \A c \in Conns : hi[c] > 0 => dc[c] # NoC

\* a snapshot seq is pushed to a connection at most once (a failed push delivers nothing and may be repeated)
PushOnce == [][(op'.name = "write" /\ op'.ok) => ~op'.dup]_vars
\* a push never carries an older snapshot than one already delivered on that connection
PushMonotone == [][(op'.name = "write" /\ op'.ok) => ~op'.older]_vars
\* sendPushes lists only entries whose PushSupport is yes/unknown and starts goroutines only for live entries
ListEligible == [][op'.name = "rstart" => \A c \in op'.todo : cs[c] \in {"up", "closed"} /\ ps[c] # "no"]_vars
PickEligible == [][(op'.name = "pick" /\ op'.go) => op'.ent]_vars
\* what is delivered is the current snapshot, and that is the host's state as of the last handled event
PushCurrent == [][op'.name \in {"write", "idresp"} => op'.content = snap.c /\ op'.seq = snap.seq]_vars
\* failed pushes leave the entry untouched
FailInert == [][(op'.name \in {"open", "write"} /\ ~op'.ok) => last' = last /\ hi' = hi /\ dc' = dc]_vars
\* nothing new starts after Close
ClosedQuiet == [][closed => op'.name \notin {"rstart", "update"}]_vars

\* liveness: once changes have stopped (and pushes no longer fail, FailLate = FALSE) every connection that
\* supports push and stays connected ends up holding the latest snapshot
Converged == \A c \in Conns : (cs[c] = "up" /\ ps[c] = "yes") => (dc[c] = hc /\ last[c] = snap.seq)
Converge == <>[](closed \/ Converged)
FairSpec == /\ Spec /\ WF_vars(Internal) /\ WF_vars(Update) /\ WF_vars(\E k \in Kinds : Change(k))
            /\ WF_vars(\E c \in Conns : Open(c, TRUE) \/ Write(c, TRUE) \/ Open(c, FALSE) \/ Write(c, FALSE))
            /\ \A c \in Conns : WF_vars(IdResp(c))

\* vacuity probes (expected to be violated)
ReachRegress == ~(\E c \in Conns : cs[c] = "up" /\ last[c] < hi[c] /\ g[c] = "none")
ReachCoalesce == ~(evq >= 2)
ReachSemBlock == ~(\E c \in todo : run /\ Ent(c) /\ last[c] < snap.seq /\ Cardinality(Busy) >= MaxConc)
ReachRetry == ~(\E c \in Conns : g[c] = "open" /\ last[c] < snap.seq - 1 /\ hi[c] < snap.seq - 1 /\ snap.seq >= 3)
=============================================================================
