---------------------------- MODULE C03_MemGrid ----------------------------
(***************************************************************************)
(* TLC as an evaluator: checkMemory's transcription (C03_Rcmgr!            *)
(* CheckMemoryCode) against the statement's rule on a value grid, on a     *)
(* 20-bit machine (MaxI = 2^19-1).  Every grid point is printed with the   *)
(* operator's answer; the harness evaluates the real resources.checkMemory *)
(* at the corresponding int64 point (M -> MaxInt64) and compares.          *)
(***************************************************************************)
EXTENDS Integers, Sequences, FiniteSets, TLC, Json

VARIABLE x
M == 524287
R == INSTANCE C03_Rcmgr WITH Conns <- <<>>, Streams <- <<>>, Spans <- <<>>, Peers <- {}, Protos <- {}, Svcs <- {},
       Eps <- {}, EpIP <- <<>>, EpBuckets <- <<>>, Cap <- <<>>, AllowNet <- {}, AllowPeer <- {}, Lim <- <<>>, Inf <- M,
       Sizes <- {}, Prios <- {}, Dirs <- {}, Fds <- {}, ViewScopes <- {}, Kinds <- {}, Threads <- <<"t1">>,
       Sequential <- TRUE, RetryGhost <- FALSE, Preload <- <<>>, w <- x, op <- x

\* symbolic values: <<base, offset>> with base "0" (absolute), "L" (the limit), "M" (MaxInt)
Val(v, L) == (IF v[1] = "0" THEN 0 ELSE IF v[1] = "L" THEN L ELSE M) + v[2]
LimitSyms == {<<"0", 0>>, <<"0", 1>>, <<"0", 2>>, <<"0", 3>>, <<"0", 255>>, <<"0", 256>>, <<"0", 257>>, <<"0", 1000>>,
              <<"M", 0 - 1>>, <<"M", 0>>}
ValSyms == {<<"0", 0>>, <<"0", 1>>, <<"L", 0 - 1>>, <<"L", 0>>, <<"L", 1>>, <<"M", 0 - 1>>, <<"M", 0>>}
PrioSet == {0, 1, 2, 63, 64, 127, 128, 191, 254, 255}
InRange(n) == n >= 0 /\ n <= M
Grid == {g \in [l : LimitSyms, m : ValSyms, r : ValSyms, p : PrioSet] :
           InRange(Val(g.m, Val(g.l, 0))) /\ InRange(Val(g.r, Val(g.l, 0)))}
Code(g) == LET L == Val(g.l, 0) IN R!CheckMemoryCode(Val(g.m, L), Val(g.r, L), L, g.p, M)
Ideal(g) == LET L == Val(g.l, 0) IN R!CheckMemoryIdeal(Val(g.m, L), Val(g.r, L), L, g.p, M)
\* the transcription agrees with the statement's rule wherever the current usage is itself legal
Legal(g) == LET L == Val(g.l, 0) IN L = M \/ Val(g.m, L) <= L
\* regression (64fc8f8): an unlimited scope asked for more than fits in the machine integer refuses
Wraps(g) == LET L == Val(g.l, 0) IN L = M /\ Val(g.m, L) + Val(g.r, L) > M
ASSUME (\E g \in Grid : Wraps(g)) /\ \A g \in Grid : Wraps(g) => ~Code(g)
ASSUME \A g \in Grid : PrintT(<<"VFGRID", ToJson([l |-> g.l, m |-> g.m, r |-> g.r, p |-> g.p, g |-> Code(g)])>>)
ASSUME \A g \in Grid : Legal(g) => Code(g) = Ideal(g)
\* exhaustively for a small machine too (7-bit values, every priority)
ASSUME \A L \in 0..40, m \in 0..40, r \in 0..40, p \in {0, 1, 31, 127, 128, 200, 255} :
          m <= L => R!CheckMemoryCode(m, r, L, p, M) = R!CheckMemoryIdeal(m, r, L, p, M)
Init == x = 0
Next == x' = x
=============================================================================
