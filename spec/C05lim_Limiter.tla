--------------------------- MODULE C05lim_Limiter ---------------------------
(***************************************************************************)
(* The swarm's dial limiter (p2p/net/swarm/limiter.go) at the grain of its  *)
(* critical sections (everything below runs under dl.lk):                  *)
(*   Add(j)      = AddDialJob -> addCheckPeerLimit -> addCheckFdLimit      *)
(*   Exec(j)     = the goroutine `go executeDial(j)` finds the job live    *)
(*                 and calls dialFunc (the transport dial is in flight)    *)
(*   ExecDead(j) = the goroutine finds j.cancelled() and goes straight to  *)
(*                 finishedDial                                            *)
(*   Finish(j)   = dialFunc returned; finishedDial: freeFDToken (loop over *)
(*                 waitingOnFd, cancelled waiters skipped and their peer   *)
(*                 token released) then freePeerToken (loop over the       *)
(*                 peer's wait list)                                       *)
(*   Cancel(c)   = a dial context ends (all callers of that dial gave up): *)
(*                 every job created under it is cancelled from then on    *)
(*   Clear(p)    = clearAllPeerDials(p) (the peer's dial worker exits)     *)
(*                                                                         *)
(* Clauses (C05: "no more than the per-peer and file-descriptor            *)
(* concurrency caps are in flight", "every address ... is attempted unless *)
(* ... every caller has given up first", "once all callers have returned   *)
(* no attempt, token or worker remains"):                                  *)
(*  L1  FdCap, PeerCap           tokens handed out never exceed the caps   *)
(*  L2  FdExact, PeerExact       the counters equal the jobs holding them  *)
(*  L3  WorkConservingFd/Peer    a live job waits only while the cap it    *)
(*                               waits for is exhausted                    *)
(*  L4  Rest                     nothing in flight => no FD token, no FD   *)
(*                               waiter, no live waiter                    *)
(*  L5  Served (liveness)        a waiting job is eventually started or    *)
(*                               its context has ended                     *)
(* Code quirk modelled as it is: a cancelled job parked on the FD wait     *)
(* list keeps its per-peer token until an FD token frees (Clear does not   *)
(* touch waitingOnFd).                                                     *)
(* LoopGuard = FALSE is the loop of freeFDToken as it was before the       *)
(* repair 7ca1c83 (`for len(dl.waitingOnFd) > 0`): FdCap must FAIL for it. *)
(***************************************************************************)
EXTENDS Naturals, Sequences, FiniteSets, TLC

CONSTANTS Jobs, PeerOf, Fd, CtxOf,   \* the jobs: [Jobs -> Peers], [Jobs -> BOOLEAN] (consumes a file descriptor), [Jobs -> Ctxs]
          FdLimit, PerPeer, LoopGuard

Peers == {PeerOf[j] : j \in Jobs}
Ctxs == {CtxOf[j] : j \in Jobs}

VARIABLES st,        \* [Jobs -> {"new","waitPeer","waitFd","starting","running","done","dropped"}]
          fdc,       \* fdConsuming
          act,       \* activePerPeer
          wfd,       \* waitingOnFd
          wpeer,     \* waitingOnPeerLimit
          cancelled, \* contexts that have ended
          op         \* output only

vars == <<st, fdc, act, wfd, wpeer, cancelled, op>>
View == <<st, fdc, act, wfd, wpeer, cancelled>>

Dead(j) == CtxOf[j] \in cancelled
S0 == [st |-> st, fdc |-> fdc, act |-> act, wfd |-> wfd, wpeer |-> wpeer]

AddCheckFd(S, n) ==
  IF Fd[n]
  THEN IF S.fdc >= FdLimit
       THEN [S EXCEPT !.wfd = Append(@, n), !.st[n] = "waitFd"]
       ELSE [S EXCEPT !.fdc = @ + 1, !.st[n] = "starting"]
  ELSE [S EXCEPT !.st[n] = "starting"]

AddCheckPeer(S, n) ==
  LET p == PeerOf[n] IN
  IF S.act[p] >= PerPeer
  THEN [S EXCEPT !.wpeer[p] = Append(@, n), !.st[n] = "waitPeer"]
  ELSE AddCheckFd([S EXCEPT !.act[p] = @ + 1], n)

RECURSIVE PeerLoop(_, _)
PeerLoop(S, p) ==
  IF S.wpeer[p] = <<>> THEN S
  ELSE LET n == Head(S.wpeer[p])
           S1 == [S EXCEPT !.wpeer[p] = Tail(@)]
       IN IF Dead(n) THEN PeerLoop([S1 EXCEPT !.st[n] = "dropped"], p)
          ELSE AddCheckFd([S1 EXCEPT !.act[p] = @ + 1], n)      \* "just kidding, we still want this token"
FreePeer(S, j) == PeerLoop([S EXCEPT !.act[PeerOf[j]] = @ - 1], PeerOf[j])

RECURSIVE FdLoop(_)
FdLoop(S) ==
  IF S.wfd = <<>> \/ (LoopGuard /\ S.fdc >= FdLimit) THEN S
  ELSE LET n == Head(S.wfd)
           S1 == [S EXCEPT !.wfd = Tail(@)]
       IN IF Dead(n) THEN FdLoop(FreePeer([S1 EXCEPT !.st[n] = "dropped"], n))
          ELSE [S1 EXCEPT !.fdc = @ + 1, !.st[n] = "starting"]
FreeFd(S) == FdLoop([S EXCEPT !.fdc = @ - 1])

Finished(S, j) == LET S1 == IF Fd[j] THEN FreeFd(S) ELSE S
                  IN FreePeer([S1 EXCEPT !.st[j] = "done"], j)

Set(S) == /\ st' = S.st /\ fdc' = S.fdc /\ act' = S.act /\ wfd' = S.wfd /\ wpeer' = S.wpeer

Init == /\ st = [j \in Jobs |-> "new"] /\ fdc = 0 /\ act = [p \in Peers |-> 0]
        /\ wfd = <<>> /\ wpeer = [p \in Peers |-> <<>>] /\ cancelled = {}
        /\ op = [name |-> "init"]

Add(j) == /\ st[j] = "new" /\ Set(AddCheckPeer(S0, j)) /\ UNCHANGED cancelled
          /\ op' = [name |-> "add", j |-> j]
Exec(j) == /\ st[j] = "starting" /\ ~Dead(j)
           /\ st' = [st EXCEPT ![j] = "running"] /\ UNCHANGED <<fdc, act, wfd, wpeer, cancelled>>
           /\ op' = [name |-> "exec", j |-> j]
ExecDead(j) == /\ st[j] = "starting" /\ Dead(j) /\ Set(Finished(S0, j)) /\ UNCHANGED cancelled
               /\ op' = [name |-> "execdead", j |-> j]
Finish(j) == /\ st[j] = "running" /\ Set(Finished(S0, j)) /\ UNCHANGED cancelled
             /\ op' = [name |-> "finish", j |-> j]
Cancel(c) == /\ c \notin cancelled /\ cancelled' = cancelled \cup {c}
             /\ UNCHANGED <<st, fdc, act, wfd, wpeer>>
             /\ op' = [name |-> "cancel", c |-> c]
\* the worker of p exits: only after every context under which it queued jobs has ended
RECURSIVE DropAll(_, _)
DropAll(s, q) == IF q = <<>> THEN s ELSE DropAll([s EXCEPT ![Head(q)] = "dropped"], Tail(q))
Clear(p) == /\ wpeer[p] # <<>> /\ \A i \in 1..Len(wpeer[p]) : Dead(wpeer[p][i])
            /\ st' = DropAll(st, wpeer[p]) /\ wpeer' = [wpeer EXCEPT ![p] = <<>>]
            /\ UNCHANGED <<fdc, act, wfd, cancelled>>
            /\ op' = [name |-> "clear", p |-> p]

Next == \/ \E j \in Jobs : Add(j) \/ Exec(j) \/ ExecDead(j) \/ Finish(j)
        \/ \E c \in Ctxs : Cancel(c)
        \/ \E p \in Peers : Clear(p)

Spec == Init /\ [][Next]_vars /\ \A j \in Jobs : WF_vars(Exec(j)) /\ WF_vars(ExecDead(j)) /\ WF_vars(Finish(j))

----------------------------------------------------------------------------
Holding(S) == {j \in Jobs : st[j] \in S}
Range(q) == {q[i] : i \in 1..Len(q)}
TypeOK == /\ fdc \in Nat /\ \A p \in Peers : act[p] \in Nat
          /\ Range(wfd) = Holding({"waitFd"}) /\ Len(wfd) = Cardinality(Range(wfd))
          /\ \A p \in Peers : /\ Range(wpeer[p]) = {j \in Holding({"waitPeer"}) : PeerOf[j] = p}
                              /\ Len(wpeer[p]) = Cardinality(Range(wpeer[p]))
FdCap == fdc <= FdLimit
PeerCap == \A p \in Peers : act[p] <= PerPeer
FdExact == fdc = Cardinality({j \in Holding({"starting", "running"}) : Fd[j]})
PeerExact == \A p \in Peers : act[p] = Cardinality({j \in Holding({"starting", "running", "waitFd"}) : PeerOf[j] = p})
WorkConservingFd == (\E j \in Holding({"waitFd"}) : ~Dead(j)) => fdc >= FdLimit
WorkConservingPeer == \A p \in Peers : (\E j \in Range(wpeer[p]) : ~Dead(j)) => act[p] >= PerPeer
Rest == Holding({"starting", "running"}) = {} =>
          /\ fdc = 0 /\ wfd = <<>> /\ \A p \in Peers : act[p] = 0 /\ \A j \in Range(wpeer[p]) : Dead(j)
Served == \A j \in Jobs : (st[j] \in {"waitPeer", "waitFd"}) ~> (st[j] \in {"running", "done", "dropped"} \/ Dead(j))
\* in flight as a transport sees it: never more than the caps
InFlightCaps == /\ Cardinality({j \in Holding({"running"}) : Fd[j]}) <= FdLimit
                /\ \A p \in Peers : Cardinality({j \in Holding({"running"}) : PeerOf[j] = p}) <= PerPeer

\* vacuity guards (expected to be violated)
ReachSkipWakes == ~(op.name \in {"finish", "execdead"} /\ \E j \in Jobs : st[j] = "dropped" /\ Fd[j]
                     /\ \E k \in Holding({"starting"}) : PeerOf[k] = PeerOf[j])
ReachStaleToken == \A j \in Holding({"waitFd"}) : ~Dead(j)
=============================================================================
