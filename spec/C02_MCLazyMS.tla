--------------------------- MODULE C02_MCLazyMS ---------------------------
EXTENDS C02_LazyMS, Json
Tok(x) == IF x.t = "h" THEN (IF x.i = 1 THEN "h1" ELSE "h2") ELSE x.t
St == << [i \in 1..Len(cs) |-> Tok(cs[i])], [i \in 1..Len(sc) |-> Tok(sc[i])], cw, crh, crd, sst, csent, ssent,
         Len(cdel), Len(sdel), cfin, sfin, ceof, seof >>
EmitEdge == PrintT(<<"VFEDGE", ToJson([s |-> St, op |-> op', t |-> St'])>>)
Conf == [maxsent |-> MaxSent, bufs |-> Bufs, delays |-> Delays]
MCInit == Init /\ PrintT(<<"VFINIT", ToJson(St)>>) /\ PrintT(<<"VFCONF", ToJson(Conf)>>)
=============================================================================
