\* Template: checks/C01.py selects the part (INIT/NEXT/INVARIANTS lines) and the constants.
CONSTANTS
  MaxEdits = 2
  Variant = "code"
  ExpI = {"match", "diff", "empty", "off"}
  ExpR = {"match", "diff", "empty", "off"}
  Pros = {"none", "eq", "diff", "one"}
  Warm = {FALSE, TRUE}
  TMaxMut = 2
  SAddrs = 3
INIT InitN
NEXT NextN
VIEW View
INVARIANTS TypeOKN AuthN ExpectN NoAlteredN AgreeN
