\* Template: checks/C03rate.py instantiates Inst for every bounded instance of the rate-limiter model.
CONSTANTS
  Inst = "sub4"
  U = 2
  Addrs <- MCAddrs
  FamOf <- MCFamOf
  NP <- MCNP
  Levels <- MCLevels
  Glob <- MCGlob
  Grace <- MCGrace
INIT Init
NEXT Next
VIEW View
CHECK_DEADLOCK FALSE
INVARIANTS TypeOK BoundOK ForgetSound ExpiryCovers Rested
PROPERTIES Retention DecisionOK PrefixExempt RefusalInert Independence ChargeOnce Replenish
