----------------------------- MODULE C04qr_Pool -----------------------------
(***************************************************************************)
(* Extension engine C04qr (parent property C04: everything acquired is     *)
(* released), part 1: the QUIC transport pool of p2p/transport/quicreuse   *)
(* (connmgr.go ConnManager, reuse.go reuse / refcountedTransport /         *)
(* singleOwnerTransport, the registry side of listener.go).                *)
(*                                                                         *)
(* STATEMENT (derived from the doc comments of ConnManager, DialQUIC,      *)
(* ListenQUICAndAssociate, LendTransport, the comments in reuse.go and the *)
(* package's own tests).  A "socket" is the net.PacketConn obtained from   *)
(* listenUDP together with the quic transport built on it; a "user" of a   *)
(* socket is the shared QUIC listener of an address that has at least one  *)
(* open protocol listener, a transport handed out by TransportForDial /    *)
(* TransportWithAssociationForDial and not yet given back (DecreaseCount), *)
(* a connection dialled by DialQUIC that has not ended, or an open         *)
(* SharedNonQUICPacketConn.                                                *)
(*                                                                         *)
(*  Q1 (never closed in use)  while the ConnManager is open, a socket that *)
(*      has a user is neither closed nor dropped from the pool.            *)
(*  Q2 (count = users)  the reference count of a pooled transport equals   *)
(*      its number of users; it is never negative; "unused since" is set   *)
(*      iff the count returned to zero.                                    *)
(*  Q3 (only after the GC period)  with reuse, a socket is closed by the   *)
(*      pool only at a GC instant at which it had been without users for   *)
(*      more than maxUnusedDuration.                                       *)
(*  Q4 (closed when due)  conversely a pooled socket that has been without *)
(*      users for more than maxUnusedDuration does not survive a GC        *)
(*      instant; every way of ending a use - also the error exits of       *)
(*      ListenQUIC and DialQUIC - gives the reference back.                *)
(*  Q5 (single owner)  with DisableReuseport every socket has one owner    *)
(*      and is closed when that owner is done (last protocol listener of   *)
(*      the address closed, DecreaseCount, failed dial or failed listen).  *)
(*  Q6 (lender)  a lent transport is never closed by the ConnManager; its  *)
(*      done-signal is closed exactly once, when the pool lets go of it    *)
(*      (Q3/Q4 or Close).                                                  *)
(*  Q7 (listener registry)  protocol listeners of one address share one    *)
(*      QUIC listener; a second listener for a protocol already served is  *)
(*      refused; closing a protocol listener leaves the others of the      *)
(*      address working; closing the last one closes the shared listener   *)
(*      and gives back its reference; Close of a listener is idempotent.   *)
(*  Q8 (dial preference)  TransportForDial picks, in this order: a         *)
(*      transport listening on the preferred source IP of the destination, *)
(*      a transport listening on the unspecified address, a transport      *)
(*      previously used for dialling, a new socket; within the first       *)
(*      non-empty listening class one that carries the given association   *)
(*      if there is one.  Listening on port 0 (or on its port) of the      *)
(*      unspecified address re-uses a dial transport.                      *)
(*  Q9 (Close)  ConnManager.Close closes every pooled socket (and signals  *)
(*      every lender), whatever its count.                                 *)
(*                                                                         *)
(* Modelled as the code is where the statement leaves it open: a transport *)
(* moved to the listening class stays there after its listener is gone;    *)
(* a listen on a fixed port fails (address in use) while an unused socket  *)
(* on it waits for the GC; a lent transport that was never used is kept    *)
(* until Close; routes are looked up only while unicast listeners exist.   *)
(*                                                                         *)
(* The module is the STATEMENT.  When it was written the code fell short   *)
(* of it in three places, reported as findings (known_findings.d/          *)
(* C04qr.json) and NOT modelled: DialQUIC never gives back the reference   *)
(* of a successful dial (Q4), ListenQUICAndAssociate keeps the reference   *)
(* when newQuicListener fails (Q4), singleOwnerTransport.DecreaseCount     *)
(* closes the QUIC transport but not the socket (Q5).  With the candidate  *)
(* repairs applied the real code follows this module step by step.         *)
(*                                                                         *)
(* One action per public call / critical section; TransportForDial is two  *)
(* steps (routes read, router asked outside the lock, then the choice), so *)
(* that listens, closes and GC ticks interleave with it.  Faults of the    *)
(* environment (listenUDP error, a socket on which the QUIC transport      *)
(* cannot be initialised, route selector error, TLS config without ALPN,   *)
(* failing dial) are parameters of the actions.  Time is counted in units  *)
(* U and kept relative, so that it is unbounded in a finite model: "phase" *)
(* is the time modulo the GC interval (the GC runs just before the         *)
(* instants with phase 0), "unused" of a socket is the number of units     *)
(* since its count returned to zero (-1: in use or never used), capped at  *)
(* MaxUnused + 1, from where on the socket is due at the next GC instant.  *)
(***************************************************************************)
EXTENDS Integers, FiniteSets, Sequences, TLC

CONSTANTS Reuse,       \* TRUE: reuseport enabled (pool);  FALSE: DisableReuseport (single owner transports)
          MaxSock, MaxLn, MaxDial, MaxShare, MaxLend, MaxFaults,
          Protos, Assocs, LAddrs, UIPs, DialKinds, Faults,
          GcEvery, MaxUnused

AnyIP == "any"
None == "none"
FreePort(id) == 100 + id

VARIABLES st, op
vars == <<st, op>>
View == st

NoSock == [ip |-> None, port |-> 0, pool |-> "-", ref |-> 0, unused |-> -1, closed |-> FALSE, lent |-> FALSE,
           bad |-> FALSE, done |-> FALSE]
NoQl == [rc |-> 0, protos |-> [p \in Protos |-> 0]]
NoLn == [st |-> "free", sock |-> 0, proto |-> None, assoc |-> None]
NoDial == [st |-> "free", kind |-> None, assoc |-> None, src |-> None, routed |-> FALSE, sock |-> 0]
NoShare == [st |-> "free", sock |-> 0]

Init == /\ st = [n |-> 0, socks |-> [s \in 1..MaxSock |-> NoSock], ql |-> [s \in 1..MaxSock |-> NoQl],
                 lns |-> [l \in 1..MaxLn |-> NoLn], nl |-> 0,
                 dials |-> [d \in 1..MaxDial |-> NoDial], nd |-> 0,
                 shares |-> [k \in 1..MaxShare |-> NoShare], nk |-> 0, nlend |-> 0,
                 routes |-> FALSE, phase |-> 0, nf |-> 0, cmClosed |-> FALSE]
        /\ op = [name |-> "init"]

Ids == 1..st.n
Pooled(s) == st.socks[s].pool \in {"L", "D", "U"}

HeldDials(s) == {d \in 1..MaxDial : st.dials[d].st = "held" /\ st.dials[d].sock = s}
OpenShares(s) == {k \in 1..MaxShare : st.shares[k].st = "open" /\ st.shares[k].sock = s}
Users(s) == (IF st.ql[s].rc > 0 THEN 1 ELSE 0) + Cardinality(HeldDials(s)) + Cardinality(OpenShares(s))

\* the fake OS: a fixed port conflicts with any open socket on an overlapping address
Conflict(a) == a.port # 0 /\ \E s \in Ids : /\ ~st.socks[s].closed
                                            /\ st.socks[s].port = a.port
                                            /\ (a.ip = AnyIP \/ st.socks[s].ip = AnyIP \/ st.socks[s].ip = a.ip)

FaultOk(f) == f = "ok" \/ (f \in Faults /\ st.nf < MaxFaults)
Nf(f) == IF f = "ok" THEN st.nf ELSE st.nf + 1

\* DecreaseCount on socket record k (the second argument is not used: the age of a socket that just became unused is 0)
Dec(k, t) == IF Reuse
             THEN [k EXCEPT !.ref = k.ref - 1, !.unused = IF k.ref - 1 = 0 THEN 0 ELSE k.unused]
             ELSE [k EXCEPT !.ref = 0, !.closed = TRUE]          \* single owner: the owner is done
Inc(k) == [k EXCEPT !.ref = k.ref + 1, !.unused = -1]

Sock(ip, port, pool, ref, bad, lent) ==
  [ip |-> ip, port |-> IF port = 0 THEN FreePort(st.n + 1) ELSE port, pool |-> pool, ref |-> ref, unused |-> -1,
   closed |-> FALSE, lent |-> lent, bad |-> bad, done |-> FALSE]

UnicastOf(ip) == {s \in Ids : st.socks[s].pool = "U" /\ st.socks[s].ip = ip}

(***************************************************************************)
(* ListenQUIC / ListenQUICAndAssociate(assoc, addr, tlsConf{proto})        *)
(***************************************************************************)
\* (sock: the socket whose transport the failed call had obtained and gave back, 0 if none)
ListenErr(a, p, as, f, e, s, nst) ==
  /\ st' = nst
  /\ op' = [name |-> "listen", ip |-> a.ip, port |-> a.port, proto |-> p, assoc |-> as, fault |-> f, ok |-> FALSE,
            err |-> e, ln |-> 0, sock |-> s]

ListenOk(a, p, as, f, s, socks2, routes2, n2) ==
  LET l == st.nl + 1 IN
  /\ st' = [st EXCEPT !.n = n2, !.socks = socks2, !.routes = routes2, !.nl = l, !.nf = Nf(f),
                      !.ql[s] = [rc |-> st.ql[s].rc + 1, protos |-> [st.ql[s].protos EXCEPT ![p] = l]],
                      !.lns[l] = [st |-> "open", sock |-> s, proto |-> p, assoc |-> as]]
  /\ op' = [name |-> "listen", ip |-> a.ip, port |-> a.port, proto |-> p, assoc |-> as, fault |-> f, ok |-> TRUE,
            err |-> None, ln |-> l, sock |-> s]

\* the tail of a listen on a transport tr that was just obtained (count already increased): newQuicListener, Add
ListenOn(a, p, as, f, s, socks2, routes2, n2) ==
  IF socks2[s].bad
  THEN \* quic Listen fails: the reference is given back (Q4)
       ListenErr(a, p, as, f, "listenfail", s,
                 [st EXCEPT !.n = n2, !.socks = [socks2 EXCEPT ![s] = Dec(socks2[s], 0)], !.routes = routes2, !.nf = Nf(f)])
  ELSE IF f = "noalpn"
  THEN \* quicListener.Add refuses; the fresh shared listener is closed again, its accept loop gives the reference back
       ListenErr(a, p, as, f, "noalpn", s,
                 [st EXCEPT !.n = n2, !.socks = [socks2 EXCEPT ![s] = Dec(socks2[s], 0)], !.routes = routes2, !.nf = Nf(f)])
  ELSE ListenOk(a, p, as, f, s, socks2, routes2, n2)

Listen(a, p, as, f) ==
  /\ ~st.cmClosed /\ st.nl < MaxLn /\ FaultOk(f)
  /\ LET hit == {s \in Ids : st.ql[s].rc > 0 /\ st.socks[s].ip = a.ip /\ st.socks[s].port = a.port} IN
     IF hit # {}
     THEN \* the address already has a shared QUIC listener
          /\ f \in {"ok", "noalpn"}
          /\ LET s == CHOOSE x \in hit : TRUE IN
             IF f = "noalpn" THEN ListenErr(a, p, as, f, "noalpn", 0, [st EXCEPT !.nf = Nf(f)])
             ELSE IF st.ql[s].protos[p] # 0 THEN ListenErr(a, p, as, f, "dup", 0, st)
             ELSE ListenOk(a, p, as, f, s, st.socks, st.routes, st.n)
     ELSE
       LET reuseD == IF Reuse /\ a.ip = AnyIP
                     THEN {s \in Ids : st.socks[s].pool = "D" /\ (a.port = 0 \/ st.socks[s].port = a.port)}
                     ELSE {}
       IN IF reuseD # {}
          THEN \* a transport already used for dialling becomes a listening transport
               /\ f \in {"ok", "noalpn"}
               /\ \E s \in reuseD :
                    ListenOn(a, p, as, f, s, [st.socks EXCEPT ![s] = [Inc(st.socks[s]) EXCEPT !.pool = "L"]],
                             st.routes, st.n)
          ELSE IF f = "oserr" THEN ListenErr(a, p, as, f, "oserr", 0, [st EXCEPT !.nf = Nf(f)])
          ELSE IF Conflict(a) THEN /\ f = "ok"
                                   /\ ListenErr(a, p, as, f, "inuse", 0, st)
          ELSE /\ st.n < MaxSock
               /\ f # "selerr" \/ (Reuse /\ a.ip # AnyIP /\ UnicastOf(a.ip) = {})
               /\ LET s == st.n + 1
                      pool == IF ~Reuse THEN "X" ELSE IF a.ip = AnyIP THEN "L" ELSE "U"
                      k == Sock(a.ip, a.port, pool, 1, f = "bad", FALSE)
                      routes2 == IF Reuse /\ a.ip # AnyIP /\ UnicastOf(a.ip) = {} THEN f # "selerr" ELSE st.routes
                  IN ListenOn(a, p, as, f, s, [st.socks EXCEPT ![s] = k], routes2, s)

(***************************************************************************)
(* listener.Close (idempotent): association and protocol removed, entry    *)
(* count decreased; the last one closes the shared listener, whose accept  *)
(* loop gives the transport reference back.                                *)
(***************************************************************************)
CloseListener(l) ==
  /\ st.lns[l].st \in {"open", "closed"}
  /\ IF st.lns[l].st = "closed"
     THEN st' = st
     ELSE LET s == st.lns[l].sock
              rc2 == st.ql[s].rc - 1
              \* after ConnManager.Close the transport is closed already: the count no longer matters
              k2 == IF rc2 = 0 /\ ~st.cmClosed THEN Dec(st.socks[s], 0) ELSE st.socks[s]
          IN st' = [st EXCEPT !.lns[l] = [NoLn EXCEPT !.st = "closed"],
                              !.ql[s] = IF rc2 = 0 THEN NoQl ELSE [rc |-> rc2, protos |-> [st.ql[s].protos EXCEPT ![st.lns[l].proto] = 0]],
                              !.socks[s] = k2]
  /\ op' = [name |-> "closeln", ln |-> l, again |-> st.lns[l].st = "closed"]

(***************************************************************************)
(* TransportForDial / TransportWithAssociationForDial / DialQUIC           *)
(***************************************************************************)
DialBegin(kind, as, src) ==
  /\ ~st.cmClosed /\ st.nd < MaxDial
  /\ (src # None) => (Reuse /\ st.routes)     \* the router is only asked while r.routes is set
  /\ LET d == st.nd + 1 IN
     /\ st' = [st EXCEPT !.nd = d, !.dials[d] = [st |-> "begun", kind |-> kind, assoc |-> as, src |-> src, routed |-> (Reuse /\ st.routes), sock |-> 0]]
     /\ op' = [name |-> "dialbegin", d |-> d, kind |-> kind, assoc |-> as, src |-> src, routed |-> (Reuse /\ st.routes)]

HasAssoc(s, as) == as = None \/ \E l \in 1..MaxLn : st.lns[l].st = "open" /\ st.lns[l].sock = s /\ st.lns[l].assoc = as
Prefer(T, as) == IF \E s \in T : HasAssoc(s, as) THEN {s \in T : HasAssoc(s, as)} ELSE T
DialChoice(src, as) ==
  LET t1 == IF src = None THEN {} ELSE UnicastOf(src)
      t2 == {s \in Ids : st.socks[s].pool = "L"}
      t3 == {s \in Ids : st.socks[s].pool = "D"}
  IN IF t1 # {} THEN Prefer(t1, as) ELSE IF t2 # {} THEN Prefer(t2, as) ELSE t3

\* outcome of the dial on socket record k: a transport handed out stays held; DialQUIC holds it while the connection lives
DialFinish(d, f, out, s, socks2, n2) ==
  LET fails == st.dials[d].kind = "dq" /\ (out = "fail" \/ socks2[s].bad) IN
  /\ st' = [st EXCEPT !.n = n2, !.nf = Nf(f),
                      !.socks = IF fails THEN [socks2 EXCEPT ![s] = Dec(socks2[s], 0)] ELSE socks2,
                      !.dials[d] = IF fails THEN [NoDial EXCEPT !.st = "done"] ELSE [st.dials[d] EXCEPT !.st = "held", !.sock = s, !.src = None, !.routed = FALSE]]
  /\ op' = [name |-> "dialend", d |-> d, fault |-> f, out |-> IF fails THEN "fail" ELSE "ok", ok |-> ~fails, sock |-> s,
            err |-> IF fails THEN "dialfail" ELSE None]

DialEnd(d, f, out) ==
  /\ st.dials[d].st = "begun" /\ ~st.cmClosed /\ FaultOk(f)
  /\ out = "fail" => st.dials[d].kind = "dq"
  /\ LET ch == IF Reuse THEN DialChoice(st.dials[d].src, st.dials[d].assoc) ELSE {} IN
     IF ch # {}
     THEN /\ f = "ok"
          /\ \E s \in ch : DialFinish(d, f, out, s, [st.socks EXCEPT ![s] = Inc(st.socks[s])], st.n)
     ELSE IF f = "oserr"
     THEN /\ st' = [st EXCEPT !.nf = Nf(f), !.dials[d] = [NoDial EXCEPT !.st = "done"]]
          /\ op' = [name |-> "dialend", d |-> d, fault |-> f, out |-> "fail", ok |-> FALSE, sock |-> 0, err |-> "oserr"]
     ELSE /\ st.n < MaxSock /\ f \in {"ok", "bad"}
          /\ LET s == st.n + 1
                 k == Sock(AnyIP, 0, IF Reuse THEN "D" ELSE "X", 1, f = "bad", FALSE)
             IN DialFinish(d, f, out, s, [st.socks EXCEPT ![s] = k], s)

\* DecreaseCount by the holder of a dial transport / the end of a connection dialled by DialQUIC
Release(d) ==
  /\ st.dials[d].st = "held"
  /\ LET s == st.dials[d].sock IN
     st' = [st EXCEPT !.dials[d] = [NoDial EXCEPT !.st = "done"], !.socks[s] = IF st.cmClosed THEN st.socks[s] ELSE Dec(st.socks[s], 0)]
  /\ op' = [name |-> "release", d |-> d, kind |-> st.dials[d].kind, sock |-> st.dials[d].sock]

(***************************************************************************)
(* SharedNonQUICPacketConn(laddr) and its Close                            *)
(***************************************************************************)
Share(a) ==
  /\ ~st.cmClosed /\ st.nk < MaxShare
  /\ LET hit == {s \in Ids : st.ql[s].rc > 0 /\ st.socks[s].ip = a.ip /\ st.socks[s].port = a.port}
         k == st.nk + 1 IN
     IF hit = {} \/ ~Reuse
     THEN /\ st' = st
          /\ op' = [name |-> "share", ip |-> a.ip, port |-> a.port, ok |-> FALSE, k |-> 0, sock |-> 0]
     ELSE LET s == CHOOSE x \in hit : TRUE IN
          /\ st' = [st EXCEPT !.nk = k, !.shares[k] = [st |-> "open", sock |-> s], !.socks[s] = Inc(st.socks[s])]
          /\ op' = [name |-> "share", ip |-> a.ip, port |-> a.port, ok |-> TRUE, k |-> k, sock |-> s]

CloseShare(k) ==
  /\ st.shares[k].st = "open"
  /\ LET s == st.shares[k].sock IN
     st' = [st EXCEPT !.shares[k] = [NoShare EXCEPT !.st = "closed"], !.socks[s] = IF st.cmClosed THEN st.socks[s] ELSE Dec(st.socks[s], 0)]
  /\ op' = [name |-> "closeshare", k |-> k, sock |-> st.shares[k].sock]

(***************************************************************************)
(* LendTransport: an external transport on the unspecified address joins   *)
(* the dial class with count 0 and no "unused since"                       *)
(***************************************************************************)
Lend(port) ==
  /\ Reuse /\ ~st.cmClosed /\ st.nlend < MaxLend /\ st.n < MaxSock
  /\ ~Conflict([ip |-> AnyIP, port |-> port])        \* the lender could bind it
  /\ LET s == st.n + 1 IN
     /\ st' = [st EXCEPT !.n = s, !.nlend = st.nlend + 1, !.socks[s] = Sock(AnyIP, port, "D", 0, FALSE, TRUE)]
     /\ op' = [name |-> "lend", port |-> port, ok |-> TRUE, sock |-> s]

(***************************************************************************)
(* Time: one unit passes; between the instants GcEvery*k-1 and GcEvery*k   *)
(* the garbage collector sweeps the pool                                   *)
(***************************************************************************)
Cap == MaxUnused + 1
Due(k) == k.unused > MaxUnused
Aged(k) == IF k.unused >= 0 /\ k.unused < Cap THEN [k EXCEPT !.unused = k.unused + 1] ELSE k
Tick ==
  LET ph == (st.phase + 1) % GcEvery
      gc == Reuse /\ ~st.cmClosed /\ ph = 0
      coll == IF gc THEN {s \in Ids : Pooled(s) /\ Due(Aged(st.socks[s]))} ELSE {}
      socks2 == [s \in 1..MaxSock |->
                   IF s \in coll
                   THEN [Aged(st.socks[s]) EXCEPT !.pool = "X", !.closed = ~st.socks[s].lent, !.done = st.socks[s].lent, !.unused = -1]
                   ELSE IF s \in Ids /\ Pooled(s) /\ ~st.cmClosed THEN Aged(st.socks[s]) ELSE st.socks[s]]
      emptied == {ip \in UIPs : UnicastOf(ip) # {} /\ UnicastOf(ip) \subseteq coll}
      leftU == {s \in Ids : st.socks[s].pool = "U"} \ coll
      routes2 == IF emptied = {} THEN st.routes ELSE leftU # {}
  IN /\ st' = [st EXCEPT !.phase = ph, !.socks = socks2, !.routes = routes2]
     /\ op' = [name |-> "tick", gc |-> gc, collected |-> coll]

(***************************************************************************)
(* ConnManager.Close                                                       *)
(***************************************************************************)
CloseCM ==
  /\ ~st.cmClosed
  /\ \A d \in 1..MaxDial : st.dials[d].st # "begun"
  /\ st' = IF ~Reuse THEN st ELSE     \* without reuse Close is a no-op: every socket belongs to its single owner
           [st EXCEPT !.cmClosed = TRUE,
                      !.socks = [s \in 1..MaxSock |->
                                   IF s \in Ids /\ Pooled(s)
                                   THEN [st.socks[s] EXCEPT !.closed = ~st.socks[s].lent, !.done = st.socks[s].lent]
                                   ELSE st.socks[s]]]
  /\ op' = [name |-> "closecm"]

Next == \/ \E a \in LAddrs, p \in Protos, as \in Assocs \cup {None}, f \in Faults \cup {"ok"} : Listen(a, p, as, f)
        \/ \E l \in 1..MaxLn : CloseListener(l)
        \/ \E kind \in DialKinds, as \in Assocs \cup {None}, src \in UIPs \cup {None} : DialBegin(kind, as, src)
        \/ \E d \in 1..MaxDial, f \in Faults \cup {"ok"}, out \in {"ok", "fail"} : DialEnd(d, f, out)
        \/ \E d \in 1..MaxDial : Release(d)
        \/ \E a \in LAddrs : Share(a)
        \/ \E k \in 1..MaxShare : CloseShare(k)
        \/ \E port \in {a.port : a \in {x \in LAddrs : x.ip = AnyIP /\ x.port # 0}} : Lend(port)
        \/ Tick
        \/ CloseCM

Spec == Init /\ [][Next]_vars

(***************************************************************************)
(* The clauses                                                             *)
(***************************************************************************)
TypeOK == /\ st.n \in 0..MaxSock /\ st.phase \in 0..(GcEvery - 1)
          /\ \A s \in 1..MaxSock : s > st.n => st.socks[s] = NoSock

\* Q1: never closed, never dropped from the pool, while in use
NeverClosedInUse == ~st.cmClosed => \A s \in Ids : Users(s) > 0 => (~st.socks[s].closed /\ ~st.socks[s].done /\ (Reuse => Pooled(s)))

\* Q2: the count is the number of users
CountIsUsers == ~st.cmClosed => \A s \in Ids : (Reuse /\ Pooled(s)) =>
                   /\ st.socks[s].ref = Users(s)
                   /\ st.socks[s].ref >= 0
                   /\ (st.socks[s].unused >= 0) => st.socks[s].ref = 0
                   /\ (st.socks[s].ref = 0 /\ ~st.socks[s].lent) => st.socks[s].unused >= 0

\* Q3: the pool closes a socket only at a GC instant, after more than MaxUnused units without users
ClosedOnlyAfterPeriod ==
  [][\A s \in 1..MaxSock :
        (Reuse /\ ~st'.cmClosed /\ (st'.socks[s].closed \/ st'.socks[s].done) /\ ~(st.socks[s].closed \/ st.socks[s].done))
        => /\ op'.name = "tick" /\ st'.phase = 0
           /\ st.socks[s].unused >= MaxUnused          \* more than MaxUnused at the GC instant
           /\ Users(s) = 0]_vars

\* Q4: no pooled socket survives a GC instant at which it was due
\* (phase p: the last GC instant was p units ago; a socket whose age then exceeded MaxUnused would have been collected)
ClosedWhenDue == (Reuse /\ ~st.cmClosed) => \A s \in Ids : Pooled(s) =>
                     ~(st.socks[s].unused >= 0 /\ st.socks[s].unused - st.phase > MaxUnused)
\* ... and everything without users is on its way out: unused is set (Q2) - together: closed at the first GC instant
\* that is more than MaxUnused after the last user left.

\* Q5: single owner sockets are closed exactly when their owner is done
SingleOwner == ~Reuse => \A s \in Ids : st.socks[s].closed <=> Users(s) = 0

\* Q6: a lent socket is never closed by the pool, its signal only when the pool let go of it
Lender == \A s \in Ids : st.socks[s].lent => (~st.socks[s].closed /\ (st.socks[s].done => (st.cmClosed \/ ~Pooled(s))))

\* Q7: registry
Registry == \A s \in Ids :
              /\ st.ql[s].rc = Cardinality({l \in 1..MaxLn : st.lns[l].st = "open" /\ st.lns[l].sock = s})
              /\ \A p \in Protos : LET l == st.ql[s].protos[p] IN
                    l # 0 <=> \E m \in 1..MaxLn : st.lns[m].st = "open" /\ st.lns[m].sock = s /\ st.lns[m].proto = p
OneAddrOneListener == \A s, t \in Ids : (s # t /\ st.ql[s].rc > 0 /\ st.ql[t].rc > 0) =>
                         ~(st.socks[s].ip = st.socks[t].ip /\ st.socks[s].port = st.socks[t].port)
SiblingsSurvive == [][\A l \in 1..MaxLn : (op'.name = "closeln" /\ op'.ln # l /\ st.lns[l].st = "open") =>
                         (st'.lns[l].st = "open" /\ st'.ql[st.lns[l].sock].rc > 0)]_vars

\* Q8 as a property of the answer (independent of how DialEnd is written)
DialPreference ==
  [][(op'.name = "dialend" /\ op'.sock # 0 /\ Reuse) =>
       LET d == op'.d
           s == op'.sock
           src == st.dials[d].src
           as == st.dials[d].assoc
           uni == IF src = None THEN {} ELSE UnicastOf(src)
           glob == {x \in Ids : st.socks[x].pool = "L"}
           dl == {x \in Ids : st.socks[x].pool = "D"}
           cls == IF uni # {} THEN uni ELSE IF glob # {} THEN glob ELSE dl
       IN /\ cls # {} => s \in cls
          /\ cls = {} => s = st.n + 1                    \* a new socket only when nothing can be re-used
          /\ (cls # dl /\ \E x \in cls : HasAssoc(x, as)) => HasAssoc(s, as)]_vars

\* Q9
CloseClosesAll == (Reuse /\ st.cmClosed) => \A s \in Ids : (st.socks[s].pool # "X") => (IF st.socks[s].lent THEN st.socks[s].done ELSE st.socks[s].closed)

\* a closed socket stays closed, a signalled lender stays signalled, and the pool never signals twice (exactly once)
ClosedIsFinal == [][\A s \in 1..MaxSock : (st.socks[s].closed => st'.socks[s].closed) /\ (st.socks[s].done => st'.socks[s].done)]_vars

\* what the harness can schedule: a dial that does not reach the router call-back is one step
Sequential == (\E d \in 1..MaxDial : st.dials[d].st = "begun" /\ ~st.dials[d].routed) => op'.name = "dialend"

(* vacuity probes (expected to be violated) *)
ReachGcClose == ~(\E s \in Ids : st.socks[s].closed /\ ~st.cmClosed /\ Reuse)
ReachReuseDialer == ~(\E s \in Ids : st.socks[s].pool = "L" /\ Cardinality(HeldDials(s)) > 0 /\ st.ql[s].rc > 0 /\ st.socks[s].port >= 100)
ReachLentDone == ~(\E s \in Ids : st.socks[s].lent /\ st.socks[s].done /\ ~st.cmClosed)
ReachAssocChoice == ~(op.name = "dialend" /\ op.sock # 0 /\ Cardinality({s \in Ids : st.socks[s].pool \in {"L", "U"}}) >= 2)
=============================================================================
