\* Template: checks/C02.py instantiates the constants (stream multiplexer layer).
CONSTANTS
  Streams = {1, 2}
  MaxSent = 2
  MaxWrite = 2
  MaxMsg = 1
  MaxTotal = 4
  MaxClose = 4
  Glitches = {"dataerr", "temperr", "shortwrite"}
  Cuts = {"cuteof", "cutrst"}
  CutPos = {0, 1, 2}
  Delays = {}
  Bufs = {1, 2}
INIT Init
NEXT Next
VIEW View
INVARIANTS TypeOK Prefix Conservation EofAfterAll HalfClose CleanEof TruncatedNeverClean OneTerminal
