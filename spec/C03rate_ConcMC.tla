---------------------------- MODULE C03rate_ConcMC ----------------------------
(* Bounded instances of C03rate_Conc: the address / bucket configurations of C03rate_MC with 2-3 concurrent callers. *)
EXTENDS C03rate_Conc
CONSTANT Inst
Key(f) == [n \in Addrs |-> IF n \in DOMAIN f THEN f[n] ELSE "-"]
MCAddrs == CASE Inst = "ksub" -> {"a", "b", "c"} [] Inst = "knp" -> {"p", "q", "a"}
MCFamOf == [n \in MCAddrs |-> "v4"]
MCNP == CASE Inst = "knp" -> << [mem |-> {"p"}, rate |-> 2, burst |-> 1], [mem |-> {"p", "q"}, rate |-> 2, burst |-> 2] >>
          [] OTHER -> << >>
MCLevels ==
  CASE Inst = "ksub" -> [v4 |-> << [key |-> Key([a |-> "4n1", b |-> "4n2", c |-> "4n3"]), rate |-> 2, burst |-> 1],
                                   [key |-> Key([a |-> "4w1", b |-> "4w1", c |-> "4w2"]), rate |-> 2, burst |-> 2] >>, v6 |-> << >>]
    [] Inst = "knp"  -> [v4 |-> << [key |-> Key([a |-> "4n1", p |-> "4np", q |-> "4nq"]), rate |-> 2, burst |-> 1] >>, v6 |-> << >>]
MCGlob == [rate |-> 2, burst |-> 2]
MCGrace == 0
=============================================================================
