----------------------------- MODULE C03_Rcmgr -----------------------------
(***************************************************************************)
(* Resource manager of go-libp2p (p2p/host/resource-manager: scope.go,     *)
(* rcmgr.go, conn_limiter.go, allowlist.go) at the code's grain.           *)
(*                                                                         *)
(* Every API call is compiled, from the state the caller sees under the    *)
(* locks it holds (its own scope and, for spans, the owner chain), into a  *)
(* SCRIPT: a decision tree of atomic per-scope steps                       *)
(*    R  reserve on one scope   (lock, done?, check limit, charge, unlock) *)
(*    L  release on one scope   (lock, done?, subtract, clamp at 0, unlock)*)
(*    F  refCnt +/- n           BA/BR  connLimiter add / remove            *)
(*    Ret                        private effects (own scope, edges, ...)   *)
(* R and BA carry the continuation taken on refusal (the code's undo path: *)
(* release the already charged prefix edges[:reserved], then give up, or   *)
(* retry in the allow-listed scopes).                                      *)
(*                                                                         *)
(* One interpreter (Exec1) executes one step.  Two modes share it:         *)
(*   sequential: one call at a time, run to its Ret in one big step        *)
(*               (printed graphs + replay on the real manager);            *)
(*   concurrent: several calls in flight, one step at a time (TLC only).   *)
(* Everything a call reads besides the shared named scopes is protected by *)
(* locks it holds for its whole duration, so the private part (own-scope   *)
(* checks and charges along the span chain) is evaluated when the call     *)
(* starts and applied at its Ret (a reduction: those steps commute with    *)
(* every step of every other call).  Locks of named scopes held across a   *)
(* direct reservation are not modelled (more interleavings, not fewer).    *)
(***************************************************************************)
EXTENDS Integers, Sequences, FiniteSets, TLC

CONSTANTS
  Conns, Streams, Spans,   \* sequences of object ids; a new object takes the first unused one
  Peers, Protos, Svcs,     \* sets of names
  Eps,                     \* endpoint ids
  EpIP,                    \* [Eps -> BOOLEAN]   endpoint carries an IP address
  EpBuckets,               \* [Eps -> SUBSET DOMAIN Cap]  connLimiter counters the address falls into
  Cap,                     \* [bucket -> Nat]    per-subnet / per-prefix cap
  AllowNet,                \* SUBSET Eps         allow-listed for every peer
  AllowPeer,               \* SUBSET (Eps \X Peers)  allow-listed for that peer only
  Lim,                     \* [named scope \cup {"conn","stream"} -> limit record]
  Inf,                     \* stands for MaxInt64 / MaxInt ("unlimited")
  Sizes, Prios,            \* memory sizes and priorities used by Reserve
  Dirs, Fds,               \* directions {"in","out"}, fd flags used by the Open calls
  ViewScopes,              \* named scopes reachable through View* (direct reservations, spans)
  Kinds,                   \* enabled call kinds
  Threads,                 \* sequence of caller ids; sequential mode uses the first only
  Sequential,              \* TRUE: big steps
  RetryGhost,              \* TRUE: remember per object which re-parenting calls were refused (see NoObj.rf)
  Preload                  \* sequence of calls executed (big steps) to build the initial state

VARIABLES w, op
vars == <<w, op>>

(***************************************************************************)
(* Scopes                                                                  *)
(***************************************************************************)
SYS == "sys"   TRANS == "trans"   ASYS == "asys"   ATRANS == "atrans"
PeerS(p) == "peer:" \o p
ProtoS(x) == "proto:" \o x
SvcS(x) == "svc:" \o x
PPS(x, p) == "proto:" \o x \o ".peer:" \o p
SPS(x, p) == "svc:" \o x \o ".peer:" \o p

Range(f) == {f[i] : i \in DOMAIN f}
Named == {SYS, TRANS, ASYS, ATRANS} \cup {PeerS(p) : p \in Peers} \cup {ProtoS(x) : x \in Protos}
         \cup {SvcS(x) : x \in Svcs} \cup {PPS(x, p) : x \in Protos, p \in Peers}
         \cup {SPS(x, p) : x \in Svcs, p \in Peers}
ConnIds == Range(Conns)   StreamIds == Range(Streams)   SpanIds == Range(Spans)
ObjIds == ConnIds \cup StreamIds \cup SpanIds
ThreadIds == Range(Threads)
T1 == Threads[1]
All == Named \cup ObjIds
GCable == {PeerS(p) : p \in Peers} \cup {ProtoS(x) : x \in Protos}   \* refCnt is tracked for these
\* the linearised parent set of the named scopes
NamedEdges(s) == IF s \in {SYS, ASYS} \/ s \notin ({TRANS, ATRANS} \cup GCable \cup {SvcS(x) : x \in Svcs}) THEN <<>>
                 ELSE IF s = ATRANS THEN <<ASYS>> ELSE <<SYS>>

(***************************************************************************)
(* Usage vectors and limits                                                *)
(***************************************************************************)
Z == [mem |-> 0, si |-> 0, so |-> 0, ci |-> 0, co |-> 0, fd |-> 0]
VAdd(a, b) == [mem |-> a.mem + b.mem, si |-> a.si + b.si, so |-> a.so + b.so,
               ci |-> a.ci + b.ci, co |-> a.co + b.co, fd |-> a.fd + b.fd]
VSub(a, b) == [mem |-> a.mem - b.mem, si |-> a.si - b.si, so |-> a.so - b.so,
               ci |-> a.ci - b.ci, co |-> a.co - b.co, fd |-> a.fd - b.fd]
Pos(n) == IF n < 0 THEN 0 ELSE n
\* releaseMemory / removeStreams / removeConns: subtract, "BUG" clamp at zero
VRel(a, b) == [mem |-> Pos(a.mem - b.mem), si |-> Pos(a.si - b.si), so |-> Pos(a.so - b.so),
               ci |-> Pos(a.ci - b.ci), co |-> Pos(a.co - b.co), fd |-> Pos(a.fd - b.fd)]
MemV(n) == [Z EXCEPT !.mem = n]
StrV(dir) == IF dir = "in" THEN [Z EXCEPT !.si = 1] ELSE [Z EXCEPT !.so = 1]
ConnV(dir, fd) == [Z EXCEPT !.ci = IF dir = "in" THEN 1 ELSE 0, !.co = IF dir = "in" THEN 0 ELSE 1,
                            !.fd = IF fd THEN 1 ELSE 0]

\* checkMemory (scope.go): newmem <= limit*(1+prio)/256, no check at all for the unlimited value
Thr(l, p) == (l * (1 + p)) \div 256
MemOK(u, n, l, p) == l.mem = Inf \/ u.mem + n <= Thr(l.mem, p)
\* addStreams / addConns: per-direction checks only for a positive delta, the total always
StrOK(u, d, l) == /\ (d.si > 0 => u.si + d.si <= l.si)
                  /\ (d.so > 0 => u.so + d.so <= l.so)
                  /\ u.si + d.si + u.so + d.so <= l.s
ConnOK(u, d, l) == /\ (d.ci > 0 => u.ci + d.ci <= l.ci)
                   /\ (d.co > 0 => u.co + d.co <= l.co)
                   /\ u.ci + d.ci + u.co + d.co <= l.c
                   /\ (d.fd > 0 => u.fd + d.fd <= l.fd)
Fits(u, d, l, p, chk) ==
  CASE chk = "mem"  -> MemOK(u, d.mem, l, p)
    [] chk = "str"  -> StrOK(u, d, l)
    [] chk = "conn" -> ConnOK(u, d, l)
    [] OTHER        -> MemOK(u, d.mem, l, 255) /\ StrOK(u, d, l) /\ ConnOK(u, d, l)   \* ReserveForChild

(***************************************************************************)
(* checkMemory's overflow-safe arithmetic (scope.go), transcribed on a     *)
(* two's-complement machine whose largest integer is MaxI (the code: int64,*)
(* MaxI = MaxInt64; TLC: any MaxI with 256*MaxI inside TLC's 32 bits).     *)
(***************************************************************************)
WrapI(x, MaxI) == ((x + MaxI + 1) % (2 * (MaxI + 1))) - (MaxI + 1)
TDiv(x, y) == IF x >= 0 THEN x \div y ELSE 0 - ((0 - x) \div y)          \* Go's / truncates toward zero
AddOvf(a, b, MaxI) == LET c == WrapI(a + b, MaxI) IN [c |-> c, ok |-> (c > a) = (b > 0)]
MulOvf(a, b, MaxI) ==
  LET c == WrapI(a * b, MaxI) IN
  IF a = 0 \/ b = 0 \/ a = 1 \/ b = 1 THEN [c |-> c, ok |-> TRUE]
  ELSE IF a = 0 - (MaxI + 1) \/ b = 0 - (MaxI + 1) THEN [c |-> c, ok |-> FALSE]
  ELSE [c |-> c, ok |-> TDiv(c, b) = a]
\* TRUE = the reservation is granted
CheckMemoryCode(mem, rsvp, limit, prio, MaxI) ==
  LET add == AddOvf(mem, rsvp, MaxI) IN
  \* "Special case where we've set max limits." -- taken only when the sum is representable (64fc8f8)
  IF limit = MaxI /\ add.ok THEN TRUE
  ELSE LET mul == MulOvf(1 + prio, limit, MaxI)
           thr == IF ~mul.ok THEN (limit * (1 + prio)) \div 256      \* the big.Int path: exact
                  ELSE TDiv(mul.c, 256)
       IN ~(~add.ok \/ add.c > thr)
\* the statement: granted iff the new total stays within limit*(1+prio)/256; MaxI means "unlimited" (no
\* priority scaling), where the total must still be a number the scope can report
CheckMemoryIdeal(mem, rsvp, limit, prio, MaxI) ==
  IF limit = MaxI THEN mem + rsvp <= MaxI ELSE mem + rsvp <= (limit * (1 + prio)) \div 256

(***************************************************************************)
(* Objects                                                                 *)
(***************************************************************************)
NoObj == [st |-> "none", dir |-> "", fd |-> FALSE, ep |-> "", al |-> FALSE, ipv |-> FALSE,
          peer |-> "", proto |-> "", svc |-> "", edges |-> <<>>, owner |-> "",
          \* ghost: re-parenting calls (setpeer, setprotocol, setservice) refused for a limit on this object so far.
          \* It changes nothing in the model, but it makes "after a refusal" a different graph node, so that the
          \* covering walks retry every re-parenting call after every refusal, also once room has appeared
          \* (an implementation may remember something across a refused attempt; the model cannot know what).
          rf |-> {}]
Idle == [k |-> "idle"]

W0 == [use   |-> [x \in All |-> Z],
       obj   |-> [o \in ObjIds |-> NoObj],
       cnt   |-> [b \in DOMAIN Cap |-> 0],
       ref   |-> [s \in GCable |-> 0],
       held  |-> [x \in All |-> 0],        \* ghost ledger: memory reserved through handle x and not released
       proc  |-> [t \in ThreadIds |-> Idle],
       pend  |-> [t \in ThreadIds |-> [s \in Named |-> Z]],       \* ghost: net effect of t's call in flight
       pendc |-> [t \in ThreadIds |-> [b \in DOMAIN Cap |-> 0]],
       \* ghost (RetryGhost): endpoints from which an OpenConnection was refused by a scope limit after the
       \* connLimiter had admitted it; like obj.rf it only splits graph nodes, so that every later call is
       \* also walked "after such a refusal" (the limiter's counters are state the refusal path touches)
       rfo   |-> {}]

IsDone(ww, x) == x \in ObjIds /\ ww.obj[x].st = "done"
RECURSIVE Chain(_, _)
Chain(ww, h) == IF h \in Named \/ ww.obj[h].owner = "" THEN <<h>> ELSE <<h>> \o Chain(ww, ww.obj[h].owner)
RECURSIVE LimOfScope(_, _)
LimOfScope(ww, x) == IF x \in Named THEN Lim[x]
                     ELSE IF x \in ConnIds THEN Lim["conn"]
                     ELSE IF x \in StreamIds THEN Lim["stream"]
                     ELSE LimOfScope(ww, ww.obj[x].owner)       \* a span copies its owner's limit
MinOf(S) == CHOOSE i \in S : \A j \in S : i <= j
HeldCap == 6
FirstFree(ww, ids) == LET free == {i \in DOMAIN ids : ww.obj[ids[i]].st = "none"} IN
                      IF free = {} THEN "" ELSE ids[MinOf(free)]
Allowed(ep) == ep \in AllowNet \/ \E p \in Peers : <<ep, p>> \in AllowPeer
AllowedFor(ep, p) == ep \in AllowNet \/ <<ep, p>> \in AllowPeer

(***************************************************************************)
(* Script construction                                                     *)
(***************************************************************************)
R(s, d, p, chk, fail) == [k |-> "R", s |-> s, d |-> d, p |-> p, chk |-> chk, fail |-> fail]
L(s, d) == [k |-> "L", s |-> s, d |-> d]
F(s, n) == [k |-> "F", s |-> s, n |-> n]
Fs(s, n) == IF s \in GCable THEN <<F(s, n)>> ELSE <<>>
Ret(err, fin) == [k |-> "Ret", err |-> err, fin |-> fin]
Ls(es, d) == [j \in 1..Len(es) |-> L(es[j], d)]

\* reserve*ForEdges: charge the edges in order; on refusal at edge i release edges[:i-1] (in that
\* order) and continue with failK; after the last edge continue with okK
RECURSIVE ChargeFrom(_, _, _, _, _, _, _)
ChargeFrom(es, i, d, p, chk, failK, okK) ==
  IF i > Len(es) THEN okK
  ELSE <<R(es[i], d, p, chk, Ls(SubSeq(es, 1, i - 1), d) \o failK)>> \o ChargeFrom(es, i + 1, d, p, chk, failK, okK)
Charge(es, d, p, chk, failK, okK) == ChargeFrom(es, 1, d, p, chk, failK, okK)

FirstDoneIdx(ww, ch) == LET ds == {i \in 1..Len(ch) : IsDone(ww, ch[i])} IN IF ds = {} THEN Len(ch) + 1 ELSE MinOf(ds)
ViewPre(root) == IF root \in Named THEN Fs(root, 1) ELSE <<>>      \* getXScope: IncRef ... defer DecRef
ViewPost(root) == IF root \in Named THEN Fs(root, 0 - 1) ELSE <<>>
RootEdges(ww, root) == IF root \in Named THEN <<root>> \o NamedEdges(root) ELSE ww.obj[root].edges
PrivLevels(ch) == IF ch[Len(ch)] \in Named THEN SubSeq(ch, 1, Len(ch) - 1) ELSE ch

\* ReserveMemory(size, prio) through handle h (conn, stream, span or a View scope)
CReserve(ww, h, n, p) ==
  LET ch == Chain(ww, h)
      root == ch[Len(ch)]
      priv == PrivLevels(ch)
      bad == {i \in 1..Len(priv) : IsDone(ww, priv[i]) \/ ~MemOK(ww.use[priv[i]], n, LimOfScope(ww, priv[i]), p)}
  IN IF bad # {}
     THEN <<Ret(IF IsDone(ww, priv[MinOf(bad)]) THEN "closed" ELSE "limit", <<>>)>>
     ELSE ViewPre(root) \o
          Charge(RootEdges(ww, root), MemV(n), p, "mem",
                 ViewPost(root) \o <<Ret("dyn", <<>>)>>,
                 ViewPost(root) \o <<Ret("nil", [i \in 1..Len(priv) |-> [f |-> "use+", x |-> priv[i], d |-> MemV(n)]]
                                                 \o <<[f |-> "held", h |-> h, n |-> n]>>)>>)

\* ReleaseMemory(size): every level subtracts and passes on until a closed level is met
CRelease(ww, h, n) ==
  LET ch == Chain(ww, h)
      fd == FirstDoneIdx(ww, ch)
      lv == SubSeq(ch, 1, fd - 1)
      reached == fd = Len(ch) + 1
      root == ch[Len(ch)]
      priv == IF reached THEN PrivLevels(ch) ELSE lv
      es == IF reached THEN RootEdges(ww, root) ELSE <<>>
  IN ViewPre(root) \o Ls(es, MemV(n)) \o ViewPost(root) \o
     <<Ret("nil", [i \in 1..Len(priv) |-> [f |-> "use-", x |-> priv[i], d |-> MemV(n)]]
                  \o (IF lv # <<>> THEN <<[f |-> "held", h |-> h, n |-> 0 - n]>> ELSE <<>>))>>

RECURSIVE RelRef(_, _)     \* doneUnlocked: for each edge ReleaseForChild(stat); DecRef
RelRef(es, d) == IF es = <<>> THEN <<>> ELSE <<L(Head(es), d)>> \o Fs(Head(es), 0 - 1) \o RelRef(Tail(es), d)

CDone(ww, o) ==
  LET ob == ww.obj[o]
      d == ww.use[o]
      closeFin == <<[f |-> "use0", x |-> o], [f |-> "obj", o |-> o, v |-> [ob EXCEPT !.st = "done"]],
                    [f |-> "held0", h |-> o]>>
  IN IF ob.st = "done" THEN <<Ret("nil", <<>>)>>
     ELSE IF o \in SpanIds
     THEN \* owner.ReleaseResources(stat) up the chain until a closed level; owner.DecRef
          LET ch == Chain(ww, ob.owner)
              fd == FirstDoneIdx(ww, ch)
              reached == fd = Len(ch) + 1
              root == ch[Len(ch)]
              priv == IF reached THEN PrivLevels(ch) ELSE SubSeq(ch, 1, fd - 1)
              es == IF reached THEN RootEdges(ww, root) ELSE <<>>
          IN Ls(es, d) \o Fs(ob.owner, 0 - 1) \o
             <<Ret("nil", [i \in 1..Len(priv) |-> [f |-> "use-", x |-> priv[i], d |-> d]] \o closeFin)>>
     ELSE (IF o \in ConnIds /\ ob.ipv THEN <<[k |-> "BR", ep |-> ob.ep]>> ELSE <<>>)
          \o RelRef(ob.edges, d) \o <<Ret("nil", closeFin)>>

COpenStream(ww, id, p, dir) ==
  LET d == StrV(dir)
      es == <<PeerS(p), TRANS, SYS>>
      ob == [NoObj EXCEPT !.st = "open", !.dir = dir, !.peer = p, !.edges = es]
  IN IF ~StrOK(Z, d, Lim["stream"]) THEN <<Ret("limit", <<>>)>>
     ELSE Fs(PeerS(p), 1) \o
          Charge(es, d, 255, "str", Fs(PeerS(p), 0 - 1) \o <<Ret("dyn", <<>>)>>,
                 <<Ret("nil", <<[f |-> "obj", o |-> id, v |-> ob], [f |-> "use+", x |-> id, d |-> d]>>)>>)

\* openConnection: connLimiter.addConn, AddConn in transient+system; on refusal of an allow-listed
\* endpoint Done() the first scope (rmConn) and try again in the allow-listed scopes with a scope
\* that carries no IP
COpenConn(ww, id, dir, fd, ep) ==
  LET d == ConnV(dir, fd)
      ownOK == ConnOK(Z, d, Lim["conn"])
      hasip == EpIP[ep]
      base == [NoObj EXCEPT !.st = "open", !.dir = dir, !.fd = fd, !.ep = ep]
      mk(ob) == <<Ret("nil", <<[f |-> "obj", o |-> id, v |-> ob], [f |-> "use+", x |-> id, d |-> d]>>)>>
      rm == IF hasip THEN <<[k |-> "BR", ep |-> ep]>> ELSE <<>>
      retry == IF hasip /\ Allowed(ep)
               THEN rm \o (IF ownOK
                           THEN Charge(<<ATRANS, ASYS>>, d, 255, "conn", <<Ret("dyn", <<>>)>>,
                                       mk([base EXCEPT !.al = TRUE, !.ipv = FALSE, !.edges = <<ATRANS, ASYS>>]))
                           ELSE <<Ret("limit", <<>>)>>)
               ELSE rm \o <<Ret(IF ownOK THEN "dyn" ELSE "limit", <<>>)>>
      first == IF ownOK
               THEN Charge(<<TRANS, SYS>>, d, 255, "conn", retry,
                           mk([base EXCEPT !.ipv = hasip, !.edges = <<TRANS, SYS>>]))
               ELSE retry
  IN IF hasip THEN <<[k |-> "BA", ep |-> ep, fail |-> <<Ret("subnet", <<>>)>>]>> \o first ELSE first

\* connectionScope.SetPeer incl. transferAllowedToStandard
CSetPeer(ww, c, p) ==
  LET ob == ww.obj[c]
      d == ww.use[c]
      ps == PeerS(p)
      xfer == ob.al /\ ~AllowedFor(ob.ep, p)
      std == ~ob.al \/ xfer
      sysS == IF std THEN SYS ELSE ASYS
      trS == IF std THEN TRANS ELSE ATRANS
      ob1 == [ob EXCEPT !.al = IF xfer THEN FALSE ELSE @]
      attach(failOb) ==
        Fs(ps, 1) \o
        <<R(ps, d, 255, "all", Fs(ps, 0 - 1) \o <<Ret("dyn", <<[f |-> "obj", o |-> c, v |-> failOb]>>)>>),
          L(trS, d),
          Ret("nil", <<[f |-> "obj", o |-> c, v |-> [ob1 EXCEPT !.peer = p, !.edges = <<ps, sysS>>]]>>)>>
      lost == <<[f |-> "obj", o |-> c, v |-> [ob1 EXCEPT !.edges = <<>>]]>>
  IN IF ob.peer # "" THEN <<Ret("other", <<>>)>>
     ELSE IF xfer
     THEN Ls(ob.edges, d) \o
          <<R(SYS, d, 255, "all", <<Ret("dyn", lost)>>),
            R(TRANS, d, 255, "all", <<L(SYS, d), Ret("dyn", lost)>>)>> \o
          attach([ob1 EXCEPT !.edges = <<SYS, TRANS>>])
     ELSE attach(ob)

CSetProtocol(ww, s, x) ==
  LET ob == ww.obj[s]
      d == ww.use[s]
      pr == ProtoS(x)
      pp == PPS(x, ob.peer)
  IN IF ob.proto # "" THEN <<Ret("other", <<>>)>>
     ELSE Fs(pr, 1) \o
          <<R(pr, d, 255, "all", Fs(pr, 0 - 1) \o <<Ret("dyn", <<>>)>>),
            R(pp, d, 255, "all", <<L(pr, d)>> \o Fs(pr, 0 - 1) \o <<Ret("dyn", <<>>)>>),
            L(TRANS, d),
            Ret("nil", <<[f |-> "obj", o |-> s, v |-> [ob EXCEPT !.proto = x,
                                                                 !.edges = <<PeerS(ob.peer), pp, pr, SYS>>]]>>)>>

CSetService(ww, s, x) ==
  LET ob == ww.obj[s]
      d == ww.use[s]
      sv == SvcS(x)
      sp == SPS(x, ob.peer)
  IN IF ob.svc # "" \/ ob.proto = "" THEN <<Ret("other", <<>>)>>
     ELSE <<R(sv, d, 255, "all", <<Ret("dyn", <<>>)>>),
            R(sp, d, 255, "all", <<L(sv, d), Ret("dyn", <<>>)>>),
            Ret("nil", <<[f |-> "obj", o |-> s, v |-> [ob EXCEPT !.svc = x,
                            !.edges = <<PeerS(ob.peer), PPS(ob.proto, ob.peer), sp, ProtoS(ob.proto), sv, SYS>>]]>>)>>

CBeginSpan(ww, id, h) ==
  IF IsDone(ww, h) THEN <<Ret("closed", <<>>)>>
  ELSE Fs(h, 1) \o <<Ret("nil", <<[f |-> "obj", o |-> id, v |-> [NoObj EXCEPT !.st = "open", !.owner = h]]>>)>>

Compile(ww, c) ==
  CASE c.name = "reserve"     -> CReserve(ww, c.h, c.n, c.prio)
    [] c.name = "release"     -> CRelease(ww, c.h, c.n)
    [] c.name = "done"        -> CDone(ww, c.h)
    [] c.name = "openstream"  -> COpenStream(ww, c.id, c.peer, c.dir)
    [] c.name = "openconn"    -> COpenConn(ww, c.id, c.dir, c.fd, c.ep)
    [] c.name = "setpeer"     -> CSetPeer(ww, c.h, c.peer)
    [] c.name = "setprotocol" -> CSetProtocol(ww, c.h, c.proto)
    [] c.name = "setservice"  -> CSetService(ww, c.h, c.svc)
    [] c.name = "beginspan"   -> CBeginSpan(ww, c.id, c.h)

(***************************************************************************)
(* The interpreter                                                         *)
(***************************************************************************)
RECURSIVE ApplyFin(_, _)
ApplyFin(ww, fin) ==
  IF fin = <<>> THEN ww
  ELSE LET u == Head(fin)
           w1 == CASE u.f = "use+"  -> [ww EXCEPT !.use[u.x] = VAdd(@, u.d)]
                   [] u.f = "use-"  -> [ww EXCEPT !.use[u.x] = VRel(@, u.d)]
                   [] u.f = "use0"  -> [ww EXCEPT !.use[u.x] = Z]
                   [] u.f = "obj"   -> [ww EXCEPT !.obj[u.o] = u.v]
                   [] u.f = "held"  -> [ww EXCEPT !.held[u.h] = @ + u.n]
                   [] u.f = "held0" -> [ww EXCEPT !.held[u.h] = 0]
       IN ApplyFin(w1, Tail(fin))

\* objects whose lock (or whose reserved id) the call holds
LocksOf(ww, c) ==
  IF c.name \in {"openstream", "openconn"} THEN {c.id}
  ELSE IF c.name = "beginspan" THEN {c.id} \cup (Range(Chain(ww, c.h)) \cap ObjIds)
  ELSE Range(Chain(ww, c.h)) \cap ObjIds
Locked(ww) == UNION {ww.proc[t].locks : t \in {u \in ThreadIds : ww.proc[u] # Idle}}

Start(ww, t, c) ==
  [ww EXCEPT !.proc[t] = [k |-> "run", call |-> c, script |-> Compile(ww, c), err |-> "nil", locks |-> LocksOf(ww, c)]]

\* one atomic step of thread t; returns the new world, and at Ret the call's error class.
\* (A named scope is never found closed by a step: whoever has it among its edges holds a reference,
\* so the GC cannot have collected it; the one exception, a Done() in flight, is handled in GCStep.)
Exec1(ww, t) ==
  LET pr == ww.proc[t]
      st == Head(pr.script)
      rest == Tail(pr.script)
      go(w1, k) == [w |-> [w1 EXCEPT !.proc[t].script = k], done |-> FALSE, err |-> ""]
  IN CASE st.k = "R" ->
            IF Fits(ww.use[st.s], st.d, Lim[st.s], st.p, st.chk)
            THEN go([ww EXCEPT !.use[st.s] = VAdd(@, st.d), !.pend[t][st.s] = VAdd(@, st.d)], rest)
            ELSE go([ww EXCEPT !.proc[t].err = "limit"], st.fail)
       [] st.k = "L" ->
            go([ww EXCEPT !.use[st.s] = VRel(@, st.d), !.pend[t][st.s] = VSub(@, st.d)], rest)
       [] st.k = "F" -> go([ww EXCEPT !.ref[st.s] = @ + st.n], rest)
       [] st.k = "BA" ->   \* connLimiter.addConn: all matching counters or none
            IF \A b \in EpBuckets[st.ep] : ww.cnt[b] + 1 <= Cap[b]
            THEN go([ww EXCEPT !.cnt = [b \in DOMAIN @ |-> IF b \in EpBuckets[st.ep] THEN @[b] + 1 ELSE @[b]],
                               !.pendc[t] = [b \in DOMAIN @ |-> IF b \in EpBuckets[st.ep] THEN @[b] + 1 ELSE @[b]]], rest)
            ELSE go([ww EXCEPT !.proc[t].err = "subnet"], st.fail)
       [] st.k = "BR" ->   \* connLimiter.rmConn: a counter already at zero is left alone
            go([ww EXCEPT !.cnt = [b \in DOMAIN @ |-> IF b \in EpBuckets[st.ep] /\ @[b] > 0 THEN @[b] - 1 ELSE @[b]],
                          !.pendc[t] = [b \in DOMAIN @ |-> IF b \in EpBuckets[st.ep] THEN @[b] - 1 ELSE @[b]]], rest)
       [] st.k = "Ret" ->
            LET e == IF st.err = "dyn" THEN pr.err ELSE st.err
                w0 == ApplyFin(ww, st.fin)
                w1 == IF RetryGhost /\ e = "limit" /\ pr.call.name \in {"setpeer", "setprotocol", "setservice"}
                      THEN [w0 EXCEPT !.obj[pr.call.h].rf = @ \cup {pr.call.name}]
                      ELSE IF RetryGhost /\ e = "limit" /\ pr.call.name = "openconn" /\ EpIP[pr.call.ep]
                      THEN [w0 EXCEPT !.rfo = @ \cup {pr.call.ep}] ELSE w0
            IN [w |-> [w1 EXCEPT !.proc[t] = Idle, !.pend[t] = [s \in Named |-> Z],
                                 !.pendc[t] = [b \in DOMAIN Cap |-> 0]],
                done |-> TRUE, err |-> e]

RECURSIVE RunAll(_, _)
RunAll(ww, t) == LET r == Exec1(ww, t) IN IF r.done THEN r ELSE RunAll(r.w, t)
Big(ww, t, c) == RunAll(Start(ww, t, c), t)

(***************************************************************************)
(* Scope GC (resourceManager.gc): protocol and peer scopes with refCnt <= 0,*)
(* no streams/conns/fd and no reserved memory are Done()d and forgotten    *)
(* together with the per-peer sub-scopes.                                  *)
(***************************************************************************)
NoSCF(u) == u.si = 0 /\ u.so = 0 /\ u.ci = 0 /\ u.co = 0 /\ u.fd = 0
\* IsUnused (since 8b34800 a scope that still holds reserved memory is in use)
Unused(ww, s) == ww.ref[s] <= 0 /\ NoSCF(ww.use[s]) /\ ww.use[s].mem = 0
RECURSIVE SumMem(_, _)
SumMem(ww, S) == IF S = {} THEN 0 ELSE LET x == CHOOSE y \in S : TRUE IN ww.use[x].mem + SumMem(ww, S \ {x})
RECURSIVE StripSum(_, _)      \* sum of the releases on scope x still pending in a script
StripSum(sc, x) == IF sc = <<>> THEN Z
                   ELSE VAdd(IF Head(sc).k = "L" /\ Head(sc).s = x THEN Head(sc).d ELSE Z, StripSum(Tail(sc), x))
GCStep(ww) ==
  LET dead == {s \in GCable : Unused(ww, s)}
      sub == {PPS(x, p) : x \in Protos, p \in {q \in Peers : PeerS(q) \in dead}}
             \cup {SPS(x, p) : x \in Svcs, p \in {q \in Peers : PeerS(q) \in dead}}
             \cup {PPS(x, p) : x \in {y \in Protos : ProtoS(y) \in dead}, p \in Peers}
      gone == dead \cup sub
      m == SumMem(ww, dead)
      busy == {t \in ThreadIds : ww.proc[t] # Idle}
      \* a Done() in flight that still has to release from a collected scope finds it closed: the
      \* release is a no-op, what it would have released went away with the scope
      strip(sc) == SelectSeq(sc, LAMBDA st : ~(st.k = "L" /\ st.s \in gone))
  IN [ww EXCEPT !.use = [x \in All |-> IF x \in gone THEN Z
                                       ELSE IF x = SYS THEN [@[x] EXCEPT !.mem = Pos(@ - m)] ELSE @[x]],
                !.ref = [s \in GCable |-> IF s \in dead THEN 0 ELSE @[s]],
                !.pend = [t \in ThreadIds |-> IF t \in busy
                            THEN [x \in Named |-> IF x \in gone THEN VSub(@[t][x], StripSum(ww.proc[t].script, x)) ELSE @[t][x]]
                            ELSE @[t]],
                !.proc = [t \in ThreadIds |-> IF t \in busy THEN [@[t] EXCEPT !.script = strip(@)] ELSE @[t]]]

(***************************************************************************)
(* Calls offered in a state                                                *)
(***************************************************************************)
OpenObjs(ww, ids) == {o \in ids : ww.obj[o].st = "open"}
Created(ww, ids) == {o \in ids : ww.obj[o].st \in {"open", "done"}}
Handles(ww) == Created(ww, ObjIds) \cup ViewScopes
Calls(ww) ==
  LET nc == FirstFree(ww, Conns) ns == FirstFree(ww, Streams) nsp == FirstFree(ww, Spans) IN
     {[name |-> "openconn", id |-> nc, dir |-> d, fd |-> f, ep |-> e] :
          d \in IF "openconn" \in Kinds /\ nc # "" THEN Dirs ELSE {}, f \in Fds, e \in Eps}
\cup {[name |-> "setpeer", h |-> c, peer |-> p] :
          c \in IF "setpeer" \in Kinds THEN Created(ww, ConnIds) ELSE {}, p \in Peers}
\cup {[name |-> "openstream", id |-> ns, peer |-> p, dir |-> d] :
          p \in IF "openstream" \in Kinds /\ ns # "" THEN Peers ELSE {}, d \in Dirs}
\cup {[name |-> "setprotocol", h |-> s, proto |-> x] :
          s \in IF "setprotocol" \in Kinds THEN Created(ww, StreamIds) ELSE {}, x \in Protos}
\cup {[name |-> "setservice", h |-> s, svc |-> x] :
          s \in IF "setservice" \in Kinds THEN Created(ww, StreamIds) ELSE {}, x \in Svcs}
\cup {[name |-> "reserve", h |-> h, n |-> n, prio |-> p] :
          h \in IF "reserve" \in Kinds THEN Handles(ww) ELSE {}, n \in Sizes, p \in Prios}
\cup {[name |-> "release", h |-> h, n |-> n] :
          h \in IF "release" \in Kinds THEN Handles(ww) ELSE {},
          n \in {m \in Sizes : m > 0}}
\cup {[name |-> "beginspan", id |-> nsp, h |-> h] :
          h \in IF "beginspan" \in Kinds /\ nsp # "" THEN Handles(ww) ELSE {}}
\cup {[name |-> "done", h |-> o] : o \in IF "done" \in Kinds THEN Created(ww, ObjIds) ELSE {}}
\* callers never release more than they reserved through that handle (a release on a closed handle
\* is offered once: it must be a no-op)
RECURSIVE InFlightRel(_, _, _)
InFlightRel(ww, T, h) ==
  IF T = {} THEN 0
  ELSE LET t == CHOOSE y \in T : TRUE
           n == IF ww.proc[t] # Idle /\ ww.proc[t].call.name = "release" /\ ww.proc[t].call.h = h
                THEN ww.proc[t].call.n ELSE 0
       IN n + InFlightRel(ww, T \ {t}, h)
CallOK(ww, c) == /\ c.name = "release" =>
                      IF IsDone(ww, c.h) THEN c.n = MinOf({m \in Sizes : m > 0})
                      ELSE c.n + InFlightRel(ww, ThreadIds, c.h) <= ww.held[c.h]
                 \* keeps instances with unlimited scopes finite
                 /\ c.name = "reserve" => ww.held[c.h] + c.n <= HeldCap

(***************************************************************************)
(* Behaviour                                                               *)
(***************************************************************************)
RECURSIVE AfterAll(_, _)
AfterAll(ww, cs) == IF cs = <<>> THEN ww ELSE AfterAll(Big(ww, T1, Head(cs)).w, Tail(cs))

Init == w = AfterAll(W0, Preload) /\ op = [name |-> "init"]

Quiet(ww) == \A t \in ThreadIds : ww.proc[t] = Idle

\* sequential mode: one call, run to its return, as one step
SeqCall == /\ Quiet(w)
           /\ \E c \in Calls(w) :
                /\ CallOK(w, c)
                /\ LET r == Big(w, T1, c) IN
                     /\ w' = r.w
                     /\ op' = c @@ [err |-> r.err]
GC == /\ "gc" \in Kinds
      /\ w' = GCStep(w)
      /\ op' = [name |-> "gc"]
\* concurrent mode: a caller starts a call on objects no other call in flight has locked ...
CStart(t) == /\ w.proc[t] = Idle
             /\ \E c \in Calls(w) :
                  /\ CallOK(w, c)
                  /\ LocksOf(w, c) \cap Locked(w) = {}
                  /\ w' = Start(w, t, c)
                  /\ op' = c
\* ... and executes it one per-scope step at a time
CStep(t) == /\ w.proc[t] # Idle
            /\ LET r == Exec1(w, t) IN
                 /\ w' = r.w
                 /\ op' = IF r.done THEN [name |-> "ret", t |-> t, err |-> r.err] ELSE [name |-> "step", t |-> t]

Next == IF Sequential THEN SeqCall \/ GC
        ELSE GC \/ \E t \in ThreadIds : CStart(t) \/ CStep(t)
Spec == Init /\ [][Next]_vars
View == w

(***************************************************************************)
(* The statement                                                           *)
(***************************************************************************)
\* memory reserved through x or through spans (transitively) still attached to it
RECURSIVE MemUnder(_, _)
MemUnder(ww, x) ==
  LET kids == {sp \in SpanIds : ww.obj[sp].st = "open" /\ ww.obj[sp].owner = x}
      RECURSIVE S(_)
      S(ks) == IF ks = {} THEN 0 ELSE LET k == CHOOSE y \in ks : TRUE IN MemUnder(ww, k) + S(ks \ {k})
  IN ww.held[x] + S(kids)
\* what an open connection / stream holds in total
Total(ww, o) ==
  LET ob == ww.obj[o] IN
  VAdd(MemV(MemUnder(ww, o)), IF o \in ConnIds THEN ConnV(ob.dir, ob.fd) ELSE StrV(ob.dir))
RECURSIVE TotSum(_, _)
TotSum(ww, S) == IF S = {} THEN Z ELSE LET x == CHOOSE y \in S : TRUE IN VAdd(Total(ww, x), TotSum(ww, S \ {x}))
RECURSIVE DirSum(_, _)
DirSum(ww, S) == IF S = {} THEN 0 ELSE LET x == CHOOSE y \in S : TRUE IN MemUnder(ww, x) + DirSum(ww, S \ {x})
\* what scope x must report when no call is in flight: the sum of what its holders hold
Exp(ww, x) ==
  IF x \in SpanIds THEN (IF ww.obj[x].st = "open" THEN MemV(MemUnder(ww, x)) ELSE Z)
  ELSE IF x \in ObjIds THEN (IF ww.obj[x].st = "open" THEN Total(ww, x) ELSE Z)
  ELSE LET holders == {o \in OpenObjs(ww, ConnIds \cup StreamIds) : x \in Range(ww.obj[o].edges)}
           below == {s \in Named : x \in Range(NamedEdges(s))}
       IN VAdd(MemV(MemUnder(ww, x) + DirSum(ww, below)), TotSum(ww, holders))
RECURSIVE PSum(_, _, _)
PSum(ww, T, x) == IF T = {} THEN Z ELSE LET t == CHOOSE y \in T : TRUE IN VAdd(ww.pend[t][x], PSum(ww, T \ {t}, x))

\* Sum: every scope reports exactly the sum of what its holders hold (plus the partial effect of the
\* calls in flight, which is zero whenever the manager is quiescent)
Sum == \A x \in All : w.use[x] = IF x \in Named THEN VAdd(Exp(w, x), PSum(w, ThreadIds, x)) ELSE Exp(w, x)

Within(u, l) == /\ u.mem >= 0 /\ u.si >= 0 /\ u.so >= 0 /\ u.ci >= 0 /\ u.co >= 0 /\ u.fd >= 0
                /\ (l.mem = Inf \/ u.mem <= l.mem)
                /\ u.si <= l.si /\ u.so <= l.so /\ u.si + u.so <= l.s
                /\ u.ci <= l.ci /\ u.co <= l.co /\ u.ci + u.co <= l.c /\ u.fd <= l.fd
Bounds == \A x \in All : (x \in Named \/ w.obj[x].st # "none") => Within(w.use[x], LimOfScope(w, x))

\* Reparent: an open connection / stream is charged in a consistent edge set, once in each
ConsistentEdges(ww, o) ==
  LET ob == ww.obj[o]
      want == IF o \in ConnIds
              THEN {IF ob.peer = "" THEN (IF ob.al THEN ATRANS ELSE TRANS) ELSE PeerS(ob.peer),
                    IF ob.al THEN ASYS ELSE SYS}
              ELSE IF ob.proto = "" THEN {PeerS(ob.peer), TRANS, SYS}
              ELSE {PeerS(ob.peer), PPS(ob.proto, ob.peer), ProtoS(ob.proto), SYS}
                   \cup (IF ob.svc = "" THEN {} ELSE {SPS(ob.svc, ob.peer), SvcS(ob.svc)})
  IN Range(ob.edges) = want /\ Len(ob.edges) = Cardinality(want)
Reparent == \A o \in OpenObjs(w, ConnIds \cup StreamIds) : ConsistentEdges(w, o)

\* Subnet: counters within caps; the code's counters equal the open connections that carry an IP ...
RECURSIVE CSumT(_, _, _)
CSumT(ww, T, b) == IF T = {} THEN 0 ELSE LET t == CHOOSE y \in T : TRUE IN ww.pendc[t][b] + CSumT(ww, T \ {t}, b)
SubnetCode == \A b \in DOMAIN Cap :
                /\ w.cnt[b] <= Cap[b]
                /\ w.cnt[b] = Cardinality({c \in OpenObjs(w, ConnIds) : w.obj[c].ipv /\ b \in EpBuckets[w.obj[c].ep]})
                              + CSumT(w, ThreadIds, b)
\* ... and the statement: open connections from one subnet never exceed its cap
SubnetStmt == \A b \in DOMAIN Cap :
                Cardinality({c \in OpenObjs(w, ConnIds) : b \in EpBuckets[w.obj[c].ep]}) <= Cap[b]

Zero == (Quiet(w) /\ OpenObjs(w, ObjIds) = {} /\ \A x \in All : w.held[x] = 0)
          => (\A x \in All : w.use[x] = Z) /\ (\A b \in DOMAIN Cap : w.cnt[b] = 0)

\* AllOrNothing (sequential mode): a refused call changes nothing that is observable
\* (the ghosts rf / rfo are not observable)
Observable(ww) == <<ww.use, ww.cnt, ww.held, [o \in ObjIds |-> [ww.obj[o] EXCEPT !.edges = <<>>, !.rf = {}]]>>
AllOrNothing == [][(Sequential /\ op'.name # "gc" /\ op'.err # "nil") => Observable(w') = Observable(w)]_vars
\* memory granted at priority p leaves every charged scope within limit*(1+p)/256
PrioBound == [][(Sequential /\ op'.name = "reserve" /\ op'.err = "nil") =>
                  \A x \in All : w'.use[x].mem > w.use[x].mem =>
                     LET l == LimOfScope(w', x) IN l.mem = Inf \/ w'.use[x].mem <= Thr(l.mem, op'.prio)]_vars

TypeOK == /\ \A x \in All : w.held[x] >= 0
          /\ \A t \in ThreadIds : w.proc[t] = Idle \/ w.proc[t].script # <<>>

\* vacuity probes (expected to be violated)
ReachRefusedAtLastEdge == ~(op.name = "reserve" /\ op.err = "limit" /\ Quiet(w))
ReachAllowlisted == \A c \in ConnIds : ~w.obj[c].al
ReachSvc == \A s \in StreamIds : w.obj[s].svc = ""
ReachSubnetRefusal == ~(op.name = "openconn" /\ op.err = "subnet")
ReachTwoInFlight == Cardinality({t \in ThreadIds : w.proc[t] # Idle}) < 2
=============================================================================
