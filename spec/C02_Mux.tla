----------------------------- MODULE C02_Mux -----------------------------
(***************************************************************************)
(* Layer instance of the C02 channel family: a stream multiplexer (yamux   *)
(* behind p2p/muxer/yamux) between endpoints A and B.  Every stream has    *)
(* two independent byte channels, "ab" (A writes, B reads) and "ba"; all   *)
(* channels of one direction share ONE FIFO (the connection).  Write cuts  *)
(* the data into frames of at most MaxMsg units tagged with the stream,    *)
(* CloseWrite sends a FIN frame behind them, the receiving session moves   *)
(* frames from the FIFO into per-stream receive buffers (Pump, internal),  *)
(* Read takes from the buffer and reports EOF once the buffer is empty and *)
(* the FIN has arrived.  Half-close: after CloseWrite(s, d) the opposite   *)
(* channel of s keeps working in full.                                     *)
(* Odd streams are opened by A, even ones by B (yamux client/server ids).  *)
(***************************************************************************)
EXTENDS Naturals, Sequences, FiniteSets, TLC

CONSTANTS Streams, MaxSent, MaxWrite, MaxMsg, MaxTotal, MaxClose, Bufs,
          Glitches,  \* subset of {"dataerr", "temperr", "shortwrite", "refusewrite"}: glitches of the underlying connection
          Cuts,      \* subset of {"cuteof", "cutrst"}: the underlying connection is cut (ends with EOF / with an error)
          CutPos,    \* ... after that many more frames of the direction have arrived (0 = at once)
          Delays     \* classes of (virtual) time that may pass between two operations

Dirs == {"ab", "ba"}
Chans == Streams \X Dirs

VARIABLES opened, sent, wire, rbuf, wfin, rfin, delivered, eof,
          loose,   \* a glitch of the underlying connection was armed: the session may end at any moment from here
                   \* on (the muxer treats every error of the connection as fatal) or go on untouched (io.ReadFull
                   \* had its bytes); the model goes on as if intact, only the statement's clauses are judged
          cut,     \* NoCut or the armed cut [d, left, kind]: the connection ends after `left` more frames of d arrived
          dead,    \* the connection has ended: nothing in flight arrives any more, in either direction
          failed,  \* the reader of the channel got an error as its terminal outcome (the other one is eof)
          op
vars == <<opened, sent, wire, rbuf, wfin, rfin, delivered, eof, loose, cut, dead, failed, op>>
View == <<opened, sent, wire, rbuf, wfin, rfin, delivered, eof, loose, cut, dead, failed>>

Min(a, b) == IF a < b THEN a ELSE b
\* (once the connection is dead the readers come to their terminal outcomes in one fixed order: the order is
\* immaterial and every interleaving of it would only multiply the graph)
Before(c2, c) == c2[1] < c[1] \/ (c2[1] = c[1] /\ c2[2] = "ab" /\ c[2] = "ba")
NoCut == [d |-> "none", left |-> 0, kind |-> "none"]
IsPrefix(s, t) == Len(s) <= Len(t) /\ \A i \in 1..Len(s) : s[i] = t[i]
SentSeq(c) == [i \in 1..sent[c] |-> i]
RECURSIVE SumSent(_)
SumSent(S) == IF S = {} THEN 0 ELSE LET c == CHOOSE x \in S : TRUE IN sent[c] + SumSent(S \ {c})

Init == /\ opened = {} /\ sent = [c \in Chans |-> 0] /\ wire = [d \in Dirs |-> <<>>]
        /\ rbuf = [c \in Chans |-> <<>>] /\ wfin = [c \in Chans |-> FALSE] /\ rfin = [c \in Chans |-> FALSE]
        /\ delivered = [c \in Chans |-> <<>>] /\ eof = [c \in Chans |-> FALSE] /\ loose = FALSE /\ cut = NoCut /\ dead = FALSE
        /\ failed = [c \in Chans |-> FALSE] /\ op = [name |-> "init"]

\* streams are opened in increasing order per opener (the real ids are allocated that way)
Open(s) ==
  /\ s \notin opened /\ cut.kind = "none"
  /\ \A t \in Streams : (t < s /\ t % 2 = s % 2) => t \in opened
  /\ opened' = opened \cup {s}
  /\ op' = [name |-> "open", s |-> s, by |-> IF s % 2 = 1 THEN "a" ELSE "b"]
  /\ UNCHANGED <<sent, wire, rbuf, wfin, rfin, delivered, eof, loose, cut, dead, failed>>

NFrames(k) == (k + MaxMsg - 1) \div MaxMsg
Write(s, d, k) ==
  /\ s \in opened /\ ~wfin[<<s, d>>] /\ ~dead
  /\ sent[<<s, d>>] + k <= MaxSent /\ SumSent(Chans) + k <= MaxTotal
  /\ LET base == sent[<<s, d>>]
         fs == [j \in 1..NFrames(k) |->
                  [s |-> s, fin |-> FALSE,
                   pt |-> [i \in 1..(Min(j * MaxMsg, k) - (j - 1) * MaxMsg) |-> base + (j - 1) * MaxMsg + i]]]
     IN wire' = [wire EXCEPT ![d] = @ \o fs]
  /\ sent' = [sent EXCEPT ![<<s, d>>] = @ + k]
  /\ op' = [name |-> "write", s |-> s, d |-> d, k |-> k]
  /\ UNCHANGED <<opened, rbuf, wfin, rfin, delivered, eof, loose, cut, dead, failed>>

CloseWrite(s, d) ==
  /\ s \in opened /\ ~wfin[<<s, d>>] /\ ~dead
  /\ Cardinality({c \in Chans : wfin[c]}) < MaxClose
  /\ wfin' = [wfin EXCEPT ![<<s, d>>] = TRUE]
  /\ wire' = [wire EXCEPT ![d] = Append(@, [s |-> s, fin |-> TRUE, pt |-> <<>>])]
  /\ op' = [name |-> "closewrite", s |-> s, d |-> d]
  /\ UNCHANGED <<opened, sent, rbuf, rfin, delivered, eof, loose, cut, dead, failed>>

\* the receiving session's read loop: internal, not driven by the harness
Pump(d) ==
  /\ wire[d] # <<>> /\ ~dead
  /\ LET f == Head(wire[d]) c == <<f.s, d>> IN
       /\ rbuf' = [rbuf EXCEPT ![c] = @ \o f.pt]
       /\ rfin' = [rfin EXCEPT ![c] = @ \/ f.fin]
  /\ wire' = [wire EXCEPT ![d] = Tail(@)]
  /\ IF cut.kind # "none" /\ cut.d = d
       THEN /\ cut' = [cut EXCEPT !.left = @ - 1]
            /\ dead' = (cut.left = 1)          \* that was the last frame the connection carried
       ELSE UNCHANGED <<cut, dead>>
  /\ op' = [name |-> "pump", d |-> d]
  /\ UNCHANGED <<opened, sent, wfin, delivered, eof, loose, failed>>

\* Read is offered when the real call is certain to return without further writes: data is buffered for the
\* stream, or the buffer is empty and the FIN has arrived.  (The harness does not compare byte counts of
\* muxed reads - they depend on the receive loop's timing - it reads up to the unit boundary the model
\* delivers to.)
Read(s, d, b) ==
  LET c == <<s, d>> IN
  /\ s \in opened /\ ~eof[c] /\ ~failed[c]
  /\ dead => \A c2 \in Chans : Before(c2, c) => (eof[c2] \/ failed[c2] \/ c2[1] \notin opened)
  /\ \/ /\ rbuf[c] # <<>>
        /\ LET n == Min(b, Len(rbuf[c])) IN
             /\ delivered' = [delivered EXCEPT ![c] = @ \o SubSeq(rbuf[c], 1, n)]
             /\ rbuf' = [rbuf EXCEPT ![c] = SubSeq(@, n + 1, Len(@))]
             /\ op' = [name |-> "read", s |-> s, d |-> d, b |-> b, n |-> n, eof |-> FALSE,
                       halfclosed |-> wfin[<<s, IF d = "ab" THEN "ba" ELSE "ab">>]]
        /\ UNCHANGED <<eof, failed>>
     \/ /\ rbuf[c] = <<>> /\ rfin[c]
        /\ eof' = [eof EXCEPT ![c] = TRUE]
        /\ op' = [name |-> "read", s |-> s, d |-> d, b |-> b, n |-> 0, eof |-> TRUE,
                  halfclosed |-> wfin[<<s, IF d = "ab" THEN "ba" ELSE "ab">>]]
        /\ UNCHANGED <<delivered, rbuf, failed>>
     \/ \* the connection was cut and this stream's FIN never arrived: the terminal outcome is an ERROR, never
        \* a clean end (the reader must be able to tell a complete stream from a truncated one)
        /\ rbuf[c] = <<>> /\ ~rfin[c] /\ dead
        /\ failed' = [failed EXCEPT ![c] = TRUE]
        /\ op' = [name |-> "read", s |-> s, d |-> d, b |-> b, n |-> 0, eof |-> FALSE, term |-> "err",
                  halfclosed |-> wfin[<<s, IF d = "ab" THEN "ba" ELSE "ab">>]]
        /\ UNCHANGED <<delivered, rbuf, eof>>
  /\ UNCHANGED <<opened, sent, wire, wfin, rfin, loose, cut, dead>>

\* the connection under direction d glitches once (bytes + timeout, temporary error, short write)
Glitch(d, kind) ==
  /\ kind \in Glitches /\ ~loose /\ opened # {} /\ cut.kind = "none"
  /\ loose' = TRUE
  /\ op' = [name |-> "glitch", d |-> d, kind |-> kind]
  /\ UNCHANGED <<opened, sent, wire, rbuf, wfin, rfin, delivered, eof, cut, dead, failed>>

\* the underlying connection is cut: it carries n more frames of direction d and then ends, for both directions
\* and every stream, with a plain EOF ("cuteof": what a FIN of the transport or a cut at a frame boundary of the
\* secure channel looks like) or with an error ("cutrst"); the harness also cuts inside a frame
Cut(d, n, kind) ==
  /\ kind \in Cuts /\ ~loose /\ cut.kind = "none" /\ opened # {}
  /\ cut' = [d |-> d, left |-> n, kind |-> kind]
  /\ dead' = (n = 0)
  /\ op' = [name |-> "cut", d |-> d, n |-> n, kind |-> kind, open |-> Cardinality(opened)]
  /\ UNCHANGED <<opened, sent, wire, rbuf, wfin, rfin, delivered, eof, loose, failed>>

\* TIME passes between two operations (keep-alive interval, write timeout, a minute, an hour ...): nothing changes
Wait(c) ==
  /\ opened # {} /\ ~dead
  /\ op' = [name |-> "wait", c |-> c, halfclosed |-> (\E x \in Chans : wfin[x])]
  /\ UNCHANGED View

Next == \/ \E c \in Delays : Wait(c)
        \/ \E d \in Dirs, kind \in Glitches : Glitch(d, kind)
        \/ \E d \in Dirs, n \in CutPos, kind \in Cuts : Cut(d, n, kind)
        \/ \E s \in Streams : Open(s)
        \/ \E s \in Streams, d \in Dirs, k \in 1..MaxWrite : Write(s, d, k)
        \/ \E s \in Streams, d \in Dirs : CloseWrite(s, d)
        \/ \E d \in Dirs : Pump(d)
        \/ \E s \in Streams, d \in Dirs, b \in Bufs : Read(s, d, b)

----------------------------------------------------------------------------
TypeOK == \A c \in Chans : sent[c] \in 0..MaxSent /\ (eof[c] => rfin[c]) /\ (rfin[c] => wfin[c])
\* per-stream FIFO, whatever the interleaving on the shared connection
Prefix == \A c \in Chans : IsPrefix(delivered[c], SentSeq(c))
RECURSIVE Of(_, _)
Of(w, s) == IF w = <<>> THEN <<>> ELSE (IF Head(w).s = s THEN Head(w).pt ELSE <<>>) \o Of(Tail(w), s)
Conservation == \A c \in Chans : delivered[c] \o rbuf[c] \o Of(wire[c[2]], c[1]) = SentSeq(c)
\* EOF is reported only after every byte written before CloseWrite has been delivered
EofAfterAll == \A c \in Chans : eof[c] => delivered[c] = SentSeq(c)
\* END OF STREAM: a clean EOF means that the writer half-closed the stream and that ALL it wrote was delivered;
\* a stream truncated by a cut of the connection never ends cleanly
CleanEof == \A c \in Chans : eof[c] => wfin[c] /\ delivered[c] = SentSeq(c)
TruncatedNeverClean == \A c \in Chans : (dead /\ ~rfin[c]) => ~eof[c]
OneTerminal == \A c \in Chans : ~(eof[c] /\ failed[c])
\* half-close: closing one direction never ends the other one
HalfClose == \A s \in Streams, d \in Dirs :
               LET o == IF d = "ab" THEN "ba" ELSE "ab" IN
               (wfin[<<s, d>>] /\ ~wfin[<<s, o>>]) => ~rfin[<<s, o>>] /\ ~eof[<<s, o>>]
=============================================================================
