--------------------------- MODULE C16_Interleave ---------------------------
(***************************************************************************)
(* Part (c) of C16: CONCURRENT dial requests on one AutoNAT v2 server.     *)
(* Every request (slot) is a small process; each action is what one        *)
(* handler does between two points where it blocks on its client:          *)
(*   Start(s)      stream opened: limiter.Accept (concurrency cap, global  *)
(*                 and per-peer window) -> rejected, or parked reading the *)
(*                 request                                                 *)
(*   Send(s, kind) the client's request arrives: refused / bad / same-IP   *)
(*                 (dial at once) / other-IP: limiter.AcceptDialDataRequest*)
(*                 -> rejected, or DialDataRequest sent and parked reading *)
(*                 dial data                                               *)
(*   Pay(s)        all dial data arrives: dial back, response, exit        *)
(*   Close(s)      the client goes away: exit                              *)
(* with the steps of the other requests in between.  In the code every     *)
(* limiter decision is one critical section that checks AND records        *)
(* (Split = "none").  The two variants separate the check from the record: *)
(*   Split = "dd"      dial-data limit checked at Send, recorded at Pay    *)
(*   Split = "accept"  cap / window checked at Start, recorded at Send     *)
(* and the driver requires TLC to find the ledger invariants violated with *)
(* each of them (the check-then-act windows are really explored).          *)
(* Time: all steps of a walk fall inside one minute; Minute (only when no  *)
(* request is in flight) lets the window pass.                             *)
(***************************************************************************)
EXTENDS Naturals, FiniteSets, TLC

CONSTANTS Slots,       \* request slots (strings); slots named b* belong to peer "pb", all others to "pa"
          RPM, PerPeerRPM, DDRPM, Cap,
          Split        \* "none" | "dd" | "accept"

Peers == {"pa", "pb"}
PeerOf(s) == IF s \in {"b1", "b2"} THEN "pb" ELSE "pa"
Kinds == {"refused", "bad", "same", "other"}

VARIABLES ph,      \* [Slots -> {"idle", "parked", "data"}]
          rec,     \* [Slots -> BOOLEAN]  the request's Accept cost is recorded in the limiter
          acc,     \* limiter: global grants in this minute
          pacc,    \* limiter: [Peers -> grants in this minute]
          dd,      \* limiter: dial-data grants in this minute
          inProg,  \* limiter: [Peers -> in-progress counter]
          gAcc, gPAcc, \* LEDGER (ghost): requests admitted in this minute (global / per peer)
          gDD,     \* LEDGER: dial-data requests served (data paid, dial back done) in this minute
          op

vars == <<ph, rec, acc, pacc, dd, inProg, gAcc, gPAcc, gDD, op>>
View == <<ph, rec, acc, pacc, dd, inProg, gAcc, gPAcc, gDD>>
ViewNoGhost == <<ph, rec, acc, pacc, dd, inProg>>

InService(p) == Cardinality({s \in Slots : PeerOf(s) = p /\ ph[s] # "idle"})

Init == /\ ph = [s \in Slots |-> "idle"] /\ rec = [s \in Slots |-> FALSE]
        /\ acc = 0 /\ pacc = [p \in Peers |-> 0] /\ dd = 0 /\ inProg = [p \in Peers |-> 0]
        /\ gAcc = 0 /\ gPAcc = [p \in Peers |-> 0] /\ gDD = 0
        /\ op = [name |-> "init"]

Dec(n) == IF n > 0 THEN n - 1 ELSE 0

Start(s) ==
  LET p == PeerOf(s)
      ok == inProg[p] < Cap /\ acc < RPM /\ pacc[p] < PerPeerRPM
      now == ok /\ Split # "accept"
  IN /\ ph[s] = "idle"
     /\ ph' = IF ok THEN [ph EXCEPT ![s] = "parked"] ELSE ph
     /\ rec' = [rec EXCEPT ![s] = now]
     /\ acc' = IF now THEN acc + 1 ELSE acc
     /\ pacc' = IF now THEN [pacc EXCEPT ![p] = @ + 1] ELSE pacc
     /\ inProg' = IF now THEN [inProg EXCEPT ![p] = @ + 1] ELSE inProg
     /\ gAcc' = IF ok THEN gAcc + 1 ELSE gAcc
     /\ gPAcc' = IF ok THEN [gPAcc EXCEPT ![p] = @ + 1] ELSE gPAcc
     /\ UNCHANGED <<dd, gDD>>
     /\ op' = [name |-> "start", s |-> s, p |-> p, resp |-> IF ok THEN "PARKED" ELSE "REJECTED", dial |-> FALSE]

\* the limiter counters once the request's Accept cost is on the books (late in the "accept" variant)
AccR(s) == IF rec[s] THEN acc ELSE acc + 1
PAccR(s) == IF rec[s] THEN pacc ELSE [pacc EXCEPT ![PeerOf(s)] = @ + 1]
InProgR(s) == IF rec[s] THEN inProg ELSE [inProg EXCEPT ![PeerOf(s)] = @ + 1]

Exit(s) ==  \* deferred CompleteRequest
  /\ ph' = [ph EXCEPT ![s] = "idle"] /\ rec' = [rec EXCEPT ![s] = FALSE]
  /\ inProg' = [InProgR(s) EXCEPT ![PeerOf(s)] = Dec(@)]

Send(s, k) ==
  LET p == PeerOf(s)
      ddok == dd < DDRPM
  IN /\ ph[s] = "parked"
     /\ acc' = AccR(s) /\ pacc' = PAccR(s)
     /\ UNCHANGED <<gAcc, gPAcc>>
     /\ IF k = "other" /\ ddok
        THEN /\ ph' = [ph EXCEPT ![s] = "data"] /\ rec' = [rec EXCEPT ![s] = TRUE]
             /\ inProg' = InProgR(s)
             /\ dd' = IF Split = "dd" THEN dd ELSE dd + 1
             /\ UNCHANGED gDD
             /\ op' = [name |-> "send", s |-> s, p |-> p, kind |-> k, resp |-> "DATAREQ", dial |-> FALSE]
        ELSE /\ Exit(s) /\ UNCHANGED <<dd, gDD>>
             /\ op' = [name |-> "send", s |-> s, p |-> p, kind |-> k, dial |-> (k = "same"),
                       resp |-> CASE k = "refused" -> "REFUSED" [] k = "bad" -> "RESET" [] k = "same" -> "OK" [] k = "other" -> "REJECTED"]

Pay(s) ==
  /\ ph[s] = "data"
  /\ Exit(s)
  /\ dd' = IF Split = "dd" THEN dd + 1 ELSE dd
  /\ gDD' = gDD + 1
  /\ UNCHANGED <<acc, pacc, gAcc, gPAcc>>
  /\ op' = [name |-> "pay", s |-> s, p |-> PeerOf(s), resp |-> "OK", dial |-> TRUE]

Close(s) ==
  /\ ph[s] \in {"parked", "data"}
  /\ Exit(s)
  /\ acc' = AccR(s) /\ pacc' = PAccR(s)
  /\ UNCHANGED <<dd, gAcc, gPAcc, gDD>>
  /\ op' = [name |-> "close", s |-> s, p |-> PeerOf(s), resp |-> "RESET", dial |-> FALSE]

Minute ==
  /\ \A s \in Slots : ph[s] = "idle"
  /\ acc > 0
  /\ acc' = 0 /\ pacc' = [p \in Peers |-> 0] /\ dd' = 0 /\ gAcc' = 0 /\ gPAcc' = [p \in Peers |-> 0] /\ gDD' = 0
  /\ UNCHANGED <<ph, rec, inProg>>
  /\ op' = [name |-> "minute"]

Next == \/ \E s \in Slots : Start(s) \/ Pay(s) \/ Close(s)
        \/ \E s \in Slots, k \in Kinds : Send(s, k)
        \/ Minute

Spec == Init /\ [][Next]_vars

----------------------------------------------------------------------------
TypeOK == /\ \A s \in Slots : ph[s] \in {"idle", "parked", "data"}
          /\ acc \in 0..(RPM + Cardinality(Slots)) /\ dd \in 0..(DDRPM + Cardinality(Slots))

\* the statement, over the ledger only
LedgerConcurrent == \A p \in Peers : InService(p) <= Cap
LedgerGlobal == gAcc <= RPM
LedgerPeer == \A p \in Peers : gPAcc[p] <= PerPeerRPM
LedgerDialData == gDD <= DDRPM
\* bookkeeping agrees with the ledger (code variant only)
Books == /\ \A p \in Peers : inProg[p] = InService(p)
         /\ acc = gAcc /\ pacc = gPAcc /\ gDD <= dd
=============================================================================
