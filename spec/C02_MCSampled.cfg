\* Template: checks/C02.py instantiates the constants (sampledconn layer).
CONSTANTS
  PeekSize = 3
  MaxSent = 6
  MaxWrite = 4
  Bufs = {0, 1, 2, 3, 4}
  Shorts = {0, 1, 2}
  Glitches = {"dataerr", "temperr", "eofdata"}
INIT Init
NEXT Next
VIEW View
INVARIANTS TypeOK Prefix PeekedAreFirst Conservation EofOnlyAtEnd
