\* Template: checks/C03.py selects the family (Fam) and the invariants per run.
CONSTANTS
  Fam = "mem"
  Conns <- MCConns
  Streams <- MCStreams
  Spans <- MCSpans
  Peers <- MCPeers
  Protos <- MCProtos
  Svcs <- MCSvcs
  Eps <- MCEps
  EpIP <- MCEpIP
  EpBuckets <- MCEpBuckets
  Cap <- MCCap
  AllowNet <- MCAllowNet
  AllowPeer <- MCAllowPeer
  Lim <- MCLim
  Inf <- INF
  Sizes <- MCSizes
  Prios <- MCPrios
  Dirs <- MCDirs
  Fds <- MCFds
  ViewScopes <- MCViews
  Kinds <- MCKinds
  Threads <- MCThreads
  Sequential <- MCSequential
  Preload <- MCPreload
  RetryGhost <- MCRetryGhost
INIT Init
NEXT Next
VIEW View
INVARIANTS TypeOK Sum Bounds Reparent SubnetCode SubnetStmt Zero
PROPERTIES AllOrNothing PrioBound
CHECK_DEADLOCK FALSE
