INIT Init
NEXT Next
CHECK_DEADLOCK FALSE
