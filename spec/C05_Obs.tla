------------------------------- MODULE C05_Obs -------------------------------
(***************************************************************************)
(* Observable-level specification of property C05 (dialing): a state       *)
(* machine over what callers of DialPeer and the transports can see.  An   *)
(* execution of a real Swarm recorded by                                   *)
(* harness/p2p/net/swarm/zz_verif_c05_test.go (virtual time, scripted      *)
(* transports) satisfies the property iff it is a behaviour of this        *)
(* specification: each clause of the statement is a guard of the action    *)
(* that consumes the corresponding line.  Fully logged => linear.          *)
(***************************************************************************)
EXTENDS Integers, Sequences, FiniteSets, TLC, Json

TraceLog == ndJsonDeserialize("trace.ndjson")

VARIABLES l, idle,   \* idle: since when the swarm owes an attempt (-1: it does not)
  ainfo,     \* address name -> [relay, fd]
  caps,      \* [perpeer, fdlimit, ext]  ext: file-descriptor tokens held right now by transport dials to OTHER peers
  waiting,   \* callers inside DialPeer
  call,      \* caller -> [t, force]   (every caller that has called)
  returned,  \* callers whose DialPeer returned
  cancelAt,  \* caller -> virtual instant its context was cancelled / timed out
  dialedGen, \* addresses handed to a transport since some caller has been waiting continuously
  run,       \* address -> number of transport dials in progress
  failed,    \* addresses on which a transport dial failed at some point
  conns,     \* conn id -> [a, relay]   connections a transport established
  closedAt   \* conn id -> virtual instant it was closed

vars == <<l, ainfo, caps, waiting, call, returned, cancelAt, dialedGen, run, failed, conns, closedAt>>

Cur == TraceLog[l]
IsEvent(name) == l <= Len(TraceLog) /\ Cur.ev = name /\ l' = l + 1
Put(f, k, v) == [x \in DOMAIN f \cup {k} |-> IF x = k THEN v ELSE f[x]]
Running(a) == IF a \in DOMAIN run THEN run[a] ELSE 0
RECURSIVE SumRun(_)
SumRun(S) == IF S = {} THEN 0 ELSE LET a == CHOOSE x \in S : TRUE IN Running(a) + SumRun(S \ {a})

Init0 == /\ ainfo = <<>> /\ caps = [perpeer |-> 0, fdlimit |-> 0, ext |-> 0] /\ waiting = {} /\ call = <<>>
         /\ returned = {} /\ cancelAt = <<>> /\ dialedGen = {} /\ run = <<>> /\ failed = {}
         /\ conns = <<>> /\ closedAt = <<>>
TraceInit == Init0 /\ l = 1 /\ TLCSet(1, 1)
TrReset == /\ IsEvent("reset")
           /\ ainfo' = <<>> /\ caps' = [perpeer |-> 0, fdlimit |-> 0, ext |-> 0] /\ waiting' = {} /\ call' = <<>>
           /\ returned' = {} /\ cancelAt' = <<>> /\ dialedGen' = {} /\ run' = <<>> /\ failed' = {}
           /\ conns' = <<>> /\ closedAt' = <<>>

\* low: the address has a documented better alternative among the peer's addresses (a /quic-v1 address on
\* the same IP and UDP port as this /webtransport address, a /tcp address on the same IP and TCP port as
\* this /ws address) and is therefore "filtered out" in the sense of the statement (computed by the harness
\* from the address set, not taken from the code)
TrAddr == /\ IsEvent("addr") /\ ainfo' = Put(ainfo, Cur.a, [relay |-> Cur.relay, fd |-> Cur.fd, low |-> Cur.low])
          /\ UNCHANGED <<caps, waiting, call, returned, cancelAt, dialedGen, run, failed, conns, closedAt>>
TrConfig == /\ IsEvent("config") /\ caps' = [perpeer |-> Cur.perpeer, fdlimit |-> Cur.fdlimit, ext |-> 0]
            /\ UNCHANGED <<ainfo, waiting, call, returned, cancelAt, dialedGen, run, failed, conns, closedAt>>

\* a caller enters DialPeer (each caller calls once)
TrDialCall == /\ IsEvent("dial_call") /\ Cur.c \notin DOMAIN call
              /\ call' = Put(call, Cur.c, [t |-> Cur.t, force |-> Cur.force])
              /\ waiting' = waiting \cup {Cur.c}
              /\ UNCHANGED <<ainfo, caps, returned, cancelAt, dialedGen, run, failed, conns, closedAt>>

TrCancel == /\ IsEvent("ctx_cancel") /\ cancelAt' = Put(cancelAt, Cur.c, Cur.t)
            /\ UNCHANGED <<ainfo, caps, waiting, call, returned, dialedGen, run, failed, conns, closedAt>>

\* an address is handed to a transport: for the peer that was asked for; at most once while callers
\* are waiting; within the per-peer and file-descriptor concurrency caps
TrTStart ==
  /\ IsEvent("tdial_start") /\ Cur.a \in DOMAIN ainfo
  /\ Cur.peer_ok
  /\ (waiting # {} => Cur.a \notin dialedGen)
  /\ SumRun(DOMAIN run) + 1 <= caps.perpeer
  /\ (ainfo[Cur.a].fd => SumRun({a \in DOMAIN run : ainfo[a].fd}) + caps.ext + 1 <= caps.fdlimit)
  /\ dialedGen' = IF waiting # {} THEN dialedGen \cup {Cur.a} ELSE dialedGen
  /\ run' = Put(run, Cur.a, Running(Cur.a) + 1)
  /\ UNCHANGED <<ainfo, caps, waiting, call, returned, cancelAt, failed, conns, closedAt>>

\* a transport dial to ANOTHER peer (the file-descriptor cap is shared by all peers) starts / ends: it takes
\* a file-descriptor token like any other, within the cap
TrExtStart ==
  /\ IsEvent("ext_start")
  /\ SumRun({a \in DOMAIN run : ainfo[a].fd}) + caps.ext + 1 <= caps.fdlimit
  /\ caps' = [caps EXCEPT !.ext = @ + 1]
  /\ UNCHANGED <<ainfo, waiting, call, returned, cancelAt, dialedGen, run, failed, conns, closedAt>>
TrExtEnd ==
  /\ IsEvent("ext_end") /\ caps.ext > 0
  /\ caps' = [caps EXCEPT !.ext = @ - 1]
  /\ UNCHANGED <<ainfo, waiting, call, returned, cancelAt, dialedGen, run, failed, conns, closedAt>>

TrTEnd ==
  /\ IsEvent("tdial_end") /\ Running(Cur.a) > 0
  /\ run' = Put(run, Cur.a, Running(Cur.a) - 1)
  /\ failed' = IF Cur.res \in {"fail", "timeout"} THEN failed \cup {Cur.a} ELSE failed
  /\ conns' = IF Cur.res = "ok" THEN Put(conns, Cur.conn, [a |-> Cur.a, relay |-> ainfo[Cur.a].relay]) ELSE conns
  /\ UNCHANGED <<ainfo, caps, waiting, call, returned, cancelAt, dialedGen, closedAt>>

TrConnClose == /\ (IsEvent("conn_close") \/ IsEvent("conn_closed"))
               /\ closedAt' = IF Cur.conn \in DOMAIN closedAt THEN closedAt ELSE Put(closedAt, Cur.conn, Cur.t)
               /\ UNCHANGED <<ainfo, caps, waiting, call, returned, cancelAt, dialedGen, run, failed, conns>>

\* the addresses a caller could use
Usable(c) == {a \in DOMAIN ainfo : ~(call[c].force /\ ainfo[a].relay) /\ ~ainfo[a].low}

Leave(c) == /\ waiting' = waiting \ {c}
            /\ returned' = returned \cup {c}
            /\ dialedGen' = IF waiting \ {c} = {} THEN {} ELSE dialedGen

\* DialPeer returns a connection: one a transport established to that very peer, not one that had
\* already been closed before this call began, and a direct one if the caller demanded it
TrRetConn ==
  /\ IsEvent("dial_ret") /\ Cur.res = "conn" /\ Cur.c \in waiting
  /\ Cur.conn \in DOMAIN conns
  /\ Cur.peer_ok
  /\ (Cur.open \/ ~(Cur.conn \in DOMAIN closedAt /\ closedAt[Cur.conn] < call[Cur.c].t))
  /\ (call[Cur.c].force => ~conns[Cur.conn].relay)
  /\ Leave(Cur.c)
  /\ UNCHANGED <<ainfo, caps, call, cancelAt, run, failed, conns, closedAt>>

\* DialPeer returns the caller's own context error: only if that context has ended, and promptly (at
\* the same virtual instant)
TrRetCtx ==
  /\ IsEvent("dial_ret") /\ Cur.res = "ctx" /\ Cur.c \in waiting
  /\ \/ (Cur.c \in DOMAIN cancelAt /\ cancelAt[Cur.c] = Cur.t)
     \/ (Cur.dl > 0 /\ Cur.t = Cur.dl)
     \/ Cur.t - call[Cur.c].t >= 60000            \* DialPeer's own timeout
  /\ Leave(Cur.c)
  /\ UNCHANGED <<ainfo, caps, call, cancelAt, run, failed, conns, closedAt>>

\* DialPeer returns a dial error: only once every candidate address has failed or been refused
TrRetErr ==
  /\ IsEvent("dial_ret") /\ Cur.res = "err" /\ Cur.c \in waiting
  /\ \/ (Cur.cause = "alldialsfailed" /\ Usable(Cur.c) \subseteq failed)
     \/ (Cur.cause = "nogoodaddrs" /\ Usable(Cur.c) = {})
  /\ Leave(Cur.c)
  /\ UNCHANGED <<ainfo, caps, call, cancelAt, run, failed, conns, closedAt>>

\* once all callers have returned no attempt, token or worker remains
TrResidue ==
  /\ IsEvent("residue")
  /\ waiting = {} /\ returned = DOMAIN call
  /\ \A a \in DOMAIN run : run[a] = 0
  /\ Cur.dsync = 0 /\ Cur.active_peers = 0 /\ Cur.fd = 0 /\ Cur.waiting_fd = 0 /\ Cur.waiting_peer = 0
  /\ UNCHANGED <<ainfo, caps, waiting, call, returned, cancelAt, dialedGen, run, failed, conns, closedAt>>

TrHook == IsEvent("hook") /\ UNCHANGED <<ainfo, caps, waiting, call, returned, cancelAt, dialedGen, run, failed, conns, closedAt>>
TraceNext == \/ TrHook \/ TrExtStart \/ TrExtEnd \/ TrReset \/ TrAddr \/ TrConfig \/ TrDialCall \/ TrCancel \/ TrTStart \/ TrTEnd \/ TrConnClose
             \/ TrRetConn \/ TrRetCtx \/ TrRetErr \/ TrResidue
\* No idle waiting: while a caller is inside DialPeer, nothing is in flight, and an address that caller may
\* use has neither been attempted since callers started waiting nor failed, the swarm owes an attempt; the
\* ranker postpones attempts by a few hundred milliseconds (at most about 2.5 s for a relay address behind
\* direct ones), never for long: "every address that is neither filtered out nor in back-off is attempted
\* unless a connection is obtained or every caller has given up first" - giving up because the swarm sat
\* on an address for the whole dial timeout does not count.
MaxIdle == 5000
\* (an address that consumes a file descriptor is not owed while dials to other peers hold every token)
StalledIn(w, r, f, d, cl, cp) ==
  /\ w # {}
  /\ \A a \in DOMAIN r : r[a] = 0
  /\ \E c \in w : \E a \in DOMAIN ainfo :
        /\ ~(cl[c].force /\ ainfo[a].relay) /\ ~ainfo[a].low /\ a \notin f /\ a \notin d
        /\ ~(ainfo[a].fd /\ cp.ext >= cp.fdlimit)
IdleStep ==
  LET hasT == "t" \in DOMAIN Cur IN
  /\ ((hasT /\ idle # -1) => Cur.t - idle <= MaxIdle)
  /\ idle' = IF StalledIn(waiting', run', failed', dialedGen', call', caps')
             THEN (IF idle = -1 /\ hasT THEN Cur.t ELSE idle) ELSE -1
TraceSpec == TraceInit /\ idle = -1 /\ [][TraceNext /\ IdleStep]_<<vars, idle>>

HighWater == TLCSet(1, IF l > TLCGet(1) THEN l ELSE TLCGet(1))
TraceAccepted == /\ PrintT(<<"VFHW", ToJson([hw |-> TLCGet(1), len |-> Len(TraceLog)])>>)
                 /\ TLCGet(1) = Len(TraceLog) + 1
=============================================================================
