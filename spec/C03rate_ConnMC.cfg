\* Template: checks/C03rate.py instantiates Inst for every bounded instance of the connLimiter / openConnection model.
CONSTANTS
  Inst = "c4"
  U = 2
  MaxLive = 3
  Addrs <- MCAddrs
  FamOf <- MCFamOf
  CFamOf <- MCCFamOf
  NP <- MCNP
  Levels <- MCLevels
  Glob <- MCGlob
  Grace <- MCGrace
  CNP <- MCCNP
  CLevels <- MCCLevels
INIT CInit
NEXT CNext
VIEW CView
CHECK_DEADLOCK FALSE
INVARIANTS TypeOK BoundOK ForgetSound ExpiryCovers Rested CTypeOK CountsExact CapsHold EntCovers
PROPERTIES ConnDecisionOK RateFirst DropAtZero BogusInert
