--------------------------- MODULE C12_HolePunchObs ---------------------------
(***************************************************************************)
(* Observable-level specification of the hole-punching clauses of C12:     *)
(*   "hole punching is coordinated only over a relayed connection, dials   *)
(*    only the peer's non-relay addresses and reports success only when a  *)
(*    direct connection exists".                                           *)
(* The ledger recorded by harness/p2p/protocol/holepunch/                  *)
(* zz_verif_c12hp_test.go (calls received by the host the service runs on, *)
(* with context flags and addresses; connections opened and closed;        *)
(* results; tracer events) satisfies the clauses iff it is a behaviour of  *)
(* this specification: every clause is a guard.  Nothing here depends on   *)
(* the design model C12_HolePunch: an execution the model does not         *)
(* foresee is still accepted as long as the clauses hold.                  *)
(***************************************************************************)
EXTENDS Integers, Sequences, FiniteSets, TLC, Json

TraceLog == ndJsonDeserialize("trace.ndjson")

VARIABLES l,
  cinfo,   \* connection id -> [relay, limited]
  open,    \* ids of the open connections to the peer
  rconn,   \* responder: connection the coordination stream in progress rides ("" = none)
  calls    \* DirectConnect calls in progress whose return value will be seen

vars == <<l, cinfo, open, rconn, calls>>
Cur == TraceLog[l]
IsEvent(name) == l <= Len(TraceLog) /\ Cur.ev = name /\ l' = l + 1
Put(f, k, v) == [x \in DOMAIN f \cup {k} |-> IF x = k THEN v ELSE f[x]]
Range(q) == {q[i] : i \in 1..Len(q)}
DirectOpen == \E c \in open : ~cinfo[c].relay
NoRelay(q) == \A i \in 1..Len(q) : ~q[i].relay

TraceInit == cinfo = <<>> /\ open = {} /\ rconn = "" /\ calls = 0 /\ l = 1 /\ TLCSet(1, 1)
TrReset == IsEvent("reset") /\ cinfo' = <<>> /\ open' = {} /\ rconn' = "" /\ calls' = 0

TrConnAdd == /\ IsEvent("conn_add") /\ Cur.c \notin DOMAIN cinfo
             /\ cinfo' = Put(cinfo, Cur.c, [relay |-> Cur.relay, limited |-> Cur.limited])
             /\ open' = open \cup {Cur.c} /\ UNCHANGED <<rconn, calls>>
TrConnClose == IsEvent("conn_close") /\ open' = open \ {Cur.c} /\ UNCHANGED <<cinfo, rconn, calls>>

\* ---- coordination only over a relayed connection
\* initiator: the stream is asked for with allow-limited and no-dial (the service never dials to coordinate)
TrNsCall == IsEvent("ns_call") /\ Cur.allow /\ Cur.nodial /\ UNCHANGED <<cinfo, open, rconn, calls>>
TrNsRet == /\ IsEvent("ns_ret") /\ (Cur.res = "stream" => Cur.c \in open)
           /\ UNCHANGED <<cinfo, open, rconn, calls>>
\* responder: a stream arrives ...
TrInStream == /\ IsEvent("in_stream") /\ Cur.c \in open /\ rconn = ""
              /\ rconn' = Cur.c /\ UNCHANGED <<cinfo, open, calls>>
\* ... and the responder answers on it only if it rides a relayed connection
TrWrite == /\ IsEvent("s_write")
           /\ (Cur.side = "R" => (rconn # "" /\ Cur.c = rconn /\ cinfo[rconn].relay))
           /\ UNCHANGED <<cinfo, open, rconn, calls>>
TrHandlerRet == IsEvent("handler_ret") /\ rconn' = "" /\ UNCHANGED <<cinfo, open, calls>>

\* ---- dials only the peer's non-relay addresses
\* every host.Connect of the service demands a direct connection, carries no relay address and makes the host
\* dial no relay address; the responder punches only after a coordination over a relayed connection
TrConnectCall == /\ IsEvent("connect_call")
                 /\ Cur.force
                 /\ NoRelay(Cur.addrs) /\ NoRelay(Cur.dialed)
                 /\ (Cur.side = "R" => (rconn # "" /\ cinfo[rconn].relay))
                 /\ UNCHANGED <<cinfo, open, rconn, calls>>
\* (environment contract, C12 swarm level: a force-direct Connect succeeds only with a direct connection)
TrConnectRet == /\ IsEvent("connect_ret")
                /\ ((Cur.res = "ok" /\ Cur.force) => DirectOpen)
                /\ UNCHANGED <<cinfo, open, rconn, calls>>

\* ---- success only when a direct connection exists
TrDcCall == IsEvent("dc_call") /\ calls' = calls + (IF Cur.via = "call" THEN 1 ELSE 0) /\ UNCHANGED <<cinfo, open, rconn>>
TrDcRet == /\ IsEvent("dc_ret") /\ calls > 0 /\ calls' = calls - 1
           /\ (Cur.res = "ok" => DirectOpen)
           /\ UNCHANGED <<cinfo, open, rconn>>
\* the tracers hear "success" / are handed "the direct connection" only when there is one, and never see a
\* relay address among the addresses punched
TrTracer == /\ IsEvent("tracer")
            /\ (Cur.ok => DirectOpen)
            /\ (Cur.dc # "" => (Cur.dc \in open /\ ~cinfo[Cur.dc].relay))
            /\ NoRelay(Cur.addrs)
            /\ UNCHANGED <<cinfo, open, rconn, calls>>

TraceNext == \/ TrReset \/ TrConnAdd \/ TrConnClose \/ TrNsCall \/ TrNsRet \/ TrInStream \/ TrWrite
             \/ TrHandlerRet \/ TrConnectCall \/ TrConnectRet \/ TrDcCall \/ TrDcRet \/ TrTracer
TraceSpec == TraceInit /\ [][TraceNext]_vars
HighWater == TLCSet(1, IF l > TLCGet(1) THEN l ELSE TLCGet(1))
TraceAccepted == /\ PrintT(<<"VFHW", ToJson([hw |-> TLCGet(1), len |-> Len(TraceLog)])>>)
                 /\ TLCGet(1) = Len(TraceLog) + 1
=============================================================================
