\* Template: the driver (checks/C17.py) instantiates Thresh, Emit, EarlyCheck.
CONSTANTS
  Inst = "race"
  Thresh = 1
  MaxTop = 3
  MaxClosed = 9
  Emit = FALSE
  EarlyCheck = FALSE
  Locals <- MCLocals
  AddrSeq <- MCAddrSeq
  Specials <- MCSpecials
  LocalOf <- MCLocalOf
  RemoteOf <- MCRemoteOf
  GroupOf <- MCGroupOf
INIT RInit
NEXT RNext
VIEW RView
INVARIANTS RTypeOK CreditOnlyOpenQ
PROPERTIES NoCreditAfterClose
